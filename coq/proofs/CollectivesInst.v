(* Per-run obligations: the collective skeletons translated from the source on this run are uniform. *)
From TS Require Import model.Base model.Collectives gen.CollGen proofs.CollectivesProofs.

Lemma take_skel_uniform : uniform gen_take_skel = true.
Proof. vm_compute. reflexivity. Qed.
Lemma async_take_skel_uniform : uniform gen_async_take_skel = true.
Proof. vm_compute. reflexivity. Qed.
Lemma restore_skel_uniform : uniform gen_restore_skel = true.
Proof. vm_compute. reflexivity. Qed.
Lemma background_completion_has_no_collectives :
  gen_background_completion_coll_free = true /\ gen_wait_coll_free = true.
Proof. vm_compute. split; reflexivity. Qed.
