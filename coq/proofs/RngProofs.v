(* C19: soundness of the ordering checker of model/Rng.v, for an abstract RNG state and arbitrary draw functions. *)
From TS Require Import model.Base model.Rng.

Lemma skel_eqb_true : forall a b, skel_eqb a b = true -> a = b.
Proof. intros a b H. unfold skel_eqb in H. destruct (list_eq_dec rstmt_eq_dec a b) as [E | E]; [exact E | discriminate H]. Qed.

Section Sound.
  Variable G : Type.
  Variable sd ld : key -> G -> G.
  Variable gather : list key -> list key.
  Variable havoc : G -> G.
  Variable stored : G.

  Notation exec_b := (exec_b G sd ld havoc).
  Notation exec_body := (exec_body G sd ld havoc).
  Notation exec_r := (exec_r G sd ld gather havoc stored).
  Notation exec := (exec G sd ld gather havoc stored).

  (* ---------------------------------------------------------------- erasing inert statements *)
  Lemma exec_body_filter : forall body s k,
    exec_body (filter (fun x => negb (binert x)) body) s k = exec_body body s k.
  Proof.
    unfold Rng.exec_body. induction body as [| b body IH]; intros s k; [reflexivity |].
    cbn [filter]. destruct b; cbn [binert negb fold_left]; try (apply IH); reflexivity.
  Qed.

  Lemma fold_body_filter : forall body ks s,
    fold_left (exec_body (filter (fun x => negb (binert x)) body)) ks s = fold_left (exec_body body) ks s.
  Proof.
    intros body. induction ks as [| k ks IH]; intros s; [reflexivity |].
    cbn [fold_left]. rewrite exec_body_filter. apply IH.
  Qed.

  Lemma exec_r_norm : forall s r, exec_r s (norm r) = exec_r s r.
  Proof.
    intros s r. destruct r; try reflexivity. unfold Rng.exec_r, norm.
    destruct (failed s); [reflexivity |]. apply fold_body_filter.
  Qed.

  Lemma exec_r_inert : forall s r, inert r = true -> exec_r s r = s.
  Proof. intros s r H. unfold Rng.exec_r. destruct (failed s); [reflexivity |]. destruct r; try discriminate H; reflexivity. Qed.

  Lemma exec_core : forall skel s, fold_left exec_r skel s = fold_left exec_r (core skel) s.
  Proof.
    unfold core. induction skel as [| r skel IH]; intros s; [reflexivity |].
    cbn [fold_left filter]. destruct (inert r) eqn:Hi; cbn [negb].
    - rewrite (exec_r_inert s r Hi). apply IH.
    - cbn [map fold_left]. rewrite exec_r_norm. apply IH.
  Qed.

  (* ---------------------------------------------------------------- the key loop only moves g *)
  Lemma exec_b_frame : forall k s b,
    app (exec_b k s b) = app s /\ popped (exec_b k s b) = popped s /\ cap (exec_b k s b) = cap s /\
    gkeys (exec_b k s b) = gkeys s /\ failed (exec_b k s b) = failed s.
  Proof.
    intros k s b. destruct b; cbn [Rng.exec_b]; try (destruct (has k (app s))); cbn; repeat split; reflexivity.
  Qed.

  Lemma exec_body_frame : forall body k s,
    app (exec_body body s k) = app s /\ popped (exec_body body s k) = popped s /\ cap (exec_body body s k) = cap s /\
    gkeys (exec_body body s k) = gkeys s /\ failed (exec_body body s k) = failed s.
  Proof.
    unfold Rng.exec_body. induction body as [| b body IH]; intros k s; [cbn; repeat split; reflexivity |].
    cbn [fold_left]. destruct (IH k (exec_b k s b)) as (A & B & C & D & E).
    destruct (exec_b_frame k s b) as (A' & B' & C' & D' & E').
    rewrite A, B, C, D, E. repeat split; assumption.
  Qed.

  Lemma loop_frame : forall body ks s,
    app (fold_left (exec_body body) ks s) = app s /\ popped (fold_left (exec_body body) ks s) = popped s /\
    cap (fold_left (exec_body body) ks s) = cap s /\ gkeys (fold_left (exec_body body) ks s) = gkeys s /\
    failed (fold_left (exec_body body) ks s) = failed s.
  Proof.
    intros body. induction ks as [| k ks IH]; intros s; [cbn; repeat split; reflexivity |].
    cbn [fold_left]. destruct (IH (exec_body body s k)) as (A & B & C & D & E).
    destruct (exec_body_frame body k s) as (A' & B' & C' & D' & E').
    rewrite A, B, C, D, E. repeat split; assumption.
  Qed.

  (* the take loop: exactly the application's own state_dict draws, in the order of the key list *)
  Lemma take_loop_g : forall ks s,
    g (fold_left (exec_body [BStateDict]) ks s) =
    fold_left (fun x k => if has k (app s) then sd k x else x) ks (g s).
  Proof.
    induction ks as [| k ks IH]; intros s; [reflexivity |].
    cbn [fold_left]. rewrite IH.
    destruct (exec_body_frame [BStateDict] k s) as (A & _). rewrite A.
    f_equal. unfold Rng.exec_body. cbn [fold_left Rng.exec_b]. destruct (has k (app s)); reflexivity.
  Qed.

  (* ---------------------------------------------------------------- take *)
  Lemma rng_entries_one : forall a, count_rng a = 1%nat -> exists e, rng_entries a = [e].
  Proof.
    intros a H. unfold count_rng in H. destruct (rng_entries a) as [| e [| e' l]]; try discriminate H. exists e. reflexivity.
  Qed.
  Lemma rng_entries_none : forall a, count_rng a = 0%nat -> rng_entries a = [].
  Proof. intros a H. unfold count_rng in H. destruct (rng_entries a); [reflexivity | discriminate H]. Qed.

  (* With an RNGState anywhere in the app state: the global RNG state after take is the state before take, the value
     put into the snapshot is that same state, and nothing raised. *)
  Lemma take_core_with : forall a g0 e, rng_entries a = [e] ->
    exists L, fold_left exec_r take_core (init G a g0) = set_g G L g0 /\ cap L = Some g0 /\ failed L = false.
  Proof.
    intros a g0 e He. unfold take_core. cbn [fold_left]. unfold init.
    unfold Rng.exec_r at 5. cbn [failed app]. rewrite He.
    unfold Rng.exec_r at 4. cbn [failed popped g app cap gkeys].
    unfold Rng.exec_r at 3. cbn [failed popped g app cap gkeys].
    unfold Rng.exec_r at 2. cbn [failed gkeys].
    match goal with |- context [fold_left (exec_body ?b) ?ks ?s] =>
      destruct (loop_frame b ks s) as (A & B & C & D & E); remember (fold_left (exec_body b) ks s) as L eqn:HL; clear HL end.
    cbn [app popped cap gkeys failed] in A, B, C, D, E.
    exists L. unfold Rng.exec_r. rewrite E, B, C. repeat split; assumption.
  Qed.

  Lemma take_core_without : forall a g0, rng_entries a = [] ->
    exists L, fold_left exec_r take_core (init G a g0) = L /\ g L = own_draws G sd gather a g0 /\
              cap L = None /\ failed L = false.
  Proof.
    intros a g0 He. unfold take_core. cbn [fold_left]. unfold init.
    unfold Rng.exec_r at 5. cbn [failed app]. rewrite He.
    unfold Rng.exec_r at 4. cbn [failed popped].
    unfold Rng.exec_r at 3. cbn [failed popped g app cap gkeys].
    unfold Rng.exec_r at 2. cbn [failed gkeys].
    match goal with |- context [fold_left (exec_body ?b) ?ks ?s] =>
      destruct (loop_frame b ks s) as (A & B & C & D & E); pose proof (take_loop_g ks s) as Hg;
      remember (fold_left (exec_body b) ks s) as L eqn:HL; clear HL end.
    cbn [app popped cap gkeys failed g] in A, B, C, D, E, Hg.
    exists L. unfold Rng.exec_r. rewrite E, B. unfold own_draws. repeat split; assumption.
  Qed.

  (* With an RNGState anywhere in the app state: the global RNG state after take is the state before take, the value
     put into the snapshot is that same state, and nothing raised. *)
  Theorem take_with_rngstate : forall skel, rng_ordered_take skel = true ->
    forall a g0, count_rng a = 1%nat ->
      g (exec skel a g0) = g0 /\ cap (exec skel a g0) = Some g0 /\ failed (exec skel a g0) = false.
  Proof.
    intros skel Hc a g0 H1. unfold Rng.exec. rewrite exec_core. rewrite (skel_eqb_true _ _ Hc).
    destruct (rng_entries_one a H1) as [e He].
    destruct (take_core_with a g0 e He) as (L & -> & C & E). unfold set_g. cbn [g cap failed]. repeat split; assumption.
  Qed.

  (* Without an RNGState: the global RNG state moves by the application's own state_dict draws, in global key
     order, and by nothing else; nothing is captured. *)
  Theorem take_without_rngstate : forall skel, rng_ordered_take skel = true ->
    forall a g0, count_rng a = 0%nat ->
      g (exec skel a g0) = own_draws G sd gather a g0 /\ cap (exec skel a g0) = None /\ failed (exec skel a g0) = false.
  Proof.
    intros skel Hc a g0 H0. unfold Rng.exec. rewrite exec_core. rewrite (skel_eqb_true _ _ Hc).
    destruct (take_core_without a g0 (rng_entries_none a H0)) as (L & -> & Hg & C & E). repeat split; assumption.
  Qed.

  (* ---------------------------------------------------------------- restore *)
  (* With an RNGState in the app state being restored: whatever the other statefuls draw in state_dict() and
     load_state_dict(), and whatever the RNG state was before, the state after restore is the stored value. *)
  Lemma restore_core_with : forall a g1 e, rng_entries a = [e] ->
    exists L, fold_left exec_r restore_core (init G a g1) = set_g G L stored /\ failed L = false.
  Proof.
    intros a g1 e He. unfold restore_core. cbn [fold_left]. unfold init.
    unfold Rng.exec_r at 4. cbn [failed app]. rewrite He.
    unfold Rng.exec_r at 3. cbn [failed popped g app cap gkeys].
    unfold Rng.exec_r at 2. cbn [failed gkeys].
    match goal with |- context [fold_left (exec_body ?b) ?ks ?s] =>
      destruct (loop_frame b ks s) as (A & B & C & D & E); remember (fold_left (exec_body b) ks s) as L eqn:HL; clear HL end.
    cbn [app popped cap gkeys failed] in A, B, C, D, E.
    exists L. unfold Rng.exec_r. rewrite E, B. split; reflexivity.
  Qed.

  Theorem restore_with_rngstate : forall skel, rng_ordered_restore skel = true ->
    forall a g1, count_rng a = 1%nat ->
      g (exec skel a g1) = stored /\ failed (exec skel a g1) = false.
  Proof.
    intros skel Hc a g1 H1. unfold Rng.exec. rewrite exec_core. rewrite (skel_eqb_true _ _ Hc).
    destruct (rng_entries_one a H1) as [e He].
    destruct (restore_core_with a g1 e He) as (L & -> & E). unfold set_g. cbn [g failed]. split; [reflexivity | assumption].
  Qed.
End Sound.

(* take then (anything) then restore: the RNG state right after restore is the RNG state right after take.
   The two runs may use different stateful objects (different draw functions), different key sets and a
   different number of ranks (gather); g1 is the arbitrary RNG state the application is in when it calls restore. *)
Theorem restore_resumes : forall (G : Type) skel_t skel_r,
  rng_ordered_take skel_t = true -> rng_ordered_restore skel_r = true ->
  forall (sd ld sd' ld' : key -> G -> G) gather gather' havoc havoc' (a_t a_r : list (key * bool)) (g0 g1 dummy : G),
    count_rng a_t = 1%nat -> count_rng a_r = 1%nat ->
    let t := exec G sd ld gather havoc dummy skel_t a_t g0 in
    forall v, cap t = Some v ->
      g (exec G sd' ld' gather' havoc' v skel_r a_r g1) = g t.
Proof.
  intros G skel_t skel_r Ht Hr sd ld sd' ld' gather gather' havoc havoc' a_t a_r g0 g1 dummy H1 H2 t v Hv.
  destruct (take_with_rngstate G sd ld gather havoc dummy skel_t Ht a_t g0 H1) as (Tg & Tc & _).
  fold t in Tg, Tc. rewrite Tc in Hv. injection Hv as Hv. subst v.
  destruct (restore_with_rngstate G sd' ld' gather' havoc' g0 skel_r Hr a_r g1 H2) as (Rg & _).
  rewrite Rg, Tg. reflexivity.
Qed.
