(* C15: per-run obligations over the statement-by-statement translation of _flatten / flatten (gen/FlattenRecGen.v,
   rewritten from /repo's flatten.py on every run).

   [flatten_gen_correct]: for every object, every non-empty path of "/"-free components and enough fuel, the generated
   _flatten - string paths built with f"{prefix}/{...}", results merged with dict.update - returns exactly what the
   hand model Flatten.flatten returns (component lists, concatenation), joined with "/".  dict.update coincides with
   concatenation because the produced paths are pairwise distinct as STRINGS ([sj_paths_nodup]). *)
From TS Require Import model.Base model.Flatten model.FlattenPy proofs.FlattenProofs gen.FlattenGen proofs.FlattenInst
  gen.FlattenRecGen model.FlattenGenObs.
From Coq Require Import Permutation.

(* ------------------------------------------------------------------ Python dicts as association lists *)
Lemma str_eqb_sym : forall a b, str_eqb a b = str_eqb b a.
Proof.
  intros a b. destruct (str_eqb a b) eqn:E.
  - apply str_eqb_eq in E. subst. symmetry. apply str_eqb_refl.
  - destruct (str_eqb b a) eqn:E2; [|reflexivity]. apply str_eqb_eq in E2. subst. rewrite str_eqb_refl in E. discriminate.
Qed.

Lemma sdict_set_absent : forall {V} k (v : V) d, ~ In k (map fst d) -> sdict_set k v d = d ++ [(k, v)].
Proof.
  intros V k v d. induction d as [|[k' v'] d IH]; cbn [map fst In sdict_set app]; intro H; [reflexivity|].
  destruct (str_eqb k' k) eqn:E.
  - apply str_eqb_eq in E. subst. tauto.
  - rewrite IH by tauto. reflexivity.
Qed.

Lemma sdict_update_nodup : forall {V} (m d : sdict V), NoDup (map fst (d ++ m)) -> sdict_update d m = d ++ m.
Proof.
  intros V m. induction m as [|[k v] m IH]; intros d N.
  - cbn. rewrite app_nil_r. reflexivity.
  - unfold sdict_update. cbn [fold_left fst snd]. fold (sdict_update (sdict_set k v d) m).
    rewrite map_app in N. cbn [map fst] in N. pose proof (NoDup_remove_2 _ _ _ N) as Hk.
    rewrite sdict_set_absent by (intro K; apply Hk; apply in_or_app; left; exact K).
    rewrite IH.
    + rewrite <- app_assoc. reflexivity.
    + rewrite <- app_assoc. cbn [app]. rewrite map_app. cbn [map fst]. exact N.
Qed.

Lemma sdict_of_list_nodup : forall {V} (l : sdict V), NoDup (map fst l) -> sdict_of_list l = l.
Proof. intros V l N. unfold sdict_of_list. apply (sdict_update_nodup l []). exact N. Qed.

(* ------------------------------------------------------------------ "/".join *)
Lemma join_snoc : forall P t, P <> [] -> join (P ++ [t]) = join P ++ 47 :: t.
Proof.
  induction P as [|a P IH]; intros t H; [congruence|].
  destruct P as [|b P]; [reflexivity|].
  change (join ((a :: b :: P) ++ [t])) with (a ++ 47 :: join ((b :: P) ++ [t])).
  rewrite IH by discriminate. change (join (a :: b :: P)) with (a ++ 47 :: join (b :: P)).
  rewrite <- app_assoc. reflexivity.
Qed.

(* token paths -> the strings the code holds *)
Definition sj {A} (l : list (path * A)) : list (pystr * A) := map (fun e => (join (fst e), snd e)) l.

Lemma map_fst_sj : forall {A} (l : list (path * A)), map fst (sj l) = map join (map fst l).
Proof. intros A l. unfold sj. rewrite !map_map. reflexivity. Qed.

Lemma sj_app : forall {A} (a b : list (path * A)), sj (a ++ b) = sj a ++ sj b.
Proof. intros A a b. unfold sj. apply map_app. Qed.

(* the paths below any non-empty path of "/"-free components stay pairwise distinct as strings *)
Lemma sj_paths_nodup : forall o P, P <> [] -> Forall slash_free P -> NoDup (map join (all_paths o P)).
Proof.
  intros o P HP FP. apply NoDup_map_inj_on; [|apply all_paths_nodup].
  assert (SJ : forall q, In q (all_paths o P) -> split (join q) = q).
  { intros q Hq. apply split_join.
    - apply all_paths_prefix in Hq. destruct Hq as [r E]. subst q. destruct P; [congruence | discriminate].
    - exact (all_paths_slash_free o P q FP Hq). }
  intros a b Ha Hb E. rewrite <- (SJ a Ha), <- (SJ b Hb), E. reflexivity.
Qed.

(* ------------------------------------------------------------------ the loops of _flatten *)
Lemma for_kids : forall {X} (L : list X) (tok : X -> token) (child : X -> obj) fuel P
    (body : sdict entry * sdict obj -> X -> option (sdict entry * sdict obj)),
  P <> [] ->
  (forall st it, body st it =
     obind (flatten_gen fuel (child it) (join P ++ 47 :: tok it))
           (fun t => Some (sdict_update (fst st) (fst t), sdict_update (snd st) (snd t)))) ->
  (forall it, In it L ->
     flatten_gen fuel (child it) (join (P ++ [tok it])) =
     Some (sj (fst (flatten (child it) (P ++ [tok it]))), sj (snd (flatten (child it) (P ++ [tok it]))))) ->
  forall m0 f0,
  NoDup (map fst (m0 ++ sj (fst (flat_kids P (map (fun it => (tok it, child it)) L))))) ->
  NoDup (map fst (f0 ++ sj (snd (flat_kids P (map (fun it => (tok it, child it)) L))))) ->
  py_for L (m0, f0) body =
  Some (m0 ++ sj (fst (flat_kids P (map (fun it => (tok it, child it)) L))),
        f0 ++ sj (snd (flat_kids P (map (fun it => (tok it, child it)) L)))).
Proof.
  intros X L tok child fuel P body HP Hbody. induction L as [|x L IH]; intros Hkid m0 f0 Nm Nf.
  - cbn. rewrite !app_nil_r. reflexivity.
  - cbn [py_for]. rewrite Hbody, <- (join_snoc P (tok x) HP), (Hkid x (or_introl eq_refl)). cbn [obind fst snd].
    cbn [map flat_kids flat_map fst snd] in *. rewrite !sj_app in *. rewrite !app_assoc in Nm, Nf.
    rewrite (sdict_update_nodup _ m0) by (rewrite map_app in Nm; exact (NoDup_app_l _ _ Nm)).
    rewrite (sdict_update_nodup _ f0) by (rewrite map_app in Nf; exact (NoDup_app_l _ _ Nf)).
    etransitivity; [exact (IH (fun it H => Hkid it (or_intror H)) _ _ Nm Nf)|]. rewrite !app_assoc. reflexivity.
Qed.

Lemma map_combine_l : forall {A B C} (f : A -> C) (l : list A) (l' : list B),
  map (fun it => (f (fst it), snd it)) (combine l l') = combine (map f l) l'.
Proof.
  intros A B C f l. induction l as [|a l IH]; intros [|b l']; cbn [combine map fst snd]; try reflexivity.
  rewrite IH. reflexivity.
Qed.

Lemma kids_enumerate : forall xs,
  map (fun it : Z * obj => (str_of_Z (fst it), snd it)) (enumerate xs) = kids (OList xs).
Proof.
  intro xs. unfold enumerate. rewrite map_combine_l. cbn [kids]. unfold list_tokens. rewrite map_map. reflexivity.
Qed.

(* ------------------------------------------------------------------ generated _flatten = Flatten.flatten *)
Theorem flatten_gen_correct : forall o P fuel, P <> [] -> Forall slash_free P -> (hgt o < fuel)%nat ->
  flatten_gen fuel o (join P) = Some (sj (fst (flatten o P)), sj (snd (flatten o P))).
Proof.
  induction o using obj_kids_ind. intros P fuel HP FP Hf. destruct fuel as [|fuel]; [lia|].
  assert (KID : forall (X : Type) (L : list X) (tok : X -> token) (child : X -> obj),
            (forall it, In it L -> In (tok it, child it) (kids o)) -> is_leaflike o = false ->
            forall it, In it L ->
            flatten_gen fuel (child it) (join (P ++ [tok it])) =
            Some (sj (fst (flatten (child it) (P ++ [tok it]))), sj (snd (flatten (child it) (P ++ [tok it]))))).
  { intros X L tok child HL LL it Hin. pose proof (HL it Hin) as Hk.
    apply (H (tok it) (child it) Hk).
    - destruct P; discriminate.
    - apply Forall_app. split; [exact FP|]. constructor; [exact (kids_token_slash_free o _ _ Hk) | constructor].
    - pose proof (hgt_kids o _ _ LL Hk). lia. }
  assert (ND : is_leaflike o = false ->
            NoDup (map fst ([(join P, entry_of o)] ++ sj (fst (flat_kids P (kids o))))) /\
            NoDup (map fst ([] ++ sj (snd (flat_kids P (kids o)))))).
  { intro LL. pose proof (sj_paths_nodup o P HP FP) as N. unfold all_paths in N.
    rewrite (flatten_container o P LL) in N. cbn [fst snd] in N. rewrite map_app in N. split.
    - apply NoDup_app_l in N. cbn [app map fst]. rewrite map_fst_sj. exact N.
    - apply NoDup_app_r in N. cbn [app]. rewrite map_fst_sj. exact N. }
  destruct o as [l | xs | ord kvs].
  - reflexivity.
  - assert (LL : is_leaflike (OList xs) = false) by reflexivity.
    rewrite (flatten_container _ P LL). destruct (ND LL) as [Nm Nf]. clear ND.
    cbn [flatten_gen py_type pytype_eqb obj_list_items entry_of fst snd].
    rewrite <- (kids_enumerate xs) in Nm, Nf. rewrite <- (kids_enumerate xs).
    erewrite (for_kids (enumerate xs) (fun it => str_of_Z (fst it)) (fun it => snd it) fuel P _ HP).
    + reflexivity.
    + intros st it. reflexivity.
    + apply (KID _ (enumerate xs) (fun it => str_of_Z (fst it)) (fun it => snd it)); [|exact LL].
      intros it Hin. rewrite <- kids_enumerate. apply (in_map (fun it : Z * obj => (str_of_Z (fst it), snd it))). exact Hin.
    + exact Nm.
    + exact Nf.
  - cbn [flatten_gen]. unfold obj_keys. cbn [py_type obj_items].
    rewrite should_flatten_gen_is_should_flatten.
    destruct (should_flatten (map fst kvs)) eqn:SF.
    + assert (LL : is_leaflike (ODict ord kvs) = false) by (cbn [is_leaflike]; rewrite SF; reflexivity).
      rewrite (flatten_container _ P LL). destruct (ND LL) as [Nm Nf]. clear ND. cbn [fst snd].
      assert (B : forall (e : entry),
        e = entry_of (ODict ord kvs) ->
        obind (py_for kvs (sdict_set (join P) e [], [])
          (fun st it =>
             obind (flatten_gen fuel (snd it) (join P ++ [47] ++ encode_gen (key_str (fst it))))
               (fun t => Some (sdict_update (fst st) (fst t), sdict_update (snd st) (snd t)))))
          (fun st => Some (fst st, snd st)) =
        Some (sj ((P, entry_of (ODict ord kvs)) :: fst (flat_kids P (kids (ODict ord kvs)))),
              sj (snd (flat_kids P (kids (ODict ord kvs)))))).
      { intros e Ee. subst e.
        erewrite (for_kids kvs (fun it => key_token (fst it)) (fun it => snd it) fuel P _ HP).
        - reflexivity.
        - intros st it. rewrite encode_gen_is_encode. reflexivity.
        - apply (KID _ kvs (fun it => key_token (fst it)) (fun it => snd it)); [|exact LL].
          intros it Hin. cbn [kids]. apply (in_map (fun kv : key * obj => (key_token (fst kv), snd kv))). exact Hin.
        - exact Nm.
        - exact Nf. }
      destruct ord; cbn [pytype_eqb existsb orb andb]; apply B; reflexivity.
    + assert (LL : is_leaflike (ODict ord kvs) = true) by (cbn [is_leaflike]; rewrite SF; reflexivity).
      rewrite (flatten_leaflike _ P LL). destruct ord; reflexivity.
Qed.

(* generated flatten(obj, prefix) = the string-level hand model, for every fuel above the depth of flattened containers *)
Theorem flatten_top_gen_correct : forall o prefix fuel, (hgt o < fuel)%nat ->
  flatten_top_gen fuel o prefix = Some (flatten_s o prefix).
Proof.
  intros o prefix fuel Hf. unfold flatten_top_gen. rewrite encode_gen_is_encode.
  change (encode prefix) with (join [encode prefix]) at 1.
  rewrite flatten_gen_correct; [reflexivity | discriminate | | exact Hf].
  constructor; [apply encode_slash_free | constructor].
Qed.

Lemma fold_max_mono : forall {A} (f g : A -> nat) l, Forall (fun x => (f x <= g x)%nat) l ->
  (fold_right (fun x a => Nat.max (f x) a) O l <= fold_right (fun x a => Nat.max (g x) a) O l)%nat.
Proof. intros A f g l F. induction F as [|x l Hx F IH]; cbn [fold_right]; lia. Qed.

Lemma hgt_le_depth : forall o, (hgt o <= obj_depth o)%nat.
Proof.
  induction o using obj_ind'; cbn [hgt obj_depth]; [lia | |].
  - apply le_n_S. apply fold_max_mono. exact H.
  - destruct (should_flatten (map fst kvs)); [|lia]. apply le_n_S.
    apply (fold_max_mono (fun kv => hgt (snd kv)) (fun kv => obj_depth (snd kv))). exact H.
Qed.

(* ... and with the fuel the harness runs it with *)
Theorem flatten_run_gen_correct : forall o prefix, flatten_run_gen o prefix = Some (flatten_s o prefix).
Proof.
  intros o prefix. unfold flatten_run_gen. apply flatten_top_gen_correct. pose proof (hgt_le_depth o). lia.
Qed.
