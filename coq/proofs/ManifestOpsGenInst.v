(* C07: per-run obligations over the functions generated statement by statement from manifest_ops.py and
   manifest_utils.py (gen/ManifestOpsGen.v):
   part 1 - computing views never writes below the heap mark at which it started (so the metadata's own entry objects
            are left alone): every heap write goes through a value obtained from copy.deepcopy or a constructor;
   part 2 - on well-formed metadata the generated get_manifest_for_rank / handle_sharded_tensor_elasticity compute,
            through the abstraction of proofs/ManifestPySim.v, exactly what the hand model model/ManifestOps.v
            computes - so every theorem of props/C07.v about the hand model holds of the generated functions. *)
From TS Require Import model.Base model.Flatten model.ManifestOps proofs.FlattenProofs proofs.ManifestOpsProofs
  model.Dispatch model.ManifestPy gen.DispatchGen gen.ManifestOpsGen model.ManifestOpsGenObs
  proofs.ManifestPyFrame proofs.ManifestPySim.
From Coq Require Import Permutation ZifyBool.

(* ================================================================== part 1: the frame *)
Lemma fr_is_dict_entry n k e : hoare n (g_is_dict_entry e) (fresh k).
Proof. unfold g_is_dict_entry. hoare_auto. Qed.
Lemma fr_is_container_entry n k e : hoare n (g_is_container_entry e) (fresh k).
Proof. unfold g_is_container_entry. hoare_auto. Qed.
Lemma fr_is_fully_replicated_entry n k e : hoare n (g_is_fully_replicated_entry e) (fresh k).
Proof. unfold g_is_fully_replicated_entry. hoare_auto. Qed.
#[export] Hint Resolve fr_is_dict_entry fr_is_container_entry fr_is_fully_replicated_entry : hoare.

Lemma fr_remove_entry n m p : fresh n m -> hoare n (g_remove_entry m p) (fresh n).
Proof. intro Hm. unfold g_remove_entry. hoare_auto. Qed.
#[export] Hint Resolve fr_remove_entry : hoare.

(* the grouping loop handles the metadata's own objects (it only reads); copy.deepcopy makes the result fresh *)
Lemma fr_get_rank_to_manifest n md : hoare n (g_get_rank_to_manifest md) (fresh n).
Proof. unfold g_get_rank_to_manifest. hoare_auto. Qed.
#[export] Hint Resolve fr_get_rank_to_manifest : hoare.

Lemma fr_get_merged_sharded_tensor_entries n rtm : fresh n rtm -> hoare n (g_get_merged_sharded_tensor_entries rtm) (fresh n).
Proof. intro H. unfold g_get_merged_sharded_tensor_entries. hoare_auto. Qed.
Lemma fr_get_merged_dtensor_entries n rtm : fresh n rtm -> hoare n (g_get_merged_dtensor_entries rtm) (fresh n).
Proof. intro H. unfold g_get_merged_dtensor_entries. hoare_auto. Qed.
Lemma fr_get_manifest_for_existing_rank n rtm mg r :
  fresh n rtm -> fresh n mg -> hoare n (g_get_manifest_for_existing_rank rtm mg r) (fresh n).
Proof. intros H1 H2. unfold g_get_manifest_for_existing_rank. hoare_auto. Qed.
Lemma fr_get_manifest_for_new_rank n rtm : fresh n rtm -> hoare n (g_get_manifest_for_new_rank rtm) (fresh n).
Proof. intros H1. unfold g_get_manifest_for_new_rank. hoare_auto. Qed.
#[export] Hint Resolve fr_get_merged_sharded_tensor_entries fr_get_merged_dtensor_entries
  fr_get_manifest_for_existing_rank fr_get_manifest_for_new_rank : hoare.

(* get_manifest_for_rank: no assumption on the metadata at all *)
Lemma fr_get_manifest_for_rank n md r : hoare n (g_get_manifest_for_rank md r) (fresh n).
Proof. unfold g_get_manifest_for_rank. hoare_auto. Qed.

Lemma fr_handle_sharded_tensor_elasticity n knob m mg reqs :
  fresh n m -> fresh n mg -> hoare n (g_handle_sharded_tensor_elasticity knob m mg reqs) (fresh n).
Proof. intros H1 H2. unfold g_handle_sharded_tensor_elasticity. hoare_auto. Qed.

(* one query, any sequence of queries: the first n objects of the heap are untouched *)
Lemma run_query_frame : forall knob md q n h, (n <= length h)%nat ->
  firstn n (snd (run_query knob md q h)) = firstn n h /\ (length h <= length (snd (run_query knob md q h)))%nat.
Proof.
  intros knob md q n h Hn. unfold run_query.
  destruct (fr_get_manifest_for_rank n md (fst q) h Hn) as (F1 & L1 & Q1).
  destruct (g_get_manifest_for_rank md (fst q) h) as [[[view merged]|] h1]; cbn [fst snd] in *; [|split; assumption].
  destruct (Q1 _ eq_refl) as [Fv Fm]. cbn [fst snd] in Fv, Fm.
  assert (Hn1 : (n <= length h1)%nat) by lia.
  destruct (fr_handle_sharded_tensor_elasticity n knob view merged (snd q) Fv Fm h1 Hn1) as (F2 & L2 & _).
  cbv zeta. destruct (g_handle_sharded_tensor_elasticity knob view merged (snd q) h1) as [[view'|] h2]; cbn [fst snd] in *;
    (split; [congruence | exact (Nat.le_trans _ _ _ L1 L2)]).
Qed.

Lemma run_queries_frame : forall knob md qs n h, (n <= length h)%nat ->
  firstn n (snd (run_queries knob md qs h)) = firstn n h /\ (length h <= length (snd (run_queries knob md qs h)))%nat.
Proof.
  intros knob md qs n. induction qs as [|q qs IH]; intros h Hn; cbn [run_queries]; [cbn [snd]; split; [reflexivity | lia]|].
  destruct (run_query_frame knob md q n h Hn) as [F1 L1]. destruct (run_query knob md q h) as [x h1]; cbn [snd] in *.
  assert (Hn1 : (n <= length h1)%nat) by lia. destruct (IH h1 Hn1) as [F2 L2].
  destruct (run_queries knob md qs h1) as [xs h2]; cbn [snd] in *. split; [congruence | exact (Nat.le_trans _ _ _ L1 L2)].
Qed.

(* computing any sequence of views (each followed by handle_sharded_tensor_elasticity with any requests, any knob
   setting) from one metadata object leaves that object's manifest - every entry object it refers to - as it was *)
Theorem generated_views_do_not_mutate_metadata : forall knob md h qs,
  (forall k a, In (k, a) (pm_manifest md) -> (a < length h)%nat) ->
  meta_items md (snd (run_queries knob md qs h)) = meta_items md h.
Proof.
  intros knob md h qs Hin. destruct (run_queries_frame knob md qs (length h) h (le_n _)) as [F _].
  unfold meta_items. apply map_ext_in. intros [k a] Hk. cbn [fst snd]. f_equal.
  apply (hget_firstn (length h)); [rewrite F; reflexivity | exact (Hin k a Hk)].
Qed.

Lemma load_meta_in_heap : forall W items k a, In (k, a) (pm_manifest (fst (load_meta W items))) ->
  (a < length (snd (load_meta W items)))%nat.
Proof.
  intros W items k a H. cbn [load_meta fst snd pm_manifest] in *. rewrite map_length.
  apply in_combine_r in H. apply in_seq in H. lia.
Qed.

(* ================================================================== part 2: the generated functions compute the hand model *)
(* ------------------------------------------------------------------ the predicates of manifest_utils.py *)
(* by enumeration of the entry classes: whatever the source spells (isinstance against a tuple, a chain of ifs, hasattr
   first or last), the answers on every class of the hand model must be these *)
Ltac class_cases a h :=
  unfold modelledE, absE in *;
  unfold bind, isinstance_of, hasattr_of, attr_of, ret;
  let EC := fresh "EC" in
  destruct (pe_cls (hget h a)) eqn:EC; try discriminate;
  repeat (progress (cbn; rewrite ?EC)); try reflexivity;
  destruct (pe_repl (hget h a)); reflexivity.

Lemma run_is_dict_entry : forall a h, modelledE (hget h a) = true ->
  g_is_dict_entry a h = (Some (is_dict_cls (pe_cls (hget h a))), h).
Proof. intros a h H. unfold g_is_dict_entry, is_dict_cls. class_cases a h. Qed.

Lemma run_is_container_entry : forall a h, modelledE (hget h a) = true ->
  g_is_container_entry a h = (Some (is_container (absE (hget h a))), h).
Proof. intros a h H. unfold g_is_container_entry. class_cases a h. Qed.

Lemma run_is_fully_replicated_entry : forall a h, modelledE (hget h a) = true ->
  g_is_fully_replicated_entry a h = (Some (is_replicated (absE (hget h a))), h).
Proof. intros a h H. unfold g_is_fully_replicated_entry. class_cases a h. Qed.

Lemma is_dict_cls_absE : forall e, modelledE e = true ->
  is_dict_cls (pe_cls e) = match absE e with MCont (Flatten.EDict _ _) => true | _ => false end.
Proof. intros e H. unfold is_dict_cls, absE, modelledE in *. destruct (pe_cls e); try discriminate; try reflexivity; destruct (pe_repl e); reflexivity. Qed.

Lemma absE_dict : forall e, is_dict_cls (pe_cls e) = true ->
  exists ord, absE e = MCont (Flatten.EDict ord (pe_keys e)) /\ g_has_attr (pe_cls e) AKeys = true.
Proof.
  intros e H. unfold is_dict_cls, absE in *. destruct (pe_cls e); try discriminate;
    [exists false | exists true]; split; reflexivity.
Qed.

Definition set_keys (ks : list key) (o : pentry) : pentry :=
  mkE (pe_cls o) ks (pe_repl o) (pe_shards o) (pe_dim_map o) (pe_mesh o) (pe_id o).

Lemma absE_set_keys : forall e ks ord, absE e = MCont (Flatten.EDict ord (pe_keys e)) -> is_dict_cls (pe_cls e) = true ->
  absE (set_keys ks e) = MCont (Flatten.EDict ord ks).
Proof.
  intros e ks ord H Hc. unfold absE, set_keys, is_dict_cls in *. cbn [pe_cls pe_keys]. destruct (pe_cls e); try discriminate;
    injection H as <-; reflexivity.
Qed.

(* ------------------------------------------------------------------ _remove_entry *)
(* the loop  for k in parent.keys: if str(k) == key: parent.keys.remove(k); break *)
Lemma remove_key_loop : forall (body : key -> unit -> M (loop unit)) a s K,
  (forall k u h, body k u h =
     if str_eqb (key_str k) s
     then bind (keys_remove g_has_attr a k) (fun _ => ret (LBreak tt)) h
     else (Some (LNext tt), h)) ->
  forall ks h, g_has_attr (pe_cls (hget h a)) AKeys = true -> pe_keys (hget h a) = K -> (forall k, In k ks -> In k K) ->
  for_each ks body tt h =
    (Some tt, match find_key s ks with
              | Some k => upd_nth h a (set_keys (remove_pyeq k K))
              | None => h
              end).
Proof.
  intros body a s K Hb. induction ks as [|k ks IH]; intros h Ha HK Hin; cbn [for_each find_key]; [reflexivity|].
  rewrite run_bind, Hb. destruct (str_eqb (key_str k) s) eqn:E.
  - rewrite run_bind. unfold keys_remove. rewrite Ha, HK.
    assert (X : existsb (fun x => py_eqb x k) K = true).
    { apply existsb_exists. exists k. split; [apply Hin; left; reflexivity | apply py_eqb_refl]. }
    rewrite X. cbn [andb]. unfold ret. f_equal. apply upd_nth_ext. unfold set_keys. rewrite HK. reflexivity.
  - apply IH; [exact Ha | exact HK | intros; apply Hin; right; assumption].
Qed.

Definition sim_result {R} (abs : R -> heap -> man) (ok : R -> heap -> Prop) (h : heap)
    (g : option R * heap) (m : option man) : Prop :=
  match g, m with
  | (Some r, h'), Some c => abs r h' = c /\ ok r h' /\ same_classes h h' /\ length h' = length h
  | (None, _), None => True
  | _, _ => False
  end.

Ltac norm := cbv beta iota zeta.

Lemma sim_remove_entry : forall h m p, dict_ok h m ->
  sim_result (fun m' h' => absD h' m') (fun m' h' => dict_ok h' m' /\ forall q, In q (dkeys m') -> In q (dkeys m)) h
    (g_remove_entry m p h) (remove_entry (absD h m) (split p)).
Proof.
  intros h m p OK. unfold g_remove_entry, remove_entry, remove_entry_with, sim_result.
  rewrite (dhas_absD h m p). destruct (mget (absD h m) (split p)) as [e0|] eqn:E0; cbn [negb].
  2:{ unfold ret. exact (conj eq_refl (conj (conj OK (fun q H => H)) (conj (same_classes_refl h) eq_refl))). }
  rewrite run_bind. unfold ddel_m. rewrite (dhas_absD h m p), E0. unfold ret at 1. norm.
  rewrite run_bind, run_pop_last by apply split_nonnil. norm.
  assert (OK1 : dict_ok h (ddel m p)) by (apply dict_ok_ddel; exact OK).
  assert (SUB : forall q, In q (dkeys (ddel m p)) -> In q (dkeys m)) by (intros q; apply dkeys_ddel_incl).
  rewrite <- absD_ddel.
  unfold token in *. set (par := @removelast pystr (split p)) in *.
  assert (PAR : par = removelast (split p)) by reflexivity.
  destruct (join par) as [|c0 s0] eqn:EJ.
  { (* `if len(parent_path) == 0: return`, however the test is spelled *)
    match goal with |- context [(if ?c then _ else _) h] => replace c with true by (unfold zlen; cbn [length]; lia) end.
    norm. unfold ret.
    exact (conj eq_refl (conj (conj OK1 SUB) (conj (same_classes_refl h) eq_refl))). }
  assert (NE : par <> []) by (intro K; rewrite K in EJ; discriminate).
  assert (PS : split (c0 :: s0) = par) by (rewrite <- EJ; apply split_join_parent; exact NE).
  match goal with |- context [(if ?c then _ else _) h] => replace c with false by (unfold zlen; cbn [length]; lia) end.
  rewrite run_bind, run_dget_m. rewrite <- PS, mget_absD.
  destruct (dget (ddel m p) (c0 :: s0)) as [a|] eqn:EP; cbn [option_map]; [|exact I].
  destruct (ok_in _ _ OK1 _ _ EP) as [Ha Hm].
  rewrite run_bind, run_is_dict_entry by exact Hm. rewrite run_bind.
  destruct (is_dict_cls (pe_cls (hget h a))) eqn:EC.
  - destruct (absE_dict _ EC) as (ord & EA & HA). rewrite EA. unfold rk_current. norm.
    rewrite run_bind. unfold attr_of at 1. rewrite HA.
    rewrite run_bind.
    rewrite (remove_key_loop _ a (decode (last (split p) [])) (pe_keys (hget h a)));
      [| intros k u h0; destruct (str_eqb (key_str k) _); reflexivity | exact HA | reflexivity | auto].
    unfold ret. unfold remove_key. unfold token in *.
    match goal with |- context [find_key ?s ?ks] => destruct (find_key s ks) as [k|] eqn:EF end.
    + split.
      * rewrite (absD_write h (ddel m p) (c0 :: s0) a _ OK1 EP EC).
        rewrite (absE_set_keys _ _ ord EA EC). rewrite ?EF. reflexivity.
      * assert (SC : same_classes h (upd_nth h a (set_keys (remove_pyeq k (pe_keys (hget h a)))))) by (apply same_classes_write; [reflexivity | exact EC]).
        split; [split; [exact (dict_ok_same_classes _ _ _ OK1 SC) | exact SUB]|]. split; [exact SC | apply upd_nth_length].
    + split.
      * rewrite ?EF. rewrite mset_same; [reflexivity|]. rewrite mget_absD, EP. cbn [option_map]. rewrite EA. reflexivity.
      * split; [split; assumption|]. split; [apply same_classes_refl | reflexivity].
  - norm. unfold ret. norm. rewrite is_dict_cls_absE in EC by exact Hm.
    destruct (absE (hget h a)) as [[|ord ks]| | |]; try discriminate;
      exact (conj eq_refl (conj (conj OK1 SUB) (conj (same_classes_refl h) eq_refl))).
Qed.

Lemma new_rank_fold_none' : forall rk ps, fold_left (new_rank_step rk) ps None = None.
Proof. intros rk ps. induction ps; [reflexivity | exact IHps]. Qed.

Lemma sim_result_weaken : forall {R} abs (ok : R -> heap -> Prop) h0 h g m,
  same_classes h0 h -> length h = length h0 ->
  sim_result abs ok h g m -> sim_result abs ok h0 g m.
Proof.
  intros R abs ok h0 h [[r|] h'] [c|] SC L H; cbn in *; try exact H.
  destruct H as (H1 & H2 & H3 & H4). split; [exact H1|]. split; [exact H2|].
  split; [exact (same_classes_trans _ _ _ SC H3) | congruence].
Qed.

(* ------------------------------------------------------------------ _get_manifest_for_new_rank *)
Lemma sim_new_rank : forall h rtm d0, nth_error rtm 0 = Some d0 -> dict_ok h d0 ->
  sim_result (fun m' h' => absD h' m') (fun m' h' => dict_ok h' m') h
    (g_get_manifest_for_new_rank rtm h) (manifest_for_new_rank (absD h d0)).
Proof.
  intros h rtm d0 E0 OK0. unfold g_get_manifest_for_new_rank, manifest_for_new_rank, manifest_for_new_rank_with.
  destruct rtm as [|d rest]; [discriminate|]. injection E0 as ->.
  rewrite run_bind. rewrite (run_list_get (d0 :: rest) 0 h []) by (cbn [length]; lia). norm.
  change (nth (Z.to_nat 0) (d0 :: rest) []) with d0.
  rewrite run_bind. rewrite absD_paths.
  match goal with |- context [for_each _ ?b _] => set (body := b) end.
  assert (L : forall keys h m, dict_ok h m ->
            sim_result (fun m' h' => absD h' m') (fun m' h' => dict_ok h' m') h
              (for_each keys body m h) (fold_left (new_rank_step rk_current) (map split keys) (Some (absD h m)))).
  { induction keys as [|k keys IH]; intros h1 m OK.
    - cbn. split; [reflexivity|]. split; [exact OK|]. split; [apply same_classes_refl | reflexivity].
    - cbn [for_each map fold_left]. rewrite run_bind. unfold body at 1. rewrite run_bind, run_dget_m.
      cbn [new_rank_step]. rewrite mget_absD.
      destruct (dget m k) as [a|] eqn:EK; cbn [option_map]; [|rewrite new_rank_fold_none'; exact I].
      destruct (ok_in _ _ OK _ _ EK) as [Ha Hm]. norm.
      rewrite !run_bind, run_is_container_entry by exact Hm.
      unfold keep_for_new_rank.
      destruct (is_container (absE (hget h1 a))) eqn:EC; cbn [orb].
      + unfold ret. norm. apply IH. exact OK.
      + rewrite run_is_fully_replicated_entry by exact Hm.
        destruct (is_replicated (absE (hget h1 a))) eqn:ER.
        * unfold ret. norm. apply IH. exact OK.
        * rewrite run_bind. pose proof (sim_remove_entry h1 m k OK) as S. unfold sim_result in S.
          fold remove_entry.
          destruct (g_remove_entry m k h1) as [[m'|] h2]; destruct (remove_entry (absD h1 m) (split k)) as [c|]; try contradiction.
          -- destruct S as (S1 & (S2 & _) & S3 & S4). unfold ret. norm. subst c.
             apply (sim_result_weaken _ _ h1 h2); [exact S3 | exact S4 | apply IH; exact S2].
          -- rewrite new_rank_fold_none'. exact I. }
  specialize (L (dkeys d0) h d0 OK0). unfold sim_result in *.
  destruct (for_each (dkeys d0) body d0 h) as [[m'|] h']; [|exact L]. unfold ret. exact L.
Qed.

(* ------------------------------------------------------------------ _get_rank_to_manifest *)
Definition item_ok (W : Z) (x : pystr * addr) : Prop :=
  exists t rest z, split (fst x) = t :: rest /\ parse_int t = Some z /\ 0 <= z < W.

Lemma item_ok_rank : forall W x, item_ok W x -> 0 <= rank_of (fst x) < W.
Proof. intros W x (t & rest & z & E1 & E2 & E3). unfold rank_of. rewrite E1. cbn [hd]. rewrite E2. exact E3. Qed.

Lemma rtm_loop : forall (body : pystr * addr -> list (pdict addr) -> M (loop (list (pdict addr)))) W,
  (forall s a acc h, body (s, a) acc h =
     bind (pop_first (split s)) (fun '(t1, v_tokens) =>
     bind (py_int t1) (fun t2 =>
     bind (list_get acc t2) (fun t3 =>
     bind (list_set acc t2 (dset t3 (join v_tokens) a)) (fun acc' => ret (LNext acc'))))) h) ->
  forall items acc h, length acc = Z.to_nat W -> (forall x, In x items -> item_ok W x) ->
    (forall r, 0 <= r < W -> NoDup (dkeys (nth (Z.to_nat r) acc []) ++ dkeys (rtm_spec items r))) ->
    exists acc', for_each items body acc h = (Some acc', h) /\ length acc' = Z.to_nat W /\
                 forall r, 0 <= r < W -> nth (Z.to_nat r) acc' [] = nth (Z.to_nat r) acc [] ++ rtm_spec items r.
Proof.
  intros body W Hb. induction items as [|[s a] items IH]; intros acc h L OKI ND.
  - exists acc. split; [reflexivity|]. split; [exact L|]. intros r Hr. cbn. rewrite app_nil_r. reflexivity.
  - cbn [for_each]. rewrite run_bind, Hb.
    destruct (OKI (s, a) (or_introl eq_refl)) as (t & rest & z & E1 & E2 & E3). cbn [fst] in E1.
    assert (RZ : rank_of s = z) by (unfold rank_of; rewrite E1; cbn [hd]; rewrite E2; reflexivity).
    rewrite E1. cbn [pop_first]. rewrite run_bind. unfold ret at 1. norm.
    rewrite run_bind. unfold py_int. rewrite run_lift, E2. norm.
    assert (ZL : 0 <= z < Z.of_nat (length acc)) by (rewrite L; lia).
    rewrite run_bind, (@run_list_get (pdict addr) acc z h []) by exact ZL. norm.
    rewrite run_bind, (@run_list_set (pdict addr)) by exact ZL. norm. unfold ret at 1. norm.
    set (d := @nth (pdict addr) (Z.to_nat z) acc []). set (lp := join rest).
    assert (TL : tl (split s) = rest) by (rewrite E1; reflexivity).
    assert (SPEC : forall r, rtm_spec ((s, a) :: items) r = (if z =? r then [(lp, a)] else []) ++ rtm_spec items r).
    { intro r. unfold rtm_spec. cbn [flat_map fst snd]. rewrite RZ, TL. reflexivity. }
    assert (ABS : dget d lp = None).
    { apply dget_none_iff. specialize (ND z E3). rewrite SPEC, Z.eqb_refl in ND. fold d in ND.
      cbn [app dkeys map fst] in ND. apply NoDup_remove_2 in ND. intro K. apply ND. apply in_or_app. left. exact K. }
    rewrite (@dset_absent addr d lp a ABS).
    set (acc1 := upd_nth acc (Z.to_nat z) (fun _ => d ++ [(lp, a)])).
    assert (L1 : length acc1 = Z.to_nat W) by (unfold acc1; rewrite upd_nth_length; exact L).
    assert (N1 : forall r, 0 <= r < W -> nth (Z.to_nat r) acc1 [] = nth (Z.to_nat r) acc [] ++ (if z =? r then [(lp, a)] else [])).
    { intros r Hr. unfold acc1. destruct (z =? r) eqn:EZ.
      - apply Z.eqb_eq in EZ. subst r. rewrite nth_upd_same by lia. reflexivity.
      - apply Z.eqb_neq in EZ. rewrite nth_upd_other by lia. rewrite app_nil_r. reflexivity. }
    destruct (IH acc1 h L1 (fun x Hx => OKI x (or_intror Hx))) as (acc' & R1 & R2 & R3).
    { intros r Hr. rewrite (N1 r Hr). specialize (ND r Hr). rewrite SPEC in ND. unfold dkeys in *. rewrite !map_app in *.
      rewrite <- app_assoc. exact ND. }
    exists acc'. split; [exact R1|]. split; [exact R2|]. intros r Hr. rewrite (R3 r Hr), (N1 r Hr), SPEC, app_assoc. reflexivity.
Qed.

Lemma absD_map_new : forall h h' (f : addr -> addr) d,
  (forall k a, In (k, a) d -> hget h' (f a) = hget h a) ->
  absD h' (map (fun ka => (fst ka, f (snd ka))) d) = absD h d.
Proof.
  intros h h' f d H. unfold absD. rewrite map_map. apply map_ext_in. intros [k a] Hin. cbn [fst snd]. rewrite (H k a Hin). reflexivity.
Qed.

Lemma sim_get_rank_to_manifest : forall md h, meta_ok md h ->
  wf_global (pm_world_size md) (absG h md) ->
  exists rtm h', g_get_rank_to_manifest md h = (Some rtm, h') /\
                 rtm_ok (pm_world_size md) (absG h md) h' rtm /\ same_classes h h'.
Proof.
  intros md h [MN MI] WF. set (W := pm_world_size md) in *. set (items := pm_manifest md) in *.
  assert (AG : absG h md = absItems h items) by reflexivity.
  destruct (wf_parts W (absG h md) WF) as (W1 & RNG & NDP & POK & _).
  assert (TLOK : forall k a, In (k, a) items -> tl (split k) <> []).
  { intros k a Hin. destruct (POK (rank_of k, tl (split k), absE (hget h a))) as [P _].
    - rewrite AG. unfold absItems. apply in_map_iff. exists (k, a). split; [reflexivity | exact Hin].
    - cbn [gpath fst snd] in P. intro K. rewrite K in P. discriminate. }
  assert (IOK : forall x, In x items -> item_ok W x).
  { intros [s a] Hin. assert (R : 0 <= rank_of s < W).
    { apply (RNG (rank_of s, tl (split s), absE (hget h a))). rewrite AG. unfold absItems. apply in_map_iff. exists (s, a). split; [reflexivity | exact Hin]. }
    unfold rank_of in R. pose proof (split_nonnil s) as NN. destruct (split s) as [|t rest] eqn:ES; [contradiction|]. cbn [hd] in R.
    destruct (parse_int t) as [z|] eqn:EP; [|lia]. exists t, rest, z. cbn [fst]. split; [exact ES|]. split; [exact EP | exact R]. }
  unfold g_get_rank_to_manifest. norm. fold W. fold items. rewrite run_bind.
  match goal with |- context [for_each items ?b _] => set (body := b) end.
  assert (L0 : length (map (fun _ : Z => @nil (pystr * addr)) (py_range W)) = Z.to_nat W) by (rewrite map_length; apply py_range_length).
  assert (NIL : forall r, nth (Z.to_nat r) (map (fun _ : Z => @nil (pystr * addr)) (py_range W)) [] = []).
  { intro r. generalize (py_range W) as l. generalize (Z.to_nat r) as n. induction n; intros [|x l]; cbn; auto. }
  destruct (rtm_loop body W (fun s a acc h0 => eq_refl) items _ h L0 IOK) as (acc & R1 & R2 & R3).
  { intros r Hr. rewrite NIL. cbn [app dkeys map]. fold (dkeys (rtm_spec items r)). apply (absD_nodup h).
    rewrite absD_rtm_spec by exact TLOK. rewrite <- AG. apply NDP. exact Hr. }
  rewrite R1. norm. rewrite run_deepcopy_dicts.
  set (rtm' := map (map (fun ka : pystr * addr => (fst ka, new_addr acc h (snd ka)))) acc : list (pdict addr)).
  exists rtm'. eexists. split; [reflexivity|]. split; [|apply same_classes_app].
  assert (NTH : forall r, 0 <= r < W -> nth (Z.to_nat r) acc [] = rtm_spec items r) by (intros r Hr; rewrite (R3 r Hr), NIL; reflexivity).
  assert (INA : forall r k a, 0 <= r < W -> In (k, a) (rtm_spec items r) -> In a (all_addrs acc)).
  { intros r k a Hr Hin. apply (in_all_addrs acc (nth (Z.to_nat r) acc []) k a); [apply nth_In; lia | rewrite NTH by exact Hr; exact Hin]. }
  assert (NEW : forall r, 0 <= r < W ->
            @nth (pdict addr) (Z.to_nat r) rtm' [] =
            map (fun ka => (fst ka, new_addr acc h (snd ka))) (rtm_spec items r)).
  { intros r Hr. unfold rtm'. change (@nil (pystr * addr)) with (map (fun ka : pystr * addr => (fst ka, new_addr acc h (snd ka))) []) at 1.
    rewrite map_nth, NTH by exact Hr. reflexivity. }
  split.
  - unfold rtm'. rewrite map_length. exact R2.
  - intros r Hr. rewrite (NEW r Hr). rewrite (absD_map_new h).
    + rewrite absD_rtm_spec by exact TLOK. rewrite AG. reflexivity.
    + intros k a Hin. apply new_addr_spec. exact (INA r k a Hr Hin).
  - intros r Hr. rewrite (NEW r Hr). apply dict_ok_of_nodup.
    + unfold dkeys. rewrite map_map. cbn [fst]. fold (dkeys (rtm_spec items r)). apply (absD_nodup h).
      rewrite absD_rtm_spec by exact TLOK. rewrite <- AG. apply NDP. exact Hr.
    + rewrite map_map. cbn [snd]. rewrite <- (map_map snd (new_addr acc h)). apply NoDup_map_inj_in.
      * intros x y Hx Hy. apply in_map_iff in Hx. destruct Hx as ([kx ax] & <- & Hx). apply in_map_iff in Hy. destruct Hy as ([ky ay] & <- & Hy).
        cbn [snd]. apply new_addr_inj; [exact (INA r kx ax Hr Hx) | exact (INA r ky ay Hr Hy)].
      * apply rtm_spec_addrs_nodup. exact MN.
    + intros k a' Hin. apply in_map_iff in Hin. destruct Hin as ([k0 a] & E & Hin). injection E as <- <-. cbn [snd].
      destruct (new_addr_spec acc h a (INA r k0 a Hr Hin)) as [B1 B2]. cbv zeta in B1, B2. split; [lia|]. rewrite B2.
      destruct (rtm_spec_sub _ _ _ _ Hin) as (s & Hs). exact (proj2 (MI s a Hs)).
Qed.

(* ------------------------------------------------------------------ _get_merged_sharded_tensor_entries *)
Lemma run_isinstance_sharded : forall a h, modelledE (hget h a) = true ->
  isinstance_of g_entry_parent a [ESharded] h = (Some (is_sharded (absE (hget h a))), h).
Proof. intros a h H. class_cases a h. Qed.

Lemma sharded_has_shards : forall e, modelledE e = true -> is_sharded (absE e) = true ->
  g_has_attr (pe_cls e) AShards = true /\ absE e = MShard (pe_shards e).
Proof.
  intros e Hm H. unfold modelledE, absE in *. destruct (pe_cls e); try discriminate; try (destruct (pe_repl e); discriminate).
  split; reflexivity.
Qed.

Lemma sd_loop : forall (body : pystr * list addr -> pdict addr -> M (loop (pdict addr))) (h0 : heap),
  (forall lp grp sd h, body (lp, grp) sd h =
     bind (concat_mapM (fun e => attr_of g_has_attr AShards pe_shards e) grp) (fun t3 =>
     bind (new_entry (mk_sharded (sort_shards t3))) (fun t4 => ret (LNext (dset sd lp t4)))) h) ->
  forall G sd ext, NoDup (dkeys G) -> NoDup (dkeys sd) ->
    (forall lp grp a, In (lp, grp) G -> In a grp -> (a < length h0)%nat /\ g_has_attr (pe_cls (hget h0 a)) AShards = true) ->
    exists sd' ext', for_each G body sd (h0 ++ ext) = (Some sd', h0 ++ ext') /\ (exists e2, ext' = ext ++ e2) /\
      NoDup (dkeys sd') /\
      (forall s, dhas sd' s = dhas sd s || dhas G s) /\
      (forall s a, dget sd' s = Some a ->
         (dhas G s = false /\ dget sd s = Some a) \/
         (exists grp, dget G s = Some grp /\ (length (h0 ++ ext) <= a < length (h0 ++ ext'))%nat /\
                      hget (h0 ++ ext') a = mk_sharded (sort_shards (flat_map (fun a => pe_shards (hget h0 a)) grp)))).
Proof.
  intros body h0 Hb. induction G as [|[k grp] G IH]; intros sd ext NG NS HG.
  - exists sd, ext. split; [reflexivity|]. split; [exists []; rewrite app_nil_r; reflexivity|]. split; [exact NS|].
    split; [intro s; cbn; rewrite orb_false_r; reflexivity|]. intros s a E. left. split; [reflexivity | exact E].
  - cbn [for_each]. rewrite run_bind, Hb, run_bind.
    assert (HA : forall a, In a grp -> g_has_attr (pe_cls (hget (h0 ++ ext) a)) AShards = true).
    { intros a Ha. destruct (HG k grp a (or_introl eq_refl) Ha) as [B1 B2]. rewrite hget_app_old by exact B1. exact B2. }
    rewrite run_concat_attr by exact HA. norm. rewrite run_bind. unfold new_entry at 1. norm. unfold ret at 1. norm.
    assert (FM : flat_map (fun a => pe_shards (hget (h0 ++ ext) a)) grp = flat_map (fun a => pe_shards (hget h0 a)) grp).
    { apply flat_map_ext_in'. intros a Ha. destruct (HG k grp a (or_introl eq_refl) Ha) as [B1 _]. rewrite hget_app_old by exact B1. reflexivity. }
    rewrite FM. set (e := mk_sharded (sort_shards (flat_map (fun a => pe_shards (hget h0 a)) grp))).
    rewrite <- app_assoc. cbn [dkeys map fst] in NG. inversion NG as [|? ? Hn NG']; subst.
    destruct (IH (dset sd k (length (h0 ++ ext))) (ext ++ [e]) NG' (dset_nodup _ _ _ NS)) as (sd' & ext' & R1 & (e2 & R2) & R3 & R4 & R5).
    { intros lp g' a Hin Ha. apply (HG lp g' a); [right; exact Hin | exact Ha]. }
    exists sd', ext'. split; [exact R1|]. split; [exists ([e] ++ e2); rewrite R2, app_assoc; reflexivity|]. split; [exact R3|].
    assert (LEN : (length (h0 ++ ext ++ [e]) = S (length (h0 ++ ext)))%nat) by (rewrite !app_length; cbn [length]; lia).
    split.
    + intro s. rewrite R4, dhas_dset, dhas_cons. destruct (str_eqb k s), (dhas sd s), (dhas G s); reflexivity.
    + intros s a E. destruct (R5 s a E) as [[D1 D2]|(g' & D1 & D2 & D3)].
      * rewrite dget_dset in D2. destruct (str_eqb k s) eqn:EK.
        -- apply str_eqb_eq in EK. subst k. injection D2 as <-. right. exists grp. split; [cbn [dget]; rewrite str_eqb_refl; reflexivity|].
           subst ext'. split; [rewrite !app_length; cbn [length]; lia|].
           replace (h0 ++ (ext ++ [e]) ++ e2) with ((h0 ++ ext) ++ e :: e2) by (rewrite <- !app_assoc; reflexivity).
           unfold hget. rewrite app_nth2 by lia. rewrite Nat.sub_diag. reflexivity.
        -- left. split; [rewrite dhas_cons, EK; exact D1 | exact D2].
      * right. exists g'. split; [|split; [lia | exact D3]]. cbn [dget]. destruct (str_eqb k s) eqn:EK; [|exact D1].
        apply str_eqb_eq in EK. subst k. exfalso. apply Hn. apply dget_some_in in D1. apply in_map_iff. exists (s, g'). split; [reflexivity | exact D1].
Qed.

Lemma sim_merged : forall W g h rtm, rtm_ok W g h rtm ->
  exists mg ext, g_get_merged_sharded_tensor_entries rtm h = (Some mg, h ++ ext) /\ merged_ok W g (h ++ ext) mg.
Proof.
  intros W g h rtm [RL RA RO]. set (sel := fun a => is_sharded (absE (hget h a))).
  assert (DOK : forall d, In d rtm -> dict_ok h d).
  { intros d Hd. destruct (in_rtm_nth W rtm d RL Hd) as (r & Hr & ->). apply RO. exact Hr. }
  assert (DN : forall d, In d rtm -> NoDup (dkeys d)) by (intros d Hd; apply (ok_keys _ _ (DOK d Hd))).
  unfold g_get_merged_sharded_tensor_entries. norm. rewrite run_bind.
  rewrite (for_each_pure_at rtm _ (fun g0 d => fold_left (groups_step sel) d g0) [] h).
  2:{ intros d g0 Hd. rewrite run_bind.
      rewrite (for_each_pure_at d _ (groups_step sel) g0 h); [reflexivity|].
      intros [k a] g1 Hk. rewrite run_bind. destruct (ok_in _ _ (DOK d Hd) k a (dget_in d k a (DN d Hd) Hk)) as [_ Hm].
      rewrite run_isinstance_sharded by exact Hm. norm. unfold groups_step, sel. cbn [fst snd].
      destruct (is_sharded (absE (hget h a))); reflexivity. }
  norm. set (G := groups_of sel rtm []).
  change (fold_left (fun (g0 : pdict (list addr)) (d : pdict addr) => fold_left (groups_step sel) d g0) rtm []) with G.
  rewrite run_bind.
  assert (GK : NoDup (dkeys G)) by (apply groups_keys; constructor).
  match goal with |- context [for_each G ?b _] => set (body := b) end.
  destruct (sd_loop body h (fun lp grp sd h1 => eq_refl) G [] [] GK (NoDup_nil _)) as (mg & ext & R1 & _ & R3 & R4 & R5).
  { intros lp grp a Hin Ha. assert (E : dd_get G lp = grp) by (unfold dd_get; rewrite (dget_in G lp grp GK Hin); reflexivity).
    rewrite <- E in Ha. destruct (groups_members sel rtm lp a DN Ha) as (d & Hd & E1 & E2).
    destruct (ok_in _ _ (DOK d Hd) lp a E1) as [B1 B2]. split; [exact B1|]. exact (proj1 (sharded_has_shards _ B2 E2)). }
  rewrite app_nil_r in R1.
  match goal with |- context [for_each G body ?s ?hh] =>
    replace (for_each G body s hh) with (@Some (pdict addr) mg, h ++ ext) by (symmetry; exact R1) end.
  norm. exists mg, ext. split; [reflexivity|].
  assert (PICK : forall r s, 0 <= r < W ->
            pick sel (nth (Z.to_nat r) rtm []) s =
            match mget (rank_manifest g r) (split s) with Some (MShard _) => match dget (nth (Z.to_nat r) rtm []) s with Some a => [a] | None => [] end | _ => [] end
            /\ flat_map (fun a => pe_shards (hget h a)) (pick sel (nth (Z.to_nat r) rtm []) s) = shards_of (rank_manifest g r) (split s)).
  { intros r s Hr. unfold pick, shards_of. rewrite <- (RA r Hr), mget_absD.
    destruct (dget (nth (Z.to_nat r) rtm []) s) as [a|] eqn:E; cbn [option_map]; [|split; reflexivity].
    destruct (ok_in _ _ (RO r Hr) s a E) as [_ Hm]. unfold sel. destruct (is_sharded (absE (hget h a))) eqn:ES.
    - destruct (sharded_has_shards _ Hm ES) as [_ EA]. rewrite EA. cbn [flat_map]. rewrite app_nil_r. split; reflexivity.
    - destruct (absE (hget h a)); try discriminate; split; reflexivity. }
  split.
  - exact R3.
  - intro s. rewrite R4, dhas_nil, orb_false_l. unfold G.
    etransitivity; [exact (proj2 (groups_spec sel rtm [] s DN))|]. rewrite dhas_nil, orb_false_l.
    unfold merged_has. rewrite (rtm_as_ranks rtm W RL) at 1. rewrite existsb_map'. apply existsb_ext_in. intros r Hr. apply in_ranks in Hr.
    rewrite (proj1 (PICK r s Hr)). destruct (mget (rank_manifest g r) (split s)) as [[| | |sh]|] eqn:EM; try reflexivity.
    rewrite <- (RA r Hr), mget_absD in EM. destruct (dget (nth (Z.to_nat r) rtm []) s); [reflexivity | discriminate].
  - intros s a E. destruct (R5 s a E) as [[_ D]|(grp & D1 & D2 & D3)]; [discriminate|]. rewrite app_nil_r in D2. split; [lia|].
    rewrite D3. f_equal. unfold merged_shards. f_equal. unfold all_shards.
    assert (EG : grp = flat_map (fun d => pick sel d s) rtm).
    { transitivity (dd_get G s).
      - unfold dd_get. symmetry. etransitivity; [exact (f_equal (fun o : option (list addr) => match o with Some l => l | None => [] end) D1) | reflexivity].
      - etransitivity; [exact (proj1 (groups_spec sel rtm [] s DN)) | reflexivity]. }
    rewrite EG. rewrite flat_map_flat_map.
    rewrite (rtm_as_ranks rtm W RL) at 1. rewrite flat_map_map. apply flat_map_ext_in'. intros r Hr. apply in_ranks in Hr.
    exact (proj2 (PICK r s Hr)).
Qed.

(* ------------------------------------------------------------------ _get_merged_dtensor_entries: nothing to merge *)
Lemma run_isinstance_dtensor : forall a h, modelledE (hget h a) = true ->
  isinstance_of g_entry_parent a [EDTensor] h = (Some false, h).
Proof. intros a h H. class_cases a h. Qed.

Lemma sim_dtensor : forall W g h rtm, rtm_ok W g h rtm -> g_get_merged_dtensor_entries rtm h = (Some [], h).
Proof.
  intros W g h rtm [RL RA RO].
  assert (DOK : forall d, In d rtm -> dict_ok h d).
  { intros d Hd. destruct (in_rtm_nth W rtm d RL Hd) as (r & Hr & ->). apply RO. exact Hr. }
  unfold g_get_merged_dtensor_entries. norm. rewrite run_bind.
  rewrite (for_each_pure_at (enumerate rtm) _ (fun s _ => s) _ h).
  2:{ intros [i d] [[s1 s2] s3] Hin. norm. rewrite run_bind.
      assert (Hd : In d rtm) by (unfold enumerate in Hin; apply in_combine_r in Hin; exact Hin).
      rewrite (for_each_pure_at d _ (fun s _ => s) _ h).
      - rewrite fold_left_id. reflexivity.
      - intros [k a] [[u1 u2] u3] Hk. norm. rewrite run_bind.
        destruct (ok_in _ _ (DOK d Hd) k a (dget_in d k a (ok_keys _ _ (DOK d Hd)) Hk)) as [_ Hm].
        rewrite run_isinstance_dtensor by exact Hm. reflexivity. }
  rewrite fold_left_id. reflexivity.
Qed.

(* ------------------------------------------------------------------ _get_manifest_for_existing_rank *)
Lemma absE_mk_sharded : forall s, absE (mk_sharded s) = MShard s /\ modelledE (mk_sharded s) = true /\ is_dict_cls (pe_cls (mk_sharded s)) = false.
Proof. intro s. split; [reflexivity | split; reflexivity]. Qed.

Lemma sim_existing : forall W g h rtm mg r, rtm_ok W g h rtm -> merged_ok W g h mg -> 0 <= r < W ->
  exists v, g_get_manifest_for_existing_rank rtm mg r h = (Some v, h) /\
            absD h v = manifest_for_existing_rank W g r /\ dict_ok h v.
Proof.
  intros W g h rtm mg r [RL RA RO] [MK MH MV] Hr.
  assert (H0 : 0 <= 0 < W) by lia.
  unfold g_get_manifest_for_existing_rank.
  rewrite run_bind, (@run_list_get (pdict addr) rtm r h []) by (rewrite RL; lia). norm.
  rewrite run_bind, (@run_list_get (pdict addr) rtm 0 h []) by (rewrite RL; lia). norm.
  set (d0 := @nth (pdict addr) (Z.to_nat 0) rtm []). set (dr := @nth (pdict addr) (Z.to_nat r) rtm []).
  assert (OK0 : dict_ok h d0) by (apply RO; exact H0). assert (OKr : dict_ok h dr) by (apply RO; exact Hr).
  assert (IN0 : forall k a, In (k, a) d0 -> (a < length h)%nat /\ modelledE (hget h a) = true).
  { intros k a Hk. apply (ok_in _ _ OK0 k a). apply dget_in; [apply (ok_keys _ _ OK0) | exact Hk]. }
  rewrite run_bind. rewrite (for_each_pure_at d0 _ (repl_step h) dr h).
  2:{ intros [k a] l Hk. norm. rewrite run_bind, run_is_fully_replicated_entry by (apply (IN0 k a Hk)).
      unfold repl_step. cbn [fst snd]. destruct (is_replicated (absE (hget h a))); reflexivity. }
  norm. set (L1 := fold_left (repl_step h) d0 dr).
  assert (A1 : absD h L1 = add_replicated (rank_manifest g 0) (rank_manifest g r)).
  { unfold L1. rewrite absD_repl_fold. unfold d0, dr. rewrite (RA 0 H0), (RA r Hr). reflexivity. }
  assert (OK1 : dict_ok h L1) by (apply dict_ok_repl_fold; assumption).
  assert (ND0 : NoDup (map fst (rank_manifest g 0))) by (rewrite <- (RA 0 H0); apply absD_nodup; apply (ok_keys _ _ OK0)).
  set (f := fun (k : pystr) (a : addr) => if is_sharded (absE (hget h a)) then dget mg k else None).
  assert (SH : forall k a, In (k, a) L1 -> is_sharded (absE (hget h a)) = true -> exists t, dget mg k = Some t).
  { intros k a Hk Hs. assert (E : dget L1 k = Some a) by (apply dget_in; [apply (ok_keys _ _ OK1) | exact Hk]).
    assert (M : mget (absD h L1) (split k) = Some (absE (hget h a))) by (rewrite mget_absD, E; reflexivity).
    rewrite A1, mget_add_replicated in M by exact ND0.
    assert (MR : mget (rank_manifest g r) (split k) = Some (absE (hget h a))).
    { destruct (mget (rank_manifest g 0) (split k)) as [e|]; [|exact M]. destruct (is_replicated e) eqn:ER; [|exact M].
      injection M as ->. destruct (absE (hget h a)); discriminate. }
    assert (X : dhas mg k = true).
    { rewrite MH. unfold merged_has. apply existsb_exists. exists r. split; [apply in_ranks; exact Hr|]. rewrite MR.
      destruct (absE (hget h a)); try discriminate. reflexivity. }
    unfold dhas in X. destruct (dget mg k) as [t|]; [exists t; reflexivity | discriminate]. }
  rewrite run_bind. rewrite (for_each_pure_at L1 _ (upd_step f) L1 h).
  2:{ intros [k a] l Hk. norm. rewrite !run_bind.
      destruct (ok_in _ _ OK1 k a (dget_in L1 k a (ok_keys _ _ OK1) Hk)) as [_ Hm].
      rewrite run_isinstance_sharded by exact Hm. unfold upd_step, f. cbn [fst snd].
      destruct (is_sharded (absE (hget h a))) eqn:ES.
      - destruct (SH k a Hk ES) as (t & Et). unfold ret at 1. norm. rewrite !run_bind, run_dget_m, Et. reflexivity.
      - rewrite run_isinstance_dtensor by exact Hm. reflexivity. }
  norm. eexists. split; [reflexivity|]. split.
  - pose proof (upd_fold_map f L1 [] (ok_keys _ _ OK1)) as UF. cbn [app] in UF. rewrite UF. unfold manifest_for_existing_rank. rewrite <- A1.
    unfold absD, replace_sharded. rewrite !map_map. apply map_ext_in. intros [k a] Hk. cbn [fst snd]. unfold f.
    destruct (is_sharded (absE (hget h a))) eqn:ES.
    + destruct (SH k a Hk ES) as (t & Et). rewrite Et. destruct (MV k t Et) as [_ Ht]. rewrite Ht.
      rewrite (proj1 (absE_mk_sharded _)). destruct (absE (hget h a)); try discriminate. reflexivity.
    + destruct (absE (hget h a)); try discriminate; reflexivity.
  - apply dict_ok_upd_fold; [exact OK1|]. intros k a t Hk Ef. unfold f in Ef. destruct (is_sharded (absE (hget h a))); [|discriminate].
    destruct (MV k t Ef) as [B1 B2]. rewrite B2. split; [exact B1|]. exact (proj2 (absE_mk_sharded _)).
Qed.

(* ------------------------------------------------------------------ get_manifest_for_rank *)
Theorem sim_get_manifest_for_rank : forall md h r, meta_ok md h ->
  wf_global (pm_world_size md) (absG h md) -> 0 <= r ->
  exists v mg h' m, g_get_manifest_for_rank md r h = (Some (v, mg), h') /\
                    get_manifest_for_rank (pm_world_size md) (absG h md) r = Some m /\
                    view_ok (pm_world_size md) (absG h md) h' v mg m.
Proof.
  intros md h r MO WF Hr. set (W := pm_world_size md) in *. set (g := absG h md) in *.
  destruct (wf_parts W g WF) as (W1 & _).
  destruct (sim_get_rank_to_manifest md h MO WF) as (rtm & h1 & E1 & RO1 & _).
  destruct (sim_merged W g h1 rtm RO1) as (mg & ext & E2 & MO2).
  pose proof (rtm_ok_ext W g h1 ext rtm RO1) as RO2. set (h2 := h1 ++ ext) in *.
  pose proof (sim_dtensor W g h2 rtm RO2) as E3.
  unfold g_get_manifest_for_rank. rewrite run_bind, E1. norm. rewrite run_bind, E2. norm. rewrite run_bind, E3. norm.
  change (dupdate mg []) with mg. fold W.
  (* `if rank < metadata.world_size`, however the test is spelled *)
  match goal with |- context [if ?c then bind (g_get_manifest_for_existing_rank _ _ _) _ else _] =>
    replace c with (r <? W) by (cbn [pm_world_size]; lia) end.
  unfold get_manifest_for_rank, is_existing_rank. destruct (r <? W) eqn:ER.
  - destruct (sim_existing W g h2 rtm mg r RO2 MO2) as (v & E4 & A4 & OK4); [lia|].
    rewrite run_bind, E4. norm. exists v, mg, h2, (manifest_for_existing_rank W g r).
    split; [reflexivity|]. split; [reflexivity|]. split; [exact A4 | split; [exact OK4 | exact MO2]].
  - destruct RO2 as [RL RA RO]. assert (H0 : 0 <= 0 < W) by lia.
    assert (NE : nth_error rtm 0 = Some (nth (Z.to_nat 0) rtm [])).
    { destruct rtm as [|d rest]; [cbn in RL; lia | reflexivity]. }
    pose proof (sim_new_rank h2 rtm _ NE (RO 0 H0)) as S. rewrite (RA 0 H0) in S.
    destruct (get_defined W g WF r) as (m & EM). unfold get_manifest_for_rank, is_existing_rank in EM. rewrite ER in EM.
    rewrite EM in S. unfold sim_result in S. rewrite run_bind.
    destruct (g_get_manifest_for_new_rank rtm h2) as [[v|] h3]; [|contradiction]. destruct S as (S1 & S2 & S3 & S4).
    norm. exists v, mg, h3, m. split; [reflexivity|]. split; [exact EM|].
    split; [exact S1 | split; [exact S2 | exact (merged_ok_same_classes _ _ _ _ _ MO2 S3)]].
Qed.

(* ------------------------------------------------------------------ handle_sharded_tensor_elasticity (knob off) *)
Lemma run_keys_append : forall a k h, g_has_attr (pe_cls (hget h a)) AKeys = true ->
  keys_append g_has_attr a k h = (Some tt, upd_nth h a (set_keys (pe_keys (hget h a) ++ [k]))).
Proof. intros a k h H. unfold keys_append. rewrite H. f_equal. apply upd_nth_ext. reflexivity. Qed.

Lemma elastic_fold_none' : forall legacy W g ps, fold_left (elastic_add_with legacy W g) ps None = None.
Proof. intros legacy W g ps. induction ps; [reflexivity | exact IHps]. Qed.

Theorem sim_elasticity : forall W g h v mg m reqs, view_ok W g h v mg m ->
  sim_result (fun v' h' => absD h' v') (fun v' h' => dict_ok h' v' /\ merged_ok W g h' mg) h
    (g_handle_sharded_tensor_elasticity false v mg reqs h) (elasticity W g m (map split reqs)).
Proof.
  intros W g h v mg m reqs (A & OK & MO). subst m.
  unfold g_handle_sharded_tensor_elasticity, elasticity, elasticity_with. cbn [andb]. norm.
  set (reqs' := filter (fun v_tr => dhas mg v_tr) reqs).
  assert (RQ : filter (merged_has W g) (map split reqs) = map split reqs').
  { apply filter_map_split. intro s. symmetry. apply (mg_has _ _ _ _ MO). }
  rewrite RQ. rewrite run_bind.
  match goal with |- context [for_each reqs' ?b _] => set (body1 := b) end.
  assert (L1 : forall rs h l, (forall s, In s rs -> dhas mg s = true) -> dict_ok h l -> merged_ok W g h mg ->
      sim_result (fun l' h' => absD h' l') (fun l' h' => dict_ok h' l' /\ merged_ok W g h' mg) h
        (for_each rs body1 l h) (fold_left (elastic_add_with false W g) (map split rs) (Some (absD h l)))).
  { induction rs as [|s rs IH]; intros h1 l HR OK1 MO1.
    - cbn. split; [reflexivity|]. split; [split; assumption|]. split; [apply same_classes_refl | reflexivity].
    - cbn [for_each map fold_left]. rewrite run_bind. unfold body1 at 1. rewrite run_bind.
      rewrite (dhas_absD h1 l s). cbn [elastic_add_with].
      assert (HR' : forall s0, In s0 rs -> dhas mg s0 = true) by (intros; apply HR; right; assumption).
      destruct (mget (absD h1 l) (split s)) as [e0|] eqn:EM; cbn [negb].
      { unfold ret. norm. apply IH; assumption. }
      assert (X : dhas mg s = true) by (apply HR; left; reflexivity). unfold dhas in X.
      destruct (dget mg s) as [t|] eqn:ET; [|discriminate]. clear X.
      destruct (mg_val _ _ _ _ MO1 s t ET) as [Tl Tv].
      rewrite run_bind, run_dget_m, ET. norm. rewrite run_bind, run_pop_last by apply split_nonnil. norm.
      set (l1 := dset l s t).
      assert (A1 : absD h1 l1 = mset (absD h1 l) (split s) (MShard (merged_shards W g (split s)))).
      { unfold l1. rewrite absD_dset, Tv. reflexivity. }
      assert (OKl1 : dict_ok h1 l1).
      { unfold l1. apply dict_ok_dset_nondict; [exact OK1 | exact Tl | rewrite Tv; reflexivity | rewrite Tv; reflexivity]. }
      rewrite <- A1. rewrite <- split_join_norm.
      unfold token in *. set (ps := join (@removelast pystr (split s))) in *.
      rewrite run_bind, run_dget_m, mget_absD.
      destruct (dget l1 ps) as [a|] eqn:EP; cbn [option_map]; [|rewrite elastic_fold_none'; exact I].
      destruct (ok_in _ _ OKl1 _ _ EP) as [Ha Hm].
      rewrite run_bind, run_is_dict_entry by exact Hm. rewrite run_bind.
      destruct (is_dict_cls (pe_cls (hget h1 a))) eqn:EC.
      + destruct (absE_dict _ EC) as (ord & EA & HA). rewrite EA.
        rewrite run_bind, run_keys_append by exact HA. unfold ret. norm.
        set (h2 := upd_nth h1 a (set_keys (pe_keys (hget h1 a) ++ [KStr (decode (last (split s) []))]))).
        assert (SC : same_classes h1 h2) by (apply same_classes_write; [reflexivity | exact EC]).
        assert (A2 : absD h2 l1 = mset (absD h1 l1) (split ps)
                       (MCont (Flatten.EDict ord (pe_keys (hget h1 a) ++ [KStr (decode (last (split s) []))])))).
        { unfold h2. rewrite (absD_write h1 l1 ps a _ OKl1 EP EC). rewrite (absE_set_keys _ _ ord EA EC). reflexivity. }
        match goal with |- context [fold_left _ _ (Some ?x)] => replace x with (absD h2 l1) by (exact A2) end.
        apply (sim_result_weaken _ _ h1 h2); [exact SC | apply upd_nth_length|].
        apply IH; [exact HR' | exact (dict_ok_same_classes _ _ _ OKl1 SC) | exact (merged_ok_same_classes _ _ _ _ _ MO1 SC)].
      + unfold ret. norm. rewrite is_dict_cls_absE in EC by exact Hm.
        destruct (absE (hget h1 a)) as [[|ord ks]| | |]; try discriminate; apply IH; assumption. }
  assert (HR : forall s, In s reqs' -> dhas mg s = true) by (intros s Hs; apply filter_In in Hs; exact (proj2 Hs)).
  pose proof (L1 reqs' h v HR OK MO) as S1. unfold sim_result in S1 |- *.
  destruct (for_each reqs' body1 v h) as [[l2|] h2];
    destruct (fold_left (elastic_add_with false W g) (map split reqs') (Some (absD h v))) as [m2|]; try contradiction; [|exact I].
  destruct S1 as (A2 & (OK2 & MO2) & SC2 & LE2). norm. rewrite run_bind.
  set (drop := fun (k : pystr) (a : addr) => is_sharded (absE (hget h2 a)) && negb (str_memb k reqs')).
  match goal with |- context [for_each (dkeys l2) ?b _] => set (body2 := b) end.
  assert (HB : forall k l a, dget l k = Some a -> modelledE (hget h2 a) = true ->
                body2 k l h2 = (Some (LNext (if drop k a then ddel l k else l)), h2)).
  { intros k l a E Hm. unfold body2. rewrite !run_bind, run_dget_m, E. norm. rewrite run_bind, run_isinstance_sharded by exact Hm. unfold drop.
    destruct (is_sharded (absE (hget h2 a))); cbn [andb].
    + unfold ret at 1. norm. destruct (str_memb k reqs'); cbn [negb]; [reflexivity|].
      rewrite !run_bind. unfold ddel_m, dhas. rewrite E. reflexivity.
    + rewrite run_bind, run_dget_m, E. norm. rewrite run_isinstance_dtensor by exact Hm. reflexivity. }
  assert (HP : forall k a, In (k, a) l2 -> modelledE (hget h2 a) = true).
  { intros k a Hk. apply (ok_in _ _ OK2 k a). apply dget_in; [apply (ok_keys _ _ OK2) | exact Hk]. }
  pose proof (del_loop body2 drop _ h2 HB l2 [] (ok_keys _ _ OK2) HP) as DL. cbn [app] in DL. rewrite DL.
  unfold ret. norm. split.
  + subst m2. apply absD_filter. intros [k a] Hk. cbn [fst snd]. unfold drop. rewrite str_memb_split. reflexivity.
  + split; [split; [apply dict_ok_filter; exact OK2 | exact MO2]|]. split; [exact SC2 | exact LE2].
Qed.

(* ================================================================== the generated functions, seen through the abstraction *)
(* the view get_manifest_for_rank returns / what _load_stateful hands to inflate (get_manifest_for_rank, then
   handle_sharded_tensor_elasticity with the knob off), as hand-model manifests; None = an exception *)
Definition gen_view (md : pmeta) (h : heap) (r : Z) : option man :=
  match g_get_manifest_for_rank md r h with
  | (Some (v, _), h') => Some (absD h' v)
  | (None, _) => None
  end.
Definition gen_load_view (md : pmeta) (h : heap) (r : Z) (reqs : list pystr) : option man :=
  match g_get_manifest_for_rank md r h with
  | (Some (v, mg), h1) =>
      match g_handle_sharded_tensor_elasticity false v mg reqs h1 with
      | (Some v', h2) => Some (absD h2 v')
      | (None, _) => None
      end
  | (None, _) => None
  end.

Theorem generated_view_is_model : forall md h r, meta_ok md h ->
  wf_global (pm_world_size md) (absG h md) -> 0 <= r ->
  gen_view md h r = get_manifest_for_rank (pm_world_size md) (absG h md) r.
Proof.
  intros md h r MO WF Hr. destruct (sim_get_manifest_for_rank md h r MO WF Hr) as (v & mg & h' & m & E1 & E2 & (A & _)).
  unfold gen_view. rewrite E1, E2, A. reflexivity.
Qed.

Theorem generated_load_view_is_model : forall md h r reqs, meta_ok md h ->
  wf_global (pm_world_size md) (absG h md) -> 0 <= r ->
  gen_load_view md h r reqs = load_view (pm_world_size md) (absG h md) r (map split reqs).
Proof.
  intros md h r reqs MO WF Hr. destruct (sim_get_manifest_for_rank md h r MO WF Hr) as (v & mg & h' & m & E1 & E2 & VO).
  unfold gen_load_view, load_view. rewrite E1, E2.
  pose proof (sim_elasticity _ _ h' v mg m reqs VO) as S. unfold sim_result in S.
  destruct (g_handle_sharded_tensor_elasticity false v mg reqs h') as [[v'|] h2];
    destruct (elasticity (pm_world_size md) (absG h md) m (map split reqs)) as [c|]; try contradiction; [|reflexivity].
  destruct S as (S1 & _). rewrite S1. reflexivity.
Qed.

(* a metadata object loaded from its items (pairwise distinct objects) *)
Lemma load_meta_ok : forall W items, forallb modelledE (map snd items) = true ->
  meta_ok (fst (load_meta W items)) (snd (load_meta W items)).
Proof.
  intros W items H. cbn [load_meta fst snd]. split.
  - cbn [pm_manifest]. assert (E : map snd (combine (map fst items) (seq 0 (length items))) = seq 0 (length items)).
    { clear H. generalize 0%nat. induction items as [|x items IH]; intro n; [reflexivity|]. cbn [map length seq combine snd]. f_equal. apply IH. }
    match goal with |- NoDup ?l => replace l with (seq 0 (length items)) by (symmetry; exact E) end. apply seq_NoDup.
  - cbn [pm_manifest]. intros k a Hin. apply in_combine_r in Hin. apply in_seq in Hin. rewrite map_length. split; [lia|].
    rewrite forallb_forall in H. apply H. unfold hget. apply nth_In. rewrite map_length. lia.
Qed.

Lemma absG_load_meta : forall W items,
  absG (snd (load_meta W items)) (fst (load_meta W items)) =
  map (fun se => (rank_of (fst se), tl (split (fst se)), absE (snd se))) items.
Proof.
  intros W items. unfold absG. cbn [load_meta fst snd pm_manifest].
  assert (G : forall n pre, length pre = n ->
            map (fun ka : pystr * addr => (rank_of (fst ka), tl (split (fst ka)), absE (hget (map snd (pre ++ items)) (snd ka))))
                (combine (map fst items) (seq n (length items))) =
            map (fun se => (rank_of (fst se), tl (split (fst se)), absE (snd se))) items).
  { induction items as [|x items IH]; intros n pre L; [reflexivity|]. cbn [map length seq combine fst snd]. f_equal.
    - f_equal. unfold hget. rewrite map_app, app_nth2 by (rewrite map_length; lia). rewrite map_length, L, Nat.sub_diag. reflexivity.
    - specialize (IH (S n) (pre ++ [x])). rewrite <- app_assoc in IH. apply IH. rewrite app_length. cbn [length]. lia. }
  exact (G 0%nat [] eq_refl).
Qed.
