(* C04: proofs about reading damaged payload (model/ReadDamage.v). *)
From TS Require Import model.Base model.FsStream model.Chunk model.Batch model.ReadDamage.
From TS Require Import proofs.ChunkProofs proofs.BatchProofs.
From Coq Require Import ZifyBool.
Ltac Zify.zify_post_hook ::= Z.to_euclidean_division_equations.

(* ------------------------------------------------------------------ the damaged store *)
Lemma rd_lookup_apply d f s p :
  lookup (rd_apply d f s) p =
  if p =? f then match lookup s f with None => None | Some ob => rd_damage_obj d ob end
  else lookup s p.
Proof.
  unfold lookup. induction s as [|[q ob] s IH]; cbn [rd_apply dict_get].
  - destruct (p =? f); reflexivity.
  - destruct (Z.eqb_spec q f) as [Eqf | Hqf].
    + subst q. destruct (Z.eqb_spec p f) as [Epf | Hpf].
      * subst p. destruct (rd_damage_obj d ob) as [ob'|] eqn:Ed.
        -- cbn [dict_get]. rewrite Z.eqb_refl. reflexivity.
        -- rewrite IH. destruct d; cbn in Ed; [|discriminate].
           destruct (dict_get Z.eqb f s); reflexivity.
      * assert (Efp : (f =? p) = false) by lia.
        assert (Epf : (p =? f) = false) by lia.
        destruct (rd_damage_obj d ob) as [ob'|]; cbn [dict_get]; rewrite ?Efp, ?IH, ?Epf; reflexivity.
    + cbn [dict_get]. destruct (Z.eqb_spec q p) as [Eqp | Hqp].
      * subst q. destruct (Z.eqb_spec p f); [contradiction | reflexivity].
      * exact IH.
Qed.

Lemma rd_lookup_apply_other d f s p : p <> f -> lookup (rd_apply d f s) p = lookup s p.
Proof. intros H. rewrite rd_lookup_apply. destruct (p =? f) eqn:E; [lia | reflexivity]. Qed.

Lemma rd_lookup_apply_deleted f s : lookup (rd_apply RdDeleted f s) f = None.
Proof. rewrite rd_lookup_apply, Z.eqb_refl. destruct (lookup s f); reflexivity. Qed.

Lemma rd_lookup_apply_truncated t f s ob :
  lookup s f = Some ob -> lookup (rd_apply (RdTruncated t) f s) f = Some (firstn (Z.to_nat t) ob).
Proof. intros H. rewrite rd_lookup_apply, Z.eqb_refl, H. reflexivity. Qed.

(* the FS read is Batch.read_obj on the stored object *)
Lemma rd_fs_read_spec s p rg :
  rd_fs_read s p rg = match lookup s p with None => None | Some ob => Some (read_obj ob rg) end.
Proof. unfold rd_fs_read. destruct (lookup s p); [|reflexivity]. destruct rg as [[x y]|]; reflexivity. Qed.

(* ------------------------------------------------------------------ buffers of a truncated object *)
Lemma rd_blen_firstn {A} (l : list A) t : 0 <= t -> blen (firstn (Z.to_nat t) l) = Z.min t (blen l).
Proof. intros H. unfold blen. rewrite firstn_length. lia. Qed.

(* a range that ends at or below the cut is read unchanged *)
Lemma rd_slice_truncated_same {A} (ob : list A) t lo hi :
  0 <= lo -> hi <= t -> slice (firstn (Z.to_nat t) ob) lo hi = slice ob lo hi.
Proof. intros H1 H2. apply slice_firstn; assumption. Qed.

(* a non-empty range that reaches above the cut comes back short *)
Lemma rd_slice_truncated_short {A} (ob : list A) t lo hi :
  0 <= lo -> lo < hi -> 0 <= t < hi -> blen (slice (firstn (Z.to_nat t) ob) lo hi) < hi - lo.
Proof.
  intros H1 H2 H3. rewrite blen_slice by lia. rewrite rd_blen_firstn by lia.
  pose proof (blen_nonneg ob). lia.
Qed.

(* ------------------------------------------------------------------ tensor_from_memoryview *)
Lemma rd_frombuffer_some esize shape buf v :
  0 < esize -> 0 <= prodZ shape ->
  (rd_frombuffer esize shape buf = Some v <-> blen buf = esize * prodZ shape /\ v = buf).
Proof.
  intros He Hp. pose proof (blen_nonneg buf) as Hb.
  unfold rd_frombuffer.
  destruct (blen buf =? 0) eqn:E0.
  - apply Z.eqb_eq in E0. assert (buf = []) by (apply blen_zero_nil; assumption). subst buf.
    destruct (prodZ shape =? 0) eqn:Ep.
    + apply Z.eqb_eq in Ep. rewrite Ep. split.
      * intros H; inversion H. split; [cbn; lia | reflexivity].
      * intros [_ ->]. reflexivity.
    + apply Z.eqb_neq in Ep. split; [discriminate|]. intros [H _]. cbn in H. nia.
  - apply Z.eqb_neq in E0.
    destruct (blen buf mod esize =? 0) eqn:Em.
    + destruct (blen buf / esize =? prodZ shape) eqn:Ed.
      * apply Z.eqb_eq in Em, Ed. split; [|intros [_ ->]; reflexivity].
        intros H; inversion H. split; [|reflexivity].
        rewrite <- Ed. pose proof (Z.div_mod (blen v) esize ltac:(lia)) as Hdm. subst v. lia.
      * split; [discriminate|]. intros [H _]. exfalso.
        assert (blen buf / esize = prodZ shape) by (rewrite H, Z.mul_comm; apply Z.div_mul; lia). lia.
    + split; [discriminate|]. intros [H _]. exfalso.
      assert (blen buf mod esize = 0) by (rewrite H, Z.mul_comm; apply Z.mod_mul; lia). lia.
Qed.

Lemma rd_frombuffer_ok esize shape buf :
  0 < esize -> 0 <= prodZ shape -> blen buf = esize * prodZ shape ->
  rd_frombuffer esize shape buf = Some buf.
Proof. intros He Hs Hb. apply rd_frombuffer_some; auto. Qed.

Lemma rd_frombuffer_wrong_length esize shape buf :
  0 < esize -> 0 <= prodZ shape -> blen buf <> esize * prodZ shape ->
  rd_frombuffer esize shape buf = None.
Proof.
  intros He Hs Hb. destruct (rd_frombuffer esize shape buf) as [v|] eqn:E; [|reflexivity].
  apply rd_frombuffer_some in E; try assumption. destruct E; contradiction.
Qed.

(* ------------------------------------------------------------------ rd_all_ok *)
Lemma rd_all_ok_none {A} (l : list (option A)) : rd_all_ok l = None <-> In None l.
Proof.
  induction l as [|[x|] l IH]; cbn [rd_all_ok In].
  - split; [discriminate | intros []].
  - destruct (rd_all_ok l) eqn:E.
    + split; [discriminate|]. intros [H | H]; [discriminate|]. apply IH in H. discriminate.
    + split; [intros _; right; apply IH; reflexivity | reflexivity].
  - split; [auto | reflexivity].
Qed.

Lemma rd_all_ok_some {A} (l : list (option A)) xs : rd_all_ok l = Some xs <-> l = map Some xs.
Proof.
  revert xs. induction l as [|[x|] l IH]; intros xs; cbn [rd_all_ok].
  - split; [intros H; inversion H; reflexivity | destruct xs; [reflexivity | discriminate]].
  - destruct (rd_all_ok l) as [ys|] eqn:E.
    + split.
      * intros H; inversion H; subst. cbn. f_equal. apply IH. reflexivity.
      * destruct xs as [|y xs]; [discriminate|]. cbn. intros H; inversion H; subst.
        assert (Some ys = Some xs) by (apply IH; reflexivity). congruence.
    + split; [discriminate|]. destruct xs as [|y xs]; [discriminate|]. cbn. intros H; inversion H; subst.
      assert (None = Some xs) by (apply IH; reflexivity). discriminate.
  - split; [discriminate|]. destruct xs; discriminate.
Qed.

Lemma rd_all_ok_total {A} (l : list (option A)) :
  (forall o, In o l -> o <> None) -> exists xs, rd_all_ok l = Some xs.
Proof.
  intros H. destruct (rd_all_ok l) as [xs|] eqn:E; [eauto|].
  apply rd_all_ok_none in E. exfalso. exact (H None E eq_refl).
Qed.

Lemma rd_all_ok_in {A} (l : list (option A)) xs x : rd_all_ok l = Some xs -> (In x xs <-> In (Some x) l).
Proof.
  intros H. apply rd_all_ok_some in H. subst l. split.
  - apply in_map.
  - intros Hin. apply in_map_iff in Hin as (y & Hy & Hin). inversion Hy; subst. assumption.
Qed.

(* ------------------------------------------------------------------ consumer ids are leaf indices *)
Lemma rd_index_from_in {A} (l : list A) : forall k i x,
  In (i, x) (index_from k l) <-> k <= i /\ nth_error l (Z.to_nat (i - k)) = Some x.
Proof.
  induction l as [|y l IH]; intros k i x; cbn [index_from In].
  - split; [intros [] | intros [_ H]]. destruct (Z.to_nat (i - k)); discriminate.
  - rewrite IH. split.
    + intros [H | [H1 H2]].
      * inversion H; subst. split; [lia|]. replace (i - i) with 0 by lia. reflexivity.
      * split; [lia|]. replace (Z.to_nat (i - k)) with (S (Z.to_nat (i - (k + 1)))) by lia. exact H2.
    + intros [H1 H2]. destruct (Z.eq_dec i k) as [-> | Hne].
      * left. replace (k - k) with 0 in H2 by lia. cbn in H2. inversion H2. reflexivity.
      * right. split; [lia|]. replace (Z.to_nat (i - k)) with (S (Z.to_nat (i - (k + 1)))) in H2 by lia. exact H2.
Qed.

Lemma rd_in_reqs_of ls p rg c :
  In (p, rg, c) (rd_reqs_of ls) <->
  0 <= c /\ exists l, nth_error ls (Z.to_nat c) = Some l /\ p = lf_path l /\ rg = lf_range l.
Proof.
  unfold rd_reqs_of. rewrite in_map_iff. split.
  - intros ([i l] & Heq & Hin). cbn [fst snd] in Heq. inversion Heq; subst.
    apply rd_index_from_in in Hin as [H1 H2]. rewrite Z.sub_0_r in H2. split; [assumption|]. exists l. auto.
  - intros (Hc & l & Hn & -> & ->). exists (c, l). split; [reflexivity|].
    apply rd_index_from_in. rewrite Z.sub_0_r. auto.
Qed.

(* ------------------------------------------------------------------ what reaches the consumers *)
(* (c, buf) is handed to consumer c by some request of the plan; a read of the plan raises *)
Definition rd_delivered (batching : bool) (ls : list rd_leaf) (s : rd_store) (d : Z * bytes) : Prop :=
  exists r dl, In r (rd_plan batching ls) /\ rd_req_deliveries s r = Some dl /\ In d dl.
Definition rd_read_fails (batching : bool) (ls : list rd_leaf) (s : rd_store) : Prop :=
  exists r, In r (rd_plan batching ls) /\ rd_req_deliveries s r = None.

(* byte ranges of the leaves are ranges *)
Definition rd_ranges_wf (ls : list rd_leaf) : Prop :=
  forall l lo hi, In l ls -> lf_range l = Some (lo, hi) -> 0 <= lo <= hi.

(* no two leaves ask for the same non-empty range of the same location (forced by BatchedBufferConsumer's dict keyed
   by range: C16_batched_read_duplicate_refuted) *)
Definition rd_distinct_ranges (ls : list rd_leaf) : Prop :=
  forall i j li lj lo hi,
    nth_error ls i = Some li -> nth_error ls j = Some lj -> lf_path li = lf_path lj ->
    lf_range li = Some (lo, hi) -> lf_range lj = Some (lo, hi) -> lo < hi -> i = j.

Lemma rd_ranged_wf_reqs ls : rd_ranges_wf ls -> ranged_wf (rd_reqs_of ls).
Proof.
  intros H p lo hi c Hin. apply rd_in_reqs_of in Hin as (_ & l & Hn & _ & Hr).
  apply (H l lo hi); [eapply nth_error_In; eassumption | auto].
Qed.

Lemma rd_req_deliveries_of_rplan s pl :
  rd_req_deliveries s (rd_of_rplan pl) =
  match lookup s (rd_req_path (rd_of_rplan pl)) with None => None | Some _ => Some (exec_one s pl) end.
Proof.
  destruct pl as [p c | p lo hi sz subs]; cbn [rd_of_rplan rd_req_deliveries rd_req_path exec_one];
    rewrite rd_fs_read_spec; destruct (lookup s p); reflexivity.
Qed.

Lemma rd_exec_one_missing s pl : lookup s (rd_req_path (rd_of_rplan pl)) = None -> exec_one s pl = [].
Proof. destruct pl; cbn [rd_of_rplan rd_req_path exec_one]; intros ->; reflexivity. Qed.

(* the locations of the batched plan are exactly the locations of the leaves *)
Lemma rd_batched_paths ls r :
  In r (rd_plan true ls) -> exists l, In l ls /\ lf_path l = rd_req_path r.
Proof.
  unfold rd_plan. intros H. apply in_map_iff in H as (pl & <- & Hpl).
  unfold batch_read in Hpl. apply in_app_or in Hpl as [Hpl | Hpl].
  - apply in_map_iff in Hpl as ([p c] & <- & Hpc). apply in_unranged_of in Hpc.
    apply rd_in_reqs_of in Hpc as (_ & l & Hn & -> & _). exists l. split; [eapply nth_error_In; eassumption | reflexivity].
  - apply in_map_iff in Hpl as (loc & <- & Hloc).
    assert (Hex : exists r0, In r0 (ranged_of (rd_reqs_of ls)) /\ r_path r0 = loc).
    { clear -Hloc. unfold locations in Hloc.
      assert (G : forall rs acc x,
                 In x (fold_left (fun acc (r : ranged) => let p := fst (fst r) in if memZ p acc then acc else acc ++ [p]) rs acc) ->
                 In x acc \/ exists r0, In r0 rs /\ r_path r0 = x).
      { induction rs as [|r0 rs IH]; intros acc x Hx; cbn [fold_left] in Hx; [left; assumption|].
        apply IH in Hx as [Hx | (r1 & H1 & H2)]; [|right; exists r1; split; [right; assumption | assumption]].
        destruct (memZ (fst (fst r0)) acc); [left; assumption|].
        apply in_app_or in Hx as [Hx | [Hx | []]]; [left; assumption|].
        right. exists r0. split; [left; reflexivity | exact Hx]. }
      apply G in Hloc as [[] | H]. exact H. }
    destruct Hex as ([[p [lo hi]] c] & Hin & Hp). unfold r_path in Hp. cbn [fst] in Hp. subst p.
    apply in_ranged_of in Hin. apply rd_in_reqs_of in Hin as (_ & l & Hn & Hpath & _).
    exists l. split; [eapply nth_error_In; eassumption|].
    unfold merge_location. destruct (merged_range _) as [L H]. cbn [rd_of_rplan rd_req_path]. auto.
Qed.

Lemma rd_batched_paths_complete ls l :
  In l ls -> exists r, In r (rd_plan true ls) /\ rd_req_path r = lf_path l.
Proof.
  intros Hin. apply In_nth_error in Hin as (i & Hi).
  assert (Hreq : In (lf_path l, lf_range l, Z.of_nat i) (rd_reqs_of ls)).
  { apply rd_in_reqs_of. split; [lia|]. exists l. rewrite Nat2Z.id. auto. }
  unfold rd_plan, batch_read. destruct (lf_range l) as [[lo hi]|] eqn:Er.
  - exists (rd_of_rplan (merge_location (ranged_of (rd_reqs_of ls)) (lf_path l))). split.
    + apply in_map. apply in_or_app; right. apply in_map.
      apply in_ranged_of in Hreq. exact (locations_complete _ _ Hreq).
    + unfold merge_location. destruct (merged_range _) as [L H]. reflexivity.
  - exists (RdSingle (lf_path l) None (Z.of_nat i)). split; [|reflexivity].
    change (RdSingle (lf_path l) None (Z.of_nat i)) with (rd_of_rplan (RWhole (lf_path l) (Z.of_nat i))).
    apply in_map. apply in_or_app; left. apply in_unranged_of in Hreq.
    change (RWhole (lf_path l) (Z.of_nat i)) with ((fun pc : Z * Z => RWhole (fst pc) (snd pc)) (lf_path l, Z.of_nat i)).
    apply in_map. assumption.
Qed.

Lemma rd_unbatched_plan_in ls r :
  In r (rd_plan false ls) <->
  exists i l, nth_error ls i = Some l /\ r = RdSingle (lf_path l) (lf_range l) (Z.of_nat i).
Proof.
  unfold rd_plan. rewrite in_map_iff. split.
  - intros ([[p rg] c] & <- & Hin). cbn [fst snd]. apply rd_in_reqs_of in Hin as (Hc & l & Hn & -> & ->).
    exists (Z.to_nat c), l. rewrite Z2Nat.id by assumption. auto.
  - intros (i & l & Hn & ->). exists (lf_path l, lf_range l, Z.of_nat i). split; [reflexivity|].
    apply rd_in_reqs_of. split; [lia|]. exists l. rewrite Nat2Z.id. auto.
Qed.

(* a read raises exactly when some leaf's location is missing - batching on or off *)
Lemma rd_read_fails_iff batching ls s :
  rd_read_fails batching ls s <-> exists l, In l ls /\ lookup s (lf_path l) = None.
Proof.
  destruct batching; unfold rd_read_fails; split.
  - intros (r & Hr & Hd). destruct (rd_batched_paths ls r Hr) as (l & Hl & Hp). exists l. split; [assumption|].
    unfold rd_plan in Hr. apply in_map_iff in Hr as (pl & <- & _).
    rewrite rd_req_deliveries_of_rplan in Hd. rewrite Hp. destruct (lookup s _); [discriminate | reflexivity].
  - intros (l & Hl & Hm). destruct (rd_batched_paths_complete ls l Hl) as (r & Hr & Hp). exists r. split; [assumption|].
    unfold rd_plan in Hr. apply in_map_iff in Hr as (pl & <- & _).
    rewrite rd_req_deliveries_of_rplan, Hp, Hm. reflexivity.
  - intros (r & Hr & Hd). apply rd_unbatched_plan_in in Hr as (i & l & Hn & ->). exists l.
    split; [eapply nth_error_In; eassumption|]. cbn [rd_req_deliveries] in Hd. rewrite rd_fs_read_spec in Hd.
    destruct (lookup s (lf_path l)); [discriminate | reflexivity].
  - intros (l & Hl & Hm). apply In_nth_error in Hl as (i & Hi).
    exists (RdSingle (lf_path l) (lf_range l) (Z.of_nat i)). split; [apply rd_unbatched_plan_in; eauto|].
    cbn [rd_req_deliveries]. rewrite rd_fs_read_spec, Hm. reflexivity.
Qed.

Lemma rd_delivered_batched_iff ls s d :
  rd_delivered true ls s d <-> In d (exec_plan s (batch_read (rd_reqs_of ls))).
Proof.
  unfold rd_delivered, rd_plan, exec_plan. rewrite in_flat_map. split.
  - intros (r & dl & Hr & Hd & Hin). apply in_map_iff in Hr as (pl & <- & Hpl).
    rewrite rd_req_deliveries_of_rplan in Hd. exists pl. split; [assumption|].
    destruct (lookup s _); [inversion Hd; subst; assumption | discriminate].
  - intros (pl & Hpl & Hin). exists (rd_of_rplan pl), (exec_one s pl). split; [apply in_map; assumption|].
    split; [|assumption]. rewrite rd_req_deliveries_of_rplan.
    destruct (lookup s (rd_req_path (rd_of_rplan pl))) eqn:E; [reflexivity|].
    rewrite (rd_exec_one_missing s pl E) in Hin. contradiction.
Qed.

(* soundness: whatever reaches consumer c is the (possibly short) read of leaf c's own range - batching on or off *)
Lemma rd_delivered_sound batching ls s c buf :
  rd_ranges_wf ls -> rd_delivered batching ls s (c, buf) ->
  0 <= c /\ exists l ob, nth_error ls (Z.to_nat c) = Some l /\ lookup s (lf_path l) = Some ob
                         /\ buf = read_obj ob (lf_range l).
Proof.
  intros Hwf Hd. destruct batching.
  - apply rd_delivered_batched_iff in Hd.
    destruct (batched_read_sound _ _ _ _ (rd_ranged_wf_reqs ls Hwf) Hd) as (p & rg & ob & Hin & Hl & ->).
    apply rd_in_reqs_of in Hin as (Hc & l & Hn & -> & ->). split; [assumption|]. exists l, ob. auto.
  - destruct Hd as (r & dl & Hr & Hdl & Hin). apply rd_unbatched_plan_in in Hr as (i & l & Hn & ->).
    cbn [rd_req_deliveries] in Hdl. rewrite rd_fs_read_spec in Hdl.
    destruct (lookup s (lf_path l)) as [ob|] eqn:E; [|discriminate]. inversion Hdl; subst dl.
    destruct Hin as [Hin | []]. inversion Hin; subst. split; [lia|]. exists l, ob. rewrite Nat2Z.id. auto.
Qed.

(* completeness: leaf i's read reaches consumer i when it reads the whole object or a non-empty range *)
Lemma rd_delivered_complete batching ls s i l ob :
  rd_ranges_wf ls -> rd_distinct_ranges ls ->
  nth_error ls i = Some l -> lookup s (lf_path l) = Some ob ->
  (lf_range l = None \/ exists lo hi, lf_range l = Some (lo, hi) /\ lo < hi) ->
  rd_delivered batching ls s (Z.of_nat i, read_obj ob (lf_range l)).
Proof.
  intros Hwf Hdist Hn Hl Hne.
  assert (Hreq : In (lf_path l, lf_range l, Z.of_nat i) (rd_reqs_of ls)).
  { apply rd_in_reqs_of. split; [lia|]. exists l. rewrite Nat2Z.id. auto. }
  destruct batching.
  - apply rd_delivered_batched_iff. destruct Hne as [Hr | (lo & hi & Hr & Hlt)]; rewrite Hr in *.
    + apply (batched_read_complete_whole _ _ _ _ _ Hreq Hl).
    + cbn [read_obj]. apply (batched_read_complete_ranged _ _ _ _ _ _ _ (rd_ranged_wf_reqs ls Hwf) Hreq Hl).
      intros c' Hc'. apply rd_in_reqs_of in Hc' as (Hc0 & l' & Hn' & Hp' & Hr').
      assert (Z.to_nat c' = i) by (eapply Hdist; eauto). lia.
  - exists (RdSingle (lf_path l) (lf_range l) (Z.of_nat i)), [(Z.of_nat i, read_obj ob (lf_range l))].
    split; [apply rd_unbatched_plan_in; eauto|]. split; [|left; reflexivity].
    cbn [rd_req_deliveries]. rewrite rd_fs_read_spec, Hl. reflexivity.
Qed.

(* ------------------------------------------------------------------ the pipeline in terms of deliveries *)
Section Run.
  Variable obj : Type.
  Variable load : bytes -> option obj.

  Notation consume_one := (rd_consume_one obj load).
  Notation restore := (rd_restore obj load false).

  Lemma rd_run_req_none ls s r :
    rd_run_req obj load false ls s r = None <->
    rd_req_deliveries s r = None \/
    exists dl d, rd_req_deliveries s r = Some dl /\ In d dl /\ consume_one ls d = None.
  Proof.
    unfold rd_run_req. destruct (rd_req_deliveries s r) as [dl|] eqn:E.
    - assert (G : rd_all_ok (map (consume_one ls) dl) = None <->
                  (Some dl = None :> option (list (Z * bytes))) \/ exists dl0 d, Some dl = Some dl0 /\ In d dl0 /\ consume_one ls d = None).
      { rewrite rd_all_ok_none, in_map_iff. split.
        - intros (d & Hd & Hin). right. exists dl, d. auto.
        - intros [H | (dl0 & d & Heq & Hin & Hd)]; [|inversion Heq; subst; exists d; auto].
          discriminate. }
      destruct r; exact G.
    - split; [auto | reflexivity].
  Qed.

  Lemma rd_restore_none batching ls s :
    restore batching ls s = None <->
    rd_read_fails batching ls s \/ exists d, rd_delivered batching ls s d /\ consume_one ls d = None.
  Proof.
    unfold rd_restore, rd_run.
    destruct (rd_all_ok (map (rd_run_req obj load false ls s) (rd_plan batching ls))) as [outs|] eqn:E.
    - split; [discriminate|]. intros H. exfalso.
      assert (Hnone : exists r, In r (rd_plan batching ls) /\ rd_run_req obj load false ls s r = None).
      { destruct H as [(r & Hr & Hd) | ((c & b) & (r & dl & Hr & Hd & Hin) & Hc)].
        - exists r. split; [assumption|]. apply rd_run_req_none. auto.
        - exists r. split; [assumption|]. apply rd_run_req_none. right. exists dl, (c, b). auto. }
      destruct Hnone as (r & Hr & Hnone).
      assert (In None (map (rd_run_req obj load false ls s) (rd_plan batching ls))) by (rewrite <- Hnone; apply in_map; assumption).
      apply rd_all_ok_none in H0. congruence.
    - split; [intros _ | reflexivity].
      apply rd_all_ok_none in E. apply in_map_iff in E as (r & Hnone & Hr).
      apply rd_run_req_none in Hnone as [Hd | (dl & d & Hd & Hin & Hc)].
      + left. exists r. auto.
      + right. exists d. split; [exists r, dl; auto | assumption].
  Qed.

  Lemma rd_restore_some batching ls s out :
    restore batching ls s = Some out ->
    forall iv, In iv out <-> exists d, rd_delivered batching ls s d /\ consume_one ls d = Some iv.
  Proof.
    unfold rd_restore, rd_run.
    destruct (rd_all_ok (map (rd_run_req obj load false ls s) (rd_plan batching ls))) as [outs|] eqn:E; [|discriminate].
    intros H; inversion H; subst out. clear H. intros iv. rewrite in_concat. split.
    - intros (o & Ho & Hiv). apply (rd_all_ok_in _ _ o E) in Ho. apply in_map_iff in Ho as (r & Hrun & Hr).
      unfold rd_run_req in Hrun. destruct (rd_req_deliveries s r) as [dl|] eqn:Ed; [|discriminate].
      assert (Hok : rd_all_ok (map (consume_one ls) dl) = Some o) by (destruct r; exact Hrun).
      apply (rd_all_ok_in _ _ iv Hok) in Hiv. apply in_map_iff in Hiv as (d & Hc & Hin).
      exists d. split; [exists r, dl; auto | assumption].
    - intros (d & (r & dl & Hr & Hd & Hin) & Hc).
      assert (Hrun : exists o, rd_run_req obj load false ls s r = Some o).
      { destruct (rd_run_req obj load false ls s r) eqn:Er; [eauto|].
        assert (In None (map (rd_run_req obj load false ls s) (rd_plan batching ls))) by (rewrite <- Er; apply in_map; assumption).
        apply rd_all_ok_none in H. congruence. }
      destruct Hrun as (o & Hrun). exists o. split.
      + apply (rd_all_ok_in _ _ o E). rewrite <- Hrun. apply in_map. assumption.
      + unfold rd_run_req in Hrun. rewrite Hd in Hrun.
        assert (Hok : rd_all_ok (map (consume_one ls) dl) = Some o) by (destruct r; exact Hrun).
        apply (rd_all_ok_in _ _ iv Hok). rewrite <- Hc. apply in_map. assumption.
  Qed.
End Run.

(* ------------------------------------------------------------------ the merged range of one location *)
Lemma rd_merged_fold_bounds (l : list ranged) a b : forall A B,
  a <= A -> B <= b -> (forall r, In r l -> a <= r_lo r /\ r_hi r <= b) ->
  let res := fold_left (fun acc (r : ranged) => (Z.min (fst acc) (fst (snd (fst r))), Z.max (snd acc) (snd (snd (fst r))))) l (A, B) in
  a <= fst res /\ snd res <= b.
Proof.
  induction l as [|r l IH]; intros A B HA HB Hall; cbn [fold_left fst snd]; [split; assumption|].
  apply IH.
  - pose proof (Hall r (or_introl eq_refl)) as [H _]. unfold r_lo in H. lia.
  - pose proof (Hall r (or_introl eq_refl)) as [_ H]. unfold r_hi in H. lia.
  - intros r' Hr'. apply Hall. right; assumption.
Qed.

Lemma rd_merged_range_bounds (mine : list ranged) a b :
  mine <> [] -> (forall r, In r mine -> a <= r_lo r /\ r_hi r <= b) ->
  a <= fst (merged_range mine) /\ snd (merged_range mine) <= b.
Proof.
  intros Hne Hall. unfold merged_range. destruct mine as [|r0 rest] eqn:E; [congruence|]. rewrite <- E in *.
  assert (H0 : In r0 mine) by (rewrite E; left; reflexivity).
  destruct (snd (fst r0)) as [A B] eqn:E0.
  apply rd_merged_fold_bounds; try assumption.
  - pose proof (Hall r0 H0) as [H _]. unfold r_lo in H. rewrite E0 in H. exact H.
  - pose proof (Hall r0 H0) as [_ H]. unfold r_hi in H. rewrite E0 in H. exact H.
Qed.

Lemma rd_merged_fold_attained (l : list ranged) : forall A B,
  let res := fold_left (fun acc (r : ranged) => (Z.min (fst acc) (fst (snd (fst r))), Z.max (snd acc) (snd (snd (fst r))))) l (A, B) in
  (fst res = A \/ exists r, In r l /\ fst res = r_lo r) /\ (snd res = B \/ exists r, In r l /\ snd res = r_hi r).
Proof.
  induction l as [|r l IH]; intros A B; cbn [fold_left fst snd]; [split; left; reflexivity|].
  destruct (IH (Z.min A (fst (snd (fst r)))) (Z.max B (snd (snd (fst r))))) as [H1 H2]. cbv zeta in *. split.
  - destruct H1 as [H1 | (r' & Hr' & H1)]; [|right; exists r'; split; [right; assumption | assumption]].
    destruct (Z.le_gt_cases A (fst (snd (fst r)))) as [Hle | Hgt].
    + left. rewrite H1. lia.
    + right. exists r. split; [left; reflexivity|]. rewrite H1. unfold r_lo. lia.
  - destruct H2 as [H2 | (r' & Hr' & H2)]; [|right; exists r'; split; [right; assumption | assumption]].
    destruct (Z.le_gt_cases (snd (snd (fst r))) B) as [Hle | Hgt].
    + left. rewrite H2. lia.
    + right. exists r. split; [left; reflexivity|]. rewrite H2. unfold r_hi. lia.
Qed.

(* the merged read of one location covers exactly [min lo, max hi) of the requested ranges *)
Lemma rd_merged_range_exact (mine : list ranged) :
  mine <> [] ->
  (exists r, In r mine /\ fst (merged_range mine) = r_lo r) /\ (exists r, In r mine /\ snd (merged_range mine) = r_hi r)
  /\ forall r, In r mine -> fst (merged_range mine) <= r_lo r /\ r_hi r <= snd (merged_range mine).
Proof.
  intros Hne. split; [|split].
  - unfold merged_range. destruct mine as [|r0 rest] eqn:E; [congruence|]. rewrite <- E.
    assert (H0 : In r0 mine) by (rewrite E; left; reflexivity).
    destruct (snd (fst r0)) as [A B] eqn:E0.
    destruct (rd_merged_fold_attained mine A B) as [[H | H] _]; cbv zeta in H.
    + exists r0. split; [assumption|]. unfold r_lo. rewrite E0. exact H.
    + exact H.
  - unfold merged_range. destruct mine as [|r0 rest] eqn:E; [congruence|]. rewrite <- E.
    assert (H0 : In r0 mine) by (rewrite E; left; reflexivity).
    destruct (snd (fst r0)) as [A B] eqn:E0.
    destruct (rd_merged_fold_attained mine A B) as [_ [H | H]]; cbv zeta in H.
    + exists r0. split; [assumption|]. unfold r_hi. rewrite E0. exact H.
    + exact H.
  - intros r Hr. unfold merged_range. destruct mine as [|r0 rest] eqn:E; [contradiction|]. rewrite <- E in *.
    destruct (snd (fst r0)) as [A B] eqn:E0.
    destruct (merged_fold mine A B) as (_ & _ & H3 & _). cbv zeta in H3. apply H3. assumption.
Qed.

(* ------------------------------------------------------------------ needed ranges and damage *)
(* leaf l needs a range of object f that the damage d has removed:
     deleted:           the object is needed at all (even for an empty range: open() raises)
     truncated at t:    the whole object is read and t < size, or a NON-EMPTY range [lo, hi) is read and t < hi *)
Definition rd_leaf_damaged (s : rd_store) (f : Z) (d : rd_damage) (l : rd_leaf) : Prop :=
  lf_path l = f /\
  match d with
  | RdDeleted => True
  | RdTruncated t =>
      match lf_range l with
      | None => exists ob, lookup s f = Some ob /\ t < blen ob
      | Some (lo, hi) => lo < hi /\ t < hi
      end
  end.

(* ------------------------------------------------------------------ truncation at or above everything that is read *)
Lemma rd_locations_sound (rs : list ranged) loc : In loc (locations rs) -> exists r0, In r0 rs /\ r_path r0 = loc.
Proof.
  unfold locations.
  assert (G : forall rs acc x,
             In x (fold_left (fun acc (r : ranged) => let p := fst (fst r) in if memZ p acc then acc else acc ++ [p]) rs acc) ->
             In x acc \/ exists r0, In r0 rs /\ r_path r0 = x).
  { clear. induction rs as [|r0 rs IH]; intros acc x Hx; cbn [fold_left] in Hx; [left; assumption|].
    apply IH in Hx as [Hx | (r1 & H1 & H2)]; [|right; exists r1; split; [right; assumption | assumption]].
    destruct (memZ (fst (fst r0)) acc); [left; assumption|].
    apply in_app_or in Hx as [Hx | [Hx | []]]; [left; assumption|].
    right. exists r0. split; [left; reflexivity | exact Hx]. }
  intros H. apply G in H as [[] | H]. exact H.
Qed.

Lemma rd_fs_read_other d f s p rg : p <> f -> rd_fs_read (rd_apply d f s) p rg = rd_fs_read s p rg.
Proof. intros H. unfold rd_fs_read. rewrite rd_lookup_apply_other by assumption. reflexivity. Qed.

Lemma rd_fs_read_truncated_range t f s p lo hi :
  0 <= lo -> hi <= t -> rd_fs_read (rd_apply (RdTruncated t) f s) p (Some (lo, hi)) = rd_fs_read s p (Some (lo, hi)).
Proof.
  intros Hlo Hhi. destruct (Z.eq_dec p f) as [-> | Hne]; [|apply rd_fs_read_other; assumption].
  unfold rd_fs_read. rewrite rd_lookup_apply, Z.eqb_refl. destruct (lookup s f) as [ob|]; [|reflexivity].
  cbn [rd_damage_obj]. f_equal. apply (rd_slice_truncated_same ob t lo hi Hlo Hhi).
Qed.

(* every request of the plan reads the same bytes from the truncated store *)
Lemma rd_deliveries_truncated_same batching ls s f t :
  rd_ranges_wf ls ->
  (forall l, In l ls -> lf_path l = f -> exists lo hi, lf_range l = Some (lo, hi) /\ hi <= t) ->
  forall r, In r (rd_plan batching ls) ->
    rd_req_deliveries (rd_apply (RdTruncated t) f s) r = rd_req_deliveries s r.
Proof.
  intros Hwf Hall r Hr. destruct batching.
  - unfold rd_plan in Hr. apply in_map_iff in Hr as (pl & <- & Hpl).
    unfold batch_read in Hpl. apply in_app_or in Hpl as [Hpl | Hpl].
    + apply in_map_iff in Hpl as ([p c] & <- & Hpc). cbn [fst snd rd_of_rplan rd_req_deliveries].
      apply in_unranged_of in Hpc. apply rd_in_reqs_of in Hpc as (_ & l & Hn & -> & Hrg).
      destruct (Z.eq_dec (lf_path l) f) as [Hp | Hp]; [|rewrite rd_fs_read_other by assumption; reflexivity].
      destruct (Hall l (nth_error_In _ _ Hn) Hp) as (lo & hi & Hr & _). congruence.
    + apply in_map_iff in Hpl as (loc & <- & Hloc). unfold merge_location.
      set (mine := at_location loc (ranged_of (rd_reqs_of ls))).
      destruct (merged_range mine) as [L H] eqn:EM. cbn [rd_of_rplan rd_req_deliveries].
      destruct (Z.eq_dec loc f) as [Hp | Hp]; [|rewrite rd_fs_read_other by assumption; reflexivity].
      assert (Hb : 0 <= fst (merged_range mine) /\ snd (merged_range mine) <= t).
      { apply rd_merged_range_bounds.
        - destruct (rd_locations_sound _ _ Hloc) as (r0 & Hr0 & Hp0).
          assert (In r0 mine) by (unfold mine, at_location; apply filter_In; split; [assumption | unfold r_path in Hp0; lia]).
          intros Hnil. rewrite Hnil in H0. contradiction.
        - intros [[p [lo hi]] c] Hin. unfold mine, at_location in Hin. apply filter_In in Hin as [Hin Hpe].
          cbn [fst] in Hpe. apply Z.eqb_eq in Hpe. subst p.
          apply in_ranged_of in Hin. apply rd_in_reqs_of in Hin as (_ & l & Hn & Hpath & Hrg).
          destruct (Hall l (nth_error_In _ _ Hn) ltac:(congruence)) as (lo' & hi' & Hr' & Hle).
          rewrite Hr' in Hrg. inversion Hrg; subst lo' hi'.
          pose proof (Hwf l lo hi (nth_error_In _ _ Hn) Hr'). unfold r_lo, r_hi. cbn [fst snd]. lia. }
      rewrite EM in Hb. cbn [fst snd] in Hb. rewrite rd_fs_read_truncated_range by lia. reflexivity.
  - apply rd_unbatched_plan_in in Hr as (i & l & Hn & ->). cbn [rd_req_deliveries].
    destruct (Z.eq_dec (lf_path l) f) as [Hp | Hp]; [|rewrite rd_fs_read_other by assumption; reflexivity].
    destruct (Hall l (nth_error_In _ _ Hn) Hp) as (lo & hi & Hr & Hle). rewrite Hr.
    pose proof (Hwf l lo hi (nth_error_In _ _ Hn) Hr). rewrite rd_fs_read_truncated_range by lia. reflexivity.
Qed.

Lemma rd_truncation_beyond_needs_harmless (obj : Type) (load : bytes -> option obj) legacy batching ls s f t :
  rd_ranges_wf ls ->
  (forall l, In l ls -> lf_path l = f -> exists lo hi, lf_range l = Some (lo, hi) /\ hi <= t) ->
  rd_restore obj load legacy batching ls (rd_apply (RdTruncated t) f s) = rd_restore obj load legacy batching ls s.
Proof.
  intros Hwf Hall. unfold rd_restore, rd_run. f_equal.
  replace (map (rd_run_req obj load legacy ls (rd_apply (RdTruncated t) f s)) (rd_plan batching ls))
    with (map (rd_run_req obj load legacy ls s) (rd_plan batching ls)); [reflexivity|].
  apply map_ext_in. intros r Hr. unfold rd_run_req.
  rewrite (rd_deliveries_truncated_same batching ls s f t Hwf Hall r Hr). reflexivity.
Qed.

(* the merged read request of one location of the batched plan covers exactly [min lo, max hi) of the leaves on it *)
Lemma rd_batched_extent ls p lo hi subs :
  In (RdBatched p lo hi subs) (rd_plan true ls) ->
  (exists l h, In l ls /\ lf_path l = p /\ lf_range l = Some (lo, h))
  /\ (exists l a, In l ls /\ lf_path l = p /\ lf_range l = Some (a, hi))
  /\ (forall l a b, In l ls -> lf_path l = p -> lf_range l = Some (a, b) -> lo <= a /\ b <= hi).
Proof.
  unfold rd_plan. intros H. apply in_map_iff in H as (pl & Heq & Hpl).
  unfold batch_read in Hpl. apply in_app_or in Hpl as [Hpl | Hpl].
  { apply in_map_iff in Hpl as (pc & <- & _). discriminate. }
  apply in_map_iff in Hpl as (loc & <- & Hloc). unfold merge_location in Heq.
  set (mine := at_location loc (ranged_of (rd_reqs_of ls))) in *.
  destruct (merged_range mine) as [L H] eqn:EM. cbn [rd_of_rplan] in Heq. inversion Heq; subst p lo hi subs. clear Heq.
  assert (Hne : mine <> []).
  { destruct (rd_locations_sound _ _ Hloc) as (r0 & Hr0 & Hp0).
    assert (In r0 mine) by (unfold mine, at_location; apply filter_In; split; [assumption | unfold r_path in Hp0; lia]).
    intros Hnil. rewrite Hnil in H0. contradiction. }
  assert (Hleaf : forall r, In r mine -> exists l, In l ls /\ lf_path l = loc /\ lf_range l = Some (r_lo r, r_hi r)).
  { intros [[p [a b]] c] Hin. unfold mine, at_location in Hin. apply filter_In in Hin as [Hin Hp].
    cbn [fst] in Hp. apply Z.eqb_eq in Hp. subst p. apply in_ranged_of in Hin.
    apply rd_in_reqs_of in Hin as (_ & l & Hn & Hpath & Hrg). exists l.
    split; [eapply nth_error_In; eassumption|]. unfold r_lo, r_hi. cbn [fst snd]. auto. }
  destruct (rd_merged_range_exact mine Hne) as ((r1 & Hr1 & HL) & (r2 & Hr2 & HH) & Hall).
  rewrite EM in HL, HH, Hall. cbn [fst snd] in HL, HH, Hall.
  split; [|split].
  - destruct (Hleaf r1 Hr1) as (l & Hl & Hp & Hr). exists l, (r_hi r1). rewrite HL. auto.
  - destruct (Hleaf r2 Hr2) as (l & Hl & Hp & Hr). exists l, (r_lo r2). rewrite HH. auto.
  - intros l a b Hl Hp Hr. apply In_nth_error in Hl as (i & Hi).
    assert (Hreq : In (loc, Some (a, b), Z.of_nat i) (rd_reqs_of ls)).
    { apply rd_in_reqs_of. split; [lia|]. exists l. rewrite Nat2Z.id. auto. }
    apply in_ranged_of in Hreq.
    assert (Hin : In (loc, (a, b), Z.of_nat i) mine).
    { unfold mine, at_location. apply filter_In. split; [assumption | cbn; apply Z.eqb_refl]. }
    apply Hall in Hin. unfold r_lo, r_hi in Hin. cbn [fst snd] in Hin. exact Hin.
Qed.

Section Main.
  Variable obj : Type.
  Variable load : bytes -> option obj.     (* torch.load *)
  Variable save : obj -> bytes.            (* torch.save *)
  (* ASSUMED of torch.save/torch.load (validated by the harness at every truncation length of sample archives) *)
  Hypothesis load_save : forall o, load (save o) = Some o.
  Hypothesis load_prefix_rejected :
    forall o t, 0 <= t < blen (save o) -> load (firstn (Z.to_nat t) (save o)) = None.

  Notation restore := (rd_restore obj load false).
  Notation expected := (rd_expected obj load).

  (* a leaf is consistent with the (undamaged) store s (numel = prod(shape) >= 0):
       buffer-protocol tensor with byte range [lo, hi): hi - lo = esize * numel, 0 <= lo, hi <= size of the object
       buffer-protocol tensor without byte range:       size of the object = esize * numel
       torch.load leaf (object / torch_save tensor):    no byte range, the object holds a torch.save archive *)
  Definition rd_leaf_wf (s : rd_store) (l : rd_leaf) : Prop :=
    match lf_kind l, lf_range l with
    | RdTensor esize shape, Some (lo, hi) =>
        0 < esize /\ 0 <= prodZ shape /\ 0 <= lo /\ hi - lo = esize * prodZ shape
        /\ exists ob, lookup s (lf_path l) = Some ob /\ hi <= blen ob
    | RdTensor esize shape, None =>
        0 < esize /\ 0 <= prodZ shape
        /\ exists ob, lookup s (lf_path l) = Some ob /\ blen ob = esize * prodZ shape
    | RdLoad, None => exists o, lookup s (lf_path l) = Some (save o)
    | RdLoad, Some _ => False
    end.

  Definition rd_plan_wf (s : rd_store) (ls : list rd_leaf) : Prop :=
    Forall (rd_leaf_wf s) ls /\ rd_distinct_ranges ls.

  Lemma rd_plan_wf_ranges s ls : Forall (rd_leaf_wf s) ls -> rd_ranges_wf ls.
  Proof.
    intros Hwf l lo hi Hin Hr. rewrite Forall_forall in Hwf. specialize (Hwf l Hin).
    unfold rd_leaf_wf in Hwf. rewrite Hr in Hwf. destruct (lf_kind l) as [esize shape|]; [|contradiction].
    destruct Hwf as (He & Hs & Hlo & Hlen & _). nia.
  Qed.

  Lemma rd_wf_lookup s l : rd_leaf_wf s l -> exists ob, lookup s (lf_path l) = Some ob.
  Proof.
    unfold rd_leaf_wf. destruct (lf_kind l) as [esize shape|]; destruct (lf_range l) as [[lo hi]|]; try contradiction.
    - intros (_ & _ & _ & _ & ob & H & _). eauto.
    - intros (_ & _ & ob & H & _). eauto.
    - intros (o & H). eauto.
  Qed.

  (* on the undamaged object every leaf's consumer accepts its buffer and stores exactly the expected value *)
  Lemma rd_wf_consume s l ob :
    rd_leaf_wf s l -> lookup s (lf_path l) = Some ob ->
    exists v, expected s l = Some v /\ rd_consume obj load (lf_kind l) (read_obj ob (lf_range l)) = Some v
              /\ (v <> RdBytes [] -> lf_range l = None \/ exists lo hi, lf_range l = Some (lo, hi) /\ lo < hi).
  Proof.
    unfold rd_leaf_wf, rd_expected. intros Hwf Hl. rewrite Hl.
    destruct (lf_kind l) as [esize shape|]; destruct (lf_range l) as [[lo hi]|]; try contradiction.
    - destruct Hwf as (He & Hs & Hlo & Hlen & ob' & Hl' & Hhi). rewrite Hl in Hl'. inversion Hl'; subst ob'.
      pose proof Hs as Hp.
      exists (RdBytes (read_obj ob (Some (lo, hi)))). split; [reflexivity|]. split.
      + cbn [rd_consume read_obj]. rewrite rd_frombuffer_ok; try assumption; [reflexivity|].
        rewrite blen_slice by nia. pose proof (blen_nonneg ob). nia.
      + intros Hv. right. exists lo, hi. split; [reflexivity|].
        destruct (Z.eq_dec lo hi) as [-> | Hne]; [|nia].
        exfalso. apply Hv. cbn [read_obj]. rewrite slice_empty. reflexivity.
    - destruct Hwf as (He & Hs & ob' & Hl' & Hlen). rewrite Hl in Hl'. inversion Hl'; subst ob'.
      exists (RdBytes ob). split; [reflexivity|]. split; [|auto].
      cbn [rd_consume read_obj]. rewrite rd_frombuffer_ok; auto.
    - destruct Hwf as (o & Hl'). rewrite Hl in Hl'. inversion Hl'; subst ob.
      exists (RdObj o). rewrite load_save. split; [reflexivity|]. split; [|auto].
      cbn [rd_consume read_obj]. rewrite load_save. reflexivity.
  Qed.

  Lemma rd_consume_one_at ls i l buf :
    nth_error ls i = Some l ->
    rd_consume_one obj load ls (Z.of_nat i, buf) =
    match rd_consume obj load (lf_kind l) buf with None => None | Some v => Some (Z.of_nat i, v) end.
  Proof.
    intros Hn. unfold rd_consume_one, rd_kind_of. cbn [fst snd].
    destruct (Z.of_nat i <? 0) eqn:E; [lia|]. rewrite Nat2Z.id, Hn. reflexivity.
  Qed.

  (* ---------------------------------------------------------------- a damaged needed range => error *)
  Lemma rd_damaged_raises batching s ls f d :
    rd_plan_wf s ls -> (forall t, d = RdTruncated t -> 0 <= t) ->
    (exists l, In l ls /\ rd_leaf_damaged s f d l) ->
    restore batching ls (rd_apply d f s) = None.
  Proof.
    intros [Hwf Hdist] Ht (l & Hin & Hpath & Hdmg). apply rd_restore_none.
    pose proof (rd_plan_wf_ranges s ls Hwf) as Hrng.
    destruct d as [|t].
    - left. apply rd_read_fails_iff. exists l. split; [assumption|]. rewrite Hpath. apply rd_lookup_apply_deleted.
    - right. specialize (Ht t eq_refl).
      apply In_nth_error in Hin as (i & Hi).
      assert (Hwl : rd_leaf_wf s l) by (rewrite Forall_forall in Hwf; apply Hwf; eapply nth_error_In; eassumption).
      destruct (rd_wf_lookup s l Hwl) as (ob & Hob). rewrite Hpath in Hob.
      pose proof (rd_lookup_apply_truncated t f s ob Hob) as Hob'.
      set (ob' := firstn (Z.to_nat t) ob) in *.
      exists (Z.of_nat i, read_obj ob' (lf_range l)). split.
      + apply (rd_delivered_complete batching ls _ i l ob'); try assumption; [rewrite Hpath; assumption|].
        destruct (lf_range l) as [[lo hi]|]; [|left; reflexivity].
        right. exists lo, hi. split; [reflexivity | apply Hdmg].
      + rewrite (rd_consume_one_at ls i l _ Hi).
        unfold rd_leaf_wf in Hwl. rewrite Hpath in Hwl.
        destruct (lf_kind l) as [esize shape|]; destruct (lf_range l) as [[lo hi]|]; try contradiction;
          cbn [rd_consume read_obj].
        * destruct Hwl as (He & Hs & Hlo & Hlen & ob0 & Hl0 & Hhi). destruct Hdmg as [Hne Hcut].
          rewrite rd_frombuffer_wrong_length; try assumption; [reflexivity|].
          pose proof (rd_slice_truncated_short ob t lo hi Hlo Hne ltac:(lia)). fold ob' in H. lia.
        * destruct Hwl as (He & Hs & ob0 & Hl0 & Hlen). rewrite Hob in Hl0. inversion Hl0; subst ob0.
          destruct Hdmg as (ob1 & Hl1 & Hcut). rewrite Hob in Hl1. inversion Hl1; subst ob1.
          rewrite rd_frombuffer_wrong_length; try assumption; [reflexivity|].
          unfold ob'. rewrite rd_blen_firstn by lia. lia.
        * destruct Hwl as (o & Hl0). rewrite Hob in Hl0. inversion Hl0; subst ob.
          destruct Hdmg as (ob1 & Hl1 & Hcut). rewrite Hob in Hl1. inversion Hl1; subst ob1.
          unfold ob'. rewrite load_prefix_rejected by lia. reflexivity.
  Qed.

  (* ---------------------------------------------------------------- no needed range damaged => Ok with the saved values *)
  (* an undamaged leaf reads the same bytes from the damaged store *)
  Lemma rd_undamaged_read s f d l ob :
    (forall t, d = RdTruncated t -> 0 <= t) ->
    (forall lo hi, lf_range l = Some (lo, hi) -> 0 <= lo <= hi) ->
    lookup s (lf_path l) = Some ob -> ~ rd_leaf_damaged s f d l ->
    exists ob', lookup (rd_apply d f s) (lf_path l) = Some ob' /\ read_obj ob' (lf_range l) = read_obj ob (lf_range l).
  Proof.
    intros Ht Hrng Hob Hnd. destruct (Z.eq_dec (lf_path l) f) as [Hp | Hp].
    - destruct d as [|t]; [exfalso; apply Hnd; split; [assumption | exact I]|].
      specialize (Ht t eq_refl). rewrite Hp in Hob |- *.
      exists (firstn (Z.to_nat t) ob). split; [apply rd_lookup_apply_truncated; assumption|].
      destruct (lf_range l) as [[lo hi]|] eqn:Er; cbn [read_obj].
      + specialize (Hrng lo hi eq_refl).
        destruct (Z.le_gt_cases hi t) as [Hle | Hgt]; [apply rd_slice_truncated_same; lia|].
        destruct (Z.eq_dec lo hi) as [-> | Hne]; [rewrite !slice_empty; reflexivity|].
        exfalso. apply Hnd. split; [assumption|]. rewrite Er. lia.
      + destruct (Z.le_gt_cases (blen ob) t) as [Hle | Hgt].
        * apply firstn_all2. unfold blen in Hle. lia.
        * exfalso. apply Hnd. split; [assumption|]. rewrite Er. exists ob. auto.
    - exists ob. split; [rewrite rd_lookup_apply_other; assumption | reflexivity].
  Qed.

  Lemma rd_undamaged_succeeds batching s ls f d :
    rd_plan_wf s ls -> (forall t, d = RdTruncated t -> 0 <= t) ->
    (forall l, In l ls -> ~ rd_leaf_damaged s f d l) ->
    exists out, restore batching ls (rd_apply d f s) = Some out /\
      forall i l, nth_error ls i = Some l ->
        exists v, expected s l = Some v
                  /\ (v <> RdBytes [] -> In (Z.of_nat i, v) out)
                  /\ (forall v', In (Z.of_nat i, v') out -> v' = v).
  Proof.
    intros [Hwf Hdist] Ht Hnd. pose proof (rd_plan_wf_ranges s ls Hwf) as Hrng.
    set (s' := rd_apply d f s).
    assert (Hleaf : forall l, In l ls -> exists ob ob' v,
               lookup s (lf_path l) = Some ob /\ lookup s' (lf_path l) = Some ob'
               /\ read_obj ob' (lf_range l) = read_obj ob (lf_range l)
               /\ expected s l = Some v /\ rd_consume obj load (lf_kind l) (read_obj ob (lf_range l)) = Some v
               /\ (v <> RdBytes [] -> lf_range l = None \/ exists lo hi, lf_range l = Some (lo, hi) /\ lo < hi)).
    { intros l Hin. assert (Hwl : rd_leaf_wf s l) by (rewrite Forall_forall in Hwf; apply Hwf; assumption).
      destruct (rd_wf_lookup s l Hwl) as (ob & Hob).
      destruct (rd_undamaged_read s f d l ob Ht (fun lo hi H => Hrng l lo hi Hin H) Hob (Hnd l Hin)) as (ob' & Hob' & Hsame).
      destruct (rd_wf_consume s l ob Hwl Hob) as (v & Hv1 & Hv2 & Hv3).
      exists ob, ob', v. auto 10. }
    assert (Hcons : forall c buf, rd_delivered batching ls s' (c, buf) ->
               exists l v, 0 <= c /\ nth_error ls (Z.to_nat c) = Some l /\ expected s l = Some v
                           /\ rd_consume_one obj load ls (c, buf) = Some (c, v)).
    { intros c buf Hd. destruct (rd_delivered_sound batching ls s' c buf Hrng Hd) as (Hc & l & ob'' & Hn & Hl'' & ->).
      destruct (Hleaf l (nth_error_In _ _ Hn)) as (ob & ob' & v & H1 & H2 & H3 & H4 & H5 & _).
      rewrite Hl'' in H2. inversion H2; subst ob''. exists l, v. split; [assumption|]. split; [assumption|].
      split; [assumption|]. rewrite <- (Z2Nat.id c) at 1 by assumption.
      rewrite (rd_consume_one_at ls _ l _ Hn), H3, H5, Z2Nat.id by assumption. reflexivity. }
    destruct (restore batching ls s') as [out|] eqn:Erun.
    2:{ exfalso. apply rd_restore_none in Erun as [Hf | ((c & buf) & Hd & Hc)].
        - apply rd_read_fails_iff in Hf as (l & Hin & Hm).
          destruct (Hleaf l Hin) as (ob & ob' & v & _ & H2 & _). congruence.
        - destruct (Hcons c buf Hd) as (l & v & _ & _ & _ & H). congruence. }
    exists out. split; [reflexivity|]. intros i l Hn.
    destruct (Hleaf l (nth_error_In _ _ Hn)) as (ob & ob' & v & H1 & H2 & H3 & H4 & H5 & H6).
    exists v. split; [assumption|]. split.
    - intros Hv. apply (rd_restore_some obj load batching ls s' out Erun).
      exists (Z.of_nat i, read_obj ob' (lf_range l)). split.
      + apply rd_delivered_complete; auto.
      + rewrite (rd_consume_one_at ls i l _ Hn), H3, H5. reflexivity.
    - intros v' Hin. apply (rd_restore_some obj load batching ls s' out Erun) in Hin as ((c & buf) & Hd & Hc).
      destruct (Hcons c buf Hd) as (l' & v'' & Hc0 & Hn' & He' & Hc').
      rewrite Hc' in Hc. inversion Hc; subst. rewrite Nat2Z.id in Hn'. congruence.
  Qed.
End Main.

(* ------------------------------------------------------------------ zero-length ranges; the pre-fix consumer *)
Section Corollaries.
  Variable obj : Type.
  Variable load : bytes -> option obj.
  Variable save : obj -> bytes.
  Hypothesis load_save : forall o, load (save o) = Some o.
  Hypothesis load_prefix_rejected :
    forall o t, 0 <= t < blen (save o) -> load (firstn (Z.to_nat t) (save o)) = None.

  (* an object from which only EMPTY ranges are read can be truncated anywhere (to 0 bytes included): the call still
     returns with the saved values ... *)
  Lemma rd_empty_ranges_survive_truncation batching s ls f t :
    rd_plan_wf obj save s ls -> 0 <= t ->
    (forall l, In l ls -> lf_path l = f -> exists lo, lf_range l = Some (lo, lo)) ->
    exists out, rd_restore obj load false batching ls (rd_apply (RdTruncated t) f s) = Some out /\
      forall i l, nth_error ls i = Some l ->
        exists v, rd_expected obj load s l = Some v
                  /\ (v <> RdBytes [] -> In (Z.of_nat i, v) out)
                  /\ (forall v', In (Z.of_nat i, v') out -> v' = v).
  Proof.
    intros Hwf Ht Hall.
    apply (rd_undamaged_succeeds obj load save load_save load_prefix_rejected batching s ls f (RdTruncated t) Hwf).
    - intros t' H. inversion H; subst. assumption.
    - intros l Hin [Hp Hd]. destruct (Hall l Hin Hp) as (lo & Hr). rewrite Hr in Hd. lia.
  Qed.

  (* ... but deleting it makes the call raise: the read request is still issued and open() fails *)
  Lemma rd_deleted_object_raises batching s ls f :
    rd_plan_wf obj save s ls -> (exists l, In l ls /\ lf_path l = f) ->
    rd_restore obj load false batching ls (rd_apply RdDeleted f s) = None.
  Proof.
    intros Hwf (l & Hin & Hp).
    apply (rd_damaged_raises obj load save load_save load_prefix_rejected batching s ls f RdDeleted Hwf).
    - intros t H. discriminate.
    - exists l. split; [assumption|]. split; [assumption | exact I].
  Qed.

  (* the pre-fix BatchedBufferConsumer: a slab [1;2;3;4] holding two 2-byte tensors, cut to 3 bytes, batching on -
     restore returns normally, the second tensor's target is left untouched; the current consumer raises *)
  Lemma rd_legacy_batched_swallows_refuted :
    exists (ls : list rd_leaf) (s : rd_store) (f t : Z) (i : nat) (l : rd_leaf),
      rd_plan_wf obj save s ls /\ 0 <= t /\ nth_error ls i = Some l /\ rd_leaf_damaged s f (RdTruncated t) l
      /\ rd_expected obj load s l = Some (RdBytes [3; 4])
      /\ (exists out, rd_restore obj load true true ls (rd_apply (RdTruncated t) f s) = Some out
                      /\ rd_final_of obj out (Z.of_nat i) = RdUntouched)
      /\ rd_restore obj load false true ls (rd_apply (RdTruncated t) f s) = None.
  Proof.
    exists [mkLeaf 0 (Some (0, 2)) (RdTensor 1 [2]); mkLeaf 0 (Some (2, 4)) (RdTensor 1 [2])],
           [(0, [1; 2; 3; 4])], 0, 3, 1%nat, (mkLeaf 0 (Some (2, 4)) (RdTensor 1 [2])).
    split; [|split; [lia | split; [reflexivity | split; [|split; [reflexivity | split]]]]].
    - split.
      + apply Forall_cons; [|apply Forall_cons; [|apply Forall_nil]]; unfold rd_leaf_wf;
          cbn [lf_kind lf_range lf_path prodZ fold_right];
          (split; [lia | split; [lia | split; [lia | split; [lia|]]]]);
          exists [1; 2; 3; 4]; (split; [reflexivity | unfold blen; cbn [length]; lia]).
      + intros i j li lj lo hi Hi Hj _ Hri Hrj Hlt.
        destruct i as [|[|i]]; destruct j as [|[|j]]; cbn in Hi, Hj; try reflexivity;
          try (destruct i; discriminate); try (destruct j; discriminate);
          inversion Hi; inversion Hj; subst; cbn in Hri, Hrj; congruence.
    - split; [reflexivity|]. cbn. lia.
    - eexists. split; [vm_compute; reflexivity | vm_compute; reflexivity].
    - vm_compute. reflexivity.
  Qed.
End Corollaries.

(* ------------------------------------------------------------------ entries -> leaves *)
Lemma rd_consecutive_last rs : forall cur fin,
  consecutive cur rs fin -> rs <> [] -> exists r, In r rs /\ snd r = fin.
Proof.
  induction rs as [|[lo hi] rs IH]; intros cur fin H Hne; [congruence|].
  cbn in H. destruct H as (-> & Hle & H). destruct rs as [|r' rs'].
  - cbn in H. subst. exists (cur, fin). split; [left; reflexivity | reflexivity].
  - destruct (IH hi fin H ltac:(discriminate)) as (r & Hr & Hs). exists r. split; [right; assumption | assumption].
Qed.

Section Entries.
  Variable obj : Type.
  Variable save : obj -> bytes.

  (* a tensor read (lim, t) is consistent with the undamaged store:
       buffer protocol: 0 < esize, extents >= 0;
                        byte_range [lo, hi): 0 <= lo, hi - lo = esize * numel, the object exists and hi <= its size;
                        no byte_range: the object exists and its size = esize * numel;
                        tiled (lim = Some b): 1 <= b, and a target that cannot be flattened has >= 1 dimension
       torch_save / object: no byte_range, the object is a torch.save archive *)
  Definition rd_tentry_wf (s : rd_store) (lt : option Z * rd_tentry) : Prop :=
    let t := snd lt in
    if te_bufproto t then
      0 < te_esize t /\ Forall (fun d => 0 <= d) (te_shape t)
      /\ match te_range t with
         | Some (lo, hi) => 0 <= lo /\ hi - lo = te_esize t * prodZ (te_shape t)
                            /\ exists ob, lookup s (te_loc t) = Some ob /\ hi <= blen ob
         | None => exists ob, lookup s (te_loc t) = Some ob /\ blen ob = te_esize t * prodZ (te_shape t)
         end
      /\ match fst lt with None => True | Some b => 1 <= b /\ (te_flat t = false -> te_shape t <> []) end
    else te_range t = None /\ exists o, lookup s (te_loc t) = Some (save o).

  (* the damage removes something the (untiled) read of t needs *)
  Definition rd_tentry_damaged (s : rd_store) (f : Z) (d : rd_damage) (t : rd_tentry) : Prop :=
    rd_leaf_damaged s f d (mkLeaf (te_loc t) (te_range t) RdLoad).

  Lemma rd_tensor_leaves_spec s lt :
    rd_tentry_wf s lt ->
    exists ls, rd_tensor_leaves (fst lt) (snd lt) = Some ls /\ Forall (rd_leaf_wf obj save s) ls
               /\ forall f d, (forall tt, d = RdTruncated tt -> 0 <= tt) ->
                    ((exists l, In l ls /\ rd_leaf_damaged s f d l) <-> rd_tentry_damaged s f d (snd lt)).
  Proof.
    destruct lt as [lim t]. unfold rd_tentry_wf, rd_tensor_leaves, rd_tentry_damaged. cbn [fst snd].
    destruct (te_bufproto t).
    2:{ intros (Hr & o & Hl). eexists. split; [reflexivity|]. split.
        - repeat constructor. unfold rd_leaf_wf. cbn. rewrite Hr. eauto.
        - intros f d _. split.
          + intros (l & [<- | []] & Hd). exact Hd.
          + intros Hd. eexists. split; [left; reflexivity | exact Hd]. }
    intros (He & Hs & Hrange & Hlim). pose proof (prodZ_nonneg _ Hs) as Hp.
    destruct lim as [b|].
    2:{ eexists. split; [reflexivity|]. split.
        - repeat constructor. unfold rd_leaf_wf. cbn.
          destruct (te_range t) as [[lo hi]|]; [destruct Hrange as (H1 & H2 & H3); auto 6 | auto].
        - intros f d _. split.
          + intros (l & [<- | []] & Hd). exact Hd.
          + intros Hd. eexists. split; [left; reflexivity | exact Hd]. }
    destruct Hlim as [Hb Hflat].
    remember (match te_range t with Some (lo, _) => lo | None => 0 end) as base eqn:Ebase.
    destruct (tile_partition (te_shape t) (te_flat t) (te_esize t) b base Hb He Hs Hflat)
      as (tiles & lens & Htile & Hcons & Hlen & _ & _ & Hne & Hpos).
    rewrite Htile. eexists. split; [reflexivity|].
    remember (base + te_esize t * prodZ (te_shape t)) as fin eqn:Efin.
    assert (Hbase : 0 <= base /\ exists ob, lookup s (te_loc t) = Some ob /\ fin <= blen ob
                    /\ (te_range t = None -> fin = blen ob /\ base = 0)
                    /\ (forall lo hi, te_range t = Some (lo, hi) -> lo = base /\ hi = fin)).
    { subst fin base. destruct (te_range t) as [[lo hi]|].
      - destruct Hrange as (H1 & H2 & ob & H3 & H4). split; [assumption|]. exists ob. split; [assumption|].
        split; [lia|]. split; [discriminate|]. intros lo' hi' H; inversion H; subst. lia.
      - destruct Hrange as (ob & H3 & H4). split; [lia|]. exists ob. split; [assumption|]. split; [lia|].
        split; [intros _; lia | discriminate]. }
    destruct Hbase as (Hb0 & ob & Hob & Hfin & Hnone & Hsome).
    pose proof (consecutive_bounds _ _ _ Hcons) as Hbnd.
    assert (Htl : forall tl, In tl tiles ->
              base <= fst (tile_range tl) /\ fst (tile_range tl) <= snd (tile_range tl) /\ snd (tile_range tl) <= fin
              /\ snd (tile_range tl) - fst (tile_range tl) = te_esize t * prodZ (tile_shape tl)).
    { intros tl Hin. pose proof (Hbnd (tile_range tl) (in_map tile_range _ _ Hin)) as (H1 & H2 & H3).
      rewrite Forall_forall in Hlen. pose proof (Hlen tl Hin). auto. }
    split.
    - rewrite Forall_forall. intros l Hl. apply in_map_iff in Hl as ([[lo hi] sh] & <- & Hin).
      destruct (Htl _ Hin) as (H1 & H2 & H3 & H4). unfold tile_range, tile_shape in *. cbn [fst snd] in *.
      unfold rd_leaf_wf. cbn [lf_kind lf_range lf_path].
      split; [assumption|]. split; [nia|]. split; [lia|]. split; [assumption|]. exists ob. split; [assumption | lia].
    - intros f d Htt. unfold rd_leaf_damaged at 2. cbn [lf_path lf_range]. split.
      + intros (l & Hl & Hpath & Hd). apply in_map_iff in Hl as ([[lo hi] sh] & <- & Hin).
        destruct (Htl _ Hin) as (H1 & H2 & H3 & H4). unfold tile_range, tile_shape in *. cbn [fst snd lf_path lf_range] in *.
        split; [assumption|]. destruct d as [|tt]; [exact I|]. destruct Hd as [Hd1 Hd2].
        destruct (te_range t) as [[lo0 hi0]|] eqn:Er.
        * destruct (Hsome lo0 hi0 eq_refl) as [E1 E2]. lia.
        * exists ob. rewrite <- Hpath. split; [assumption|]. destruct (Hnone eq_refl). lia.
      + intros [Hpath Hd]. destruct d as [|tt].
        * destruct tiles as [|[[lo hi] sh] tiles']; [congruence|].
          eexists. split; [left; reflexivity|]. split; [exact Hpath | exact I].
        * assert (Hgap : base < fin /\ tt < fin).
          { specialize (Htt tt eq_refl). destruct (te_range t) as [[lo0 hi0]|] eqn:Er.
            - destruct (Hsome lo0 hi0 eq_refl) as [E1 E2]. lia.
            - destruct Hd as (ob' & Hob' & Hlt). rewrite <- Hpath, Hob in Hob'. inversion Hob'; subst ob'.
              destruct (Hnone eq_refl). lia. }
          assert (Hpp : 0 < prodZ (te_shape t)) by nia.
          specialize (Hpos Hpp). rewrite Forall_forall in Hpos.
          destruct (rd_consecutive_last _ _ _ Hcons) as (r & Hr & Hlast).
          { destruct tiles; [congruence | discriminate]. }
          apply in_map_iff in Hr as ([[lo hi] sh] & <- & Hin).
          pose proof (Hpos _ Hin) as Hne'. unfold tile_range in Hne', Hlast. cbn [fst snd] in Hne', Hlast.
          exists (mkLeaf (te_loc t) (Some (lo, hi)) (RdTensor (te_esize t) sh)). split.
          -- apply in_map_iff. exists (lo, hi, sh). split; [reflexivity | assumption].
          -- split; [exact Hpath|]. cbn [lf_range]. lia.
  Qed.

  (* the planner turns consistent entries into a consistent leaf plan, and a leaf of the plan is damaged exactly when
     the damage removes something one of the entries' tensor reads needs *)
  Lemma rd_read_plan_wf s limit es :
    Forall (rd_tentry_wf s) (rd_parts limit es) ->
    exists ls, rd_read_plan limit es = Some ls /\ Forall (rd_leaf_wf obj save s) ls
               /\ forall f d, (forall tt, d = RdTruncated tt -> 0 <= tt) ->
                    ((exists l, In l ls /\ rd_leaf_damaged s f d l)
                     <-> (exists lt, In lt (rd_parts limit es) /\ rd_tentry_damaged s f d (snd lt))).
  Proof.
    unfold rd_read_plan, rd_concat_opt. generalize (rd_parts limit es) as parts. clear es.
    intros parts Hwf. rewrite Forall_forall in Hwf.
    set (fn := fun lt : option Z * rd_tentry => rd_tensor_leaves (fst lt) (snd lt)).
    destruct (rd_all_ok (map fn parts)) as [xs|] eqn:E.
    2:{ exfalso. apply rd_all_ok_none in E. apply in_map_iff in E as (lt & Hnone & Hin).
        destruct (rd_tensor_leaves_spec s lt (Hwf lt Hin)) as (ls & Hls & _). unfold fn in Hnone. congruence. }
    eexists. split; [reflexivity|].
    assert (Hxs : forall x, In x xs <-> exists lt, In lt parts /\ fn lt = Some x).
    { intros x. rewrite (rd_all_ok_in _ _ x E), in_map_iff. split; intros (lt & H1 & H2); exists lt; auto. }
    split.
    - rewrite Forall_forall. intros l Hl. apply in_concat in Hl as (x & Hx & Hl). apply Hxs in Hx as (lt & Hin & Hfn).
      destruct (rd_tensor_leaves_spec s lt (Hwf lt Hin)) as (ls & Hls & Hall & _).
      unfold fn in Hfn. rewrite Hls in Hfn. inversion Hfn; subst x. rewrite Forall_forall in Hall. auto.
    - intros f d Htt. split.
      + intros (l & Hl & Hd). apply in_concat in Hl as (x & Hx & Hl). apply Hxs in Hx as (lt & Hin & Hfn).
        destruct (rd_tensor_leaves_spec s lt (Hwf lt Hin)) as (ls & Hls & _ & Hiff).
        unfold fn in Hfn. rewrite Hls in Hfn. inversion Hfn; subst x. exists lt. split; [assumption|].
        apply (proj1 (Hiff f d Htt)). eauto.
      + intros (lt & Hin & Hd). destruct (rd_tensor_leaves_spec s lt (Hwf lt Hin)) as (ls & Hls & _ & Hiff).
        destruct (proj2 (Hiff f d Htt) Hd) as (l & Hl & Hd'). exists l. split; [|assumption].
        apply in_concat. exists ls. split; [|assumption]. apply Hxs. exists lt. auto.
  Qed.
End Entries.

(* ------------------------------------------------------------------ entries: the two main statements composed *)
Section EntriesMain.
  Variable obj : Type.
  Variable load : bytes -> option obj.
  Variable save : obj -> bytes.
  Hypothesis load_save : forall o, load (save o) = Some o.
  Hypothesis load_prefix_rejected :
    forall o t, 0 <= t < blen (save o) -> load (firstn (Z.to_nat t) (save o)) = None.

  Lemma rd_entries_damaged_raises batching s limit es ls f d :
    Forall (rd_tentry_wf obj save s) (rd_parts limit es) -> rd_read_plan limit es = Some ls -> rd_distinct_ranges ls ->
    (forall t, d = RdTruncated t -> 0 <= t) ->
    (exists lt, In lt (rd_parts limit es) /\ rd_tentry_damaged s f d (snd lt)) ->
    rd_restore obj load false batching ls (rd_apply d f s) = None.
  Proof.
    intros Hwf Hplan Hdist Ht Hd.
    destruct (rd_read_plan_wf obj save s limit es Hwf) as (ls' & Hp' & Hlw & Hiff).
    rewrite Hplan in Hp'. inversion Hp'; subst ls'.
    apply (rd_damaged_raises obj load save load_save load_prefix_rejected batching s ls f d); [split; assumption | assumption|].
    apply (proj2 (Hiff f d Ht)). assumption.
  Qed.

  Lemma rd_entries_undamaged_succeed batching s limit es ls f d :
    Forall (rd_tentry_wf obj save s) (rd_parts limit es) -> rd_read_plan limit es = Some ls -> rd_distinct_ranges ls ->
    (forall t, d = RdTruncated t -> 0 <= t) ->
    (forall lt, In lt (rd_parts limit es) -> ~ rd_tentry_damaged s f d (snd lt)) ->
    exists out, rd_restore obj load false batching ls (rd_apply d f s) = Some out /\
      forall i l, nth_error ls i = Some l ->
        exists v, rd_expected obj load s l = Some v
                  /\ (v <> RdBytes [] -> In (Z.of_nat i, v) out)
                  /\ (forall v', In (Z.of_nat i, v') out -> v' = v).
  Proof.
    intros Hwf Hplan Hdist Ht Hnd.
    destruct (rd_read_plan_wf obj save s limit es Hwf) as (ls' & Hp' & Hlw & Hiff).
    rewrite Hplan in Hp'. inversion Hp'; subst ls'.
    apply (rd_undamaged_succeeds obj load save load_save load_prefix_rejected batching s ls f d); [split; assumption | assumption|].
    intros l Hl Hd. destruct (proj1 (Hiff f d Ht) (ex_intro _ l (conj Hl Hd))) as (lt & Hin & Hd'). exact (Hnd lt Hin Hd').
  Qed.
End EntriesMain.

(* ------------------------------------------------------------------ the assumed law of torch.load is satisfiable *)
Lemma rd_toy_load_save o : rd_toy_load (rd_toy_save o) = Some o.
Proof. unfold rd_toy_load, rd_toy_save. rewrite Z.eqb_refl. reflexivity. Qed.

Lemma rd_toy_prefix_rejected o t :
  0 <= t < blen (rd_toy_save o) -> rd_toy_load (firstn (Z.to_nat t) (rd_toy_save o)) = None.
Proof.
  unfold rd_toy_save. intros Ht. assert (Hlen : blen (blen o :: o) = 1 + blen o) by (unfold blen; cbn [length]; lia).
  rewrite Hlen in Ht. destruct (Z.to_nat t) as [|n] eqn:En; [reflexivity|].
  cbn [firstn rd_toy_load].
  assert (Hn : blen (firstn n o) <> blen o).
  { unfold blen. rewrite firstn_length. unfold blen in Ht. lia. }
  destruct (blen (firstn n o) =? blen o) eqn:E; [apply Z.eqb_eq in E; contradiction | reflexivity].
Qed.
