(* C16: the arithmetic translated from the source on every run (gen/ChunkGen.v, written by translator/gen_chunk.py)
   agrees with the hand-written models.  Each *_g function below is the hand model with every size expression /
   condition replaced by its generated counterpart; the lemmas show the two coincide, so the property theorems
   about model/Chunk.v and model/Batch.v speak about the expressions that are in the source now.  If the source
   expression changes (floor for ceil, > for >=, a different lower bound ...) the generated definition changes and
   these proofs stop compiling. *)
From TS Require Import model.Base model.Chunk model.Batch gen.ChunkGen.

(* ------------------------------------------------------------------ chunk_tensor *)
Definition chunk_tensor_g (shape : list Z) (dim : nat) (esize csz : Z) : option (list box) :=
  let sh := shape1 shape in
  if csz <=? 0 then None
  else if (length sh <=? dim)%nat then None
  else
    let tensor_sz_bytes := g_chunk_tensor_sz_bytes (prodZ sh) esize in
    let n_chunks := g_chunk_n_chunks tensor_sz_bytes csz in
    match torch_chunk (nth dim sh 0) n_chunks with
    | None => None
    | Some lens => Some (boxes_along dim (map (fun _ => 0) sh) sh 0 lens)
    end.

Lemma chunk_tensor_g_eq shape dim esize csz : chunk_tensor_g shape dim esize csz = chunk_tensor shape dim esize csz.
Proof. reflexivity. Qed.

(* ------------------------------------------------------------------ subdivide_shard *)
Definition subdivide_shard_g (offs sizes : list Z) (dim : nat) (esize maxsz : Z) : option (list box) :=
  if maxsz <=? 0 then None
  else if (length sizes <=? dim)%nat then None
  else
    let sd := nth dim sizes 0 in
    if sd =? 0 then None
    else
      let slice_sz := g_sub_slice_sz (prodZ sizes) sd esize in
      if slice_sz =? 0 then None
      else
        let chunk_length := g_sub_chunk_length maxsz slice_sz in
        let n_chunks := g_sub_n_chunks sd chunk_length in
        Some (map (fun i => (set_nth dim (nth dim offs 0 + g_sub_start i chunk_length) offs,
                             set_nth dim (g_sub_length i chunk_length sd) sizes))
                  (zrange n_chunks)).

Lemma subdivide_shard_g_eq offs sizes dim esize maxsz :
  subdivide_shard_g offs sizes dim esize maxsz = subdivide_shard offs sizes dim esize maxsz.
Proof. reflexivity. Qed.

(* ------------------------------------------------------------------ prepare_read_tiled *)
Fixpoint tile_ranges_g (esize : Z) (rest : list Z) (base : option Z) (offset : Z) (lens : list Z) : list tile_t :=
  match lens with
  | [] => []
  | l :: ls =>
      let chunk_sz_bytes := g_tile_chunk_sz_bytes (l * prodZ rest) esize in
      let r := match base with
               | None => g_tile_range_nobase offset chunk_sz_bytes
               | Some b => g_tile_range_base b offset chunk_sz_bytes
               end in
      (fst r, snd r, l :: rest) :: tile_ranges_g esize rest base (offset + chunk_sz_bytes) ls
  end.

Definition tile_g (shape : list Z) (flat : bool) (esize limit : Z) (base : option Z) : option (list tile_t) :=
  if limit <=? 0 then None
  else
    let size := esize * prodZ shape in
    let n := g_tile_num_chunks size limit in
    let dr := if flat then Some (prodZ shape, [])
              else match shape with [] => None | d :: r => Some (d, r) end in
    match dr with
    | None => None
    | Some (d, rest) =>
        match torch_chunk d n with
        | None => None
        | Some lens => Some (tile_ranges_g esize rest base 0 lens)
        end
    end.

Lemma tile_ranges_g_eq esize rest base lens : forall offset,
  tile_ranges_g esize rest base offset lens
  = tile_ranges esize rest (match base with None => 0 | Some b => b end + offset) lens.
Proof.
  induction lens as [|l ls IH]; intros offset; [reflexivity|].
  cbn [tile_ranges_g tile_ranges]. rewrite IH.
  unfold g_tile_chunk_sz_bytes, g_tile_range_nobase, g_tile_range_base.
  destruct base as [b|]; cbn [fst snd].
  - replace (b + (offset + l * prodZ rest * esize)) with (b + offset + l * prodZ rest * esize) by lia.
    reflexivity.
  - replace (0 + (offset + l * prodZ rest * esize)) with (0 + offset + l * prodZ rest * esize) by lia.
    replace (0 + offset) with offset by lia. reflexivity.
Qed.

(* the entry's byte range, when present, only contributes its start *)
Lemma tile_g_eq shape flat esize limit base :
  tile_g shape flat esize limit base = tile shape flat esize limit (match base with None => 0 | Some b => b end).
Proof.
  unfold tile_g, tile, g_tile_num_chunks.
  destruct (limit <=? 0); [reflexivity|].
  destruct (if flat then Some (prodZ shape, []) else match shape with [] => None | d :: r => Some (d, r) end)
    as [[d rest]|]; [|reflexivity].
  destruct (torch_chunk d _); [|reflexivity].
  rewrite tile_ranges_g_eq. rewrite Z.add_0_r. reflexivity.
Qed.

(* ------------------------------------------------------------------ batch_write_requests *)
(* a request as the code sees it: (path, isinstance(stager, TensorBufferStager), is_batchable(stager), numel, esize) *)
Definition bw_step_g (T : Z) (st : bstate) (w : Z * bool * bool * Z * Z) : bstate :=
  let '(p, is_tbs, batchable, numel, esize) := w in
  let w' : wreq := (p, is_tbs && batchable, g_bw_tensor_sz_bytes numel esize) in
  if g_bw_cond_not_batchable is_tbs batchable then
    {| bs_closed := bs_closed st; bs_cur := bs_cur st; bs_pass := bs_pass st ++ [w']; bs_reloc := bs_reloc st |}
  else
    let tensor_sz_bytes := g_bw_tensor_sz_bytes numel esize in
    if g_bw_cond_large tensor_sz_bytes T then
      {| bs_closed := bs_closed st; bs_cur := bs_cur st; bs_pass := bs_pass st ++ [w']; bs_reloc := bs_reloc st |}
    else
      let '(closed, cur) :=
        if g_bw_cond_new_slab (slab_sz (bs_cur st)) tensor_sz_bytes T
        then (bs_closed st ++ [bs_cur st], [])
        else (bs_closed st, bs_cur st) in
      let r := g_bw_byte_range (slab_sz cur) tensor_sz_bytes in
      {| bs_closed := closed; bs_cur := cur ++ [(p, fst r, snd r)]; bs_pass := bs_pass st;
         bs_reloc := dict_set Z.eqb p (blen closed, fst r, snd r) (bs_reloc st) |}.

Lemma bw_step_g_eq T st p is_tbs batchable numel esize :
  bw_step_g T st (p, is_tbs, batchable, numel, esize)
  = bw_step T st (p, is_tbs && batchable, numel * esize).
Proof.
  unfold bw_step_g, bw_step, g_bw_cond_not_batchable, g_bw_cond_large, g_bw_cond_new_slab, g_bw_byte_range,
    g_bw_tensor_sz_bytes.
  destruct is_tbs, batchable; cbn [negb orb andb]; reflexivity.
Qed.

(* ------------------------------------------------------------------ batch_read_requests *)
Lemma br_adjusted_eq (r : ranged) L :
  g_br_adjusted (fst (snd (fst r))) (snd (snd (fst r))) L = (fst (snd (fst r)) - L, snd (snd (fst r)) - L).
Proof. reflexivity. Qed.

(* merge_location with the generated adjustment *)
Definition merge_location_g (rs : list ranged) (loc : Z) : rplan :=
  let mine := at_location loc rs in
  let '(L, H) := merged_range mine in
  RMerged loc L H (H - L)
          (dict_of range_eqb (map (fun r => (g_br_adjusted (fst (snd (fst r))) (snd (snd (fst r))) L, snd r)) mine)).

Lemma merge_location_g_eq rs loc : merge_location_g rs loc = merge_location rs loc.
Proof. reflexivity. Qed.

(* all of the above in one statement *)
Lemma translated_arithmetic_agrees :
  (forall shape dim esize csz, chunk_tensor_g shape dim esize csz = chunk_tensor shape dim esize csz)
  /\ (forall offs sizes dim esize maxsz,
        subdivide_shard_g offs sizes dim esize maxsz = subdivide_shard offs sizes dim esize maxsz)
  /\ (forall shape flat esize limit base,
        tile_g shape flat esize limit base = tile shape flat esize limit (match base with None => 0 | Some b => b end))
  /\ (forall T st p is_tbs batchable numel esize,
        bw_step_g T st (p, is_tbs, batchable, numel, esize) = bw_step T st (p, is_tbs && batchable, numel * esize))
  /\ (forall rs loc, merge_location_g rs loc = merge_location rs loc).
Proof.
  split; [exact chunk_tensor_g_eq|]. split; [exact subdivide_shard_g_eq|]. split; [exact tile_g_eq|].
  split; [exact bw_step_g_eq | exact merge_location_g_eq].
Qed.
