(* C09: proofs about model/AsyncCapture.v.  The facts about the copy decision are proved on the function generated
   from the source on this run (gen/DtypeGen.v): they fail to compile when the decision stops copying. *)
From TS Require Import model.Base model.Dtype gen.DtypeGen gen.SchedGen model.AsyncCapture.

(* ---------------------------------------------------------------- the generated copy decision *)
(* async + buffer protocol => clone, whatever the layout *)
Lemma bp_async_copies : forall c n, should_copy_cpu_tensor serializer_BUFFER_PROTOCOL_value true c n = true.
Proof. intros [|] [|]; vm_compute; reflexivity. Qed.

(* sync + buffer protocol: clone exactly when not contiguous *)
Lemma bp_sync_copies_iff_noncontig : forall c n, should_copy_cpu_tensor serializer_BUFFER_PROTOCOL_value false c n = negb c.
Proof. intros [|] [|]; vm_compute; reflexivity. Qed.

(* the async flag does not reach the torch_save decision *)
Lemma save_decision_ignores_async : forall c n,
  should_copy_cpu_tensor serializer_TORCH_SAVE_value true c n = should_copy_cpu_tensor serializer_TORCH_SAVE_value false c n.
Proof. intros [|] [|]; vm_compute; reflexivity. Qed.

(* ---------------------------------------------------------------- staging *)
Lemma stage_async_is_copy : forall ser m l, is_copy (stage should_copy_cpu_tensor ser true m l) = true.
Proof.
  intros ser m l. destruct l as [t | t | c | ts]; cbn [stage].
  - unfold stage_buf. rewrite bp_async_copies. reflexivity.
  - unfold stage_save. destruct (should_copy_cpu_tensor _ _ _ _); reflexivity.
  - reflexivity.
  - reflexivity.
Qed.

Lemma no_alias_after_return : forall ser m ls,
  Forall (fun s => is_copy s = true) (stage_all should_copy_cpu_tensor ser true m ls).
Proof.
  intros ser m ls. unfold stage_all. induction ls as [| l ls IH]; cbn [map]; constructor;
    [apply stage_async_is_copy | exact IH].
Qed.

(* what a staged buffer-protocol tensor resolves to in the memory it was staged from does not depend on the decision *)
Lemma resolve_stage_buf : forall decide a m t, resolve m (stage_buf decide a m t) = rd (t_view t) (mget m (t_cell t)).
Proof.
  intros decide a m t. unfold stage_buf.
  destruct (decide _ _ _ _); [reflexivity |]. destruct (t_contig t); reflexivity.
Qed.

Lemma resolve_stage_flag : forall ser m l,
  resolve m (stage should_copy_cpu_tensor ser true m l) = resolve m (stage should_copy_cpu_tensor ser false m l).
Proof.
  intros ser m l. destruct l as [t | t | c | ts]; cbn [stage].
  - rewrite !resolve_stage_buf. reflexivity.
  - unfold stage_save. rewrite save_decision_ignores_async. reflexivity.
  - reflexivity.
  - cbn [resolve]. f_equal. apply map_ext. intros t. rewrite !resolve_stage_buf. reflexivity.
Qed.

(* ---------------------------------------------------------------- runs *)
Lemma nth_copy : forall staged i, Forall (fun s => is_copy s = true) staged -> is_copy (nth i staged (Copy [])) = true.
Proof.
  intros staged i H. revert i. induction H as [| s l Hs Hl IH]; intros [| i]; cbn [nth]; try reflexivity.
  - exact Hs.
  - apply IH.
Qed.

Lemma resolve_copy : forall m m' s, is_copy s = true -> resolve m s = resolve m' s.
Proof. intros m m' [b | c v] H; [reflexivity | discriminate H]. Qed.

(* with copies only, the bytes written by ANY interleaving of mutations and writes are the bytes of the memory m0 *)
Lemma run_copies : forall staged m0, Forall (fun s => is_copy s = true) staged ->
  forall steps m, run staged m steps = map (fun i => (i, resolve m0 (nth i staged (Copy [])))) (writes steps).
Proof.
  intros staged m0 H. induction steps as [| s steps IH]; intros m; [reflexivity |].
  destruct s as [c b | i]; cbn [run writes flat_map app map].
  - apply IH.
  - f_equal; [| apply IH]. f_equal. apply resolve_copy. apply nth_copy. exact H.
Qed.

Lemma written_bytes_independent_of_mutations : forall ser m ls steps,
  async_run ser m ls steps =
  map (fun i => (i, resolve m (nth i (stage_all should_copy_cpu_tensor ser true m ls) (Copy [])))) (writes steps).
Proof. intros ser m ls steps. unfold async_run. apply run_copies. apply no_alias_after_return. Qed.

Lemma nth_map_resolve : forall m (l : list sbuf) i, nth i (map (resolve m) l) [] = resolve m (nth i l (Copy [])).
Proof. intros m l. induction l as [| s l IH]; intros [| i]; cbn [map nth]; try reflexivity. apply IH. Qed.

Lemma sync_bytes_eq : forall ser m ls,
  sync_bytes ser m ls = map (resolve m) (stage_all should_copy_cpu_tensor ser true m ls).
Proof.
  intros ser m ls. unfold sync_bytes, stage_all. rewrite !map_map. apply map_ext. intros l. symmetry. apply resolve_stage_flag.
Qed.

Lemma async_equiv_sync : forall ser m ls steps,
  async_run ser m ls steps = map (fun i => (i, nth i (sync_bytes ser m ls) [])) (writes steps).
Proof.
  intros ser m ls steps. rewrite written_bytes_independent_of_mutations. apply map_ext. intros i.
  rewrite sync_bytes_eq, nth_map_resolve. reflexivity.
Qed.

Lemma entries_ignore_async : forall ls, map (entry_of true) ls = map (entry_of false) ls.
Proof. intros ls. apply map_ext. intros [t | t | c | ts]; reflexivity. Qed.

(* ---------------------------------------------------------------- the legacy decision aliases *)
Definition wit_tensor : tensor := {| t_cell := 7; t_view := [0; 1; 2; 3]; t_contig := true; t_whole := true |}.
Definition wit_mem : mem := [(7, [10; 20; 30; 40])].
Definition wit_steps : list step := [Mut 7 [11; 21; 31; 41]; Wr 0].

Lemma legacy_aliases : stage_buf legacy_decide true wit_mem wit_tensor = Alias 7 [0; 1; 2; 3].
Proof. reflexivity. Qed.

Lemma legacy_run_differs :
  run (stage_all legacy_decide ser_id true wit_mem [LBuf wit_tensor]) wit_mem wit_steps = [(0%nat, [11; 21; 31; 41])] /\
  map (fun i => (i, resolve wit_mem (nth i (stage_all legacy_decide ser_id true wit_mem [LBuf wit_tensor]) (Copy []))))
      (writes wit_steps) = [(0%nat, [10; 20; 30; 40])].
Proof. split; vm_compute; reflexivity. Qed.

(* ---------------------------------------------------------------- staging is over when execute_write_reqs returns *)
Lemma phase1_exit : forall n_rfs n_stg, 0 <= n_rfs -> 0 <= n_stg ->
  gen_write_phase1_continue n_rfs n_stg = false -> n_rfs = 0 /\ n_stg = 0.
Proof.
  intros a b Ha Hb H. unfold gen_write_phase1_continue in H.
  apply Bool.negb_false_iff in H. apply Z.eqb_eq in H. lia.
Qed.
