(* C02 / C03, synchronous take: soundness of the ordering checker [well_ordered].
   For EVERY program accepted by the checker, every number of ranks, every number of payload writes per rank and
   every interleaving of the ranks' actions (including failures; a crash is "stop here", so every reachable
   state is a crash cut):  metadata started -> all payload complete ; returned -> metadata complete. *)
From TS Require Import model.Base gen.CommitGen model.Commit.
From Coq Require Import Arith Lia.
Local Close Scope Z_scope.
Local Open Scope nat_scope.

(* ------------------------------------------------------------------ lists *)
Lemma In_upd {A} (i : nat) (v z : A) l : In z (upd i v l) -> z = v \/ In z l.
Proof.
  revert i; induction l as [|x l IH]; intros i H; [destruct i; cbn in H; tauto|].
  destruct i as [|i]; cbn in H.
  - destruct H as [H|H]; [left; congruence | right; right; exact H].
  - destruct H as [H|H]; [right; left; exact H|]. destruct (IH i H) as [E|E]; [left; exact E | right; right; exact E].
Qed.

Lemma nth_error_upd_same {A} (i : nat) (v : A) l : i < length l -> nth_error (upd i v l) i = Some v.
Proof. revert i; induction l as [|x l IH]; intros i H; cbn in *; [lia|]. destruct i; cbn; [reflexivity | apply IH; lia]. Qed.

Lemma nth_error_upd_other {A} (i j : nat) (v : A) l : i <> j -> nth_error (upd i v l) j = nth_error l j.
Proof.
  revert i j; induction l as [|x l IH]; intros i j H; [destruct i; reflexivity|].
  destruct i, j; cbn; try reflexivity; try lia. apply IH; lia.
Qed.

Lemma nth_error_nth {A} (l : list A) i d : i < length l -> nth_error l i = Some (nth i l d).
Proof. revert i; induction l as [|x l IH]; intros i H; cbn in *; [lia|]. destruct i; cbn; [reflexivity | apply IH; lia]. Qed.

Lemma nth_error_In' {A} (l : list A) i x : nth_error l i = Some x -> In x l.
Proof. apply nth_error_In. Qed.

(* ------------------------------------------------------------------ barrier counting *)
Lemma nb_0 prog : nb prog 0 = 0.
Proof. destruct prog; reflexivity. Qed.

Lemma nb_S prog k : nb prog (S k) = nb prog k + match nth_error prog k with Some SBarrier => 1 | _ => 0 end.
Proof.
  revert k; induction prog as [|s p IH]; intros k.
  - destruct k; cbn; reflexivity.
  - destruct k as [|k].
    + change (nb (s :: p) 1) with ((if stmt_eqb s SBarrier then 1 else 0) + nb p 0). rewrite !nb_0. cbn [nth_error]. destruct s; cbn; reflexivity.
    + change (nb (s :: p) (S (S k))) with ((if stmt_eqb s SBarrier then 1 else 0) + nb p (S k)).
      change (nb (s :: p) (S k)) with ((if stmt_eqb s SBarrier then 1 else 0) + nb p k).
      rewrite IH. cbn [nth_error]. lia.
Qed.

Lemma nb_mono prog k k' : k <= k' -> nb prog k <= nb prog k'.
Proof. induction 1 as [|k' _ IH]; [lia|]. rewrite nb_S. lia. Qed.

Lemma nb_S_barrier prog k : nth_error prog k = Some SBarrier -> nb prog (S k) = S (nb prog k).
Proof. intros H. rewrite nb_S, H. lia. Qed.

Lemma nb_S_other prog k s : nth_error prog k = Some s -> s <> SBarrier -> nb prog (S k) = nb prog k.
Proof. intros H Hs. rewrite nb_S, H. destruct s; try lia. congruence. Qed.

Lemma count_if_unique (p : stmt -> bool) prog : count_if p prog = 1 ->
  forall i j a b, nth_error prog i = Some a -> p a = true -> nth_error prog j = Some b -> p b = true -> i = j.
Proof.
  induction prog as [|s r IH]; intros Hc i j a b Hi Ha Hj Hb; [destruct i; discriminate|].
  cbn in Hc.
  assert (Hzero : forall l k z, count_if p l = 0 -> nth_error l k = Some z -> p z = true -> False).
  { clear. induction l as [|y l IH]; intros k z H0 Hk Hz; [destruct k; discriminate|]. cbn in H0.
    destruct k; cbn in Hk.
    - inversion Hk; subst. rewrite Hz in H0. lia.
    - destruct (p y); [lia|]. eapply IH; eauto. }
  destruct i as [|i], j as [|j]; cbn in Hi, Hj; try reflexivity.
  - inversion Hi; subst. rewrite Ha in Hc. exfalso. eapply (Hzero r j b); [lia | exact Hj | exact Hb].
  - inversion Hj; subst. rewrite Hb in Hc. exfalso. eapply (Hzero r i a); [lia | exact Hi | exact Ha].
  - f_equal. destruct (p s); [exfalso; eapply (Hzero r i a); [lia | exact Hi | exact Ha]|].
    eapply IH; eauto.
Qed.

(* ------------------------------------------------------------------ the safety argument *)
Section Safe.
Variable prog : list stmt.
Variables c b1 m b2 : nat.
Hypothesis Hpos : positions_ok prog c b1 m b2 = true.

Lemma pos_facts :
  c < b1 /\ b1 < m /\ m < b2 /\
  nth_error prog c = Some SComplete /\ nth_error prog b1 = Some SBarrier /\
  nth_error prog m = Some SWriteMetaRank0 /\ nth_error prog b2 = Some SBarrier /\
  count_if (fun s => stmt_eqb s SComplete) prog = 1 /\ count_if is_meta prog = 1.
Proof.
  pose proof Hpos as Hp. unfold positions_ok in Hp.
  destruct (nth_error prog c) as [[]|] eqn:E1; destruct (nth_error prog b1) as [[]|] eqn:E2;
    destruct (nth_error prog m) as [[]|] eqn:E3; destruct (nth_error prog b2) as [[]|] eqn:E4;
    try (rewrite ?andb_false_r in Hp; cbn in Hp; discriminate).
  repeat (apply andb_prop in Hp; destruct Hp as [Hp ?]).
  repeat match goal with H : (_ <? _) = true |- _ => apply Nat.ltb_lt in H end.
  repeat match goal with H : (_ =? _) = true |- _ => apply Nat.eqb_eq in H end.
  repeat split; auto.
Qed.

Lemma only_complete_at_c k : nth_error prog k = Some SComplete -> k = c.
Proof.
  intros H. destruct pos_facts as (_ & _ & _ & Hc & _ & _ & _ & Hu & _).
  eapply (count_if_unique _ prog Hu k c SComplete SComplete); eauto.
Qed.

Lemma only_meta_at_m k s : nth_error prog k = Some s -> is_meta s = true -> k = m /\ s = SWriteMetaRank0.
Proof.
  intros H Hs. destruct pos_facts as (_ & _ & _ & _ & _ & Hm & _ & _ & Hu).
  assert (k = m) by (eapply (count_if_unique _ prog Hu k m s SWriteMetaRank0); eauto).
  subst k. rewrite Hm in H. inversion H. tauto.
Qed.

Definition Inv (g : gstate) : Prop :=
  (forall x y, In x (ranks g) -> In y (ranks g) -> passed prog x <= arrived prog y) /\
  (forall x, In x (ranks g) -> waiting x = true -> nth_error prog (pc x) = Some SBarrier) /\
  (forall x, In x (ranks g) -> c < pc x -> wf x = wn x) /\
  (forall i x, nth_error (ranks g) i = Some x -> mw x = true -> i = 0 /\ pc x = m) /\
  (meta g <> MAbsent -> exists x0, nth_error (ranks g) 0 = Some x0 /\ m <= pc x0) /\
  (forall x0, nth_error (ranks g) 0 = Some x0 -> m < pc x0 -> meta g = MComplete).

(* generic preservation: rank r changes from x to x', metadata state from meta g to m' *)
Lemma Inv_change g r x x' m' :
  Inv g -> nth_error (ranks g) r = Some x ->
  pc x <= pc x' ->
  (forall y, In y (ranks g) -> passed prog x' <= arrived prog y) ->
  passed prog x' <= arrived prog x' -> arrived prog x <= arrived prog x' ->
  (waiting x' = true -> nth_error prog (pc x') = Some SBarrier) ->
  (c < pc x' -> wf x' = wn x') ->
  (mw x' = true -> r = 0 /\ pc x' = m) ->
  (m' <> MAbsent -> meta g <> MAbsent \/ (r = 0 /\ m <= pc x')) ->
  (r = 0 -> m < pc x' -> m' = MComplete) ->
  (r <> 0 -> m' = meta g) ->
  Inv {| ranks := upd r x' (ranks g); meta := m' |}.
Proof.
  intros (Ia & Ib & Ic & Id & Ie & If) Hx Hpc Hpass Hself Harr Hwait Hwf Hmw Hmeta1 Hmeta2 Hmeta3.
  assert (Hr : r < length (ranks g)) by (apply nth_error_Some; congruence).
  assert (Hxin : In x (ranks g)) by (eapply nth_error_In; eauto).
  unfold Inv; cbn [ranks meta]. repeat split.
  - intros a b Ha Hb. apply In_upd in Ha. apply In_upd in Hb.
    destruct Ha as [->|Ha], Hb as [->|Hb].
    + exact Hself.
    + apply Hpass; exact Hb.
    + specialize (Ia a x Ha Hxin). lia.
    + apply Ia; assumption.
  - intros a Ha. apply In_upd in Ha. destruct Ha as [->|Ha]; [exact Hwait | apply Ib; exact Ha].
  - intros a Ha. apply In_upd in Ha. destruct Ha as [->|Ha]; [exact Hwf | apply Ic; exact Ha].
  - destruct (Nat.eq_dec i r) as [->|Hne].
    + rewrite nth_error_upd_same in H by exact Hr. inversion H; subst. apply Hmw; assumption.
    + rewrite nth_error_upd_other in H by lia. eapply Id; eauto.
  - destruct (Nat.eq_dec i r) as [->|Hne].
    + rewrite nth_error_upd_same in H by exact Hr. inversion H; subst. apply Hmw; assumption.
    + rewrite nth_error_upd_other in H by lia. eapply Id; eauto.
  - intros Hm'. destruct (Nat.eq_dec r 0) as [->|Hne].
    + exists x'. rewrite nth_error_upd_same by exact Hr. split; [reflexivity|].
      destruct (Hmeta1 Hm') as [Hold|[_ Hge]]; [|exact Hge].
      destruct (Ie Hold) as (x0 & Hx0 & Hge). rewrite Hx in Hx0. inversion Hx0; subst. lia.
    + rewrite nth_error_upd_other by lia. apply Ie. rewrite <- (Hmeta3 Hne). exact Hm'.
  - intros x0 Hx0 Hlt. destruct (Nat.eq_dec r 0) as [->|Hne].
    + rewrite nth_error_upd_same in Hx0 by exact Hr. inversion Hx0; subst. apply Hmeta2; [reflexivity | exact Hlt].
    + rewrite nth_error_upd_other in Hx0 by lia. rewrite (Hmeta3 Hne). eapply If; eauto.
Qed.

Ltac fin Ib Ic Id If Hx :=
  solve [ lia | discriminate | reflexivity | assumption
        | intros; left; assumption
        | intros; apply Ib; assumption
        | intros; apply Ic; assumption
        | let Hw := fresh in intros Hw; destruct (Id _ _ Hx Hw); tauto
        | let Hlt := fresh in intros -> Hlt; eapply If; eauto
        | intros; reflexivity ].

Lemma forallb_In {A} (p : A -> bool) l x : forallb p l = true -> In x l -> p x = true.
Proof. intros H Hin. rewrite forallb_forall in H. apply H; exact Hin. Qed.

Lemma Inv_act g r a g' : Inv g -> act prog g r a = Some g' -> Inv g'.
Proof.
  intros HI H. pose proof HI as (Ia & Ib & Ic & Id & Ie & If).
  destruct pos_facts as (Hcb & Hbm & Hmb & Hc & Hb1 & Hm & Hb2 & _ & _).
  unfold act in H.
  destruct (r <? length (ranks g)) eqn:Hr; cbn [negb] in H; [|discriminate]. apply Nat.ltb_lt in Hr.
  set (x := nth r (ranks g) dflt) in *.
  assert (Hx : nth_error (ranks g) r = Some x) by (apply nth_error_nth; exact Hr).
  assert (Hxin : In x (ranks g)) by (eapply nth_error_In; eauto).
  destruct (st x) eqn:Hst; try discriminate.
  assert (Hself : passed prog x <= arrived prog x) by (unfold passed, arrived; lia).
  assert (Hothers : forall y, In y (ranks g) -> passed prog x <= arrived prog y) by (intros y Hy; apply Ia; assumption).
  assert (Hnowait : forall k s, k = pc x -> nth_error prog k = Some s -> s <> SBarrier -> waiting x = false).
  { intros k s -> Hs Hne. destruct (waiting x) eqn:W; [|reflexivity]. rewrite (Ib x Hxin W) in Hs. inversion Hs; congruence. }
  destruct a; destruct (nth_error prog (pc x)) as [s|] eqn:Hcur; try discriminate.
  - (* AWBegin *) destruct s; try discriminate. destruct (wb x <? wn x); [|discriminate]. inversion H; subst g'; clear H.
    eapply Inv_change; eauto; cbn [pc waiting wn wb wf mw st]; unfold passed, arrived in *; cbn [pc waiting]; fin Ib Ic Id If Hx.
  - (* AWEnd *) destruct s; try discriminate. destruct (wf x <? wb x); [|discriminate]. inversion H; subst g'; clear H.
    assert (pc x = c) by (apply only_complete_at_c; exact Hcur).
    eapply Inv_change; eauto; cbn [pc waiting wn wb wf mw st]; unfold passed, arrived in *; cbn [pc waiting]; fin Ib Ic Id If Hx.
  - (* AAdvance *) destruct s; try discriminate. destruct (wf x =? wn x) eqn:Hfin; [|discriminate]. inversion H; subst g'; clear H.
    apply Nat.eqb_eq in Hfin.
    assert (Hpcc : pc x = c) by (apply only_complete_at_c; exact Hcur).
    assert (Hw : waiting x = false) by (eapply (Hnowait (pc x)); [reflexivity | exact Hcur | discriminate]).
    assert (Hnb : nb prog (S (pc x)) = nb prog (pc x)) by (eapply nb_S_other; [exact Hcur | discriminate]).
    eapply Inv_change; eauto; unfold set_pc; cbn [pc waiting wn wb wf mw st]; unfold passed, arrived in *; cbn [pc waiting];
      try rewrite Hnb; try rewrite Hw in *; try fin Ib Ic Id If Hx.
    all: try solve [ intros y Hy; specialize (Hothers y Hy); lia ].
  - (* AArrive *) destruct s; try discriminate. destruct (waiting x) eqn:Hw; [discriminate|]. inversion H; subst g'; clear H.
    eapply Inv_change; eauto; cbn [pc waiting wn wb wf mw st]; unfold passed, arrived in *; cbn [pc waiting]; try rewrite Hw;
      try fin Ib Ic Id If Hx.
    all: try solve [ intros y Hy; specialize (Hothers y Hy); lia ].
  - (* APass *) destruct s; try discriminate.
    destruct (waiting x && forallb _ (ranks g)) eqn:Hg; [|discriminate]. inversion H; subst g'; clear H.
    apply andb_prop in Hg. destruct Hg as [Hw Hall].
    assert (Hnb : nb prog (S (pc x)) = S (nb prog (pc x))) by (apply nb_S_barrier; exact Hcur).
    assert (Hpcm : pc x <> m) by (intros E; rewrite E, Hm in Hcur; discriminate).
    assert (Hpcc : pc x <> c) by (intros E; rewrite E, Hc in Hcur; discriminate).
    eapply Inv_change; eauto; unfold set_pc; cbn [pc waiting wn wb wf mw st]; unfold passed, arrived in *; cbn [pc waiting];
      try rewrite Hnb; try rewrite Hw; try fin Ib Ic Id If Hx.
    all: try solve [ intros y Hy; pose proof (forallb_In _ _ y Hall Hy) as Hy'; cbn beta in Hy'; apply Nat.leb_le in Hy'; lia ].
    all: try solve [ intros Hlt; apply Ic; [exact Hxin | lia] ].
    all: try solve [ intros -> Hlt; eapply If; eauto; lia ].
  - (* AMetaBegin *)
    destruct (is_meta s && (stmt_eqb s SWriteMetaAll || (r =? 0)) && negb (mw x)) eqn:Hg; [|discriminate].
    inversion H; subst g'; clear H.
    apply andb_prop in Hg. destruct Hg as [Hg Hnm]. apply andb_prop in Hg. destruct Hg as [Hmeta Hwho].
    destruct (only_meta_at_m _ _ Hcur Hmeta) as [Hpcm ->]. cbn in Hwho. apply Nat.eqb_eq in Hwho. subst r.
    eapply Inv_change; eauto; cbn [pc waiting wn wb wf mw st]; unfold passed, arrived in *; cbn [pc waiting]; try fin Ib Ic Id If Hx.
    all: try solve [ intros; right; split; [reflexivity | lia] ].
  - (* AMetaEnd *)
    destruct (is_meta s && mw x) eqn:Hg; [|discriminate]. inversion H; subst g'; clear H.
    apply andb_prop in Hg. destruct Hg as [Hmeta Hmw].
    destruct (only_meta_at_m _ _ Hcur Hmeta) as [Hpcm ->]. destruct (Id r x Hx Hmw) as [-> _].
    assert (Hw : waiting x = false) by (eapply (Hnowait (pc x)); [reflexivity | exact Hcur | discriminate]).
    assert (Hnb : nb prog (S (pc x)) = nb prog (pc x)) by (eapply nb_S_other; [exact Hcur | discriminate]).
    eapply Inv_change; eauto; unfold set_pc; cbn [pc waiting wn wb wf mw st]; unfold passed, arrived in *; cbn [pc waiting];
      try rewrite Hnb; try rewrite Hw in *; try fin Ib Ic Id If Hx.
    all: try solve [ intros y Hy; specialize (Hothers y Hy); lia ].
    all: try solve [ intros _; apply Ic; [exact Hxin | lia] ].
    all: try solve [ intros; right; split; [reflexivity | lia] ].
  - (* ASkipMeta *) destruct s; try discriminate. destruct (r =? 0) eqn:Hr0; [discriminate|]. inversion H; subst g'; clear H.
    apply Nat.eqb_neq in Hr0.
    assert (Hpcm : pc x = m) by (apply (only_meta_at_m _ _ Hcur); reflexivity).
    assert (Hw : waiting x = false) by (eapply (Hnowait (pc x)); [reflexivity | exact Hcur | discriminate]).
    assert (Hnb : nb prog (S (pc x)) = nb prog (pc x)) by (eapply nb_S_other; [exact Hcur | discriminate]).
    eapply Inv_change; eauto; unfold set_pc; cbn [pc waiting wn wb wf mw st]; unfold passed, arrived in *; cbn [pc waiting];
      try rewrite Hnb; try rewrite Hw in *; try fin Ib Ic Id If Hx.
    all: try solve [ intros y Hy; specialize (Hothers y Hy); lia ].
    all: try solve [ intros _; apply Ic; [exact Hxin | lia] ].
  - (* AReturn *) inversion H; subst g'; clear H.
    eapply Inv_change; eauto; cbn [pc waiting wn wb wf mw st]; unfold passed, arrived in *; cbn [pc waiting]; fin Ib Ic Id If Hx.
  - (* AFail *)
    destruct ((stmt_eqb s SComplete && (wf x <? wb x)) || (is_meta s && mw x)); [|discriminate]. inversion H; subst g'; clear H.
    eapply Inv_change; eauto; cbn [pc waiting wn wb wf mw st]; unfold passed, arrived in *; cbn [pc waiting]; fin Ib Ic Id If Hx.
  - (* ATimeout *) destruct s; try discriminate. destruct (waiting x) eqn:Hw; [|discriminate]. inversion H; subst g'; clear H.
    eapply Inv_change; eauto; cbn [pc waiting wn wb wf mw st]; unfold passed, arrived in *; cbn [pc waiting]; try rewrite Hw;
      fin Ib Ic Id If Hx.
Qed.

Lemma Inv_init ns : Inv (init ns).
Proof.
  unfold Inv, init; cbn [ranks meta]. repeat split.
  - intros x y Hx Hy. apply in_map_iff in Hx. destruct Hx as (n & <- & _). unfold passed; cbn [pc]. rewrite nb_0. lia.
  - intros x Hx. apply in_map_iff in Hx. destruct Hx as (n & <- & _). cbn. discriminate.
  - intros x Hx. apply in_map_iff in Hx. destruct Hx as (n & <- & _). cbn. lia.
  - apply nth_error_In in H. apply in_map_iff in H. destruct H as (n & <- & _). cbn in H0. discriminate.
  - apply nth_error_In in H. apply in_map_iff in H. destruct H as (n & <- & _). cbn in H0. discriminate.
  - congruence.
  - intros x0 Hx0. apply nth_error_In in Hx0. apply in_map_iff in Hx0. destruct Hx0 as (n & <- & _). cbn. lia.
Qed.

Lemma Inv_run ns evs : Inv (run prog ns evs).
Proof.
  unfold run. generalize (Inv_init ns). generalize (init ns) as g.
  induction evs as [|e evs IH]; intros g Hg; cbn [fold_left]; [exact Hg|]. apply IH.
  unfold step. destruct (act prog g (fst e) (snd e)) eqn:E; [eapply Inv_act; eauto | exact Hg].
Qed.

(* a rank that has arrived at (or gone past) the barrier at position k *)
Lemma arrived_reaches g x k :
  Inv g -> In x (ranks g) -> nth_error prog k = Some SBarrier -> S (nb prog k) <= arrived prog x -> k <= pc x.
Proof.
  intros (_ & Ib & _) Hx Hk Har. destruct (le_lt_dec k (pc x)) as [L|L]; [exact L|]. exfalso.
  unfold arrived in Har. destruct (waiting x) eqn:W.
  - pose proof (Ib x Hx W) as Hbar. pose proof (nb_S_barrier prog (pc x) Hbar) as E.
    pose proof (nb_mono prog (S (pc x)) k ltac:(lia)). lia.
  - pose proof (nb_mono prog (pc x) k ltac:(lia)). lia.
Qed.

(* C02 (sync): metadata visible in storage in any form -> every payload write of every rank has completed *)
Theorem meta_started_payload_complete ns evs :
  let g := run prog ns evs in meta_started g = true -> all_payload_complete g = true.
Proof.
  intros g Hms. pose proof (Inv_run ns evs) as HI. fold g in HI. pose proof HI as (Ia & Ib & Ic & Id & Ie & If).
  destruct pos_facts as (Hcb & Hbm & Hmb & Hc & Hb1 & Hm & Hb2 & _ & _).
  assert (Hne : meta g <> MAbsent) by (unfold meta_started in Hms; destruct (meta g); [discriminate | discriminate | discriminate]).
  destruct (Ie Hne) as (x0 & Hx0 & Hge). assert (Hx0in : In x0 (ranks g)) by (eapply nth_error_In; eauto).
  unfold all_payload_complete. apply forallb_forall. intros y Hy. unfold payload_complete. apply Nat.eqb_eq.
  apply Ic; [exact Hy|].
  assert (b1 <= pc y); [|lia].
  eapply arrived_reaches; eauto.
  specialize (Ia x0 y Hx0in Hy). unfold passed in Ia.
  pose proof (nb_mono prog (S b1) (pc x0) ltac:(lia)). rewrite (nb_S_barrier prog b1 Hb1) in H. lia.
Qed.

(* C02 / C03 (sync): a rank returned normally -> the metadata is completely written *)
Theorem returned_meta_complete ns evs x :
  let g := run prog ns evs in In x (ranks g) -> returned x = true -> length prog <= pc x -> meta_complete g = true.
Proof.
  intros g Hx _ Hend. pose proof (Inv_run ns evs) as HI. fold g in HI. pose proof HI as (Ia & Ib & Ic & Id & Ie & If).
  destruct pos_facts as (Hcb & Hbm & Hmb & Hc & Hb1 & Hm & Hb2 & _ & _).
  assert (Hb2len : b2 < length prog) by (apply nth_error_Some; congruence).
  destruct (nth_error (ranks g) 0) as [x0|] eqn:Hx0.
  2:{ apply nth_error_None in Hx0. destruct (ranks g); [destruct Hx | cbn in Hx0; lia]. }
  assert (Hx0in : In x0 (ranks g)) by (eapply nth_error_In; eauto).
  assert (Hxin : In x (ranks g)) by exact Hx.
  assert (b2 <= pc x0).
  { eapply arrived_reaches; eauto. specialize (Ia x x0 Hxin Hx0in). unfold passed in Ia.
    pose proof (nb_mono prog (S b2) (pc x) ltac:(lia)). rewrite (nb_S_barrier prog b2 Hb2) in H. lia. }
  unfold meta_complete. rewrite (If x0 eq_refl ltac:(lia)). reflexivity.
Qed.
End Safe.

(* ------------------------------------------------------------------ the checker finds such positions *)
Lemma well_ordered_positions prog :
  well_ordered prog = true -> exists c b1 m b2, positions_ok prog c b1 m b2 = true.
Proof.
  unfold well_ordered. intros H.
  destruct (index_of _ prog) as [c|]; [|discriminate]. destruct (index_of is_meta prog) as [m|]; [|discriminate].
  destruct (find_barrier_between prog c m) as [b1|]; [|discriminate].
  destruct (find_barrier_between prog m (length prog)) as [b2|]; [|discriminate].
  exists c, b1, m, b2. exact H.
Qed.

(* returned ranks have run off the end of the program *)
Lemma returned_at_end prog ns evs x :
  In x (ranks (run prog ns evs)) -> returned x = true -> length prog <= pc x.
Proof.
  unfold run. assert (H0 : forall y, In y (ranks (init ns)) -> returned y = true -> length prog <= pc y).
  { intros y Hy. unfold init in Hy; cbn in Hy. apply in_map_iff in Hy. destruct Hy as (n & <- & _). cbn. discriminate. }
  revert H0. generalize (init ns) as g. revert x.
  induction evs as [|e evs IH]; intros x g Hg Hx Hr; cbn [fold_left] in Hx; [apply Hg; assumption|].
  eapply IH; [|exact Hx | exact Hr].
  intros y Hy Hry. unfold step in Hy. destruct (act prog g (fst e) (snd e)) as [g'|] eqn:E; [|apply Hg; assumption].
  unfold act in E. destruct (negb _); [discriminate|].
  set (z := nth (fst e) (ranks g) dflt) in *.
  destruct (st z) eqn:Hst; try discriminate.
  assert (Hcase : forall z' m', g' = {| ranks := upd (fst e) z' (ranks g); meta := m' |} ->
            (returned z' = true -> length prog <= pc z') -> length prog <= pc y).
  { intros z' m' -> Hz'. cbn in Hy. apply In_upd in Hy. destruct Hy as [->|Hy]; [apply Hz'; exact Hry | apply Hg; assumption]. }
  destruct (snd e); destruct (nth_error prog (pc z)) as [s|] eqn:Hcur; try discriminate;
    try (destruct s; try discriminate);
    repeat match type of E with
           | (if ?b then _ else _) = _ => destruct b; try discriminate
           end;
    inversion E; subst g'; (eapply Hcase; [reflexivity|]); unfold set_pc; cbn [returned st pc]; try rewrite Hst; try discriminate.
  intros _. apply nth_error_None. exact Hcur.
Qed.

(* ------------------------------------------------------------------ failures (C03) *)
Lemma nth_upd_same {A} (i : nat) (v d : A) l : i < length l -> nth i (upd i v l) d = v.
Proof. revert i; induction l as [|x l IH]; intros i H; cbn in *; [lia|]. destruct i; cbn; [reflexivity | apply IH; lia]. Qed.

Lemma nth_upd_other {A} (i j : nat) (v d : A) l : i <> j -> nth j (upd i v l) d = nth j l d.
Proof.
  revert i j; induction l as [|x l IH]; intros i j H; [destruct i; reflexivity|].
  destruct i, j; cbn; try reflexivity; try lia. apply IH; lia.
Qed.

Lemma length_upd {A} (i : nat) (v : A) l : length (upd i v l) = length l.
Proof. revert i; induction l as [|x l IH]; intros i; [destruct i; reflexivity|]. destruct i; cbn; [reflexivity | rewrite IH; reflexivity]. Qed.

(* the failing rank's take() raises *)
Lemma fail_raises prog g r g' : act prog g r AFail = Some g' -> raised (nth r (ranks g') dflt) = true.
Proof.
  unfold act. destruct (r <? length (ranks g)) eqn:Hr; cbn [negb]; [|discriminate]. apply Nat.ltb_lt in Hr.
  destruct (st (nth r (ranks g) dflt)); try discriminate.
  destruct (nth_error prog (pc (nth r (ranks g) dflt))) as [s|]; [|discriminate].
  destruct (_ || _); [|discriminate]. intros H. inversion H; subst. cbn [ranks]. rewrite nth_upd_same by exact Hr. reflexivity.
Qed.

(* a rank that raised (or returned) is never touched again: it cannot later report success *)
Lemma dead_rank_frozen prog g e r :
  st (nth r (ranks g) dflt) <> RRunning -> nth r (ranks (step prog g e)) dflt = nth r (ranks g) dflt.
Proof.
  intros Hdead. unfold step. destruct (act prog g (fst e) (snd e)) as [g'|] eqn:E; [|reflexivity].
  unfold act in E. destruct (fst e <? length (ranks g)) eqn:Hr; cbn [negb] in E; [|discriminate].
  destruct (Nat.eq_dec (fst e) r) as [Heq|Hne].
  - rewrite Heq in E. destruct (st (nth r (ranks g) dflt)) eqn:Hs; try discriminate. congruence.
  - destruct (st (nth (fst e) (ranks g) dflt)); try discriminate.
    assert (Hk : forall x' m', g' = {| ranks := upd (fst e) x' (ranks g); meta := m' |} -> nth r (ranks g') dflt = nth r (ranks g) dflt).
    { intros x' m' ->. cbn [ranks]. apply nth_upd_other. exact Hne. }
    destruct (snd e); destruct (nth_error prog (pc (nth (fst e) (ranks g) dflt))) as [s|]; try discriminate;
      try (destruct s; try discriminate);
      repeat match type of E with (if ?b then _ else _) = _ => destruct b; try discriminate end;
      inversion E; subst; cbn [ranks]; apply nth_upd_other; exact Hne.
Qed.

Lemma dead_rank_frozen_run prog evs : forall g r,
  st (nth r (ranks g) dflt) <> RRunning ->
  nth r (ranks (fold_left (step prog) evs g)) dflt = nth r (ranks g) dflt.
Proof.
  induction evs as [|e evs IH]; intros g r Hd; cbn [fold_left]; [reflexivity|].
  rewrite IH; [apply dead_rank_frozen; exact Hd|]. rewrite dead_rank_frozen by exact Hd. exact Hd.
Qed.

(* ------------------------------------------------------------------ a storage failure is final for everybody (C03) *)
Lemma run_app prog ns evs1 evs2 :
  run prog ns (evs1 ++ evs2) = fold_left (step prog) evs2 (run prog ns evs1).
Proof. unfold run. apply fold_left_app. Qed.

Section Final.
Variable prog : list stmt.
Variables c b1 m b2 : nat.
Hypothesis Hpos : positions_ok prog c b1 m b2 = true.

(* Once a storage operation of some rank has failed (payload or metadata write), no rank returns normally in any
   continuation of the run - with or without timeouts: the failed rank never arrives at the last barrier, so nobody
   passes it; ranks blocked there can only give up (ATimeout) and raise. *)
Theorem failure_means_nobody_returns ns evs1 r evs2 g' :
  act prog (run prog ns evs1) r AFail = Some g' ->
  forall x, In x (ranks (run prog ns (evs1 ++ (r, AFail) :: evs2))) -> returned x = false.
Proof.
  intros Hact x Hx. destruct (returned x) eqn:Hret; [exfalso|reflexivity].
  destruct (pos_facts prog c b1 m b2 Hpos) as (Hcb & Hbm & Hmb & Hc & Hb1 & Hm & Hb2 & _ & _).
  set (g1 := run prog ns evs1) in *.
  pose proof (Inv_run prog c b1 m b2 Hpos ns evs1) as HI1. fold g1 in HI1.
  pose proof HI1 as (_ & Ib1 & _ & _ & _ & _).
  (* the failing rank at the moment of the failure *)
  pose proof Hact as Hact0. unfold act in Hact.
  destruct (r <? length (ranks g1)) eqn:Hr; cbn [negb] in Hact; [|discriminate]. apply Nat.ltb_lt in Hr.
  set (xr := nth r (ranks g1) dflt) in *.
  assert (Hxr : nth_error (ranks g1) r = Some xr) by (apply nth_error_nth; exact Hr).
  assert (Hxrin : In xr (ranks g1)) by (eapply nth_error_In; eauto).
  destruct (st xr) eqn:Hst; try discriminate.
  destruct (nth_error prog (pc xr)) as [s|] eqn:Hcur; [|discriminate].
  destruct ((stmt_eqb s SComplete && (wf xr <? wb xr)) || (is_meta s && mw xr)) eqn:Hg; [|discriminate].
  inversion Hact; subst g'; clear Hact.
  assert (Hnb : s <> SBarrier).
  { intros ->. cbn in Hg. discriminate. }
  assert (Hw : waiting xr = false).
  { destruct (waiting xr) eqn:W; [|reflexivity]. rewrite (Ib1 xr Hxrin W) in Hcur. inversion Hcur; congruence. }
  assert (Hpc : pc xr <= m).
  { apply orb_prop in Hg. destruct Hg as [Hg|Hg]; apply andb_prop in Hg; destruct Hg as [Hs _].
    - destruct s; try discriminate. rewrite (only_complete_at_c prog c b1 m b2 Hpos _ Hcur). lia.
    - destruct (only_meta_at_m prog c b1 m b2 Hpos _ _ Hcur Hs) as [-> _]. lia. }
  (* the final state *)
  rewrite run_app in Hx. cbn [fold_left] in Hx. fold g1 in Hx. unfold step at 2 in Hx. cbn [fst snd] in Hx.
  rewrite Hact0 in Hx.
  set (z := {| pc := pc xr; waiting := waiting xr; wn := wn xr; wb := wb xr; wf := wf xr; mw := mw xr; st := RRaised |}) in *.
  set (g' := {| ranks := upd r z (ranks g1); meta := meta g1 |}) in *.
  set (gf := fold_left (step prog) evs2 g') in *.
  assert (Hz0 : nth r (ranks g') dflt = z) by (unfold g'; cbn [ranks]; apply nth_upd_same; exact Hr).
  assert (Hzf : nth r (ranks gf) dflt = z).
  { unfold gf. rewrite dead_rank_frozen_run; [exact Hz0|]. rewrite Hz0. cbn. discriminate. }
  assert (Hzin : In z (ranks gf)).
  { destruct (le_lt_dec (length (ranks gf)) r) as [L|L].
    - rewrite nth_overflow in Hzf by exact L. unfold dflt, z in Hzf. discriminate.
    - rewrite <- Hzf. apply nth_In. exact L. }
  assert (HIf : Inv prog c m gf).
  { pose proof (Inv_run prog c b1 m b2 Hpos ns (evs1 ++ (r, AFail) :: evs2)) as H.
    rewrite run_app in H. cbn [fold_left] in H. fold g1 in H. unfold step at 2 in H. cbn [fst snd] in H.
    rewrite Hact0 in H. exact H. }
  destruct HIf as (Ia & _).
  specialize (Ia x z Hx Hzin). unfold passed, arrived in Ia. unfold z in Ia at 1 2. cbn [pc waiting] in Ia. rewrite Hw in Ia.
  assert (Hend : length prog <= pc x).
  { pose proof (returned_at_end prog ns (evs1 ++ (r, AFail) :: evs2) x) as H.
    rewrite run_app in H. cbn [fold_left] in H. fold g1 in H. unfold step at 2 in H. cbn [fst snd] in H.
    rewrite Hact0 in H. apply H; assumption. }
  assert (Hb2len : b2 < length prog) by (apply nth_error_Some; congruence).
  pose proof (nb_mono prog (S b2) (pc x) ltac:(lia)) as M1. rewrite (nb_S_barrier prog b2 Hb2) in M1.
  pose proof (nb_mono prog (pc xr) b2 ltac:(lia)) as M2. lia.
Qed.
End Final.

(* a rank that gives up in a barrier raises *)
Lemma timeout_raises prog g r g' : act prog g r ATimeout = Some g' -> raised (nth r (ranks g') dflt) = true.
Proof.
  unfold act. destruct (r <? length (ranks g)) eqn:Hr; cbn [negb]; [|discriminate]. apply Nat.ltb_lt in Hr.
  destruct (st (nth r (ranks g) dflt)); try discriminate.
  destruct (nth_error prog (pc (nth r (ranks g) dflt))) as [s|]; [|discriminate].
  destruct s; try discriminate.
  destruct (waiting _); [|discriminate]. intros H. inversion H; subst. cbn [ranks]. rewrite nth_upd_same by exact Hr. reflexivity.
Qed.
