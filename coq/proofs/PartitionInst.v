(* C06 instantiation obligations: what the proofs of PartitionProofs.v need to know about the constants that the
   translator generated from partitioner.py / snapshot.py on THIS run (coq/gen/PartitionGen.v).
   The model (model/Partition.v) defines choose / bump / merge_chunks / consolidate / rp_filter FROM these
   constants; every property theorem goes through the lemmas below.  If an edit to the source changes one of the
   constants (argmin -> argmax, a dropped `rank_to_size[...] += size`, an unsorted merge, dedup=False,
   `== world_size` -> `>= 1`), the corresponding lemma stops checking. *)
From TS Require Import model.Base gen.PartitionGen model.Partition.
From Coq Require Import ZifyBool.

(* _assign_rank_write_loads: chosen_rank = min(ranks_to_choose, key=lambda rank: rank_to_size[rank]) *)
Lemma choice_pass1_first_min : gen_choice_pass1 = ChooseFirstMin.
Proof. reflexivity. Qed.

(* rank_to_size[chosen_rank] += size *)
Lemma update_pass1_adds : gen_update_pass1 = AddSize.
Proof. reflexivity. Qed.

(* second loop: chosen_rank = np.argmin(rank_to_size) *)
Lemma choice_pass2_first_min : gen_choice_pass2 = ChooseFirstMin.
Proof. reflexivity. Qed.

(* rank_to_size[chosen_rank] += partitionable.size *)
Lemma update_pass2_adds : gen_update_pass2 = AddSize.
Proof. reflexivity. Qed.

Lemma choose_pass1_eq sizes : choose gen_choice_pass1 sizes = first_min sizes.
Proof. rewrite choice_pass1_first_min. reflexivity. Qed.

Lemma choose_pass2_eq sizes : choose gen_choice_pass2 sizes = first_min sizes.
Proof. rewrite choice_pass2_first_min. reflexivity. Qed.

Lemma bump_pass1_eq s x : bump gen_update_pass1 s x = x + s.
Proof. rewrite update_pass1_adds. reflexivity. Qed.

Lemma bump_pass2_eq s x : bump gen_update_pass2 s x = x + s.
Proof. rewrite update_pass2_adds. reflexivity. Qed.

(* consolidation: chunks=sorted(<all chunks of the group>, key=lambda chunk: chunk.offsets) *)
Lemma merge_sorted_by_offsets : gen_merge_order = MergeSortedByOffsets.
Proof. reflexivity. Qed.

Lemma merge_chunks_eq cs : merge_chunks cs = isort chunk_leb cs.
Proof. unfold merge_chunks. rewrite merge_sorted_by_offsets. reflexivity. Qed.

(* consolidate_replicated_entries(..., dedup=True) is what _gather_manifest runs *)
Lemma dedup_default_on : gen_dedup_default = true.
Proof. reflexivity. Qed.

(* _calculate_replicated_entries: path_count[p] == world_size *)
Lemma count_test_iff c w : gen_replicated_count_test c w = true <-> c = w.
Proof. unfold gen_replicated_count_test. lia. Qed.
