(* C01 / C18: composition of the component theorems along the tensor data path. *)
From TS Require Import model.Base model.Chunk model.Batch model.Pipeline proofs.ChunkProofs proofs.BatchProofs.
From TS Require Import gen.SchedGen model.Sched proofs.SchedProofs proofs.SchedRead.
From Coq Require Import Permutation ZifyBool.

Lemma slice_full {A} (b : list A) : slice b 0 (blen b) = b.
Proof. unfold slice, blen. rewrite Z.sub_0_r, Nat2Z.id. cbn [Z.to_nat skipn]. apply firstn_all. Qed.

Lemma prodZ_shape1 shape : prodZ (shape1 shape) = prodZ shape.
Proof. destruct shape; reflexivity. Qed.

Lemma cut_ranges (b : bytes) ts : cut b ts = map (fun r => slice b (fst r) (snd r)) (map tile_range ts).
Proof. unfold cut. rewrite map_map. apply map_ext. intros t. reflexivity. Qed.

(* ------------------------------------------------------------------ chunking is invisible *)
Lemma chunk_reassemble shape esize csz (b : bytes) :
  1 <= csz -> 0 < esize -> Forall (fun s => 0 < s) shape -> blen b = esize * prodZ shape ->
  exists rs, chunk_ranges shape esize csz = Some rs /\ concat (cut b rs) = b /\
             consecutive 0 (map tile_range rs) (blen b) /\
             Forall (fun t => snd (tile_range t) - fst (tile_range t) = esize * prodZ (tile_shape t)) rs.
Proof.
  intros Hc He Hpos Hlen. unfold chunk_ranges.
  pose proof (shape1_pos shape Hpos) as Hsh. set (sh := shape1 shape) in *.
  assert (Hne : sh <> []) by (unfold sh; destruct shape; discriminate).
  destruct sh as [|d rest] eqn:Esh; [congruence|]. cbn [hd tl].
  inversion Hsh as [|? ? Hd Hrest]; subst.
  assert (Hprest : 0 < prodZ rest) by (apply prodZ_pos; exact Hrest).
  assert (Hprod : prodZ (d :: rest) = d * prodZ rest) by reflexivity.
  destruct (csz <=? 0) eqn:E0; [lia|].
  assert (Hn : 1 <= cdiv (prodZ (d :: rest) * esize) csz).
  { pose proof (cdiv_pos (prodZ (d :: rest) * esize) csz ltac:(rewrite Hprod; nia) ltac:(lia)). lia. }
  destruct (torch_chunk_spec d (cdiv (prodZ (d :: rest) * esize) csz) Hn ltac:(lia)) as (lens & Htc & Hsum & Hnn & _ & _).
  rewrite Htc. eexists. split; [reflexivity|].
  destruct (tile_ranges_spec esize rest lens 0 ltac:(lia) ltac:(lia) Hnn) as (Hcons & Hsz & _).
  assert (Hfin : 0 + esize * (sumZ lens * prodZ rest) = blen b).
  { rewrite Hlen, Hsum. rewrite <- (prodZ_shape1 shape). fold sh. rewrite Esh, Hprod. lia. }
  rewrite Hfin in Hcons. split; [|split; [exact Hcons | exact Hsz]].
  rewrite cut_ranges. rewrite (consecutive_concat b _ 0 (blen b) ltac:(lia) Hcons). apply slice_full.
Qed.

Lemma pieces_concat shape esize csz (b : bytes) :
  1 <= csz -> 0 < esize -> Forall (fun s => 0 < s) shape -> blen b = esize * prodZ shape ->
  exists ps, pieces shape esize csz b = Some ps /\ concat ps = b.
Proof.
  intros Hc He Hpos Hlen. unfold pieces. destruct (prodZ shape * esize >? csz).
  - destruct (chunk_reassemble shape esize csz b Hc He Hpos Hlen) as (rs & -> & Hcat & _). eexists; split; [reflexivity | exact Hcat].
  - eexists; split; [reflexivity|]. cbn. apply app_nil_r.
Qed.

(* ------------------------------------------------------------------ what a consumer receives *)
Lemma delivered_spec id (buf : bytes) dl :
  (buf <> [] -> In (id, buf) dl) -> (forall b', In (id, b') dl -> b' = buf) -> delivered id dl = buf.
Proof.
  induction dl as [|[c x] dl IH]; intros H1 H2; cbn [delivered].
  - destruct buf as [|y buf]; [reflexivity|]. exfalso. apply (H1 ltac:(discriminate)).
  - destruct (c =? id) eqn:E.
    + apply Z.eqb_eq in E. subst c. apply H2. left; reflexivity.
    + apply Z.eqb_neq in E. apply IH.
      * intros Hb. destruct (H1 Hb) as [Heq|Hin]; [inversion Heq; congruence | exact Hin].
      * intros b' Hin. apply H2. right; exact Hin.
Qed.

(* ------------------------------------------------------------------ the tensor data path, end to end *)
Section DataPath.
  Variables (T : Z) (ws : list went) (slabs : list (Z * list member)) (pass : list wreq)
            (reloc : list (Z * (Z * Z * Z))) (store : list (Z * bytes)).
  Hypothesis HT : 1 <= T.
  Hypothesis Hnd : NoDup (map e_path ws).
  Hypothesis Hbw : batch_write T (map wreq_of ws) = (slabs, pass, reloc).
  Hypothesis Hpass : forall e, In e ws -> In (wreq_of e) pass -> lookup store (e_path e) = Some (e_buf e).
  Hypothesis Hslabs : forall k ms, In (k, ms) slabs -> slab_stored ws store k ms.

  Lemma piece_delivered rreqs e :
    Permutation rreqs (map (fun e => entry_read reloc (e_path e)) ws) -> In e ws ->
    delivered (e_path e) (exec_plan store (batch_read rreqs)) = e_buf e.
  Proof.
    intros Hperm Hin.
    destruct (write_then_read_plan T ws slabs pass reloc store HT Hnd Hbw Hpass Hslabs rreqs Hperm e Hin) as [H1 H2].
    apply delivered_spec; assumption.
  Qed.

  Lemma data_path rreqs ids ps (b : bytes) :
    Permutation rreqs (map (fun e => entry_read reloc (e_path e)) ws) ->
    Forall2 (fun id p => exists e, In e ws /\ e_path e = id /\ e_buf e = p) ids ps ->
    concat ps = b ->
    reassemble ids (exec_plan store (batch_read rreqs)) = b.
  Proof.
    intros Hperm HF <-. unfold reassemble. f_equal.
    induction HF as [|id p ids ps (e & Hin & <- & <-) _ IH]; cbn [map]; [reflexivity|].
    rewrite (piece_delivered rreqs e Hperm Hin). f_equal. exact IH.
  Qed.
End DataPath.

(* ------------------------------------------------------------------ tiled reads (read_object with a budget) *)
Lemma tiled_read_exact (obj : bytes) shape flat esize limit base :
  1 <= limit -> 0 < esize -> Forall (fun s => 0 <= s) shape -> (flat = false -> shape <> []) -> 0 <= base ->
  tiled_read obj shape flat esize limit base = Some (slice obj base (base + esize * prodZ shape)).
Proof.
  intros Hl He Hs Hf Hb. unfold tiled_read.
  destruct (tile_partition shape flat esize limit base Hl He Hs Hf) as (tiles & lens & -> & Hcons & _).
  f_equal. rewrite cut_ranges. apply consecutive_concat; assumption.
Qed.

Lemma chunk_lens_le fuel : forall rem cs, 0 <= cs -> Forall (fun l => l <= cs) (chunk_lens fuel rem cs).
Proof.
  induction fuel as [|f IH]; intros rem cs Hcs; cbn [chunk_lens]; [constructor|].
  destruct (rem <=? 0); [constructor|]. constructor; [lia | apply IH; exact Hcs].
Qed.

Lemma tile_ranges_len_bound esize bound : forall lens cur,
  0 < esize -> Forall (fun l => 0 <= l <= bound) lens ->
  Forall (fun t => snd (tile_range t) - fst (tile_range t) <= bound * esize) (tile_ranges esize [] cur lens).
Proof.
  induction lens as [|l lens IH]; intros cur He Hl; cbn [tile_ranges]; constructor.
  - inversion Hl; subst. unfold tile_range. cbn [fst snd prodZ fold_right]. nia.
  - apply IH; [exact He | inversion Hl; assumption].
Qed.

(* a flattened tile never exceeds the buffer limit by a whole element; it fits when the limit is a multiple
   of the element size *)
Lemma flat_tile_cost_bound shape esize limit base ts :
  1 <= limit -> 0 < esize -> Forall (fun s => 0 <= s) shape ->
  tile shape true esize limit base = Some ts ->
  Forall (fun t => snd (tile_range t) - fst (tile_range t) < limit + esize /\
                   (limit mod esize = 0 -> snd (tile_range t) - fst (tile_range t) <= limit)) ts.
Proof.
  intros Hl He Hs Ht. unfold tile in Ht. destruct (limit <=? 0) eqn:E0; [lia|].
  set (d := prodZ shape) in *. assert (Hd : 0 <= d) by (apply prodZ_nonneg; exact Hs).
  set (n := Z.max (cdiv (esize * d) limit) 1) in *.
  assert (Hn : 1 <= n) by lia.
  destruct (torch_chunk d n) as [lens|] eqn:Etc; [|discriminate]. inversion Ht; subst ts; clear Ht.
  unfold torch_chunk in Etc. destruct (n <=? 0) eqn:En; [lia|].
  destruct (d <=? 0) eqn:Ed.
  - (* empty tensor: n tiles of zero bytes *)
    inversion Etc; subst lens.
    assert (H0 : Forall (fun l => 0 <= l <= 0) (repeat 0 (Z.to_nat n))) by (apply Forall_repeat; lia).
    pose proof (tile_ranges_len_bound esize 0 _ base He H0) as Hb.
    eapply Forall_impl; [|exact Hb]. cbn. intros t Ht. split; [lia | intros _; lia].
  - inversion Etc; subst lens. set (cs := cdiv d n).
    assert (Hcs : 0 < cs) by (apply cdiv_pos; lia).
    assert (Hlens : Forall (fun l => 0 <= l <= cs) (chunk_lens (Z.to_nat d) d cs)).
    { pose proof (chunk_lens_le (Z.to_nat d) d cs ltac:(lia)) as Hle.
      pose proof (chunk_lens_all_pos (Z.to_nat d) d cs ltac:(lia)) as Hp.
      rewrite Forall_forall in *. intros l Hin. split; [specialize (Hp l Hin); lia | apply Hle; exact Hin]. }
    pose proof (tile_ranges_len_bound esize cs _ base He Hlens) as Hb.
    (* (cs - 1) * n < d  and  esize * d <= n * limit *)
    pose proof (cdiv_mul_lt d n ltac:(lia)) as H1. fold cs in H1.
    pose proof (cdiv_mul_ge (esize * d) limit ltac:(lia)) as H2.
    assert (H3 : esize * d <= n * limit) by nia.
    assert (H4 : (cs - 1) * esize < limit) by nia.
    eapply Forall_impl; [|exact Hb]. cbn. intros t Ht. split; [lia|].
    intros Hmod. apply Z.mod_divide in Hmod; [|lia]. destruct Hmod as [k Hk]. subst limit.
    assert (cs - 1 < k) by nia. nia.
Qed.

(* the tiles as read requests: cost = buffer size = tile length; the scheduler then keeps the held bytes within
   the budget unless a single request is in flight (C10) *)
Lemma tile_costs_wf ts cur fin : consecutive cur (map tile_range ts) fin -> wf_reqs (tile_costs ts).
Proof.
  revert cur. induction ts as [|t ts IH]; intros cur H; unfold tile_costs, wf_reqs; cbn [map]; constructor.
  - cbn in H. destruct t as [[lo hi] sh]. cbn in *. lia.
  - destruct t as [[lo hi] sh]. cbn in H. destruct H as (_ & _ & H). apply (IH hi). exact H.
Qed.

Lemma tiled_read_within_budget shape flat esize limit base ts B K evs :
  1 <= limit -> 0 < esize -> Forall (fun s => 0 <= s) shape -> (flat = false -> shape <> []) ->
  tile shape flat esize limit base = Some ts -> 0 <= B -> 0 <= K ->
  let s := rrun (tile_costs ts) K B evs in
  (rheld (tile_costs ts) s <= B \/ rinflight s <= 1) /\ zlen (rio s) <= K.
Proof.
  intros Hl He Hs Hf Ht HB HK s.
  destruct (tile_partition shape flat esize limit base Hl He Hs Hf) as (tiles & lens & Ht' & Hcons & _).
  rewrite Ht in Ht'. inversion Ht'; subst tiles.
  destruct (read_budget_respected (tile_costs ts) B K evs (tile_costs_wf ts _ _ Hcons) HB HK) as (_ & H2 & H3).
  split; assumption.
Qed.
