(* C15: per-run obligations over the statement-by-statement translation of _entry_to_container, _populate_container
   and inflate (gen/FlattenRecGen.v, rewritten from /repo's flatten.py on every run).

   [entry_to_container_gen_correct]   the generated dispatch builds the container the hand model starts from;
   [populate_container_gen_correct]   the generated _populate_container, run on a fresh container, is the hand model's
                                      [populate] (values abstract: [InflatePieces.populate_spec]);
   [inflate_gen_refines]              on Python dicts (distinct keys; no path both a container and a leaf under the
                                      prefix) wherever the hand model [Flatten.inflate_s] returns an object, the
                                      generated inflate - containers created once and filled in place through
                                      references, in the order of `container_path_to_vals` - returns the same object. *)
From TS Require Import model.Base model.Flatten model.FlattenPy proofs.FlattenProofs proofs.InflatePieces
  gen.FlattenGen proofs.FlattenInst gen.FlattenRecGen model.FlattenGenObs proofs.FlattenRecInst.
From Coq Require Import Permutation ZifyBool.

(* ================================================================== _entry_to_container *)
Definition init_cont (e : entry) : cont ref :=
  match e with EList => CList [] | EDict ord ks => cont_fromkeys ord (RVal py_none) ks end.

Theorem entry_to_container_gen_correct : forall e, entry_to_container_gen e = Some (init_cont e).
Proof. intros [|[|] ks]; reflexivity. Qed.

(* ================================================================== _populate_container *)
Lemma mapM_payload : forall {X Y} (h : X -> Y) (keyf : X -> option Z) l,
  mapM (fun x => option_map (fun z => (z, h x)) (keyf x)) l =
  option_map (map_snd h) (mapM (fun x => option_map (fun z => (z, x)) (keyf x)) l).
Proof.
  intros X Y h keyf l. induction l as [|x l IH]; [reflexivity|]. cbn [mapM]. rewrite IH.
  destruct (keyf x); cbn [option_map]; [|reflexivity].
  match goal with |- context [mapM ?f l] => destruct (mapM f l) end; reflexivity.
Qed.

Lemma py_eqb_refl : forall k, py_eqb k k = true.
Proof.
  intros [s|z|b|i]; cbn [py_eqb key_num]; [apply str_eqb_refl | apply Z.eqb_refl | destruct b; reflexivity | apply Z.eqb_refl].
Qed.

Lemma key_memb_false : forall k seen, key_memb k seen = false -> forall x, In x seen -> py_eqb x k = false.
Proof.
  intros k seen. induction seen as [|y seen IH]; cbn [key_memb In]; [tauto|]. intros H x [E|Hx].
  - subst. apply orb_false_iff in H. tauto.
  - apply orb_false_iff in H. apply IH; tauto.
Qed.

Lemma fromkeys_acc_distinct : forall ks seen,
  keys_distinctb (fromkeys_acc seen ks) = true /\
  (forall x k, In x seen -> In k (fromkeys_acc seen ks) -> py_eqb x k = false).
Proof.
  induction ks as [|k ks IH]; intro seen; cbn [fromkeys_acc]; [split; [reflexivity | intros x k _ []]|].
  destruct (key_memb k seen) eqn:KM; [apply IH|].
  destruct (IH (k :: seen)) as [D S]. split.
  - cbn [keys_distinctb]. rewrite D, andb_true_r. apply negb_true_iff.
    destruct (existsb (py_eqb k) (fromkeys_acc (k :: seen) ks)) eqn:E; [|reflexivity].
    apply existsb_exists in E. destruct E as [k' [Hk' E]]. rewrite (S k k' (or_introl eq_refl) Hk') in E. discriminate.
  - intros x k' Hx [E|Hk'].
    + subst k'. exact (key_memb_false k seen KM x Hx).
    + exact (S x k' (or_intror Hx) Hk').
Qed.

Lemma fromkeys_distinct : forall ks, keys_distinctb (fromkeys ks) = true.
Proof. intro ks. exact (proj1 (fromkeys_acc_distinct ks [])). Qed.

Lemma kdict_set_skip : forall {V} (a : list (key * V)) k0 v0 b k v,
  (forall x, In x (map fst a) -> py_eqb x k = false) -> py_eqb k0 k = true ->
  kdict_set k v (a ++ (k0, v0) :: b) = a ++ (k0, v) :: b.
Proof.
  intros V a k0 v0 b k v. induction a as [|[x w] a IH]; cbn [map fst app kdict_set]; intros H E.
  - rewrite E. reflexivity.
  - rewrite (H x (or_introl eq_refl)). rewrite IH; [reflexivity | intros y Hy; apply H; right; exact Hy | exact E].
Qed.

Lemma kdict_del_skip : forall {V} (a : list (key * V)) k0 v0 b k,
  (forall x, In x (map fst a) -> py_eqb x k = false) -> py_eqb k0 k = true ->
  kdict_del k (a ++ (k0, v0) :: b) = Some (a ++ b).
Proof.
  intros V a k0 v0 b k. induction a as [|[x w] a IH]; cbn [map fst app kdict_del]; intros H E.
  - rewrite E. reflexivity.
  - rewrite (H x (or_introl eq_refl)). rewrite IH; [reflexivity | intros y Hy; apply H; right; exact Hy | exact E].
Qed.

Lemma assoc_str_app : forall {A} s (a b : list (pystr * A)),
  assoc_str s (a ++ b) = match assoc_str s a with Some v => Some v | None => assoc_str s b end.
Proof.
  intros A s a b. induction a as [|[t v] a IH]; cbn [app assoc_str]; [reflexivity|]. destruct (str_eqb s t); [reflexivity | exact IH].
Qed.

(* a dict comprehension / dict.update: for equal keys the last value wins *)
Lemma sdict_update_get : forall {V} s (l d : sdict V),
  sdict_get s (sdict_update d l) = match assoc_str s (rev l) with Some v => Some v | None => sdict_get s d end.
Proof.
  intros V s l. induction l as [|[k v] l IH]; intro d; [reflexivity|].
  unfold sdict_update. cbn [fold_left fst snd]. fold (sdict_update (sdict_set k v d) l). rewrite IH.
  cbn [rev]. rewrite assoc_str_app. destruct (assoc_str s (rev l)); [reflexivity|]. cbn [assoc_str].
  destruct (str_eqb s k) eqn:E.
  - apply str_eqb_eq in E. subst. apply sdict_get_set_same.
  - apply sdict_get_set_other. intro K. subst. rewrite str_eqb_refl in E. discriminate.
Qed.

Lemma lookup_keys_app : forall {V} (d : list (pystr * V)) a b, lookup_keys d (a ++ b) = lookup_keys d a ++ lookup_keys d b.
Proof. intros. unfold lookup_keys. apply flat_map_app. Qed.

Lemma pop_dict_loop : forall (D : sdict ref) (A : list (pystr * ref)) ord
    (body : cont ref -> key -> option (cont ref)),
  (forall s, sdict_get s D = assoc_str s A) ->
  (forall c k, body c k =
     if sdict_mem (key_str k) D
     then t <- sdict_get (key_str k) D ;; c' <- cont_setitem c k t ;; Some c'
     else c' <- cont_delitem c k ;; Some c') ->
  forall rest done, (forall x k, In x (map fst done) -> In k rest -> py_eqb x k = false) -> keys_distinctb rest = true ->
  py_for rest (CDict ord (done ++ map (fun k => (k, RVal py_none)) rest)) body =
  Some (CDict ord (done ++ lookup_keys A rest)).
Proof.
  intros D A ord body HD Hb rest. induction rest as [|k rest IH]; intros done Hd Hr; [reflexivity|].
  cbn [py_for map]. rewrite Hb. unfold sdict_mem. rewrite HD. cbn [keys_distinctb] in Hr. apply andb_true_iff in Hr.
  destruct Hr as [Hk Hr]. apply negb_true_iff in Hk.
  assert (Hk' : forall k', In k' rest -> py_eqb k k' = false).
  { intros k' Hin. destruct (py_eqb k k') eqn:E; [|reflexivity].
    assert (X : existsb (py_eqb k) rest = true) by (apply existsb_exists; eauto). congruence. }
  assert (Skip : forall x, In x (map fst done) -> py_eqb x k = false) by (intros x Hx; apply (Hd x k Hx); left; reflexivity).
  unfold lookup_keys. cbn [flat_map]. fold (lookup_keys A rest).
  destruct (assoc_str (key_str k) A) as [v|] eqn:E; cbn [obind cont_setitem cont_delitem].
  - rewrite (kdict_set_skip done k (RVal py_none) _ k v Skip (py_eqb_refl k)).
    replace (done ++ (k, v) :: map (fun k0 : key => (k0, RVal py_none)) rest)
      with ((done ++ [(k, v)]) ++ map (fun k0 : key => (k0, RVal py_none)) rest) by (rewrite <- app_assoc; reflexivity).
    rewrite (IH (done ++ [(k, v)])); [rewrite <- app_assoc; reflexivity | | exact Hr].
    intros x k' Hx Hk''. rewrite map_app in Hx. apply in_app_or in Hx. destruct Hx as [Hx|[Hx|[]]].
    + apply (Hd x k' Hx). right. exact Hk''.
    + cbn [fst] in Hx. subst x. exact (Hk' k' Hk'').
  - rewrite (kdict_del_skip done k (RVal py_none) _ k Skip (py_eqb_refl k)). cbn [option_map obind app].
    apply IH; [|exact Hr]. intros x k' Hx Hk''. apply (Hd x k' Hx). right. exact Hk''.
Qed.

Theorem populate_container_gen_correct : forall s e (vals : sdict ref),
  populate_container_gen s (init_cont e) vals = populate_spec e vals.
Proof.
  intros s [|ord ks] vals; unfold populate_container_gen; cbn [init_cont populate_spec].
  - cbn [cont_isinstance cont_type existsb pytype_subclass pytype_eqb orb]. unfold py_sorted_int, sdict_items.
    rewrite (mapM_payload (fun x : pystr * ref => snd x) (fun x : pystr * ref => parse_int (fst x)) vals).
    match goal with |- context [mapM ?f vals] => destruct (mapM f vals) as [zs|] end; cbn [option_map obind]; [|reflexivity].
    unfold sort_by_int. rewrite isort_map_snd. cbn [cont_extend app obind]. unfold map_snd. rewrite !map_map. reflexivity.
  - (* the two type tests, however they are written (isinstance / type(..) ==), evaluate on a concrete container kind *)
    unfold cont_fromkeys.
    destruct ord; cbn [cont_isinstance cont_type existsb pytype_subclass pytype_eqb orb];
    cbn [cont_keys obind]; rewrite map_map; cbn [fst]; rewrite map_id.
    all: cbv zeta.
    all: match goal with |- context [sdict_mem _ ?D0] => set (D := D0) end.
    all: match goal with |- context [py_for _ _ ?b] => set (body := b) end.
    all: assert (HD : forall s0, sdict_get s0 D = assoc_str s0 (rev (map (fun tv : pystr * ref => (decode (fst tv), snd tv)) vals)))
      by (intro s0; unfold D, sdict_of_list; rewrite sdict_update_get; unfold sdict_items;
          replace (flat_map (fun it : pystr * ref => [(decode (fst it), snd it)]) vals)
            with (map (fun tv : pystr * ref => (decode (fst tv), snd tv)) vals)
            by (clear; induction vals as [|x l IH]; [reflexivity | cbn [map flat_map app]; rewrite IH; reflexivity]);
          match goal with |- context [assoc_str ?s1 ?l] => destruct (assoc_str s1 l) end; reflexivity).
    all: assert (Hb : forall c k, body c k =
       if sdict_mem (key_str k) D
       then t <- sdict_get (key_str k) D ;; c' <- cont_setitem c k t ;; Some c'
       else c' <- cont_delitem c k ;; Some c') by (intros c k; reflexivity).
    + pose proof (pop_dict_loop D _ true body HD Hb (fromkeys ks) [] (fun x k (F : In x []) _ => match F with end)
                    (fromkeys_distinct ks)) as E.
      cbn [app] in E. rewrite E. reflexivity.
    + pose proof (pop_dict_loop D _ false body HD Hb (fromkeys ks) [] (fun x k (F : In x []) _ => match F with end)
                    (fromkeys_distinct ks)) as E.
      cbn [app] in E. rewrite E. reflexivity.
Qed.

(* ================================================================== inflate *)
Definition Sp {A} (e : pystr * A) : path * A := (split (fst e), snd e).
Definition hpb {A} (p : pystr) (e : pystr * A) : bool := str_eqb (split_head (fst e)) p.

Lemma head_is_split : forall p s, head_is p (split s) = str_eqb (split_head s) p.
Proof. intros p s. destruct (split_cons s) as [t [r E]]. unfold split_head. rewrite E. reflexivity. Qed.

Lemma inflate_s_unfold : forall m lm prefix,
  inflate_s m lm prefix =
  match assoc_path [encode prefix] (map Sp (filter (hpb (encode prefix)) lm)) with
  | Some o => Some o
  | None =>
      match assoc_path [encode prefix] (map Sp (filter (hpb (encode prefix)) m)) with
      | None => None
      | Some e =>
          if parents_ok (map Sp (filter (hpb (encode prefix)) m)) (map Sp (filter (hpb (encode prefix)) lm)) [encode prefix]
          then build (S (length (map Sp (filter (hpb (encode prefix)) m))))
                     (map Sp (filter (hpb (encode prefix)) m)) (map Sp (filter (hpb (encode prefix)) lm)) [encode prefix] e
          else None
      end
  end.
Proof.
  intros m lm prefix. unfold inflate_s, inflate. cbv zeta. fold (@Sp entry) (@Sp obj).
  rewrite !filter_map_comm.
  rewrite (filter_ext (fun x : pystr * entry => head_is (encode prefix) (fst (Sp x))) (hpb (encode prefix)))
    by (intros [s e]; apply head_is_split).
  rewrite (filter_ext (fun x : pystr * obj => head_is (encode prefix) (fst (Sp x))) (hpb (encode prefix)))
    by (intros [s e]; apply head_is_split).
  reflexivity.
Qed.

Lemma assoc_path_split : forall {A} p (l : list (pystr * A)), slash_free p -> assoc_path [p] (map Sp l) = sdict_get p l.
Proof.
  intros A p l SF. induction l as [|[k v] l IH]; [reflexivity|]. cbn [map Sp assoc_path sdict_get fst snd].
  destruct (str_eqb k p) eqn:E.
  - apply str_eqb_eq in E. subst k. rewrite (split_slash_free p SF), path_eqb_refl. reflexivity.
  - destruct (path_eqb [p] (split k)) eqn:E2; [|exact IH].
    apply path_eqb_eq in E2. symmetry in E2. apply (split_singleton p k SF) in E2. subst. rewrite str_eqb_refl in E. discriminate.
Qed.

Lemma assoc_path_some_in : forall {A} q (l : list (path * A)) v, assoc_path q l = Some v -> In (q, v) l.
Proof.
  intros A q l v. induction l as [|[t w] l IH]; cbn [assoc_path]; [discriminate|].
  destruct (path_eqb q t) eqn:E; [|intro H; right; exact (IH H)].
  apply path_eqb_eq in E. subst. intro H. inversion H. left. reflexivity.
Qed.

Lemma cont_isinstance_any : forall (c : cont ref), cont_isinstance c [TyList; TyDict] = true.
Proof. intros [xs|[|] kvs]; reflexivity. Qed.

Lemma mapM_map_arg : forall {A B C} (f : B -> option C) (g : A -> B) l, mapM f (map g l) = mapM (fun x => f (g x)) l.
Proof. intros A B C f g l. induction l as [|a l IH]; [reflexivity|]. cbn [map mapM]. rewrite IH. reflexivity. Qed.

Lemma mapM_eq_map : forall {A B} (f : A -> option B) (g : A -> B) l l',
  mapM f l = Some l' -> (forall x y, In x l -> f x = Some y -> y = g x) -> l' = map g l.
Proof.
  intros A B f g l. induction l as [|a l IH]; intros l' H E; cbn [mapM] in H.
  - inversion H. reflexivity.
  - destruct (f a) as [b|] eqn:Fa; [|discriminate]. destruct (mapM f l) as [bs|]; [|discriminate]. inversion H; subst.
    cbn [map]. rewrite (E a b (or_introl eq_refl) Fa). f_equal. apply IH; [reflexivity|]. intros x y Hx. apply E. right. exact Hx.
Qed.

(* the children of the component path q among string-keyed items, with the item kept *)
Definition ch_of {A} (q : path) (l : list (pystr * A)) : list (token * (pystr * A)) :=
  flat_map (fun kv => match strip_prefix q (split (fst kv)) with Some [t] => [(t, kv)] | _ => [] end) l.

Lemma children_ch_of : forall {A} q (l : list (pystr * A)),
  children (map Sp l) q = map (fun tk => (fst tk, snd (snd tk))) (ch_of q l).
Proof.
  intros A q l. unfold children, ch_of. rewrite flat_map_map. induction l as [|kv l IH]; [reflexivity|].
  cbn [flat_map]. rewrite map_app, <- IH. f_equal. cbn [Sp fst snd].
  destruct (strip_prefix q (split (fst kv))) as [[|t [|t2 r]]|]; reflexivity.
Qed.

Lemma ch_of_in : forall {A} q (l : list (pystr * A)) t s x,
  In (t, (s, x)) (ch_of q l) -> In (s, x) l /\ split s = q ++ [t].
Proof.
  intros A q l t s x H. unfold ch_of in H. apply in_flat_map in H. destruct H as [kv [Hin H]].
  destruct (strip_prefix q (split (fst kv))) as [[|t' [|t2 r]]|] eqn:E; try destruct H.
  - inversion H; subst. cbn [fst] in E. apply strip_prefix_spec in E. auto.
  - destruct H.
Qed.

Section Refine.
  Variable p : pystr.
  Variable ms : sdict entry.
  Variable ls : sdict obj.
  Hypothesis SFp : slash_free p.
  Hypothesis HPm : forall kv, In kv ms -> split_head (fst kv) = p.
  Hypothesis HPl : forall kv, In kv ls -> split_head (fst kv) = p.
  Hypothesis NDm : NoDup (map fst ms).
  Hypothesis NDl : NoDup (map fst ls).
  Hypothesis DJ : forall k, In k (map fst ms) -> In k (map fst ls) -> False.

  (* shape of a path under the prefix that is not the prefix itself *)
  Lemma pk_shape : forall s, split_head s = p -> s <> p ->
    exists q t, q <> [] /\ Forall slash_free q /\ split s = q ++ [t] /\ pk p s = Some (join q, t) /\ s = join q ++ 47 :: t.
  Proof.
    intros s HS NS. destruct (snoc_cases (split s)) as [E|[q [t E]]].
    - destruct (split_cons s) as [a [b E2]]. congruence.
    - exists q, t. assert (Q : q <> []).
      { intro K. subst q. cbn [app] in E. apply NS. apply (split_singleton p s SFp).
        rewrite E. f_equal. unfold split_head in HS. rewrite E in HS. exact HS. }
      split; [exact Q|]. split.
      + pose proof (split_tokens_slash_free s) as F. rewrite E in F. apply Forall_app in F. tauto.
      + split; [exact E|]. split.
        * unfold pk. destruct (str_eqb s p) eqn:E2; [apply str_eqb_eq in E2; contradiction|].
          rewrite E, removelast_last, last_last. reflexivity.
        * rewrite <- (join_split s) at 1. rewrite E. apply join_snoc. exact Q.
  Qed.

  Lemma grp_ch_of : forall {A} (F : pystr * A -> ref) (l : list (pystr * A)) q,
    (forall kv, In kv l -> split_head (fst kv) = p) -> q <> [] -> Forall slash_free q ->
    grp p (map (fun kv => (fst kv, F kv)) l) (join q) = map (fun tk => (fst tk, F (snd tk))) (ch_of q l).
  Proof.
    intros A F l q HP Q SQ. unfold grp, ch_of. rewrite flat_map_map. induction l as [|kv l IH]; [reflexivity|].
    cbn [flat_map]. rewrite map_app, <- IH by (intros; apply HP; right; assumption). f_equal. cbn [fst snd].
    pose proof (HP kv (or_introl eq_refl)) as HS.
    destruct (str_eqb (fst kv) p) eqn:EP.
    - apply str_eqb_eq in EP. unfold pk. rewrite EP, str_eqb_refl.
      destruct (strip_prefix q (split p)) as [[|t [|t2 r]]|] eqn:E; try reflexivity.
      exfalso. apply strip_prefix_spec in E. rewrite (split_slash_free p SFp) in E.
      apply (f_equal (@length _)) in E. rewrite app_length in E. cbn [length] in E. destruct q; [congruence | cbn [length] in E; lia].
    - assert (NS : fst kv <> p) by (intro K; rewrite K, str_eqb_refl in EP; discriminate).
      destruct (pk_shape (fst kv) HS NS) as [q0 [t0 [Q0 [SQ0 [E [PK _]]]]]]. rewrite PK, E.
      destruct (str_eqb (join q0) (join q)) eqn:EJ.
      + apply str_eqb_eq in EJ. apply (join_inj_sf q0 q Q0 Q SQ0 SQ) in EJ. subst q0.
        assert (S1 : strip_prefix q (q ++ [t0]) = Some [t0]) by (apply strip_prefix_spec; reflexivity).
        rewrite S1. reflexivity.
      + destruct (strip_prefix q (q0 ++ [t0])) as [[|t [|t2 r]]|] eqn:E2; try reflexivity.
        exfalso. apply strip_prefix_spec in E2. apply app_inj_tail in E2. destruct E2 as [E2 _]. subst q0.
        rewrite str_eqb_refl in EJ. discriminate.
  Qed.

  Definition H0 : heap := map (fun kv => (fst kv, init_cont (snd kv))) ms.
  Definition chain : list (pystr * ref) := heap_items H0 ++ leaf_items ls.

  Lemma chain_eq : chain = map (fun kv => (fst kv, RCont (fst kv))) ms ++ map (fun kv => (fst kv, RVal (snd kv))) ls.
  Proof. unfold chain, heap_items, leaf_items, H0. rewrite map_map. reflexivity. Qed.

  Lemma chain_keys : map fst chain = map fst ms ++ map fst ls.
  Proof. rewrite chain_eq, map_app, !map_map. reflexivity. Qed.

  Lemma chain_nodup : NoDup (map fst chain).
  Proof. rewrite chain_keys. apply NoDup_app_intro; [exact NDm | exact NDl | exact DJ]. Qed.

  Lemma chain_head : forall it, In it chain -> split_head (fst it) = p.
  Proof.
    intros it H. rewrite chain_eq in H. apply in_app_or in H. destruct H as [H|H]; apply in_map_iff in H;
      destruct H as [kv [E H]]; subst it; cbn [fst]; [apply HPm | apply HPl]; exact H.
  Qed.

  (* the values grouped under the container at component path q *)
  Definition gvals (q : path) : list (pystr * ref) :=
    map (fun tk => (fst tk, RCont (fst (snd tk)))) (ch_of q ms) ++ map (fun tk => (fst tk, RVal (snd (snd tk)))) (ch_of q ls).

  Lemma grp_chain : forall q, q <> [] -> Forall slash_free q -> grp p chain (join q) = gvals q.
  Proof.
    intros q Q SQ. rewrite chain_eq, grp_app. unfold gvals. f_equal.
    - exact (grp_ch_of (fun kv : pystr * entry => RCont (fst kv)) ms q HPm Q SQ).
    - exact (grp_ch_of (fun kv : pystr * obj => RVal (snd kv)) ls q HPl Q SQ).
  Qed.

  Lemma gvals_tokens : forall q, map fst (gvals q) = map fst (children (map Sp ms) q) ++ map fst (children (map Sp ls) q).
  Proof. intro q. unfold gvals. rewrite !children_ch_of, map_app, !map_map. reflexivity. Qed.

  Lemma in_M' : forall {A} (l : list (pystr * A)) q e, In (q, e) (map Sp l) -> exists s, In (s, e) l /\ split s = q.
  Proof. intros A l q e H. apply in_map_iff in H. destruct H as [[s e'] [E H]]. inversion E; subst. eauto. Qed.

  Lemma H0_get : forall q e, In (q, e) (map Sp ms) -> sdict_get (join q) H0 = Some (init_cont e).
  Proof.
    intros q e H. destruct (in_M' ms q e H) as [s [Hs E]]. subst q. rewrite join_split.
    unfold H0. rewrite (sdict_get_map init_cont). rewrite (sdict_get_in s e ms NDm Hs). reflexivity.
  Qed.

  (* ---------------- the hand model succeeded on these dicts ---------------- *)
  Variable e0 : entry.
  Variable o0 : obj.
  Hypothesis ROOT : In ([p], e0) (map Sp ms).
  Hypothesis POK : parents_ok (map Sp ms) (map Sp ls) [p] = true.
  Hypothesis BUILD : build (S (length (map Sp ms))) (map Sp ms) (map Sp ls) [p] e0 = Some o0.

  Lemma M'_nodup : NoDup (map fst (map Sp ms)).
  Proof.
    rewrite map_map. cbn [Sp fst]. rewrite <- (map_map fst split). apply NoDup_map_inj; [|exact NDm].
    intros a b E. rewrite <- (join_split a), <- (join_split b), E. reflexivity.
  Qed.

  Lemma closure : forall q, In q (map fst (map Sp ms) ++ map fst (map Sp ls)) ->
    q = [p] \/ In (removelast q) (map fst (map Sp ms)).
  Proof.
    intros q H. unfold parents_ok in POK. rewrite forallb_forall in POK. specialize (POK q H).
    apply orb_true_iff in POK. destruct POK as [E|E].
    - left. apply path_eqb_eq. exact E.
    - right. unfold path_memb in E. apply existsb_exists in E. destruct E as [x [Hx E]].
      apply path_eqb_eq in E. subst x. exact Hx.
  Qed.

  Lemma M'_shape : forall {A} (l : list (pystr * A)) q e, (forall kv, In kv l -> split_head (fst kv) = p) ->
    In (q, e) (map Sp l) -> exists r, q = [p] ++ r /\ Forall slash_free q.
  Proof.
    intros A l q e HP H. destruct (in_M' l q e H) as [s [Hs E]]. pose proof (HP _ Hs) as HS. cbn [fst] in HS.
    destruct (split_cons s) as [a [b E2]]. unfold split_head in HS. rewrite E2 in HS. cbn [hd] in HS. subst a.
    exists b. split; [rewrite <- E, E2; reflexivity|]. rewrite <- E. apply split_tokens_slash_free.
  Qed.

  Lemma container_built : forall q e, In (q, e) (map Sp ms) ->
    exists f o, build (S f) (map Sp ms) (map Sp ls) q e = Some o.
  Proof.
    intros q e H. destruct (M'_shape ms q e HPm H) as [r [E _]]. subst q.
    assert (A : forall k, (k <= length r)%nat -> In ([p] ++ firstn k r) (map fst (map Sp ms))).
    { apply ancestors_closed.
      - intros q Hq. apply closure. apply in_or_app. left. exact Hq.
      - apply (in_map fst) in H. exact H. }
    pose proof (chain_length _ [p] r M'_nodup A) as L. rewrite map_length in L.
    destruct (build_reach _ (map Sp ls) M'_nodup r [p] e0 _ o0 e BUILD ROOT H A ltac:(lia)) as [o' B].
    exists (length (map Sp ms) - length r)%nat, o'.
    rewrite Nat.sub_succ_l in B by (apply Nat.lt_le_incl; exact L). exact B.
  Qed.

  Lemma mapM_fst : forall {A B C} (F : A * B -> option C) l vc,
    mapM (fun te => option_map (fun o => (fst te, o)) (F te)) l = Some vc -> map fst vc = map fst l.
  Proof.
    intros A B C F l. induction l as [|x l IH]; intros vc H; cbn [mapM] in H.
    - inversion H. reflexivity.
    - destruct (F x); cbn [option_map] in H; [|discriminate].
      match type of H with context [mapM ?f l] => destruct (mapM f l) as [bs|] eqn:M end; [|discriminate].
      inversion H; subst. cbn [map fst]. rewrite (IH bs eq_refl). reflexivity.
  Qed.

  (* every group of values belongs to a container of the manifest, and populating that container does not raise *)
  Lemma group_ok : forall s, grp p chain s <> [] ->
    exists c c', sdict_get s H0 = Some c /\ populate_container_gen s c (grp p chain s) = Some c'.
  Proof.
    intros s NE. destruct (grp p chain s) as [|[k0 r0] rest] eqn:EG; [congruence|]. clear NE.
    assert (X : In (k0, r0) (grp p chain s)) by (rewrite EG; left; reflexivity).
    unfold grp in X. apply in_flat_map in X. destruct X as [it [Hit X]].
    destruct (pk p (fst it)) as [[c k]|] eqn:PK; [|destruct X].
    destruct (str_eqb c s) eqn:CS; [|destruct X]. apply str_eqb_eq in CS. subst c. clear X.
    assert (NS : fst it <> p) by (intro K; unfold pk in PK; rewrite K, str_eqb_refl in PK; discriminate).
    destruct (pk_shape (fst it) (chain_head it Hit) NS) as [q [t [Q [SQ [E [PK' _]]]]]].
    rewrite PK' in PK. inversion PK; subst s k. clear PK.
    assert (IN : In (split (fst it)) (map fst (map Sp ms) ++ map fst (map Sp ls))).
    { rewrite !map_map. cbn [Sp fst]. rewrite <- (map_map fst split), <- (map_map fst split), <- map_app, <- chain_keys.
      apply in_map. apply in_map. exact Hit. }
    destruct (closure _ IN) as [K|K].
    { exfalso. rewrite E in K. apply (f_equal (@length _)) in K. rewrite app_length in K. cbn [length] in K.
      destruct q; [congruence | cbn [length] in K; lia]. }
    rewrite E, removelast_last in K. apply in_map_iff in K. destruct K as [[q' eq] [Eq K]]. cbn [fst] in Eq. subst q'.
    exists (init_cont eq). rewrite (H0_get q eq K), <- EG, (grp_chain q Q SQ), populate_container_gen_correct.
    destruct (container_built q eq K) as [f [oq B]]. destruct (build_inv _ _ _ _ _ _ B) as [vc [M HP]].
    assert (TK : map fst (vc ++ children (map Sp ls) q) = map fst (gvals q))
      by (rewrite gvals_tokens, map_app, (mapM_fst _ _ _ M); reflexivity).
    assert (NEh : vc ++ children (map Sp ls) q <> []).
    { intro Z. rewrite Z in TK. cbn [map] in TK. rewrite <- (grp_chain q Q SQ), EG in TK. discriminate. }
    destruct (vc ++ children (map Sp ls) q) as [|v1 vr] eqn:EV; [congruence|].
    rewrite populate_is_spec in HP. destruct (populate_spec eq (v1 :: vr)) as [ch|] eqn:PS; [|discriminate].
    apply populate_spec_ok_inv in PS. rewrite TK in PS. destruct (populate_spec_ok eq (gvals q) PS) as [c' Ec'].
    exists c'. split; [reflexivity | exact Ec'].
  Qed.

  (* ---------------- the grouping and the populated heap, as the generated loops computed them ---------------- *)
  Variable G : sdict (sdict ref).
  Hypothesis Gspec : forall cp, sdict_get cp G = nonempty (grp p chain cp).
  Variable H' : heap.
  Hypothesis H'spec : forall s, sdict_get s H' =
    match sdict_get s G with
    | None => sdict_get s H0
    | Some vals => c <- sdict_get s H0 ;; populate_container_gen s c vals
    end.

  Lemma resolve_init : forall f (h : heap) s e, sdict_get s h = Some (init_cont e) ->
    resolve (S f) h (RCont s) = Some (init_container e).
  Proof.
    intros f h s e E. cbn [resolve]. rewrite E. destruct e as [|ord ks]; cbn [init_cont init_container]; [reflexivity|].
    unfold cont_fromkeys. rewrite mapM_map_arg. cbn [fst snd].
    rewrite (mapM_map _ (fun k : key => (k, py_none))); [reflexivity|].
    intros k _. destruct f; reflexivity.
  Qed.

  Theorem resolve_build : forall f q e o, In (q, e) (map Sp ms) ->
    build f (map Sp ms) (map Sp ls) q e = Some o -> resolve f H' (RCont (join q)) = Some o.
  Proof.
    induction f as [|f IH]; intros q e o HQ B; [discriminate|].
    destruct (M'_shape ms q e HPm HQ) as [r [Eq SQ]]. assert (Q : q <> []) by (subst q; discriminate).
    destruct (build_inv _ _ _ _ _ _ B) as [vc [M HP]].
    pose proof (H'spec (join q)) as HS. rewrite Gspec, (grp_chain q Q SQ), (H0_get q e HQ) in HS. cbn [obind] in HS.
    set (g := fun r : ref => match resolve f H' r with Some x => x | None => py_none end).
    (* the values the hand model populates with are the grouped references read back *)
    assert (VC : vc = map (fun tk : token * (pystr * entry) => (fst tk, g (RCont (fst (snd tk))))) (ch_of q ms)).
    { rewrite children_ch_of, mapM_map_arg in M. apply (mapM_eq_map _ _ _ _ M).
      intros [t [s e']] y Hin Hy. cbn [fst snd] in *. destruct (ch_of_in q ms t s e' Hin) as [Hs Es].
      destruct (build f (map Sp ms) (map Sp ls) (q ++ [t]) e') as [ot|] eqn:Bt; [|discriminate].
      inversion Hy; subst y. f_equal. unfold g.
      assert (HQt : In (q ++ [t], e') (map Sp ms)) by (apply in_map_iff; exists (s, e'); split; [unfold Sp; cbn [fst snd]; rewrite Es; reflexivity | exact Hs]).
      rewrite <- (join_split s), Es, (IH (q ++ [t]) e' ot HQt Bt). reflexivity. }
    assert (RES : forall r0, In r0 (map snd (gvals q)) -> resolve f H' r0 = Some (g r0)).
    { intros r0 Hr. unfold gvals in Hr. rewrite map_app, !map_map in Hr. cbn [snd] in Hr. apply in_app_or in Hr.
      destruct Hr as [Hr|Hr]; apply in_map_iff in Hr; destruct Hr as [[t [s x]] [E Hin]]; cbn [fst snd] in E; subst r0.
      - destruct (ch_of_in q ms t s x Hin) as [Hs Es].
        assert (C : In (t, x) (children (map Sp ms) q)).
        { rewrite children_ch_of. apply in_map_iff. exists (t, (s, x)). split; [reflexivity | exact Hin]. }
        destruct (build_child _ _ _ _ _ _ _ _ B C) as [ot Bt].
        assert (HQt : In (q ++ [t], x) (map Sp ms)) by (apply in_map_iff; exists (s, x); split; [unfold Sp; cbn [fst snd]; rewrite Es; reflexivity | exact Hs]).
        unfold g. rewrite <- (join_split s), Es, (IH (q ++ [t]) x ot HQt Bt). reflexivity.
      - unfold g. destruct f; reflexivity. }
    assert (VH : vc ++ children (map Sp ls) q = map_snd g (gvals q)).
    { unfold gvals, map_snd. rewrite map_app, !map_map. cbn [fst snd]. rewrite VC, children_ch_of. f_equal.
      apply map_ext. intros [t [s x]]. cbn [fst snd]. unfold g. destruct f; reflexivity. }
    rewrite VH in HP.
    destruct (gvals q) as [|gv gr] eqn:EG.
    - cbn [map_snd map nonempty] in HP, HS. inversion HP; subst o. apply resolve_init. exact HS.
    - cbn [nonempty] in HS. rewrite populate_container_gen_correct in HS.
      assert (HP' : populate e (map_snd g (gv :: gr)) = Some o) by exact HP. clear HP.
      rewrite populate_is_spec, populate_spec_map in HP'.
      destruct (populate_spec e (gv :: gr)) as [c'|] eqn:PS; [|discriminate]. cbn [option_map] in HP'. inversion HP'; subst o.
      cbn [resolve]. rewrite HS. pose proof (populate_spec_vals e _ c' PS) as SUB.
      destruct c' as [xs|ord kvs]; cbn [cont_vals cont_map cont_obj] in *.
      + rewrite (mapM_map _ g); [reflexivity|]. intros x Hx. apply RES. apply SUB. exact Hx.
      + rewrite (mapM_map _ (fun kv : key * ref => (fst kv, g (snd kv)))); [reflexivity|].
        intros [k v] Hin. cbn [fst snd]. rewrite (RES v); [reflexivity|]. apply SUB. apply (in_map snd) in Hin. exact Hin.
  Qed.
End Refine.

(* ---------------- the other direction: where the hand model answers None the generated populate loop raises ---------------- *)
Section RefineErr.
  Variable p : pystr.
  Variable ms : sdict entry.
  Variable ls : sdict obj.
  Hypothesis SFp : slash_free p.
  Hypothesis HPm : forall kv, In kv ms -> split_head (fst kv) = p.
  Hypothesis HPl : forall kv, In kv ls -> split_head (fst kv) = p.
  Hypothesis NDm : NoDup (map fst ms).
  Variable G : sdict (sdict ref).
  Hypothesis Gspec : forall cp, sdict_get cp G = nonempty (grp p (chain ms ls) cp).

  Lemma group_in_G : forall q, q <> [] -> Forall slash_free q -> gvals ms ls q <> [] -> In (join q, gvals ms ls q) G.
  Proof.
    intros q Q SQ NE. apply sdict_get_some_in. rewrite Gspec, (grp_chain p ms ls SFp HPm HPl q Q SQ).
    destruct (gvals ms ls q); [congruence | reflexivity].
  Qed.

  (* a path whose parent is not a container: its group has no heap cell (containers[path] raises KeyError) *)
  Lemma missing_parent_group : parents_ok (map Sp ms) (map Sp ls) [p] = false ->
    exists s vals, In (s, vals) G /\ sdict_get s (H0 ms) = None.
  Proof.
    intro POK. unfold parents_ok in POK. apply forallb_false in POK. destruct POK as [q [Hq F]].
    apply orb_false_iff in F. destruct F as [F1 F2].
    assert (IN : exists it, In it (chain ms ls) /\ split (fst it) = q).
    { rewrite !map_map in Hq. cbn [Sp fst] in Hq. rewrite <- (map_map fst split), <- (map_map fst split), <- map_app, <- chain_keys in Hq.
      apply in_map_iff in Hq. destruct Hq as [s [E Hs]]. apply in_map_iff in Hs. destruct Hs as [it [E2 Hit]]. subst s. eauto. }
    destruct IN as [it [Hit E]].
    assert (NS : fst it <> p).
    { intro K. rewrite K, (split_slash_free p SFp) in E. subst q. rewrite path_eqb_refl in F1. discriminate. }
    destruct (pk_shape p SFp (fst it) (chain_head p ms ls HPm HPl it Hit) NS) as [q0 [t [Q [SQ [E0 [PK _]]]]]].
    assert (NE : grp p (chain ms ls) (join q0) <> []).
    { intro K. assert (X : In (t, snd it) (grp p (chain ms ls) (join q0))); [|rewrite K in X; exact X].
      unfold grp. apply in_flat_map. exists it. split; [exact Hit|]. rewrite PK, str_eqb_refl. left. reflexivity. }
    exists (join q0), (grp p (chain ms ls) (join q0)). split.
    - apply sdict_get_some_in. rewrite Gspec. destruct (grp p (chain ms ls) (join q0)); [congruence | reflexivity].
    - apply sdict_get_none. intro K. unfold H0 in K. rewrite map_map in K. cbn [fst] in K.
      apply in_map_iff in K. destruct K as [[s e] [Es Hs]]. cbn [fst] in Es.
      assert (X : path_memb (removelast q) (map fst (map Sp ms)) = true); [|congruence].
      unfold path_memb. apply existsb_exists. exists q0. split.
      + apply in_map_iff. exists (q0, e). split; [reflexivity|]. apply in_map_iff. exists (s, e). split; [|exact Hs].
        unfold Sp. cbn [fst snd]. rewrite Es, (split_join q0 Q SQ). reflexivity.
      + rewrite <- E, E0, removelast_last. apply path_eqb_refl.
  Qed.

  Hypothesis POK : parents_ok (map Sp ms) (map Sp ls) [p] = true.

  Lemma depth_bound : forall r e, In ([p] ++ r, e) (map Sp ms) -> (length r < length (map Sp ms))%nat.
  Proof.
    intros r e H.
    assert (A : forall k, (k <= length r)%nat -> In ([p] ++ firstn k r) (map fst (map Sp ms))).
    { apply ancestors_closed.
      - intros q Hq. apply (closure p ms ls POK). apply in_or_app. left. exact Hq.
      - apply (in_map fst) in H. exact H. }
    pose proof (chain_length _ [p] r (M'_nodup ms NDm) A) as L. rewrite map_length in L. exact L.
  Qed.

  (* a failed build means that the population of some container of the manifest raises *)
  Lemma build_none_group : forall f r e, In ([p] ++ r, e) (map Sp ms) -> (f + length r = S (length (map Sp ms)))%nat ->
    build f (map Sp ms) (map Sp ls) ([p] ++ r) e = None ->
    exists s vals c, In (s, vals) G /\ sdict_get s (H0 ms) = Some c /\ populate_container_gen s c vals = None.
  Proof.
    induction f as [|f IH]; intros r e HQ Hf B.
    { exfalso. pose proof (depth_bound r e HQ) as L. unfold path, token, pystr in *. lia. }
    destruct (M'_shape p ms _ e HPm HQ) as [_ [_ SQ]]. assert (Q : [p] ++ r <> []) by discriminate.
    cbn [build] in B.
    match type of B with context [mapM ?F ?l] => destruct (mapM F l) as [vc|] eqn:M end.
    - (* the children were built; populate raised *)
      assert (TK : map fst (vc ++ children (map Sp ls) ([p] ++ r)) = map fst (gvals ms ls ([p] ++ r)))
        by (rewrite gvals_tokens, map_app, (mapM_fst _ _ _ M); reflexivity).
      destruct (vc ++ children (map Sp ls) ([p] ++ r)) as [|v1 vr] eqn:EV; [discriminate|].
      rewrite populate_is_spec in B. destruct (populate_spec e (v1 :: vr)) as [c|] eqn:PS; [discriminate|].
      pose proof (populate_spec_none_tokens e _ (gvals ms ls ([p] ++ r)) TK PS) as PG.
      assert (NE : gvals ms ls ([p] ++ r) <> []) by (intro K; rewrite K in TK; discriminate).
      exists (join ([p] ++ r)), (gvals ms ls ([p] ++ r)), (init_cont e). split; [exact (group_in_G _ Q SQ NE)|]. split.
      + exact (H0_get ms NDm _ e HQ).
      + rewrite populate_container_gen_correct. exact PG.
    - (* some child was not built *)
      apply mapM_none in M. destruct M as [[t e'] [Hin Fx]]. cbn [fst snd] in Fx.
      match type of Fx with context [build ?a ?b ?c ?d ?e1] => destruct (build a b c d e1) as [o'|] eqn:B' end;
        [cbn [option_map] in Fx; discriminate|].
      apply in_children in Hin. rewrite <- app_assoc in Hin, B'.
      apply (IH (r ++ [t]) e' Hin); [|exact B']. rewrite app_length. cbn [length]. unfold path, token, pystr in *. lia.
  Qed.
End RefineErr.

Lemma gen_filter : forall {A} p (l : sdict A), NoDup (map fst l) ->
  sdict_of_list (flat_map (fun it : pystr * A => if str_eqb (split_head (fst it)) p then [(fst it, snd it)] else [])
                          (sdict_items l)) = filter (hpb p) l.
Proof.
  intros A p l N. unfold sdict_items. transitivity (sdict_of_list (filter (hpb p) l)).
  - f_equal. exact (flat_map_filter_pairs (hpb p) l).
  - apply sdict_of_list_nodup. apply NoDup_map_filter. exact N.
Qed.

Lemma loop1_for : forall (body : heap -> pystr * entry -> option heap) l acc,
  (forall st it, body st it = (t <- entry_to_container_gen (snd it) ;; Some (sdict_set (fst it) t st))) ->
  NoDup (map fst acc ++ map fst l) ->
  py_for l acc body = Some (acc ++ map (fun kv => (fst kv, init_cont (snd kv))) l).
Proof.
  intros body l. induction l as [|[k e] l IH]; intros acc Hb N.
  - cbn. rewrite app_nil_r. reflexivity.
  - cbn [py_for]. rewrite Hb, entry_to_container_gen_correct. cbn [obind fst snd map].
    cbn [map fst] in N. pose proof (NoDup_remove_2 _ _ _ N) as Hk.
    rewrite sdict_set_absent by (intro K; apply Hk; apply in_or_app; left; exact K).
    rewrite IH; [rewrite <- app_assoc; reflexivity | exact Hb |].
    rewrite map_app, <- app_assoc. exact N.
Qed.

(* The generated inflate IS the hand model on Python dicts.  m and lm have distinct keys; under the prefix no path is
   both a container and a leaf (the hand model does not describe that case).  None = an exception, on both sides. *)
Theorem inflate_gen_is_model : forall m lm prefix,
  NoDup (map fst m) -> NoDup (map fst lm) ->
  (forall k, In k (map fst m) -> In k (map fst lm) -> split_head k <> encode prefix) ->
  inflate_run_gen m lm prefix = inflate_s m lm prefix.
Proof.
  intros m lm prefix Nm Nl DJ. rewrite inflate_s_unfold.
  unfold inflate_run_gen, inflate_gen. cbv zeta. rewrite !encode_gen_is_encode.
  rewrite (gen_filter (encode prefix) m Nm), (gen_filter (encode prefix) lm Nl).
  set (p := encode prefix) in *. set (ms := filter (hpb p) m) in *. set (ls := filter (hpb p) lm) in *.
  assert (SFp : slash_free p) by apply encode_slash_free.
  assert (HPm : forall kv, In kv ms -> split_head (fst kv) = p)
    by (intros kv Hin; apply filter_In in Hin; destruct Hin as [_ Hin]; apply str_eqb_eq; exact Hin).
  assert (HPl : forall kv, In kv ls -> split_head (fst kv) = p)
    by (intros kv Hin; apply filter_In in Hin; destruct Hin as [_ Hin]; apply str_eqb_eq; exact Hin).
  assert (NDm : NoDup (map fst ms)) by (apply NoDup_map_filter; exact Nm).
  assert (NDl : NoDup (map fst ls)) by (apply NoDup_map_filter; exact Nl).
  assert (DJ' : forall k, In k (map fst ms) -> In k (map fst ls) -> False).
  { intros k H1 H2. apply in_map_iff in H1. destruct H1 as [kv1 [E1 H1]]. apply in_map_iff in H2. destruct H2 as [kv2 [E2 H2]].
    pose proof (HPm kv1 H1) as HS. rewrite E1 in HS. apply filter_In in H1. apply filter_In in H2.
    apply (DJ k); [rewrite <- E1; apply in_map; tauto | rewrite <- E2; apply in_map; tauto | exact HS]. }
  rewrite !(assoc_path_split p) by exact SFp. unfold sdict_mem.
  (* `if prefix in flattened: return flattened[prefix]` *)
  destruct (sdict_get p ls) as [o'|] eqn:EL; [reflexivity|].
  (* `if prefix not in manifest: raise` *)
  destruct (sdict_get p ms) as [e0|] eqn:EM; [|reflexivity]. cbn [negb].
  assert (ROOT : In ([p], e0) (map Sp ms)).
  { apply sdict_get_some_in in EM. apply in_map_iff. exists (p, e0). split; [|exact EM].
    unfold Sp. cbn [fst snd]. rewrite (split_slash_free p SFp). reflexivity. }
  (* loop 1: the containers *)
  unfold sdict_items.
  match goal with |- context [py_for ms [] ?b] => rewrite (loop1_for b ms []) end;
    [| intros st it; reflexivity | exact NDm].
  cbn [app obind]. fold (H0 ms). fold (chain ms ls).
  (* loop 2: grouping by parent path *)
  match goal with |- context [py_for (chain ms ls) [] ?b] =>
    destruct (grp_for p b (chain ms ls)) as [G [EG [NG SG]]] end.
  { intros st it Hit. pose proof (chain_head p ms ls HPm HPl it Hit) as HS. unfold grp_step.
    destruct (str_eqb (fst it) p) eqn:EP.
    - apply str_eqb_eq in EP. unfold pk. rewrite EP, str_eqb_refl. reflexivity.
    - assert (NS : fst it <> p) by (intro K; rewrite K, str_eqb_refl in EP; discriminate).
      destruct (pk_shape p SFp (fst it) HS NS) as [q [t [Q [_ [E [PK _]]]]]]. rewrite PK, E, py_pop_snoc.
      (* the defensive `len(tokens) < 2` test (in whatever form it is written) is false: tokens = q ++ [t], q <> [] *)
      match goal with |- context [if ?c then None else _] => destruct c eqn:C end; [exfalso | reflexivity].
      rewrite app_length in C. cbn [length] in C. destruct q; [congruence|]. cbn [length] in C. lia. }
  { apply chain_nodup; assumption. }
  { intros it c k Hit PK. pose proof (chain_head p ms ls HPm HPl it Hit) as HS.
    assert (NS : fst it <> p) by (intro K; unfold pk in PK; rewrite K, str_eqb_refl in PK; discriminate).
    destruct (pk_shape p SFp (fst it) HS NS) as [q [t [_ [_ [_ [PK' E]]]]]]. rewrite PK' in PK. inversion PK; subst. exact E. }
  rewrite EG. cbn [obind].
  (* loop 3: populating the containers in place *)
  match goal with |- context [py_for G (H0 ms) ?b] => set (body3 := b) end.
  assert (HB3 : forall st it, In it G -> body3 st it = pop_step populate_container_gen st it).
  { intros st it _. unfold body3, pop_step. destruct (sdict_get (fst it) st) as [c|] eqn:E; cbn [obind]; [|reflexivity].
    rewrite cont_isinstance_any. cbn [negb]. reflexivity. }
  assert (FAIL : (exists s vals, In (s, vals) G /\
                    forall c, sdict_get s (H0 ms) = Some c -> populate_container_gen s c vals = None) ->
                 hr <- (v_containers <- py_for G (H0 ms) body3 ;; t7 <- heap_ref v_containers p ;; Some (v_containers, t7)) ;;
                 resolve (S (length (fst hr))) (fst hr) (snd hr) = None).
  { intro W. pose proof (pop_for_fail populate_container_gen body3 G (H0 ms) HB3 NG W) as E.
    unfold heap, sdict in E |- *. rewrite E. reflexivity. }
  destruct (parents_ok (map Sp ms) (map Sp ls) [p]) eqn:POK.
  2:{ (* a parent path that is not a container: KeyError *)
      apply FAIL. destruct (missing_parent_group p ms ls SFp HPm HPl G SG POK) as [s [vals [Hin HN]]].
      exists s, vals. split; [exact Hin|]. intros c Hc. congruence. }
  destruct (build (S (length (map Sp ms))) (map Sp ms) (map Sp ls) [p] e0) as [o|] eqn:B.
  2:{ (* the population of some container raises *)
      apply FAIL.
      destruct (build_none_group p ms ls SFp HPm HPl NDm G SG POK (S (length (map Sp ms))) [] e0 ROOT ltac:(cbn [length]; lia) B)
        as [s [vals [c [Hin [Hc HN]]]]].
      exists s, vals. split; [exact Hin|]. intros c' Hc'. congruence. }
  clear FAIL.
  destruct (pop_for populate_container_gen body3 G (H0 ms) HB3 NG) as [H' [EH [LH SH]]].
  { intros s vals Hin. pose proof (sdict_get_in s vals G NG Hin) as E. rewrite SG in E.
    assert (E2 : grp p (chain ms ls) s = vals /\ grp p (chain ms ls) s <> []).
    { destruct (grp p (chain ms ls) s); [discriminate|]. cbn [nonempty] in E. inversion E. split; [reflexivity | discriminate]. }
    destruct E2 as [E2 NE]. rewrite <- E2.
    apply (group_ok p ms ls) with (e0 := e0) (o0 := o); assumption. }
  unfold heap, sdict in EH |- *. rewrite EH. cbn [obind].
  assert (R : resolve (S (length (map Sp ms))) H' (RCont (join [p])) = Some o)
    by (apply (resolve_build p ms ls) with (G := G) (e := e0); assumption).
  cbn [join] in R.
  assert (LEN : length H' = length (map Sp ms)) by (rewrite LH; unfold H0; rewrite !map_length; reflexivity).
  rewrite <- LEN in R.
  assert (MEM : sdict_mem p H' = true).
  { unfold sdict_mem. cbn [resolve] in R. destruct (sdict_get p H'); [reflexivity | discriminate]. }
  unfold heap_ref. rewrite MEM. cbn [obind fst snd]. exact R.
Qed.

Theorem inflate_gen_refines : forall m lm prefix o,
  NoDup (map fst m) -> NoDup (map fst lm) ->
  (forall k, In k (map fst m) -> In k (map fst lm) -> split_head k <> encode prefix) ->
  inflate_s m lm prefix = Some o -> inflate_run_gen m lm prefix = Some o.
Proof. intros m lm prefix o Nm Nl DJ H. rewrite (inflate_gen_is_model m lm prefix Nm Nl DJ). exact H. Qed.

(* ================================================================== the round trip over the generated functions *)
Lemma NoDup_app_disjoint : forall {A} (a b : list A) x, NoDup (a ++ b) -> In x a -> In x b -> False.
Proof.
  intros A a b x. induction a as [|y a IH]; cbn [app In]; intros N H1 H2; [exact H1|].
  inversion N as [|? ? Hy N']; subst. destruct H1 as [E|H1].
  - subst y. apply Hy. apply in_or_app. right. exact H2.
  - exact (IH N' H1 H2).
Qed.

Lemma flatten_s_disjoint : forall o prefix k,
  In k (map fst (fst (flatten_s o prefix))) -> In k (map fst (snd (flatten_s o prefix))) -> False.
Proof. intros o prefix k. exact (NoDup_app_disjoint _ _ k (flatten_s_paths_nodup o prefix)). Qed.

Theorem generated_inflate_flatten : forall o prefix fm fl ms ls, wf_obj o ->
  flatten_run_gen o prefix = Some (fm, fl) -> Permutation ms fm -> Permutation ls fl ->
  inflate_run_gen ms ls prefix = Some o.
Proof.
  intros o prefix fm fl ms ls W F Pm Pl. rewrite flatten_run_gen_correct in F.
  assert (F' : flatten_s o prefix = (fm, fl)) by (clear - F; congruence).
  assert (Em : fm = fst (flatten_s o prefix)) by (rewrite F'; reflexivity).
  assert (El : fl = snd (flatten_s o prefix)) by (rewrite F'; reflexivity). clear F F'. subst fm fl.
  pose proof (flatten_s_paths_nodup o prefix) as N.
  apply inflate_gen_refines.
  - apply (Permutation_NoDup (l := map fst (fst (flatten_s o prefix)))); [apply Permutation_map, Permutation_sym, Pm | exact (NoDup_app_l _ _ N)].
  - apply (Permutation_NoDup (l := map fst (snd (flatten_s o prefix)))); [apply Permutation_map, Permutation_sym, Pl | exact (NoDup_app_r _ _ N)].
  - intros k H1 H2 _. apply (flatten_s_disjoint o prefix k).
    + exact (Permutation_in _ (Permutation_map fst Pm) H1).
    + exact (Permutation_in _ (Permutation_map fst Pl) H2).
  - exact (inflate_s_flatten_s_perm o prefix ms ls W Pm Pl).
Qed.

(* inside a larger snapshot manifest: ms / ls are Python dicts that agree with the generated flatten's output on the
   paths whose first component is the encoded prefix; everything else (other prefixes, order) is arbitrary *)
Theorem generated_inflate_flatten_embedded : forall o prefix fm fl (ms : sdict entry) (ls : sdict obj), wf_obj o ->
  flatten_run_gen o prefix = Some (fm, fl) ->
  NoDup (map fst ms) -> NoDup (map fst ls) ->
  (forall k e, split_head k = encode_gen prefix -> (In (k, e) ms <-> In (k, e) fm)) ->
  (forall k x, split_head k = encode_gen prefix -> (In (k, x) ls <-> In (k, x) fl)) ->
  inflate_run_gen ms ls prefix = Some o.
Proof.
  intros o prefix fm fl ms ls W F Nm Nl Am Al. rewrite flatten_run_gen_correct in F.
  assert (F' : flatten_s o prefix = (fm, fl)) by (clear - F; congruence).
  assert (Em : fm = fst (flatten_s o prefix)) by (rewrite F'; reflexivity).
  assert (El : fl = snd (flatten_s o prefix)) by (rewrite F'; reflexivity). clear F F'. subst fm fl.
  rewrite encode_gen_is_encode in Am, Al. set (p := encode prefix) in *.
  assert (SJ : forall q, In q (all_paths o [p]) -> split (join q) = q /\ split_head (join q) = p).
  { intros q Hq. pose proof (split_join_path o prefix q Hq) as E. split; [exact E|].
    apply all_paths_prefix in Hq. destruct Hq as [r Er]. unfold split_head. rewrite E, Er. reflexivity. }
  assert (INJ : forall a b : pystr, split a = split b -> a = b)
    by (intros a b E; rewrite <- (join_split a), <- (join_split b), E; reflexivity).
  apply inflate_gen_refines; [exact Nm | exact Nl | |].
  - intros k H1 H2 HS. apply in_map_iff in H1. destruct H1 as [[k1 e] [E1 H1]]. apply in_map_iff in H2. destruct H2 as [[k2 x] [E2 H2]].
    cbn [fst] in E1, E2. subst k1 k2. apply (Am k e HS) in H1. apply (Al k x HS) in H2.
    apply (flatten_s_disjoint o prefix k); [apply (in_map fst) in H1 | apply (in_map fst) in H2]; assumption.
  - unfold inflate_s. apply inflate_correct; [exact W | | | |].
    + rewrite map_map. cbn [fst]. rewrite <- (map_map fst split). apply NoDup_map_inj; [exact INJ | exact Nm].
    + rewrite map_map. cbn [fst]. rewrite <- (map_map fst split). apply NoDup_map_inj; [exact INJ | exact Nl].
    + intros q e HP. apply head_is_prefix in HP. split; intro Hin.
      * apply in_map_iff in Hin. destruct Hin as [[s e'] [E Hs]]. cbn [fst snd] in E. inversion E; subst q e'.
        rewrite head_is_split in HP. apply str_eqb_eq in HP. apply (Am s e HP) in Hs.
        unfold flatten_s in Hs. cbn [fst] in Hs. apply in_map_iff in Hs. destruct Hs as [[q' e'] [E' Hq]]. cbn [fst snd] in E'.
        inversion E'; subst s e'. destruct (SJ q' (in_mpaths _ _ _ _ Hq)) as [S1 _]. rewrite S1. exact Hq.
      * destruct (SJ q (in_mpaths _ _ _ _ Hin)) as [S1 S2]. apply in_map_iff. exists (join q, e). cbn [fst snd]. rewrite S1.
        split; [reflexivity|]. apply (Am (join q) e S2). unfold flatten_s. cbn [fst]. apply in_map_iff. exists (q, e). auto.
    + intros q x HP. apply head_is_prefix in HP. split; intro Hin.
      * apply in_map_iff in Hin. destruct Hin as [[s x'] [E Hs]]. cbn [fst snd] in E. inversion E; subst q x'.
        rewrite head_is_split in HP. apply str_eqb_eq in HP. apply (Al s x HP) in Hs.
        unfold flatten_s in Hs. cbn [snd] in Hs. apply in_map_iff in Hs. destruct Hs as [[q' x'] [E' Hq]]. cbn [fst snd] in E'.
        inversion E'; subst s x'. destruct (SJ q' (in_lpaths _ _ _ _ Hq)) as [S1 _]. rewrite S1. exact Hq.
      * destruct (SJ q (in_lpaths _ _ _ _ Hin)) as [S1 S2]. apply in_map_iff. exists (join q, x). cbn [fst snd]. rewrite S1.
        split; [reflexivity|]. apply (Al (join q) x S2). unfold flatten_s. cbn [snd]. apply in_map_iff. exists (q, x). auto.
Qed.

Theorem generated_opaque_dict_whole : forall ord kvs prefix, should_flatten_gen (map fst kvs) = false ->
  flatten_run_gen (ODict ord kvs) prefix = Some ([], [(encode_gen prefix, ODict ord kvs)]) /\
  inflate_run_gen [] [(encode_gen prefix, ODict ord kvs)] prefix = Some (ODict ord kvs).
Proof.
  intros ord kvs prefix SF. rewrite should_flatten_gen_is_should_flatten in SF. rewrite encode_gen_is_encode.
  assert (L : is_leaflike (ODict ord kvs) = true) by (cbn [is_leaflike]; rewrite SF; reflexivity).
  assert (E : flatten_s (ODict ord kvs) prefix = ([], [(encode prefix, ODict ord kvs)])).
  { unfold flatten_s, flatten_top. rewrite (flatten_leaflike _ _ L). reflexivity. }
  split.
  - rewrite flatten_run_gen_correct, E. reflexivity.
  - assert (W : wf_obj (ODict ord kvs)) by (unfold wf_obj; cbn [wf_objb]; rewrite SF; reflexivity).
    apply (generated_inflate_flatten (ODict ord kvs) prefix [] [(encode prefix, ODict ord kvs)]); [exact W | | apply Permutation_refl | apply Permutation_refl].
    rewrite flatten_run_gen_correct, E. reflexivity.
Qed.
