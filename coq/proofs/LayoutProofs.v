(* C17: proofs about strided tensors and the buffer-protocol (de)serialization model (model/Layout.v). *)
From TS Require Import model.Base model.Layout.

(* ================================================================== lists *)
Lemma llen_nonneg {A} (l : list A) : 0 <= llen l.
Proof. unfold llen; lia. Qed.

Lemma llen_app {A} (a b : list A) : llen (a ++ b) = llen a + llen b.
Proof. unfold llen. rewrite app_length. lia. Qed.

Lemma flat_map_length_const {A B} (f : A -> list B) (l : list A) (c : nat) :
  (forall x, In x l -> length (f x) = c) -> length (flat_map f l) = (length l * c)%nat.
Proof.
  induction l as [|x l IH]; intros H; [reflexivity|].
  cbn [flat_map length]. rewrite app_length, IH.
  - rewrite (H x); [lia | left; reflexivity].
  - intros y Hy. apply H. right; exact Hy.
Qed.

Lemma flat_map_flat_map {A B C} (f : B -> list C) (g : A -> list B) (l : list A) :
  flat_map f (flat_map g l) = flat_map (fun x => flat_map f (g x)) l.
Proof.
  induction l as [|x l IH]; [reflexivity|].
  cbn [flat_map]. rewrite flat_map_app, IH. reflexivity.
Qed.

Lemma flat_map_map {A B C} (f : B -> list C) (g : A -> B) (l : list A) :
  flat_map f (map g l) = flat_map (fun x => f (g x)) l.
Proof. induction l as [|x l IH]; [reflexivity|]. cbn [map flat_map]. rewrite IH. reflexivity. Qed.

Lemma flat_map_ext_in {A B} (f g : A -> list B) (l : list A) :
  (forall x, In x l -> f x = g x) -> flat_map f l = flat_map g l.
Proof.
  induction l as [|x l IH]; intros H; [reflexivity|].
  cbn [flat_map]. rewrite (H x) by (left; reflexivity). rewrite IH; [reflexivity|].
  intros y Hy. apply H. right; exact Hy.
Qed.

Lemma firstn_plus {A} (l : list A) : forall n m, firstn (n + m) l = firstn n l ++ firstn m (skipn n l).
Proof.
  induction l as [|x l IH]; intros n m.
  - rewrite skipn_nil, !firstn_nil. reflexivity.
  - destruct n as [|n]; [reflexivity|]. cbn [Nat.add firstn skipn app]. rewrite IH. reflexivity.
Qed.

Lemma skipn_plus {A} (l : list A) : forall n m, skipn (n + m) l = skipn m (skipn n l).
Proof.
  induction l as [|x l IH]; intros n m.
  - rewrite !skipn_nil. reflexivity.
  - destruct n as [|n]; [reflexivity|]. cbn [Nat.add skipn]. apply IH.
Qed.

Lemma prodZ_nonneg (l : list Z) : Forall (fun d => 0 <= d) l -> 0 <= prodZ l.
Proof.
  induction 1 as [|d l Hd Hl IH]; cbn [prodZ fold_right]; [lia|].
  change (fold_right Z.mul 1 l) with (prodZ l). apply Z.mul_nonneg_nonneg; assumption.
Qed.

Lemma prodZ_cons d l : prodZ (d :: l) = d * prodZ l.
Proof. reflexivity. Qed.

(* ================================================================== row-major enumeration *)
Lemma zrange_length d : length (zrange d) = Z.to_nat d.
Proof. unfold zrange. rewrite map_length, seq_length. reflexivity. Qed.

Lemma zrange_In i d : In i (zrange d) <-> 0 <= i < d.
Proof.
  unfold zrange. rewrite in_map_iff. split.
  - intros [n [<- Hn]]. apply in_seq in Hn. lia.
  - intros Hi. exists (Z.to_nat i). split; [lia|]. apply in_seq. lia.
Qed.

(* the number of multi-indices is the product of the sizes: all ranks, zero-length dimensions included *)
Lemma row_major_length shape :
  Forall (fun d => 0 <= d) shape -> length (row_major shape) = Z.to_nat (prodZ shape).
Proof.
  induction 1 as [|d rest Hd Hrest IH]; [reflexivity|].
  cbn [row_major]. rewrite prodZ_cons.
  rewrite (flat_map_length_const _ _ (length (row_major rest))).
  - rewrite zrange_length, IH. rewrite Z2Nat.inj_mul; [reflexivity | exact Hd | apply prodZ_nonneg; exact Hrest].
  - intros i _. apply map_length.
Qed.

Lemma row_major_bounds shape idx :
  In idx (row_major shape) -> Forall2 (fun i d => 0 <= i < d) idx shape.
Proof.
  revert idx; induction shape as [|d rest IH]; intros idx Hin.
  - cbn in Hin. destruct Hin as [<-|[]]. constructor.
  - cbn [row_major] in Hin. apply in_flat_map in Hin as [i [Hi Hin]].
    apply in_map_iff in Hin as [idx' [<- Hin']].
    constructor; [apply zrange_In; exact Hi | apply IH; exact Hin'].
Qed.

(* ================================================================== strided tensors *)
Section LayoutProofs.
  Variable E : Type.
  Variable esize : Z.
  Variable elem_bytes : E -> list Z.
  Hypothesis esize_pos : 0 < esize.
  Hypothesis elem_bytes_len : forall e, length (elem_bytes e) = Z.to_nat esize.

  (* every multi-index of the shape lands inside the storage: what PyTorch guarantees for a valid view *)
  Definition wf_layout (t : tensor E) : Prop :=
    Forall (fun d => 0 <= d) (t_shape t) /\
    length (t_strides t) = length (t_shape t) /\
    forall idx, In idx (row_major (t_shape t)) -> 0 <= lin t idx < llen (t_storage t).

  Lemma wf_layoutb_sound t : wf_layoutb t = true -> wf_layout t.
  Proof.
    unfold wf_layoutb, wf_layout. intros H.
    apply andb_true_iff in H as [H Hidx]. apply andb_true_iff in H as [Hsh Hlen].
    rewrite forallb_forall in Hsh, Hidx. apply Nat.eqb_eq in Hlen.
    repeat split.
    - apply Forall_forall. intros d Hd. specialize (Hsh d Hd). lia.
    - exact Hlen.
    - specialize (Hidx idx H). lia.
    - specialize (Hidx idx H). lia.
  Qed.

  Lemma fetch_in_range (st : list E) k : 0 <= k < llen st -> exists e, fetch st k = [e].
  Proof.
    intros Hk. unfold fetch. destruct (k <? 0) eqn:Hneg; [lia|].
    destruct (nth_error st (Z.to_nat k)) as [e|] eqn:Hn; [exists e; reflexivity|].
    apply nth_error_None in Hn. unfold llen in Hk. lia.
  Qed.

  (* no element is dropped or duplicated: one element per multi-index *)
  Lemma elems_length t : wf_layout t -> llen (elems t) = numel t.
  Proof.
    intros [Hsh [_ Hidx]]. unfold elems, llen, numel.
    rewrite (flat_map_length_const _ _ 1%nat).
    - rewrite row_major_length by exact Hsh. pose proof (prodZ_nonneg _ Hsh). lia.
    - intros idx Hin. destruct (fetch_in_range (t_storage t) (lin t idx) (Hidx idx Hin)) as [e ->]. reflexivity.
  Qed.

  Lemma bytes_of_length (l : list E) : llen (bytes_of elem_bytes l) = esize * llen l.
  Proof.
    unfold bytes_of, llen. rewrite (flat_map_length_const _ _ (Z.to_nat esize)).
    - lia.
    - intros e _. apply elem_bytes_len.
  Qed.

  (* ---------------------------------------------------------------- serialized length *)
  (* through a carrier of item size c the buffer has c * floor(esize*numel / c) bytes *)
  Lemma serialized_length_carrier c t :
    0 < c -> wf_layout t -> llen (as_memoryview elem_bytes c t) = c * ((esize * numel t) / c).
  Proof.
    intros Hc Hwf. unfold as_memoryview.
    destruct (numel t =? 0) eqn:Hn.
    - apply Z.eqb_eq in Hn. rewrite Hn, Z.mul_0_r, Z.div_0_l, Z.mul_0_r by lia. reflexivity.
    - set (payload := bytes_of elem_bytes (elems t)).
      assert (HL : llen payload = esize * numel t).
      { unfold payload. rewrite bytes_of_length, elems_length by exact Hwf. reflexivity. }
      rewrite <- HL. pose proof (llen_nonneg payload) as Hnn.
      pose proof (Z.mul_div_le (llen payload) c Hc) as Hle.
      pose proof (Z.div_pos (llen payload) c Hnn Hc) as Hq.
      unfold llen at 1. rewrite firstn_length. unfold llen in *. lia.
  Qed.

  Lemma serialized_length t :
    wf_layout t -> llen (as_memoryview elem_bytes 1 t) = esize * numel t.
  Proof.
    intros Hwf. rewrite serialized_length_carrier by (lia || exact Hwf).
    rewrite Z.div_1_r. lia.
  Qed.

  (* with carrier 1 nothing is cut: the buffer is exactly the bytes of the elements, in row-major order *)
  Lemma as_memoryview_1 t :
    wf_layout t -> as_memoryview elem_bytes 1 t = bytes_of elem_bytes (elems t).
  Proof.
    intros Hwf. unfold as_memoryview. destruct (numel t =? 0) eqn:Hn.
    - apply Z.eqb_eq in Hn. pose proof (elems_length t Hwf) as HL. rewrite Hn in HL.
      destruct (elems t); [reflexivity | unfold llen in HL; cbn in HL; lia].
    - rewrite Z.div_1_r, Z.mul_1_l. unfold llen. rewrite Nat2Z.id. apply firstn_all.
  Qed.

  (* more generally nothing is cut whenever the carrier item size divides the element size *)
  Lemma as_memoryview_divides c t :
    0 < c -> esize mod c = 0 -> wf_layout t ->
    as_memoryview elem_bytes c t = bytes_of elem_bytes (elems t).
  Proof.
    intros Hc Hdiv Hwf. unfold as_memoryview. destruct (numel t =? 0) eqn:Hn.
    - apply Z.eqb_eq in Hn. pose proof (elems_length t Hwf) as HL. rewrite Hn in HL.
      destruct (elems t); [reflexivity | unfold llen in HL; cbn in HL; lia].
    - set (payload := bytes_of elem_bytes (elems t)).
      assert (HL : llen payload = esize * numel t).
      { unfold payload. rewrite bytes_of_length, elems_length by exact Hwf. reflexivity. }
      assert (Hm : llen payload mod c = 0).
      { rewrite HL, Z.mul_comm, Z.mul_mod, Hdiv, Z.mul_0_r by lia. apply Z.mod_0_l. lia. }
      pose proof (Z.div_mod (llen payload) c ltac:(lia)) as Hdm. rewrite Hm, Z.add_0_r in Hdm.
      rewrite <- Hdm. unfold llen. rewrite Nat2Z.id. apply firstn_all.
  Qed.

  Lemma serialized_length_divides c t :
    0 < c -> esize mod c = 0 -> wf_layout t ->
    llen (as_memoryview elem_bytes c t) = esize * numel t.
  Proof.
    intros Hc Hdiv Hwf. rewrite as_memoryview_divides by assumption.
    rewrite bytes_of_length, elems_length by exact Hwf. reflexivity.
  Qed.


  (* ---------------------------------------------------------------- deserialization *)
  Lemma take_chunks_bytes_of (l : list E) :
    take_chunks (length l) (Z.to_nat esize) (bytes_of elem_bytes l) = map elem_bytes l.
  Proof.
    induction l as [|e l IH]; [reflexivity|].
    cbn [length take_chunks map]. unfold bytes_of in *. cbn [flat_map].
    rewrite <- (elem_bytes_len e).
    rewrite firstn_app, Nat.sub_diag, firstn_all, firstn_O, app_nil_r.
    rewrite skipn_app, Nat.sub_diag, skipn_all, skipn_O, app_nil_l.
    rewrite (elem_bytes_len e). rewrite IH. reflexivity.
  Qed.

  (* tensor_from_memoryview succeeds exactly on buffers of esize * prod shape bytes *)
  Lemma from_memoryview_ok_iff mv shape :
    Forall (fun d => 0 <= d) shape ->
    (exists l, from_memoryview esize mv shape = Ok l) <-> llen mv = esize * prodZ shape.
  Proof.
    intros Hsh. pose proof (prodZ_nonneg _ Hsh) as Hp. pose proof (llen_nonneg mv) as Hm.
    unfold from_memoryview.
    destruct (llen mv =? 0) eqn:H0.
    - apply Z.eqb_eq in H0. destruct (prodZ shape =? 0) eqn:Hp0.
      + apply Z.eqb_eq in Hp0. split; [intros _; lia | intros _; eexists; reflexivity].
      + apply Z.eqb_neq in Hp0. split; [intros [l Hl]; discriminate | intros Heq; nia].
    - apply Z.eqb_neq in H0.
      destruct ((llen mv mod esize =? 0) && (llen mv / esize =? prodZ shape)) eqn:Hc.
      + apply andb_true_iff in Hc as [Hmod Hdiv]. apply Z.eqb_eq in Hmod, Hdiv.
        split; [intros _ | intros _; eexists; reflexivity].
        rewrite <- Hdiv. pose proof (Z.div_mod (llen mv) esize ltac:(lia)). lia.
      + split; [intros [l Hl]; discriminate|]. intros Heq. exfalso.
        apply andb_false_iff in Hc as [Hc|Hc]; apply Z.eqb_neq in Hc; apply Hc.
        * rewrite Heq, Z.mul_comm. apply Z.mod_mul. lia.
        * rewrite Heq, Z.mul_comm. apply Z.div_mul. lia.
  Qed.

  (* round trip on any element list: the decoded pieces are the elements' bytes, in order *)
  Lemma from_memoryview_bytes_of (l : list E) shape :
    llen l = prodZ shape ->
    from_memoryview esize (bytes_of elem_bytes l) shape = Ok (map elem_bytes l).
  Proof.
    intros Hl. unfold from_memoryview. rewrite bytes_of_length.
    destruct (esize * llen l =? 0) eqn:H0.
    - apply Z.eqb_eq in H0. assert (Hz : llen l = 0) by nia.
      rewrite <- Hl, Hz. cbn. destruct l; [reflexivity | unfold llen in Hz; cbn in Hz; lia].
    - rewrite Z.mul_comm, Z.mod_mul, Z.div_mul by lia.
      rewrite (proj2 (Z.eqb_eq (llen l) (prodZ shape)) Hl). cbn [andb Z.eqb].
      rewrite <- Hl. unfold llen. rewrite Nat2Z.id. rewrite take_chunks_bytes_of. reflexivity.
  Qed.

  (* THE round trip: serialize any well-formed strided view, deserialize with the recorded shape:
     the result holds exactly the elements of the view (as their bytes), in row-major order *)
  Lemma roundtrip t :
    wf_layout t ->
    from_memoryview esize (as_memoryview elem_bytes 1 t) (t_shape t) = Ok (map elem_bytes (elems t)).
  Proof.
    intros Hwf. rewrite as_memoryview_1 by exact Hwf.
    apply from_memoryview_bytes_of. apply elems_length. exact Hwf.
  Qed.

  Lemma roundtrip_divides c t :
    0 < c -> esize mod c = 0 -> wf_layout t ->
    from_memoryview esize (as_memoryview elem_bytes c t) (t_shape t) = Ok (map elem_bytes (elems t)).
  Proof.
    intros Hc Hdiv Hwf. rewrite as_memoryview_divides by assumption.
    apply from_memoryview_bytes_of. apply elems_length. exact Hwf.
  Qed.

  (* with a decoder that inverts the byte encoding (reinterpretation of the same bytes) the element list itself
     comes back *)
  Lemma roundtrip_decoded (dec : list Z -> E) t :
    (forall e, dec (elem_bytes e) = e) -> wf_layout t ->
    match from_memoryview esize (as_memoryview elem_bytes 1 t) (t_shape t) with
    | Ok l => map dec l = elems t
    | Err => False
    end.
  Proof.
    intros Hdec Hwf. rewrite roundtrip by exact Hwf. rewrite map_map.
    rewrite <- (map_id (elems t)) at 2. apply map_ext. exact Hdec.
  Qed.
  (* ---------------------------------------------------------------- contiguous views: gather = storage slice *)
  Definition gather (st : list E) (off : Z) (strides shape : list Z) : list E :=
    flat_map (fun idx => fetch st (off + dot idx strides)) (row_major shape).

  Lemma elems_gather t : elems t = gather (t_storage t) (t_offset t) (t_strides t) (t_shape t).
  Proof. reflexivity. Qed.

  Lemma gather_cons st off s ss d rest :
    gather st off (s :: ss) (d :: rest) = flat_map (fun i => gather st (off + i * s) ss rest) (zrange d).
  Proof.
    unfold gather. cbn [row_major]. rewrite flat_map_flat_map.
    apply flat_map_ext. intros i. rewrite flat_map_map.
    apply flat_map_ext. intros idx. cbn [dot]. f_equal. lia.
  Qed.

  Lemma fetch_slice1_nat (st : list E) : forall n,
    match nth_error st n with Some e => [e] | None => [] end = firstn 1 (skipn n st).
  Proof.
    induction st as [|x st IH]; intros [|n]; try reflexivity.
    cbn [nth_error skipn]. apply IH.
  Qed.

  Lemma fetch_slice1 (st : list E) k : 0 <= k -> fetch st k = firstn 1 (skipn (Z.to_nat k) st).
  Proof.
    intros Hk. unfold fetch. destruct (k <? 0) eqn:Hneg; [lia|]. apply fetch_slice1_nat.
  Qed.

  Lemma zrange_succ n : zrange (Z.of_nat (S n)) = zrange (Z.of_nat n) ++ [Z.of_nat n].
  Proof. unfold zrange. rewrite !Nat2Z.id, seq_S, map_app. reflexivity. Qed.

  (* d adjacent pieces of p elements starting at off are the piece of d*p elements starting at off *)
  Lemma slices_concat (st : list E) off p : 0 <= off -> 0 <= p -> forall n,
    flat_map (fun i => firstn (Z.to_nat p) (skipn (Z.to_nat (off + i * p)) st)) (zrange (Z.of_nat n))
    = firstn (Z.to_nat (Z.of_nat n * p)) (skipn (Z.to_nat off) st).
  Proof.
    intros Hoff Hp. induction n as [|n IH]; [reflexivity|].
    rewrite zrange_succ, flat_map_app, IH. cbn [flat_map]. rewrite app_nil_r.
    replace (Z.to_nat (Z.of_nat (S n) * p)) with (Z.to_nat (Z.of_nat n * p) + Z.to_nat p)%nat by nia.
    rewrite firstn_plus. f_equal. f_equal.
    replace (Z.to_nat (off + Z.of_nat n * p)) with (Z.to_nat off + Z.to_nat (Z.of_nat n * p))%nat by nia.
    apply skipn_plus.
  Qed.

  Lemma gather_contiguous (st : list E) : forall shape strides off p,
    contiguous_prod shape strides = Some p -> Forall (fun d => 0 <= d) shape -> 0 <= off ->
    p = prodZ shape /\
    gather st off strides shape = firstn (Z.to_nat (prodZ shape)) (skipn (Z.to_nat off) st).
  Proof.
    induction shape as [|d rest IH]; intros strides off p Hc Hsh Hoff.
    - destruct strides as [|s ss]; cbn [contiguous_prod] in Hc; [|discriminate].
      injection Hc as <-. split; [reflexivity|].
      unfold gather. cbn [row_major flat_map dot]. rewrite app_nil_r, Z.add_0_r.
      apply fetch_slice1. exact Hoff.
    - destruct strides as [|s ss]; cbn [contiguous_prod] in Hc; [discriminate|].
      destruct (contiguous_prod rest ss) as [q|] eqn:Hq; [|discriminate].
      inversion Hsh as [|? ? Hd Hrest]; subst.
      assert (Hqp : q = prodZ rest) by (apply (IH ss off q Hq Hrest Hoff)).
      pose proof (prodZ_nonneg _ Hrest) as Hpn.
      rewrite gather_cons, prodZ_cons.
      destruct (d =? 1) eqn:Hd1.
      + apply Z.eqb_eq in Hd1. injection Hc as <-. subst d.
        split; [lia|]. change (zrange 1) with [0]. cbn [flat_map]. rewrite app_nil_r.
        replace (off + 0 * s) with off by lia. rewrite Z.mul_1_l.
        apply (IH ss off q Hq Hrest Hoff).
      + destruct (s =? q) eqn:Hsq; [|discriminate]. apply Z.eqb_eq in Hsq. injection Hc as <-. subst s.
        split; [rewrite Hqp; reflexivity|].
        rewrite (flat_map_ext_in _ (fun i => firstn (Z.to_nat q) (skipn (Z.to_nat (off + i * q)) st))).
        * rewrite <- (Z2Nat.id d) at 1 by exact Hd. rewrite slices_concat by lia.
          rewrite Z2Nat.id by exact Hd. rewrite Hqp. reflexivity.
        * intros i Hi. apply zrange_In in Hi.
          assert (Hoi : 0 <= off + i * q) by nia.
          rewrite Hqp at 2. apply (IH ss (off + i * q) q Hq Hrest Hoi).
  Qed.

  Lemma row_major_empty shape :
    Forall (fun d => 0 <= d) shape -> prodZ shape = 0 -> row_major shape = [].
  Proof.
    intros Hsh Hp. pose proof (row_major_length shape Hsh) as HL. rewrite Hp in HL.
    destruct (row_major shape); [reflexivity | cbn in HL; lia].
  Qed.

  (* what contiguous_view_as_untyped_storage slices out of the storage is the gathered content *)
  Lemma contiguous_elems_slice (t : tensor E) :
    Forall (fun d => 0 <= d) (t_shape t) -> 0 <= t_offset t ->
    is_contiguous t = true -> elems t = storage_slice t.
  Proof.
    intros Hsh Hoff Hc. unfold is_contiguous in Hc. unfold storage_slice.
    destruct (numel t =? 0) eqn:Hn.
    - apply Z.eqb_eq in Hn. rewrite Hn. unfold elems. unfold numel in Hn.
      rewrite (row_major_empty _ Hsh Hn). reflexivity.
    - cbn [orb] in Hc. destruct (contiguous_prod (t_shape t) (t_strides t)) as [p|] eqn:Hp; [|discriminate].
      rewrite elems_gather. apply (gather_contiguous (t_storage t) _ _ _ p Hp Hsh Hoff).
  Qed.

  Lemma as_memoryview_via_storage_agrees c (t : tensor E) :
    Forall (fun d => 0 <= d) (t_shape t) -> 0 <= t_offset t ->
    as_memoryview_via_storage elem_bytes c t = as_memoryview elem_bytes c t.
  Proof.
    intros Hsh Hoff. unfold as_memoryview_via_storage, as_memoryview.
    destruct (is_contiguous t) eqn:Hc; [|reflexivity].
    rewrite (contiguous_elems_slice t Hsh Hoff Hc). reflexivity.
  Qed.

  Lemma contiguous_strides_contiguous shape :
    contiguous_prod shape (contiguous_strides shape) = Some (prodZ shape).
  Proof.
    induction shape as [|d rest IH]; [reflexivity|].
    cbn [contiguous_strides contiguous_prod]. rewrite IH, prodZ_cons.
    destruct (d =? 1) eqn:Hd1.
    - apply Z.eqb_eq in Hd1. subst d. rewrite Z.mul_1_l. reflexivity.
    - rewrite Z.eqb_refl. reflexivity.
  Qed.

  (* the tensor tensor_from_memoryview builds (contiguous strides, offset 0) has, in row-major order, exactly
     the elements of its storage *)
  Lemma elems_contiguous_tensor shape (st : list E) :
    Forall (fun d => 0 <= d) shape -> llen st = prodZ shape -> elems (contiguous_tensor shape st) = st.
  Proof.
    intros Hsh Hl. rewrite contiguous_elems_slice.
    - unfold storage_slice, contiguous_tensor, numel. cbn [t_shape t_offset t_storage].
      change (Z.to_nat 0) with 0%nat. cbn [skipn]. rewrite <- Hl. unfold llen. rewrite Nat2Z.id. apply firstn_all.
    - exact Hsh.
    - cbn. lia.
    - unfold is_contiguous, contiguous_tensor. cbn [t_shape t_strides].
      rewrite contiguous_strides_contiguous. apply orb_true_r.
  Qed.

  (* ---------------------------------------------------------------- torch's view validity implies wf_layout *)
  Lemma dot_bounds : forall idx shape, Forall2 (fun i d => 0 <= i < d) idx shape ->
    forall strides, Forall (fun s => 0 <= s) strides ->
    0 <= dot idx strides <= dot (map (fun d => d - 1) shape) strides.
  Proof.
    induction 1 as [|i d idx shape Hi Hrest IH]; intros strides Hst.
    - cbn. lia.
    - destruct strides as [|s ss]; [cbn; lia|].
      inversion Hst as [|? ? Hs Hss]; subst. specialize (IH ss Hss). cbn [dot map]. nia.
  Qed.

  Lemma torch_valid_view_wf (t : tensor E) : torch_valid_view t = true -> wf_layout t.
  Proof.
    unfold torch_valid_view, wf_layout. intros H.
    apply andb_true_iff in H as [H Hext]. apply andb_true_iff in H as [H Hoff].
    apply andb_true_iff in H as [H Hlen]. apply andb_true_iff in H as [Hsh Hst].
    rewrite forallb_forall in Hsh, Hst. apply Nat.eqb_eq in Hlen. apply Z.leb_le in Hoff.
    assert (Hsh' : Forall (fun d => 0 <= d) (t_shape t)).
    { apply Forall_forall. intros d Hd. specialize (Hsh d Hd). lia. }
    assert (Hst' : Forall (fun s => 0 <= s) (t_strides t)).
    { apply Forall_forall. intros s0 Hs. specialize (Hst s0 Hs). lia. }
    split; [exact Hsh'|]. split; [exact Hlen|].
    intros idx Hin. apply orb_true_iff in Hext as [Hz|Hext].
    - apply Z.eqb_eq in Hz. unfold numel in Hz. rewrite (row_major_empty _ Hsh' Hz) in Hin. contradiction.
    - apply Z.ltb_lt in Hext. unfold lin.
      pose proof (dot_bounds idx (t_shape t) (row_major_bounds _ _ Hin) (t_strides t) Hst'). lia.
  Qed.
End LayoutProofs.
