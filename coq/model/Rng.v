(* C19: what Snapshot.take / async_take / restore do to the global torch RNG state.
   The statement order of _take_impl and restore is NOT written here: it is the skeleton generated from
   snapshot.py on every run (coq/gen/RngGen.v, produced by translator/gen_rng.py).  This file defines the
   statement language, its interpreter over an ABSTRACT RNG state and the decidable ordering condition.
   Executable definitions only. *)
From TS Require Import model.Base.

Definition key := Z.

(* statements inside `for key in global_keys:` *)
Inductive bstmt :=
| BStateDict        (* if key in app_state: app_state[key].state_dict()          (application code) *)
| BLoadStateDict    (* stateful.load_state_dict(...) of the stateful under `key`  (application code) *)
| BBarrier
| BLocal            (* a statement that calls neither application code nor torch RNG *)
| BAppCall          (* application code called in a place the translator does not know *)
| BTorchRng.        (* a torch RNG call written directly in the statement *)

Inductive rstmt :=
| RPopRng           (* rng_state_item = _pop_rng_state(app_state)  on a COPY of app_state *)
| RCaptureRng       (* if rng_state_item is not None: rng_state_dict = stateful.state_dict()  = torch.get_rng_state() *)
| RGatherKeys       (* global_keys = _gather_keys(list(app_state.keys())) *)
| RBudget           (* get_process_memory_budget_bytes (restore) *)
| RBarrier
| RLocal
| RLoopKeys (body : list bstmt)
| RReapplyRng       (* if rng_state_item is not None: stateful.load_state_dict(rng_state_dict)  = torch.set_rng_state(captured) *)
| RLoadRng          (* restore: the RNGState's load_state_dict(saved) = torch.set_rng_state(value in the snapshot) *)
| RAppCall
| RTorchRng.

Definition bstmt_eq_dec : forall a b : bstmt, {a = b} + {a <> b}.
Proof. decide equality. Defined.
Definition rstmt_eq_dec : forall a b : rstmt, {a = b} + {a <> b}.
Proof. decide equality. apply (list_eq_dec bstmt_eq_dec). Defined.
Definition skel_eqb (a b : list rstmt) : bool := if list_eq_dec rstmt_eq_dec a b then true else false.

(* ------------------------------------------------------------------ interpreter *)
Section Interp.
  Variable G : Type.                       (* the global RNG state: abstract *)
  Variable sd ld : key -> G -> G.          (* what stateful k's state_dict() / load_state_dict() does to it: arbitrary *)
  Variable gather : list key -> list key.  (* _gather_keys: sorted(set(union over ranks)); arbitrary here *)
  Variable havoc : G -> G.                 (* effect of a statement the translator could not vouch for *)
  Variable stored : G.                     (* restore: the RNG value found in the snapshot *)

  (* app : the app_state dict in insertion order: (key, is this an RNGState?) *)
  Record st := { g : G; app : list (key * bool); popped : option key; cap : option G;
                 gkeys : list key; failed : bool }.

  Definition has (k : key) (a : list (key * bool)) : bool := existsb (fun e => fst e =? k) a.
  Definition rng_entries (a : list (key * bool)) : list (key * bool) := filter (fun e => snd e) a.
  Definition count_rng (a : list (key * bool)) : nat := length (rng_entries a).

  Definition set_g (s : st) (x : G) : st :=
    {| g := x; app := app s; popped := popped s; cap := cap s; gkeys := gkeys s; failed := failed s |}.

  Definition exec_b (k : key) (s : st) (b : bstmt) : st :=
    match b with
    | BStateDict => if has k (app s) then set_g s (sd k (g s)) else s
    | BLoadStateDict => if has k (app s) then set_g s (ld k (g s)) else s
    | BBarrier | BLocal => s
    | BAppCall | BTorchRng => set_g s (havoc (g s))
    end.

  Definition exec_body (body : list bstmt) (s : st) (k : key) : st := fold_left (exec_b k) body s.

  Definition exec_r (s : st) (r : rstmt) : st :=
    if failed s then s else
    match r with
    | RPopRng =>
        match rng_entries (app s) with
        | [] => s
        | [e] => {| g := g s; app := filter (fun e => negb (snd e)) (app s); popped := Some (fst e); cap := cap s;
                    gkeys := gkeys s; failed := false |}
        | _ => {| g := g s; app := app s; popped := popped s; cap := cap s; gkeys := gkeys s; failed := true |}
        end
    | RCaptureRng =>
        match popped s with
        | Some _ => {| g := g s; app := app s; popped := popped s; cap := Some (g s); gkeys := gkeys s; failed := false |}
        | None => s
        end
    | RGatherKeys =>
        {| g := g s; app := app s; popped := popped s; cap := cap s; gkeys := gather (map fst (app s)); failed := false |}
    | RBudget | RBarrier | RLocal => s
    | RLoopKeys body => fold_left (exec_body body) (gkeys s) s
    | RReapplyRng =>
        match popped s, cap s with
        | Some _, Some v => set_g s v
        | _, _ => s
        end
    | RLoadRng => match popped s with Some _ => set_g s stored | None => s end
    | RAppCall | RTorchRng => set_g s (havoc (g s))
    end.

  Definition init (a : list (key * bool)) (g0 : G) : st :=
    {| g := g0; app := a; popped := None; cap := None; gkeys := []; failed := false |}.

  Definition exec (skel : list rstmt) (a : list (key * bool)) (g0 : G) : st := fold_left exec_r skel (init a g0).

  (* the application's own state_dict draws, in global key order, for the keys this rank has *)
  Definition own_draws (a : list (key * bool)) (g0 : G) : G :=
    fold_left (fun x k => if has k a then sd k x else x) (gather (map fst a)) g0.
End Interp.

Arguments g {G} _.
Arguments app {G} _.
Arguments popped {G} _.
Arguments cap {G} _.
Arguments gkeys {G} _.
Arguments failed {G} _.

(* ------------------------------------------------------------------ the decidable ordering condition *)
Definition inert (r : rstmt) : bool := match r with RLocal | RBarrier | RBudget => true | _ => false end.
Definition binert (b : bstmt) : bool := match b with BLocal | BBarrier => true | _ => false end.
Definition norm (r : rstmt) : rstmt :=
  match r with RLoopKeys b => RLoopKeys (filter (fun x => negb (binert x)) b) | _ => r end.
(* the skeleton with the statements that cannot touch the RNG or call application code erased *)
Definition core (skel : list rstmt) : list rstmt := map norm (filter (fun r => negb (inert r)) skel).

(* take: capture before every state_dict, reapply after all of them, nothing application-visible afterwards *)
Definition take_core : list rstmt := [RPopRng; RCaptureRng; RGatherKeys; RLoopKeys [BStateDict]; RReapplyRng].
(* restore: every other stateful is loaded (state_dict() then load_state_dict()) before the RNG state, which is last *)
Definition restore_core : list rstmt := [RPopRng; RGatherKeys; RLoopKeys [BStateDict; BLoadStateDict]; RLoadRng].

Definition rng_ordered_take (skel : list rstmt) : bool := skel_eqb (core skel) take_core.
Definition rng_ordered_restore (skel : list rstmt) : bool := skel_eqb (core skel) restore_core.
Definition rng_ordered (skel : list rstmt) : bool := rng_ordered_take skel || rng_ordered_restore skel.
