(* C14: a small deep embedding of the part of Python that torchsnapshot/manifest.py is written in, with its
   interpreter.  translator/gen_manifest.py regenerates the DATA (class tables, __init__ bodies, from_yaml_obj
   bodies, the dispatch chain of SnapshotMetadata.from_yaml, the json.dumps keyword arguments, the PrimitiveEntry
   codec chains) from the source on every run into gen/ManifestGen.v; this file gives that data its meaning:

     construct      cls(args, kwargs): parameter binding (defaults, unknown / missing / doubly bound
                    arguments raise), the statements of __init__ (super().__init__(..), self.f = e), the
                    dataclass-generated __init__ when a class defines none
     asdict         dataclasses.asdict: fields(cls) = base-class fields first, then the class's own annotated
                    fields in source order (ClassVar excluded by the translator); lists and dicts are rebuilt,
                    everything else is copied
     from_yaml_obj  the classmethod bodies, statement by statement, with method resolution through the base class
     md_of_loaded   the loop of SnapshotMetadata.from_yaml over d["manifest"].items() and the final cls( **d)
     print_opts     json.dumps(.., skipkeys, ensure_ascii, allow_nan, indent, separators, sort_keys)
     dec_sem / enc_sem   the expression forms of PrimitiveEntry.get_value / _serialize

   Values are dynamically typed as in Python: nothing here checks a field's type.  Plain data (what json.loads
   returned, what asdict copies) is an opaque leaf [PJ j].  A Python exception is [None].
   Executable definitions only. *)
From TS Require Import model.Base model.Codec model.Json model.ManifestCodec.

(* ------------------------------------------------------------------ dynamic values *)
Inductive pv :=
| PJ (j : jvalue)                                (* None / bool / int / str / list / dict of plain data *)
| PList (l : list pv)                            (* a list that may hold instances *)
| PDict (l : list (pystr * pv))                  (* a dict (str keys, insertion order) that may hold instances *)
| PInst (cls : pystr) (attrs : list (pystr * pv)).   (* an instance: class name, attribute dict *)

(* dict operations (keys of one dict are distinct) *)
Fixpoint dget {A} (k : pystr) (l : list (pystr * A)) : option A :=
  match l with
  | [] => None
  | (k', v) :: l' => if pystr_eqb k' k then Some v else dget k l'
  end.
Definition dhas {A} (k : pystr) (l : list (pystr * A)) : bool := match dget k l with Some _ => true | None => false end.
Fixpoint ddel {A} (k : pystr) (l : list (pystr * A)) : list (pystr * A) :=
  match l with
  | [] => []
  | (k', v) :: l' => if pystr_eqb k' k then l' else (k', v) :: ddel k l'
  end.
Fixpoint dset {A} (k : pystr) (v : A) (l : list (pystr * A)) : list (pystr * A) :=
  match l with
  | [] => [(k, v)]
  | (k', v') :: l' => if pystr_eqb k' k then (k', v) :: l' else (k', v') :: dset k v l'
  end.

(* x[k], `k in x`, del x[k], **x need a dict: on a list / str / int every path of the translated bodies raises *)
Definition as_dict (v : pv) : option (list (pystr * pv)) :=
  match v with
  | PJ (JObj l) => Some (map (fun kv => (fst kv, PJ (snd kv))) l)
  | PDict l => Some l
  | _ => None
  end.

(* `for x in v`: list elements, dict keys, the characters of a str; None / bool / int are not iterable *)
Definition iter_of (v : pv) : option (list pv) :=
  match v with
  | PJ (JArr l) => Some (map PJ l)
  | PJ (JObj l) => Some (map (fun kv => PJ (JStr (fst kv))) l)
  | PJ (JStr s) => Some (map (fun c => PJ (JStr [c])) s)
  | PList l => Some l
  | PDict l => Some (map (fun kv => PJ (JStr (fst kv))) l)
  | _ => None
  end.

(* v.items() *)
Definition items_of (v : pv) : option (list (pystr * pv)) := as_dict v.

(* ------------------------------------------------------------------ class descriptions (generated data) *)
Inductive iexpr := IParam (p : pystr) | IConst (j : jvalue).
Inductive istmt :=
| ISuper (kw : list (pystr * iexpr))             (* super().__init__(k=e, ..) *)
| ISetAttr (f : pystr) (e : iexpr).              (* self.f = e *)
Record initdef := mkInit { i_params : list (pystr * option jvalue) (* name, default *); i_body : list istmt }.

Inductive fstmt :=
| FDelIfPresent (k : pystr)                      (* if k in yaml_obj: del yaml_obj[k] *)
| FDel (k : pystr)                               (* del yaml_obj[k] *)
| FSetCall (k : pystr) (c : pystr)               (* yaml_obj[k] = C.from_yaml_obj(yaml_obj[k]) *)
| FSetMap (k : pystr) (c : pystr)                (* yaml_obj[k] = [C.from_yaml_obj(x) for x in yaml_obj[k]] *)
| FRequireIn (k : pystr) (allowed : list pystr)  (* t = yaml_obj[k]; if t not in allowed: raise *)
| FReturnCls.                                    (* return cls( **yaml_obj) *)

Record pyclass := mkClass {
  c_name : pystr;
  c_base : option pystr;
  c_fields : list pystr;                         (* own dataclass fields, source order *)
  c_init : option initdef;                       (* None: the dataclass-generated __init__ *)
  c_from_yaml_obj : option (list fstmt) }.       (* None: inherited *)

Fixpoint find_class (cl : list pyclass) (n : pystr) : option pyclass :=
  match cl with
  | [] => None
  | c :: cl' => if pystr_eqb (c_name c) n then Some c else find_class cl' n
  end.

(* dataclasses.fields(cls): the base class's fields, then the class's own *)
Fixpoint all_fields (fuel : nat) (cl : list pyclass) (n : pystr) : option (list pystr) :=
  match fuel with
  | O => None
  | S f =>
      do c <- find_class cl n;
      match c_base c with
      | None => Some (c_fields c)
      | Some b => do bf <- all_fields f cl b; Some (bf ++ c_fields c)
      end
  end.

Definition gen_init (fields : list pystr) : initdef :=
  mkInit (map (fun f => (f, None)) fields) (map (fun f => ISetAttr f (IParam f)) fields).

Definition init_of (cl : list pyclass) (c : pyclass) : option initdef :=
  match c_init c with
  | Some i => Some i
  | None => do fs <- all_fields 4 cl (c_name c); Some (gen_init fs)
  end.

(* ------------------------------------------------------------------ calling a class *)
Fixpoint bind_pos (params : list (pystr * option jvalue)) (pos : list pv)
  : option (list (pystr * pv) * list (pystr * option jvalue)) :=
  match pos with
  | [] => Some ([], params)
  | v :: pos' =>
      match params with
      | [] => None                                           (* too many positional arguments *)
      | (p, _) :: ps => do r <- bind_pos ps pos'; Some ((p, v) :: fst r, snd r)
      end
  end.

Fixpoint bind_kw (params : list (pystr * option jvalue)) (kw : list (pystr * pv)) : option (list (pystr * pv)) :=
  match params with
  | [] => Some []
  | (p, d) :: ps =>
      do v <- match dget p kw with Some v => Some v | None => option_map PJ d end;   (* missing and no default: TypeError *)
      do r <- bind_kw ps kw;
      Some ((p, v) :: r)
  end.

Definition bind_args (params : list (pystr * option jvalue)) (pos : list pv) (kw : list (pystr * pv))
  : option (list (pystr * pv)) :=
  do r <- bind_pos params pos;
  (* every keyword names a parameter that is not already bound positionally (else TypeError) *)
  if forallb (fun kv => existsb (fun p => pystr_eqb (fst p) (fst kv)) (snd r)) kw
  then do b <- bind_kw (snd r) kw; Some (fst r ++ b)
  else None.

Definition eval_iexpr (env : list (pystr * pv)) (e : iexpr) : option pv :=
  match e with IParam p => dget p env | IConst j => Some (PJ j) end.

Fixpoint eval_kws (env : list (pystr * pv)) (kws : list (pystr * iexpr)) : option (list (pystr * pv)) :=
  match kws with
  | [] => Some []
  | (k, e) :: r => do v <- eval_iexpr env e; do t <- eval_kws env r; Some ((k, v) :: t)
  end.

(* the statements of one __init__; [sup kwargs attrs] runs the base class's __init__ on the same object *)
Fixpoint run_istmts (sup : list (pystr * pv) -> list (pystr * pv) -> option (list (pystr * pv)))
  (env : list (pystr * pv)) (b : list istmt) (attrs : list (pystr * pv)) : option (list (pystr * pv)) :=
  match b with
  | [] => Some attrs
  | ISetAttr fl e :: b' => do v <- eval_iexpr env e; run_istmts sup env b' (dset fl v attrs)
  | ISuper kws :: b' => do kv <- eval_kws env kws; do attrs' <- sup kv attrs; run_istmts sup env b' attrs'
  end.

Fixpoint run_init (fuel : nat) (cl : list pyclass) (cname : pystr) (pos : list pv) (kw : list (pystr * pv))
  (attrs : list (pystr * pv)) {struct fuel} : option (list (pystr * pv)) :=
  match fuel with
  | O => None
  | S f =>
      do c <- find_class cl cname;
      do i <- init_of cl c;
      do env <- bind_args (i_params i) pos kw;
      run_istmts (fun kv a => do base <- c_base c; run_init f cl base [] kv a) env (i_body i) attrs
  end.

Definition construct (cl : list pyclass) (cname : pystr) (pos : list pv) (kw : list (pystr * pv)) : option pv :=
  do attrs <- run_init 3 cl cname pos kw []; Some (PInst cname attrs).

(* ------------------------------------------------------------------ dataclasses.asdict
   [fuel] bounds the nesting of instances / rebuilt lists / rebuilt dicts (plain leaves cost nothing); the
   nesting of a metadata object is 6 (metadata, manifest dict, entry, shard list, shard, tensor entry). *)
Fixpoint asdict_fields (rec : pv -> option jvalue) (attrs : list (pystr * pv)) (fs : list pystr)
  : option (list (pystr * jvalue)) :=
  match fs with
  | [] => Some []
  | fl :: r => do a <- dget fl attrs; do j <- rec a; do t <- asdict_fields rec attrs r; Some ((fl, j) :: t)
  end.

Fixpoint asdict (fuel : nat) (cl : list pyclass) (v : pv) {struct fuel} : option jvalue :=
  match fuel with
  | O => None
  | S f =>
      match v with
      | PJ j => Some j
      | PList l => do js <- mapM (asdict f cl) l; Some (JArr js)
      | PDict l => do ms <- mapM (fun kv => do j <- asdict f cl (snd kv); Some (fst kv, j)) l; Some (JObj ms)
      | PInst c attrs => do fs <- all_fields 4 cl c; do ms <- asdict_fields (asdict f cl) attrs fs; Some (JObj ms)
      end
  end.

(* ------------------------------------------------------------------ from_yaml_obj *)
Fixpoint resolve_fyo (fuel : nat) (cl : list pyclass) (n : pystr) : option (list fstmt) :=
  match fuel with
  | O => None
  | S f =>
      do c <- find_class cl n;
      match c_from_yaml_obj c with
      | Some b => Some b
      | None => do base <- c_base c; resolve_fyo f cl base
      end
  end.

(* the statements of one from_yaml_obj body on the dict [d]; [rec C x] is C.from_yaml_obj(x), [ctor d] is cls( **d) *)
Fixpoint run_fyo (rec : pystr -> pv -> option pv) (ctor : list (pystr * pv) -> option pv) (b : list fstmt)
  (d : list (pystr * pv)) : option pv :=
  match b with
  | [] => None
  | FDelIfPresent k :: b' => run_fyo rec ctor b' (ddel k d)
  | FDel k :: b' => if dhas k d then run_fyo rec ctor b' (ddel k d) else None
  | FSetCall k c :: b' => do v <- dget k d; do o <- rec c v; run_fyo rec ctor b' (dset k o d)
  | FSetMap k c :: b' =>
      do v <- dget k d; do l <- iter_of v; do os <- mapM (rec c) l; run_fyo rec ctor b' (dset k (PList os) d)
  | FRequireIn k allowed :: b' =>
      do v <- dget k d;
      match v with
      | PJ (JStr s) => if existsb (pystr_eqb s) allowed then run_fyo rec ctor b' d else None
      | _ => None
      end
  | FReturnCls :: _ => ctor d
  end.

Fixpoint from_yaml_obj (fuel : nat) (cl : list pyclass) (cname : pystr) (y : pv) {struct fuel} : option pv :=
  match fuel with
  | O => None
  | S f =>
      do stmts <- resolve_fyo 4 cl cname;
      do d0 <- as_dict y;
      run_fyo (from_yaml_obj f cl) (construct cl cname []) stmts d0
  end.

(* ------------------------------------------------------------------ SnapshotMetadata.from_yaml *)
Inductive dtest := TEq (s : pystr) | TIn (l : list pystr).     (* type_name == s | type_name in l *)
Inductive delse := ElseSkip | ElseRaise.
Inductive loader := LJson | LYaml.

Definition test_match (t : dtest) (v : pv) : bool :=
  match v with
  | PJ (JStr s) => match t with TEq x => pystr_eqb s x | TIn l => existsb (pystr_eqb s) l end
  | _ => false                                   (* a non-str never equals a str *)
  end.

Fixpoint dispatch (chain : list (dtest * pystr)) (v : pv) : option pystr :=
  match chain with
  | [] => None
  | (t, c) :: chain' => if test_match t v then Some c else dispatch chain' v
  end.

Record from_yaml_def := mkFromYaml {
  fy_loaders : list loader;                      (* tried in order; the next one on ValueError *)
  fy_manifest_key : pystr;                       (* for path, yaml_obj in d[K].items() *)
  fy_type_key : pystr;                           (* type_name = yaml_obj[K] *)
  fy_chain : list (dtest * pystr);               (* if / elif chain: manifest[path] = C.from_yaml_obj(yaml_obj) *)
  fy_else : delse;
  fy_result_key : pystr;                         (* d[K] = manifest *)
  fy_class : pystr }.                            (* return cls( **d) *)

(* one iteration: None = raises, Some None = no branch matched and the entry is skipped, Some (Some o) = stored.
   [fuel] bounds the nesting of from_yaml_obj calls (entry, shard, tensor entry: 3). *)
Definition read_entry (fuel : nat) (cl : list pyclass) (fy : from_yaml_def) (y : pv) : option (option pv) :=
  do d <- as_dict y;
  do t <- dget (fy_type_key fy) d;
  match dispatch (fy_chain fy) t with
  | Some c => do o <- from_yaml_obj fuel cl c y; Some (Some o)
  | None => match fy_else fy with ElseSkip => Some None | ElseRaise => None end
  end.

(* the items of a dict have distinct keys, so `manifest[path] = ..` appends *)
Fixpoint manifest_loop (fuel : nat) (cl : list pyclass) (fy : from_yaml_def) (items : list (pystr * pv))
  : option (list (pystr * pv)) :=
  match items with
  | [] => Some []
  | (p, y) :: rest =>
      do r <- read_entry fuel cl fy y;
      do tl <- manifest_loop fuel cl fy rest;
      Some (match r with Some o => (p, o) :: tl | None => tl end)
  end.

Definition md_of_loaded (cl : list pyclass) (fy : from_yaml_def) (v : jvalue) : option pv :=
  do d <- as_dict (PJ v);
  do m <- dget (fy_manifest_key fy) d;
  do items <- items_of m;
  do man <- manifest_loop 3 cl fy items;
  construct cl (fy_class fy) [] (dset (fy_result_key fy) (PDict man) d).

(* json.loads first; on ValueError the next loader.  yaml.load and everything that follows it is not modelled:
   [yaml_rest] stands for "the rest of from_yaml run on what the YAML loader returned". *)
Fixpoint load_chain {R} (ls : list loader) (yaml_rest : list Z -> option R) (rest : jvalue -> option R) (s : list Z) : option R :=
  match ls with
  | [] => None
  | LJson :: ls' => match parse s with Some v => rest v | None => load_chain ls' yaml_rest rest s end
  | LYaml :: _ => yaml_rest s
  end.

(* ------------------------------------------------------------------ json.dumps *)
Record dumps_opts := mkDumps {
  o_skipkeys : bool; o_ensure_ascii : bool; o_check_circular : bool; o_allow_nan : bool;
  o_indent : option Z; o_separators : option (pystr * pystr); o_sort_keys : bool;
  o_custom : bool }.                             (* cls= or default= given: not modelled *)

(* json.encoder.py_encode_basestring (ensure_ascii=False) *)
Definition esc_char_raw (c : Z) : list Z :=
  if c =? 34 then [92; 34]
  else if c =? 92 then [92; 92]
  else if c =? 10 then [92; 110]
  else if c =? 13 then [92; 114]
  else if c =? 9 then [92; 116]
  else if c =? 8 then [92; 98]
  else if c =? 12 then [92; 102]
  else if c <? 32 then esc_u c
  else [c].
Definition quote_raw (s : pystr) : list Z := 34 :: flat_map esc_char_raw s ++ [34].

Fixpoint print_gen (esc : pystr -> list Z) (nlf : nat -> list Z) (isep ksep : list Z) (lvl : nat) (v : jvalue)
  {struct v} : list Z :=
  match v with
  | JNull => lit_null
  | JBool b => if b then lit_true else lit_false
  | JInt z => str_of_int z
  | JStr s => esc s
  | JArr l =>
      match l with
      | [] => [91; 93]
      | x :: xs =>
          91 :: nlf (S lvl) ++ print_gen esc nlf isep ksep (S lvl) x ++
          (fix items (l : list jvalue) : list Z :=
             match l with
             | [] => nlf lvl ++ [93]
             | y :: ys => (isep ++ nlf (S lvl)) ++ print_gen esc nlf isep ksep (S lvl) y ++ items ys
             end) xs
      end
  | JObj l =>
      match l with
      | [] => [123; 125]
      | (k, x) :: xs =>
          123 :: nlf (S lvl) ++ esc k ++ ksep ++ print_gen esc nlf isep ksep (S lvl) x ++
          (fix members (l : list (pystr * jvalue)) : list Z :=
             match l with
             | [] => nlf lvl ++ [125]
             | (k, y) :: ys => (isep ++ nlf (S lvl)) ++ esc k ++ ksep ++ print_gen esc nlf isep ksep (S lvl) y ++ members ys
             end) xs
      end
  end.

(* sort_keys=True: members sorted by key (code-point order), at every level *)
Fixpoint str_ltb (a b : pystr) : bool :=
  match a, b with
  | [], [] => false
  | [], _ :: _ => true
  | _ :: _, [] => false
  | x :: a', y :: b' => if x <? y then true else if y <? x then false else str_ltb a' b'
  end.
Fixpoint insert_member (kv : pystr * jvalue) (l : list (pystr * jvalue)) : list (pystr * jvalue) :=
  match l with
  | [] => [kv]
  | kv' :: l' => if str_ltb (fst kv) (fst kv') then kv :: l else kv' :: insert_member kv l'
  end.
Fixpoint sort_keys_j (v : jvalue) : jvalue :=
  match v with
  | JArr l => JArr ((fix go (l : list jvalue) : list jvalue :=
                       match l with [] => [] | x :: xs => sort_keys_j x :: go xs end) l)
  | JObj l => JObj ((fix go (l : list (pystr * jvalue)) : list (pystr * jvalue) :=
                       match l with [] => [] | (k, x) :: xs => insert_member (k, sort_keys_j x) (go xs) end) l)
  | _ => v
  end.

Definition nl_indent (n : Z) (lvl : nat) : list Z := 10 :: repeat 32 (Z.to_nat n * lvl).

Definition print_opts (o : dumps_opts) (v : jvalue) : list Z :=
  let esc := if o_ensure_ascii o then quote else quote_raw in
  let nlf := match o_indent o with Some n => nl_indent n | None => fun _ => [] end in
  let seps := match o_separators o with
              | Some p => p
              | None => match o_indent o with Some _ => ([44], [58; 32]) | None => ([44; 32], [58; 32]) end
              end in
  print_gen esc nlf (fst seps) (snd seps) 0 (if o_sort_keys o then sort_keys_j v else v).

(* SnapshotMetadata.to_yaml: json.dumps(asdict(self), **opts) *)
Definition to_yaml_dyn (cl : list pyclass) (o : dumps_opts) (self : pv) : option (list Z) :=
  do j <- asdict 8 cl self; Some (print_opts o j).

(* ------------------------------------------------------------------ PrimitiveEntry.get_value / _serialize / from_object *)
Inductive decoder :=
| DInt                                           (* int(sv) *)
| DSelf                                          (* sv *)
| DBoolLit (allowed : list pystr) (true_lit : pystr)   (* if sv not in allowed: raise; sv == true_lit *)
| DB64                                           (* base64.b64decode(bytes(sv, "utf-8")) *)
| DB64Unpack (fmt : pystr).                      (* struct.unpack(fmt, base64.b64decode(bytes(sv, "utf-8")))[0] *)

Inductive encoder :=
| EStr                                           (* str(obj) *)
| EB64                                           (* base64.b64encode(obj).decode("utf-8") *)
| EPackThen (fmt : pystr) (via : pystr).         (* cls._serialize(via, struct.pack(fmt, float(obj))) *)

Definition fmt_d : pystr := [100].               (* "d": 8 bytes, the float's bit pattern *)

Definition dec_sem (d : decoder) (sv : pystr) : option pvalue :=
  match d with
  | DInt => option_map VInt (int_of_str sv)
  | DSelf => Some (VStr sv)
  | DBoolLit allowed t => if existsb (pystr_eqb sv) allowed then Some (VBool (pystr_eqb sv t)) else None
  | DB64 => option_map VBytes (b64decode sv)
  | DB64Unpack fmt =>
      if pystr_eqb fmt fmt_d then
        match b64decode sv with
        | Some bits => if (length bits =? 8)%nat then Some (VFloat bits) else None
        | None => None
        end
      else None
  end.

(* the if / elif chain on the type name; falling off the end raises *)
Definition get_value_dyn (chain : list (pystr * decoder)) (ty sv : pystr) : option pvalue :=
  do d <- dget ty chain; dec_sem d sv.

Definition str_sem (v : pvalue) : option pystr :=
  match v with
  | VInt z => Some (str_of_int z)
  | VStr s => Some s
  | VBool b => Some (str_of_bool b)
  | _ => None                                    (* str(bytes) / str(float) are display text, not modelled *)
  end.

Fixpoint enc_sem (fuel : nat) (chain : list (pystr * encoder)) (ty : pystr) (v : pvalue) : option pystr :=
  match fuel with
  | O => None
  | S f =>
      do e <- dget ty chain;
      match e with
      | EStr => str_sem v
      | EB64 => match v with VBytes bs => Some (b64encode bs) | _ => None end
      | EPackThen fmt via =>
          match v with
          | VFloat bits => if pystr_eqb fmt fmt_d then enc_sem f chain via (VBytes bits) else None
          | _ => None
          end
      end
  end.

Inductive fo_arg := ATypeName | ASerialized | AReadable | AConst (j : jvalue).
Record from_object_def := mkFromObject {
  fo_supported : list pystr;                     (* if type_name not in ..: raise TypeError *)
  fo_readable_types : list pystr;                (* readable_value = str(obj) for these type names, else None *)
  fo_class : pystr;
  fo_args : list fo_arg }.                       (* positional arguments of the constructor call *)

Definition from_object_dyn (cl : list pyclass) (chain : list (pystr * encoder)) (fo : from_object_def)
  (type_name : pystr) (v : pvalue) (repr : pystr) : option pv :=
  if existsb (pystr_eqb type_name) (fo_supported fo) then
    do sv <- enc_sem 3 chain type_name v;
    let rd := if existsb (pystr_eqb type_name) (fo_readable_types fo) then JStr repr else JNull in
    construct cl (fo_class fo)
      (map (fun a => match a with
                     | ATypeName => PJ (JStr type_name)
                     | ASerialized => PJ (JStr sv)
                     | AReadable => PJ rd
                     | AConst j => PJ j
                     end) (fo_args fo)) []
  else None.

(* TensorEntry.byte_range_tuple: None, or (byte_range[i], byte_range[j]) *)
Definition byte_range_tuple_dyn (i j : nat) (br : option (list Z)) : option (option (Z * Z)) :=
  match br with
  | None => Some None
  | Some l => do a <- nth_error l i; do b <- nth_error l j; Some (Some (a, b))
  end.

(* ------------------------------------------------------------------ typed view of the instances
   The theorems of C14 speak about the typed [entry] / [metadata] of ManifestCodec.v.  The two functions below
   relate them to Python objects through the PUBLIC interface of the entry classes only: class names,
   constructor keyword names (the inst_of functions) and attribute names (the of_inst functions).  The `type` tags, the field order,
   the parameter-to-attribute assignments and the defaults all come from the generated class table. *)
Definition n_TensorEntry : pystr := [84; 101; 110; 115; 111; 114; 69; 110; 116; 114; 121].
Definition n_Shard : pystr := [83; 104; 97; 114; 100].
Definition n_ShardedTensorEntry : pystr := [83; 104; 97; 114; 100; 101; 100; 84; 101; 110; 115; 111; 114; 69; 110; 116; 114; 121].
Definition n_ChunkedTensorEntry : pystr := [67; 104; 117; 110; 107; 101; 100; 84; 101; 110; 115; 111; 114; 69; 110; 116; 114; 121].
Definition n_DTensorEntry : pystr := [68; 84; 101; 110; 115; 111; 114; 69; 110; 116; 114; 121].
Definition n_ObjectEntry : pystr := [79; 98; 106; 101; 99; 116; 69; 110; 116; 114; 121].
Definition n_ListEntry : pystr := [76; 105; 115; 116; 69; 110; 116; 114; 121].
Definition n_DictEntry : pystr := [68; 105; 99; 116; 69; 110; 116; 114; 121].
Definition n_OrderedDictEntry : pystr := [79; 114; 100; 101; 114; 101; 100; 68; 105; 99; 116; 69; 110; 116; 114; 121].
Definition n_PrimitiveEntry : pystr := [80; 114; 105; 109; 105; 116; 105; 118; 101; 69; 110; 116; 114; 121].
Definition n_SnapshotMetadata : pystr := [83; 110; 97; 112; 115; 104; 111; 116; 77; 101; 116; 97; 100; 97; 116; 97].
Definition s_readable_value : pystr := [114; 101; 97; 100; 97; 98; 108; 101; 95; 118; 97; 108; 117; 101].

Definition pstr (s : pystr) : pv := PJ (JStr s).
Definition pbool (b : bool) : pv := PJ (JBool b).
Definition pints (l : list Z) : pv := PJ (j_ints l).

Definition kw_tensor (t : tensor_entry) : list (pystr * pv) :=
  [(s_location, pstr (t_location t)); (s_serializer, pstr (t_serializer t)); (s_dtype, pstr (t_dtype t));
   (s_shape, pints (t_shape t)); (s_replicated, pbool (t_replicated t)); (s_byte_range, PJ (j_opt_ints (t_byte_range t)))].

Definition inst_of_tensor (cl : list pyclass) (t : tensor_entry) : option pv := construct cl n_TensorEntry [] (kw_tensor t).

Definition inst_of_shard (cl : list pyclass) (s : shard) : option pv :=
  do t <- inst_of_tensor cl (sh_tensor s);
  construct cl n_Shard [] [(s_offsets, pints (sh_offsets s)); (s_sizes, pints (sh_sizes s)); (s_tensor, t)].

Definition inst_of_entry (cl : list pyclass) (e : entry) : option pv :=
  match e with
  | EList => construct cl n_ListEntry [] []
  | EDict ks => construct cl n_DictEntry [] [(s_keys, PJ (JArr (map j_key ks)))]
  | EOrderedDict ks => construct cl n_OrderedDictEntry [] [(s_keys, PJ (JArr (map j_key ks)))]
  | EPrim k sv r rd =>
      construct cl n_PrimitiveEntry []
        [(s_type, pstr (kind_name k)); (s_serialized_value, pstr sv); (s_replicated, pbool r);
         (s_readable_value, PJ (j_opt_str rd))]
  | ETensor t => inst_of_tensor cl t
  | ESharded shs => do l <- mapM (inst_of_shard cl) shs; construct cl n_ShardedTensorEntry [] [(s_shards, PList l)]
  | EChunked dt shp chs r =>
      do l <- mapM (inst_of_shard cl) chs;
      construct cl n_ChunkedTensorEntry [] [(s_dtype, pstr dt); (s_shape, pints shp); (s_chunks, PList l); (s_replicated, pbool r)]
  | EDTensor shs m dm =>
      do l <- mapM (inst_of_shard cl) shs;
      construct cl n_DTensorEntry [] [(s_shards, PList l); (s_mesh, PJ (j_mesh m)); (s_dim_map, PJ (JArr (map j_ints dm)))]
  | EObject loc ser ot r =>
      construct cl n_ObjectEntry [] [(s_location, pstr loc); (s_serializer, pstr ser); (s_obj_type, pstr ot); (s_replicated, pbool r)]
  end.

Definition inst_of_md (cl : list pyclass) (md : metadata) : option pv :=
  do man <- mapM (fun pe => do o <- inst_of_entry cl (snd pe); Some (fst pe, o)) (md_manifest md);
  construct cl n_SnapshotMetadata [] [(s_version, pstr (md_version md)); (s_world_size, PJ (JInt (md_world_size md))); (s_manifest, PDict man)].

(* attribute access *)
Definition attr_j (k : pystr) (a : list (pystr * pv)) : option jvalue :=
  match dget k a with Some (PJ j) => Some j | _ => None end.
Definition attr_list (k : pystr) (a : list (pystr * pv)) : option (list pv) :=
  match dget k a with Some (PList l) => Some l | _ => None end.
Definition get_opt_str (j : jvalue) : option (option pystr) :=
  match j with JNull => Some None | JStr s => Some (Some s) | _ => None end.

Definition tensor_of_inst (o : pv) : option tensor_entry :=
  match o with
  | PInst c a =>
      if pystr_eqb c n_TensorEntry then
        do loc <- bind (attr_j s_location a) get_str;
        do ser <- bind (attr_j s_serializer a) get_str;
        do dt <- bind (attr_j s_dtype a) get_str;
        do shp <- bind (attr_j s_shape a) get_ints;
        do r <- bind (attr_j s_replicated a) get_bool;
        do br <- bind (attr_j s_byte_range a) (fun j => get_opt_ints (Some j));
        Some (mkTensor loc ser dt shp r br)
      else None
  | _ => None
  end.

Definition shard_of_inst (o : pv) : option shard :=
  match o with
  | PInst c a =>
      if pystr_eqb c n_Shard then
        do offs <- bind (attr_j s_offsets a) get_ints;
        do szs <- bind (attr_j s_sizes a) get_ints;
        do t <- bind (dget s_tensor a) tensor_of_inst;
        Some (mkShard offs szs t)
      else None
  | _ => None
  end.

Definition shards_of_attr (k : pystr) (a : list (pystr * pv)) : option (list shard) :=
  do l <- attr_list k a; mapM shard_of_inst l.

Definition entry_of_inst (o : pv) : option entry :=
  match o with
  | PInst c a =>
      if pystr_eqb c n_ListEntry then Some EList
      else if pystr_eqb c n_DictEntry then do ks <- bind (attr_j s_keys a) keys_of_yaml; Some (EDict ks)
      else if pystr_eqb c n_OrderedDictEntry then do ks <- bind (attr_j s_keys a) keys_of_yaml; Some (EOrderedDict ks)
      else if pystr_eqb c n_PrimitiveEntry then
        do ty <- bind (attr_j s_type a) get_str;
        do k <- kind_of_name ty;
        do sv <- bind (attr_j s_serialized_value a) get_str;
        do r <- bind (attr_j s_replicated a) get_bool;
        do rd <- bind (attr_j s_readable a) get_opt_str;
        Some (EPrim k sv r rd)
      else if pystr_eqb c n_TensorEntry then option_map ETensor (tensor_of_inst o)
      else if pystr_eqb c n_ShardedTensorEntry then do shs <- shards_of_attr s_shards a; Some (ESharded shs)
      else if pystr_eqb c n_ChunkedTensorEntry then
        do dt <- bind (attr_j s_dtype a) get_str;
        do shp <- bind (attr_j s_shape a) get_ints;
        do chs <- shards_of_attr s_chunks a;
        do r <- bind (attr_j s_replicated a) get_bool;
        Some (EChunked dt shp chs r)
      else if pystr_eqb c n_DTensorEntry then
        do shs <- shards_of_attr s_shards a;
        do m <- bind (attr_j s_mesh a) mesh_of_yaml;
        do dm <- bind (attr_j s_dim_map a) dim_map_of_yaml;
        Some (EDTensor shs m dm)
      else if pystr_eqb c n_ObjectEntry then
        do loc <- bind (attr_j s_location a) get_str;
        do ser <- bind (attr_j s_serializer a) get_str;
        do ot <- bind (attr_j s_obj_type a) get_str;
        do r <- bind (attr_j s_replicated a) get_bool;
        Some (EObject loc ser ot r)
      else None
  | _ => None
  end.

Definition md_of_inst (o : pv) : option metadata :=
  match o with
  | PInst c a =>
      if pystr_eqb c n_SnapshotMetadata then
        do ver <- bind (attr_j s_version a) get_str;
        do ws <- bind (attr_j s_world_size a) get_int;
        do man <- match dget s_manifest a with
                  | Some (PDict l) => mapM (fun kv => do e <- entry_of_inst (snd kv); Some (fst kv, e)) l
                  | _ => None
                  end;
        Some (mkMd ver ws man)
      else None
  | _ => None
  end.
