(* C08: the terms generated from the source (gen/ReshardGen.v by translator/gen_reshard.py; the subdivision
   arithmetic of gen/ChunkGen.v by translator/gen_chunk.py) wired into an executable load, with the observation
   functions used by the correspondence harness.  Executable definitions only. *)
From TS Require Import model.Base model.Reshard gen.ChunkGen gen.ReshardGen.

(* ------------------------------------------------------------------ subdivide_shard over the generated arithmetic *)
(* slice_sz, chunk_length, n_chunks, start, length are the expressions of the source (the g_sub definitions of
   gen/ChunkGen.v); the statements that build a piece from start and length (sub_offsets[dim] += start,
   sub_sizes[dim] = length, the narrow) are g_sub_piece of gen/ReshardGen.v *)
Definition subdivide_g (b : box) (dim : nat) (esize maxb : Z) : list (Z * box) :=
  let sd := nth dim (bsz b) 0 in
  let slice_sz := g_sub_slice_sz (prodZ (bsz b)) sd esize in
  let chunk_length := g_sub_chunk_length maxb slice_sz in
  map (fun i =>
         let pc := g_sub_piece (boff b) (bsz b) dim (g_sub_start i chunk_length) (g_sub_length i chunk_length sd) in
         (fst (fst pc), mkBox (fst (snd pc)) (snd (snd pc))))
      (upto (g_sub_n_chunks sd chunk_length)).

Definition write_shards_g {E} (dim : nat) (esize maxb : Z) (locals : list (dshard E)) : list (dshard E) :=
  flat_map (fun d =>
    map (fun p => mkD (snd p) (narrow (d_data d) dim (fst p))) (subdivide_g (d_box d) dim esize maxb))
    locals.

(* ------------------------------------------------------------------ executing the generated read plan *)
(* one consumer: its entry [s] fixes the shape of the deserialised tensor, [data] is the payload fetched under the
   request's (path, byte_range); every region is applied to the destination tensor it names through the generated
   get_views + copy *)
Definition consume_g {E} (s : sshard E) (data : tensor E) (rs : list (Z * region4)) (dboxes : list box)
                     (ts : list (tensor E)) : list (tensor E) :=
  fold_left (fun ts ir =>
               upd_nth ts (Z.to_nat (fst ir))
                       (g_consume_one (snd ir) (bsz (s_box s)) (bsz (nth (Z.to_nat (fst ir)) dboxes (mkBox [] []))) data))
            rs ts.

Definition exec_req {E} (shards : list (sshard E)) (dboxes : list box) (ts : list (tensor E)) (q : greq E)
  : list (tensor E) :=
  match fetch shards (fst (fst q)) (snd (fst q)) with
  | Some s' => consume_g (snd (fst (snd q))) (s_data s') (snd (snd q)) dboxes ts
  | None => ts
  end.

(* prepare_read (generated) followed by all its consumers, in request order; None = prepare_read raised *)
Definition load_gen {E} (shards : list (sshard E)) (out_shape : list Z) (dsts : list (dshard E))
  : option (list (tensor E)) :=
  option_map (fun reqs => fold_left (exec_req shards (map d_box dsts)) reqs (map d_data dsts))
             (g_prepare_read shards out_shape (map d_box dsts)).

Definition read_plan_gen {E} (shards : list (sshard E)) (out_shape : list Z) (dboxes : list box) : option (list Z) :=
  option_map (map (fun q : greq E => fst (fst (snd q)))) (g_prepare_read shards out_shape dboxes).

(* ------------------------------------------------------------------ observations over the generated terms *)
Definition obs_region4 (r : region4) : val :=
  VL (map (fun t => VL [VZ (fst (fst (fst t))); VZ (snd (fst (fst t))); VZ (snd (fst t)); VZ (snd t)]) r).

(* (saved, current) -> [torch's overlap test; the generated region with its dims] *)
Definition obs_region_gen (x : (list Z * list Z) * (list Z * list Z)) : val :=
  obs_region4 (g_overlap_region (mkBox (fst (fst x)) (snd (fst x))) (mkBox (fst (snd x)) (snd (snd x)))).

Definition obs_write_gen (x : ((nat * Z) * Z) * list ((list Z * list Z) * list Z)) : val :=
  let '(((dim, esize), maxb), locals) := x in
  VL (map (fun d => VL [obs_box (d_box d); vlistZ (rs_to_list (bsz (d_box d)) (d_data d))])
          (write_shards_g dim esize maxb (map mk_d locals))).

(* a request: [index of the entry handed to the consumer; path id; byte range; regions] *)
Definition obs_greqs {E} (l : list (greq E)) : val :=
  VL (map (fun q => VL [VZ (fst (fst (snd q))); VZ (fst (fst q)); vlistZ (snd (fst q));
                        VL (map (fun ir => VL [VZ (fst ir); obs_region4 (snd ir)]) (snd (snd q)))]) l).

(* input (((saved shards, destination shards), global shape of obj_out), obj_out is a dense tensor);
   a dense destination's box is the one prepare_read builds (g_dense_box of its shape);
   output [requests (or [] when prepare_read raises); final contents; _get_global_shape; get_tensor_shape] *)
Definition obs_read_gen
  (x : ((list (((list Z * list Z) * list Z) * list Z) * list ((list Z * list Z) * list Z)) * list Z) * bool) : val :=
  let shards := map mk_s (fst (fst (fst x))) in
  let dsts0 := map mk_d (snd (fst (fst x))) in
  let out_shape := snd (fst x) in
  let dsts := if snd x then map (fun d => mkD (g_dense_box (bsz (d_box d))) (d_data d)) dsts0 else dsts0 in
  let fin (ts : list (tensor Z)) :=
      VL (map (fun dt => vlistZ (rs_to_list (bsz (d_box (fst dt))) (snd dt))) (combine dsts ts)) in
  VL [vopt obs_greqs (g_prepare_read shards out_shape (map d_box dsts));
      vopt fin (load_gen shards out_shape dsts);
      vopt vlistZ (g_global_shape (map s_box shards));
      vopt vlistZ (g_tensor_shape (map s_box shards))].
