(* C02 / C03: the commit tail of the synchronous Snapshot.take as an interleaved transition system.
   The program every rank runs is NOT written here: it is the skeleton generated from snapshot.py on this run
   (coq/gen/CommitGen.v: gen_take_tail).  Executable definitions only. *)
From TS Require Import model.Base gen.CommitGen.
From Coq Require Import Arith.
Local Close Scope Z_scope.
Local Open Scope nat_scope.

Inductive rstatus := RRunning | RRaised | RReturned.
Inductive mstate := MAbsent | MPartial | MComplete.

(* one rank: program counter, waiting-in-barrier flag, payload writes (total / begun / finished),
   metadata write in progress, outcome *)
Record rk := { pc : nat; waiting : bool; wn : nat; wb : nat; wf : nat; mw : bool; st : rstatus }.
Record gstate := { ranks : list rk; meta : mstate }.

Definition stmt_eqb (a b : stmt) : bool :=
  match a, b with
  | SComplete, SComplete | SBarrier, SBarrier | SWriteMetaRank0, SWriteMetaRank0 | SWriteMetaAll, SWriteMetaAll => true
  | _, _ => false
  end.
Definition is_meta (s : stmt) : bool := match s with SWriteMetaRank0 | SWriteMetaAll => true | _ => false end.

(* number of barrier statements among the first k statements *)
Fixpoint nb (prog : list stmt) (k : nat) : nat :=
  match k, prog with
  | O, _ => O
  | S k', [] => O
  | S k', s :: p => (if stmt_eqb s SBarrier then 1 else 0) + nb p k'
  end.
Definition passed (prog : list stmt) (x : rk) : nat := nb prog (pc x).
Definition arrived (prog : list stmt) (x : rk) : nat := nb prog (pc x) + (if waiting x then 1 else 0).

Inductive action :=
| AWBegin | AWEnd | AAdvance          (* payload write begins / ends; Complete is over *)
| AArrive | APass                      (* barrier *)
| AMetaBegin | AMetaEnd | ASkipMeta    (* metadata write begins (file truncated) / ends; other ranks skip the if *)
| AReturn
| AFail                                (* the storage operation in progress raises *)
| ATimeout.                            (* a rank blocked in a barrier gives up: the collective raises (process-group timeout) *)

Definition set_pc (x : rk) (p : nat) : rk :=
  {| pc := p; waiting := false; wn := wn x; wb := wb x; wf := wf x; mw := false; st := st x |}.

Fixpoint upd {A} (i : nat) (v : A) (l : list A) : list A :=
  match l, i with
  | [], _ => []
  | _ :: r, O => v :: r
  | x :: r, S i' => x :: upd i' v r
  end.

Definition dflt : rk := {| pc := 0; waiting := false; wn := 0; wb := 0; wf := 0; mw := false; st := RReturned |}.

(* the effect of action [a] of rank [r] (index) in state [g]; None = not enabled *)
Definition act (prog : list stmt) (g : gstate) (r : nat) (a : action) : option gstate :=
  let x := nth r (ranks g) dflt in
  if negb (r <? length (ranks g)) then None else
  match st x with
  | RRaised | RReturned => None
  | RRunning =>
    let cur := nth_error prog (pc x) in
    let put x' m' := Some {| ranks := upd r x' (ranks g); meta := m' |} in
    match a, cur with
    | AWBegin, Some SComplete =>
        if wb x <? wn x then put {| pc := pc x; waiting := waiting x; wn := wn x; wb := S (wb x); wf := wf x; mw := mw x; st := st x |} (meta g) else None
    | AWEnd, Some SComplete =>
        if wf x <? wb x then put {| pc := pc x; waiting := waiting x; wn := wn x; wb := wb x; wf := S (wf x); mw := mw x; st := st x |} (meta g) else None
    | AAdvance, Some SComplete =>
        if wf x =? wn x then put (set_pc x (S (pc x))) (meta g) else None
    | AArrive, Some SBarrier =>
        if waiting x then None else put {| pc := pc x; waiting := true; wn := wn x; wb := wb x; wf := wf x; mw := mw x; st := st x |} (meta g)
    | APass, Some SBarrier =>
        if waiting x && forallb (fun y => S (nb prog (pc x)) <=? arrived prog y) (ranks g)
        then put (set_pc x (S (pc x))) (meta g) else None
    | AMetaBegin, Some s =>
        if is_meta s && (stmt_eqb s SWriteMetaAll || (r =? 0)) && negb (mw x)
        then put {| pc := pc x; waiting := waiting x; wn := wn x; wb := wb x; wf := wf x; mw := true; st := st x |} MPartial else None
    | AMetaEnd, Some s =>
        if is_meta s && mw x then put (set_pc x (S (pc x))) MComplete else None
    | ASkipMeta, Some SWriteMetaRank0 =>
        if r =? 0 then None else put (set_pc x (S (pc x))) (meta g)
    | AReturn, None =>
        put {| pc := pc x; waiting := waiting x; wn := wn x; wb := wb x; wf := wf x; mw := mw x; st := RReturned |} (meta g)
    | AFail, Some s =>
        if (stmt_eqb s SComplete && (wf x <? wb x)) || (is_meta s && mw x)
        then put {| pc := pc x; waiting := waiting x; wn := wn x; wb := wb x; wf := wf x; mw := mw x; st := RRaised |} (meta g) else None
    | ATimeout, Some SBarrier =>
        if waiting x
        then put {| pc := pc x; waiting := waiting x; wn := wn x; wb := wb x; wf := wf x; mw := mw x; st := RRaised |} (meta g) else None
    | _, _ => None
    end
  end.

Definition step (prog : list stmt) (g : gstate) (e : nat * action) : gstate :=
  match act prog g (fst e) (snd e) with Some g' => g' | None => g end.

Definition init (ns : list nat) : gstate :=
  {| ranks := map (fun n => {| pc := 0; waiting := false; wn := n; wb := 0; wf := 0; mw := false; st := RRunning |}) ns;
     meta := MAbsent |}.

Definition run (prog : list stmt) (ns : list nat) (evs : list (nat * action)) : gstate :=
  fold_left (step prog) evs (init ns).

(* ------------------------------------------------------------------ the decidable ordering condition *)
Fixpoint index_of (p : stmt -> bool) (prog : list stmt) : option nat :=
  match prog with
  | [] => None
  | s :: r => if p s then Some 0 else match index_of p r with Some k => Some (S k) | None => None end
  end.
Fixpoint count_if (p : stmt -> bool) (prog : list stmt) : nat :=
  match prog with [] => 0 | s :: r => (if p s then 1 else 0) + count_if p r end.

(* positions: c = the Complete, b1 = a barrier between c and m, m = the metadata write (rank 0 only),
   b2 = a barrier after m *)
Definition positions_ok (prog : list stmt) (c b1 m b2 : nat) : bool :=
  (c <? b1) && (b1 <? m) && (m <? b2) &&
  match nth_error prog c, nth_error prog b1, nth_error prog m, nth_error prog b2 with
  | Some SComplete, Some SBarrier, Some SWriteMetaRank0, Some SBarrier => true
  | _, _, _, _ => false
  end &&
  (count_if (fun s => stmt_eqb s SComplete) prog =? 1) && (count_if is_meta prog =? 1).

Definition find_barrier_between (prog : list stmt) (lo hi : nat) : option nat :=
  match index_of (fun s => stmt_eqb s SBarrier) (skipn (S lo) (firstn hi prog)) with
  | Some k => Some (S lo + k) | None => None end.

Definition well_ordered (prog : list stmt) : bool :=
  match index_of (fun s => stmt_eqb s SComplete) prog, index_of is_meta prog with
  | Some c, Some m =>
      match find_barrier_between prog c m, find_barrier_between prog m (length prog) with
      | Some b1, Some b2 => positions_ok prog c b1 m b2
      | _, _ => false
      end
  | _, _ => false
  end.

(* ------------------------------------------------------------------ what the property talks about *)
Definition payload_complete (x : rk) : bool := wf x =? wn x.
Definition all_payload_complete (g : gstate) : bool := forallb payload_complete (ranks g).
Definition meta_started (g : gstate) : bool := match meta g with MAbsent => false | _ => true end.
Definition meta_complete (g : gstate) : bool := match meta g with MComplete => true | _ => false end.
Definition returned (x : rk) : bool := match st x with RReturned => true | _ => false end.
Definition raised (x : rk) : bool := match st x with RRaised => true | _ => false end.

(* ------------------------------------------------------------------ observations for the harness *)
Definition obs_status (s : rstatus) : val := match s with RRunning => VZ 0%Z | RRaised => VZ 1%Z | RReturned => VZ 2%Z end.
Definition obs_meta (m : mstate) : val := match m with MAbsent => VZ 0%Z | MPartial => VZ 1%Z | MComplete => VZ 2%Z end.

Definition action_of_code (z : Z) : action :=
  if (z =? 0)%Z then AWBegin else if (z =? 1)%Z then AWEnd else if (z =? 2)%Z then AAdvance else if (z =? 3)%Z then AArrive
  else if (z =? 4)%Z then APass else if (z =? 5)%Z then AMetaBegin else if (z =? 6)%Z then AMetaEnd else if (z =? 7)%Z then ASkipMeta
  else if (z =? 8)%Z then AReturn else if (z =? 10)%Z then ATimeout else AFail.

(* replay of an observed trace: for every observed (rank, action) was it enabled in the model?  plus the end state *)
Fixpoint accepts (prog : list stmt) (g : gstate) (evs : list (Z * Z)) : list Z * gstate :=
  match evs with
  | [] => ([], g)
  | (r, a) :: rest =>
      match act prog g (Z.to_nat r) (action_of_code a) with
      | Some g' => let '(l, gf) := accepts prog g' rest in (1%Z :: l, gf)
      | None => let '(l, gf) := accepts prog g rest in (0%Z :: l, gf)
      end
  end.

Definition obs_commit (x : list Z * list (Z * Z)) : val :=
  let '(l, gf) := accepts gen_take_tail (init (map Z.to_nat (fst x))) (snd x) in
  VL [vlistZ l; VL (map (fun y => obs_status (st y)) (ranks gf)); obs_meta (meta gf)].
