(* C16 (part 2): slab batching of writes and merging of reads (batcher.py).
   Executable definitions only.

   Paths and consumers are identified by integers (the harness numbers them).  Only CPU slabs are
   modelled (GPU slabs use the same grouping code on a second list; no CUDA device in the harness). *)
From TS Require Import model.Base.

Definition bytes := list Z.
Definition blen {A} (l : list A) : Z := Z.of_nat (length l).

(* ------------------------------------------------------------------ Python dict with insertion order *)
(* d[k] = v : an existing key keeps its position (and key object), its value is replaced; a new key is
   appended *)
Fixpoint dict_set {K V} (eqb : K -> K -> bool) (k : K) (v : V) (d : list (K * V)) : list (K * V) :=
  match d with
  | [] => [(k, v)]
  | (k', v') :: r => if eqb k' k then (k', v) :: r else (k', v') :: dict_set eqb k v r
  end.

Fixpoint dict_get {K V} (eqb : K -> K -> bool) (k : K) (d : list (K * V)) : option V :=
  match d with
  | [] => None
  | (k', v') :: r => if eqb k' k then Some v' else dict_get eqb k r
  end.

(* dict(pairs) / successive assignments *)
Definition dict_of {K V} (eqb : K -> K -> bool) (l : list (K * V)) : list (K * V) :=
  fold_left (fun d kv => dict_set eqb (fst kv) (snd kv) d) l [].

Definition range_eqb (a b : Z * Z) : bool := (fst a =? fst b) && (snd a =? snd b).

(* ------------------------------------------------------------------ batch_write_requests *)
(* a write request: (path, batchable, size in bytes).  batchable = isinstance(stager, TensorBufferStager)
   and is_batchable(stager); size = tensor.nelement() * tensor.element_size() *)
Definition wreq := (Z * bool * Z)%type.
(* a slab member: (path, lo, hi) *)
Definition member := (Z * Z * Z)%type.
Definition m_path (m : member) : Z := fst (fst m).
Definition m_lo (m : member) : Z := snd (fst m).
Definition m_hi (m : member) : Z := snd m.

(* Slab.sz_bytes: sum of hi - lo over add_buffer_stager calls *)
Definition slab_sz (s : list member) : Z := sumZ (map (fun m => m_hi m - m_lo m) s).

Record bstate := {
  bs_closed : list (list member);     (* cpu_slabs[:-1] *)
  bs_cur : list member;               (* cpu_slabs[-1] *)
  bs_pass : list wreq;                (* batched_write_reqs before the slabs are appended *)
  bs_reloc : list (Z * (Z * Z * Z))   (* relocation: path -> (slab index, lo, hi), a dict *)
}.

Definition bs_init : bstate := {| bs_closed := []; bs_cur := []; bs_pass := []; bs_reloc := [] |}.

Definition bw_step (T : Z) (st : bstate) (w : wreq) : bstate :=
  let '(p, batchable, sz) := w in
  if negb batchable then                                  (* not a batchable TensorBufferStager *)
    {| bs_closed := bs_closed st; bs_cur := bs_cur st; bs_pass := bs_pass st ++ [w]; bs_reloc := bs_reloc st |}
  else if sz >=? T then                                   (* tensor_sz_bytes >= slab_size_threshold_bytes *)
    {| bs_closed := bs_closed st; bs_cur := bs_cur st; bs_pass := bs_pass st ++ [w]; bs_reloc := bs_reloc st |}
  else
    let '(closed, cur) :=
      if slab_sz (bs_cur st) + sz >=? T                   (* slabs[-1].sz_bytes + tensor_sz_bytes >= threshold *)
      then (bs_closed st ++ [bs_cur st], [])              (* slabs.append(Slab()) *)
      else (bs_closed st, bs_cur st) in
    let lo := slab_sz cur in
    let hi := lo + sz in
    {| bs_closed := closed; bs_cur := cur ++ [(p, lo, hi)]; bs_pass := bs_pass st;
       bs_reloc := dict_set Z.eqb p (blen closed, lo, hi) (bs_reloc st) |}.

Fixpoint index_from {A} (i : Z) (l : list A) : list (Z * A) :=
  match l with
  | [] => []
  | x :: r => (i, x) :: index_from (i + 1) r
  end.

Definition nonempty {A} (l : list A) : bool := match l with [] => false | _ => true end.

(* result: (slabs that become write requests, with their index among all slabs created;
            pass-through requests in order;  relocation dict) *)
Definition batch_write (T : Z) (reqs : list wreq)
  : list (Z * list member) * list wreq * list (Z * (Z * Z * Z)) :=
  let st := fold_left (bw_step T) reqs bs_init in
  let all := bs_closed st ++ [bs_cur st] in
  (filter (fun s => nonempty (snd s)) (index_from 0 all),     (* if len(slab.buffer_stagers) == 0: continue *)
   bs_pass st, bs_reloc st).

(* Slab.build(): BatchedBufferStager(dict(zip(byte_ranges, buffer_stagers))); the constructor checks that the
   dict's keys are consecutive (each starts where the previous one ended; the first start is not checked)
   and takes the last end as slab_sz_bytes.  None = AssertionError. *)
Fixpoint check_contiguous (fin : Z) (keys : list (Z * Z)) : option Z :=
  match keys with
  | [] => Some fin
  | (lo, hi) :: r => if lo =? fin then check_contiguous hi r else None
  end.

Definition slab_build (ms : list member) : option (Z * list ((Z * Z) * Z)) :=
  let d := dict_of range_eqb (map (fun m => ((m_lo m, m_hi m), m_path m)) ms) in
  match d with
  | [] => None                                   (* next() on an empty iterator; never built for an empty slab *)
  | ((_, hi0), _) :: r =>
      match check_contiguous hi0 (map fst r) with
      | None => None
      | Some fin => Some (fin, d)
      end
  end.

(* BatchedBufferStager.stage_buffer: slab = bytearray(slab_sz_bytes); whenever a member's staging task
   completes:  if len(buf) != hi - lo: raise AssertionError;  slab[lo:hi] = buf.
   The argument lists the members in COMPLETION order. *)
Definition splice (s : bytes) (lo hi : Z) (buf : bytes) : bytes :=
  firstn (Z.to_nat lo) s ++ buf ++ skipn (Z.to_nat hi) s.

Fixpoint stage_from (slab : bytes) (ms : list (Z * Z * bytes)) : option bytes :=
  match ms with
  | [] => Some slab
  | (lo, hi, buf) :: r => if blen buf =? hi - lo then stage_from (splice slab lo hi buf) r else None
  end.

Definition stage_slab (sz : Z) (ms : list (Z * Z * bytes)) : option bytes :=
  stage_from (repeat 0 (Z.to_nat sz)) ms.

(* ------------------------------------------------------------------ batch_read_requests *)
(* a read request: (path, byte_range or None, consumer id) *)
Definition rreq := (Z * option (Z * Z) * Z)%type.
Definition ranged := (Z * (Z * Z) * Z)%type.

Inductive rplan :=
| RWhole (path cons : Z)                                         (* byte_range None: passed through *)
| RMerged (path lo hi buf_sz : Z) (subs : list ((Z * Z) * Z)).   (* merged read + BatchedBufferConsumer dict *)

Definition unranged_of (reqs : list rreq) : list (Z * Z) :=
  flat_map (fun r : rreq => match snd (fst r) with None => [(fst (fst r), snd r)] | Some _ => [] end) reqs.
Definition ranged_of (reqs : list rreq) : list ranged :=
  flat_map (fun r : rreq => match snd (fst r) with None => [] | Some rg => [(fst (fst r), rg, snd r)] end) reqs.

Definition memZ (x : Z) (l : list Z) : bool := existsb (Z.eqb x) l.

(* keys of location_to_ranged_read_reqs in insertion order *)
Definition locations (rs : list ranged) : list Z :=
  fold_left (fun acc r => let p := fst (fst r) in if memZ p acc then acc else acc ++ [p]) rs [].

Definition at_location (loc : Z) (rs : list ranged) : list ranged :=
  filter (fun r => fst (fst r) =? loc) rs.

(* location_to_byte_range[path]: initialised with the first range, then (min lo, max hi) *)
Definition merged_range (rs : list ranged) : Z * Z :=
  match rs with
  | [] => (0, 0)
  | r0 :: _ => fold_left (fun acc r => (Z.min (fst acc) (fst (snd (fst r))), Z.max (snd acc) (snd (snd (fst r)))))
                         rs (snd (fst r0))
  end.

Definition merge_location (rs : list ranged) (loc : Z) : rplan :=
  let mine := at_location loc rs in
  let '(L, H) := merged_range mine in
  RMerged loc L H (H - L)
          (dict_of range_eqb (map (fun r => ((fst (snd (fst r)) - L, snd (snd (fst r)) - L), snd r)) mine)).

Definition batch_read (reqs : list rreq) : list rplan :=
  map (fun pc => RWhole (fst pc) (snd pc)) (unranged_of reqs)
  ++ map (merge_location (ranged_of reqs)) (locations (ranged_of reqs)).

(* ------------------------------------------------------------------ executing a read plan *)
(* Python slicing buf[a:b] on a buffer of length n *)
Definition pynorm (i n : Z) : Z := if i <? 0 then Z.max 0 (i + n) else Z.min i n.
Definition pyslice {A} (l : list A) (a b : Z) : list A := slice l (pynorm a (blen l)) (pynorm b (blen l)).

(* storage read of [a, b): seek(a); read(b - a) - a short object gives a short buffer (model/FsStream.v) *)
Definition read_obj (obj : bytes) (rg : option (Z * Z)) : bytes :=
  match rg with None => obj | Some (a, b) => slice obj a b end.

Definition lookup (store : list (Z * bytes)) (p : Z) : option bytes := dict_get Z.eqb p store.

(* deliveries (consumer id, buffer handed to consume_buffer); a missing object delivers nothing (the read
   raises - outside C16) *)
Definition exec_one (store : list (Z * bytes)) (pl : rplan) : list (Z * bytes) :=
  match pl with
  | RWhole p c => match lookup store p with None => [] | Some obj => [(c, obj)] end
  | RMerged p lo hi _ subs =>
      match lookup store p with
      | None => []
      | Some obj => let buf := read_obj obj (Some (lo, hi)) in
                    map (fun s => (snd s, pyslice buf (fst (fst s)) (snd (fst s)))) subs
      end
  end.
Definition exec_plan (store : list (Z * bytes)) (plan : list rplan) : list (Z * bytes) :=
  flat_map (exec_one store) plan.

(* the same requests without batching: what each consumer should see *)
Definition exec_direct (store : list (Z * bytes)) (reqs : list rreq) : list (Z * bytes) :=
  flat_map (fun r : rreq => match lookup store (fst (fst r)) with
                            | None => []
                            | Some obj => [(snd r, read_obj obj (snd (fst r)))]
                            end) reqs.

(* ------------------------------------------------------------------ write -> store -> read composition *)
(* slab k is stored under a path that no entry uses (uuid4 in the code): entries use paths >= 0 *)
Definition slab_path (k : Z) : Z := - 1 - k.

(* the read request prepare_read issues for an entry after relocation: consumer id = original path *)
Definition entry_read (reloc : list (Z * (Z * Z * Z))) (p : Z) : rreq :=
  match dict_get Z.eqb p reloc with
  | Some (k, lo, hi) => (slab_path k, Some (lo, hi), p)
  | None => (p, None, p)
  end.

(* ------------------------------------------------------------------ observations *)
Definition obs_member (m : member) : val := VL [VZ (m_path m); VZ (m_lo m); VZ (m_hi m)].
Definition obs_wreq (w : wreq) : val := VL [VZ (fst (fst w)); vbool (snd (fst w)); VZ (snd w)].
Definition obs_reloc (e : Z * (Z * Z * Z)) : val :=
  let '(p, (k, lo, hi)) := e in VL [VZ p; VZ k; VZ lo; VZ hi].
Definition obs_build (ms : list member) : val :=
  vopt (fun x : Z * list ((Z * Z) * Z) =>
          VL [VZ (fst x); VL (map (fun e : (Z * Z) * Z => VL [VZ (fst (fst e)); VZ (snd (fst e)); VZ (snd e)]) (snd x))])
       (slab_build ms).

Definition obs_batch_write1 (T : Z) (reqs : list wreq) : val :=
  let '(slabs, pass, reloc) := batch_write T reqs in
  VL [VL (map (fun s : Z * list member => VL [VZ (fst s); obs_build (snd s)]) slabs);
      VL (map obs_wreq pass);
      VL (map obs_reloc reloc)].

(* sweep over every threshold 1 .. tmax, run-length encoded (same shape as model/Chunk.v obs_sweep) *)
Fixpoint rle_b (l : list val) : list (Z * val) :=
  match l with
  | [] => []
  | x :: r => match rle_b r with
              | (k, y) :: r' => if val_eqb x y then (k + 1, y) :: r' else (1, x) :: (k, y) :: r'
              | [] => [(1, x)]
              end
  end.
Definition obs_batch_write_sweep (x : list wreq * Z) : val :=
  let '(reqs, tmax) := x in
  VL (map (fun kv => VL [VZ (fst kv); snd kv])
          (rle_b (map (fun i => obs_batch_write1 (Z.of_nat i + 1) reqs) (seq 0 (Z.to_nat tmax))))).

(* (slab size, members in completion order) *)
Definition obs_stage (x : Z * list (Z * Z * bytes)) : val := vopt vlistZ (stage_slab (fst x) (snd x)).

Definition obs_rplan (p : rplan) : val :=
  match p with
  | RWhole path c => VL [VZ 0; VZ path; VZ c]
  | RMerged path lo hi sz subs =>
      VL [VZ 1; VZ path; VZ lo; VZ hi; VZ sz;
          VL (map (fun e : (Z * Z) * Z => VL [VZ (fst (fst e)); VZ (snd (fst e)); VZ (snd e)]) subs)]
  end.

(* (requests, store): the plan, then for every request in input order the buffers its consumer received *)
Definition obs_batch_read (x : list rreq * list (Z * bytes)) : val :=
  let '(reqs, store) := x in
  let plan := batch_read reqs in
  let dl := exec_plan store plan in
  VL [VL (map obs_rplan plan);
      VL (map (fun r : rreq => VL (map (fun d => vlistZ (snd d)) (filter (fun d => fst d =? snd r) dl))) reqs)].
