(* C17: dtype tables of torchsnapshot/serialization.py - reference element sizes and decidable checkers.
   The tables themselves are GENERATED (coq/gen/DtypeGen.v, translator/gen_dtype.py); this file holds what is
   written by hand: the reference sizes of PyTorch, the dict lookup, and the checkers.  Executable definitions only. *)
From TS Require Import model.Base.
From Coq Require Import String Ascii.

(* a Python str as its list of code points; a dtype torch.X is named by the code points of "X" *)
Definition pystr := list Z.

Definition Dtype_of_string (s : string) : pystr :=
  map (fun a => Z.of_N (N_of_ascii a)) (list_ascii_of_string s).

Definition Dtype_bfloat16 : pystr := Dtype_of_string "bfloat16"%string.

Definition Dtype_str_eqb (a b : pystr) : bool := list_eqb Z.eqb a b.

(* PyTorch's element sizes (torch.empty(0, dtype=d).element_size()); hand-written reference,
   compared with the running torch by the harness on every run. *)
Definition Dtype_ref_sizes : list (pystr * Z) :=
  map (fun p => (Dtype_of_string (fst p), snd p))
  [ ("float64"%string, 8); ("float32"%string, 4); ("float16"%string, 2); ("bfloat16"%string, 2);
    ("complex128"%string, 16); ("complex64"%string, 8);
    ("int64"%string, 8); ("int32"%string, 4); ("int16"%string, 2); ("int8"%string, 1); ("uint8"%string, 1);
    ("bool"%string, 1);
    ("qint32"%string, 4); ("qint8"%string, 1); ("quint8"%string, 1) ].

(* Python dict built from a literal / comprehension, given as the list of its (key, value) pairs in
   source order: a later binding of an equal key replaces the earlier one. *)
Fixpoint Dtype_get {V} (k : pystr) (t : list (pystr * V)) : option V :=
  match t with
  | [] => None
  | (k', v) :: t' =>
      match Dtype_get k t' with
      | Some v' => Some v'
      | None => if Dtype_str_eqb k' k then Some v else None
      end
  end.

Definition Dtype_mem (k : pystr) (l : list pystr) : bool := existsb (Dtype_str_eqb k) l.

Fixpoint Dtype_nodupb (l : list pystr) : bool :=
  match l with
  | [] => true
  | x :: l' => negb (Dtype_mem x l') && Dtype_nodupb l'
  end.

Definition Dtype_swap {A B} (t : list (A * B)) : list (B * A) := map (fun kv => (snd kv, fst kv)) t.

(* ---- checkers (soundness lemmas in proofs/DtypeProofs.v) ------------------------------------------------ *)

(* the table is a bijection between [dom] and its set of values: no key twice, no value twice, keys = dom *)
Definition bijective_table (dom : list pystr) (t : list (pystr * pystr)) : bool :=
  Dtype_nodupb (map fst t) && Dtype_nodupb (map snd t)
  && forallb (fun d => Dtype_mem d (map fst t)) dom
  && forallb (fun k => Dtype_mem k dom) (map fst t).

(* every dtype of [dom] has a recorded size, and every recorded size equals the reference size *)
Definition sizes_match (ref : list (pystr * Z)) (dom : list pystr) (t : list (pystr * Z)) : bool :=
  Dtype_nodupb (map fst t)
  && forallb (fun d => Dtype_mem d (map fst t)) dom
  && forallb (fun kv => match Dtype_get (fst kv) ref with Some r => r =? snd kv | None => false end) t.

Definition sizes_positive (t : list (pystr * Z)) : bool := forallb (fun kv => 0 <? snd kv) t.

Definition bp_subset_of_all (bp all : list pystr) : bool := forallb (fun d => Dtype_mem d all) bp.

(* the persisted string of torch.X is "torch.X" (what str(dtype) prints) *)
Definition Dtype_torch_prefix : pystr := Dtype_of_string "torch."%string.
Definition strings_canonical (t : list (pystr * pystr)) : bool :=
  forallb (fun kv => Dtype_str_eqb (snd kv) (Dtype_torch_prefix ++ fst kv)) t.

Definition Dtype_disjoint (a b : list pystr) : bool := forallb (fun d => negb (Dtype_mem d b)) a.

(* ---- observations for the correspondence harness ---------------------------------------------------------- *)
Definition obs_ref_size (d : pystr) : val := vopt VZ (Dtype_get d Dtype_ref_sizes).
Definition obs_get_str (t : list (pystr * pystr)) (k : pystr) : val := vopt vlistZ (Dtype_get k t).
Definition obs_get_size (t : list (pystr * Z)) (k : pystr) : val := vopt VZ (Dtype_get k t).
