(* C15: the Python runtime vocabulary in which translator/gen_flatten.py writes the statement-by-statement translation
   of _flatten / flatten / inflate / _entry_to_container / _populate_container (gen/FlattenRecGen.v).
   Executable definitions only.  Everything here is a MODEL OF PYTHON, not of torchsnapshot:

   * exceptions: a computation is an [option]; [None] = some exception was raised (or the fuel of a recursive
     function ran out); [obind] sequences.
   * dict with str keys ([sdict V]): an association list in insertion order.  [sdict_set] on a key that is present
     replaces the value and keeps the position (and the key object); on an absent key it appends.  dict.update and a
     dict comprehension are folds of [sdict_set].
   * dict with arbitrary keys ([CDict]): the same, keys compared with Python equality [py_eqb] (1 == True).
   * mutable containers and aliasing: inflate builds its containers once (`containers[path]`) and later stores
     REFERENCES to them inside other containers.  A reference to the container created for `path` is [RCont path]
     (inflate never creates two containers for one path: `containers` is a dict), anything else is a value
     [RVal o].  The dict `containers` is the heap; `_populate_container(container=containers[path], ..)` mutates the
     heap cell of `path`.  [resolve] reads a reference back as a value once everything has been populated.
   * types: [py_type] / [cont_type] give type(x); isinstance uses [pytype_subclass] (OrderedDict is a dict).
   Functions that Python would answer with an AttributeError / TypeError on the wrong kind of object and that the
   translated code only reaches behind a type test are total here and return the empty answer ([obj_items] of a
   list ...); a change of the source that reaches them is still seen by the correspondence because Python raises. *)
From TS Require Import model.Base model.Flatten.

(* ------------------------------------------------------------------ exceptions *)
Definition obind {A B} (x : option A) (f : A -> option B) : option B :=
  match x with Some a => f a | None => None end.
Notation "x <- e ;; k" := (obind e (fun x => k)) (at level 61, e at next level, right associativity).

(* for x in l: body   with the variables the body rebinds threaded as the state [st] *)
Fixpoint py_for {S X} (l : list X) (st : S) (body : S -> X -> option S) : option S :=
  match l with
  | [] => Some st
  | x :: r => match body st x with None => None | Some st' => py_for r st' body end
  end.

(* ------------------------------------------------------------------ dict with str keys *)
Definition sdict (V : Type) := list (pystr * V).

Fixpoint sdict_get {V} (k : pystr) (d : sdict V) : option V :=
  match d with
  | [] => None
  | (k', v) :: r => if str_eqb k' k then Some v else sdict_get k r
  end.
Definition sdict_mem {V} (k : pystr) (d : sdict V) : bool :=
  match sdict_get k d with Some _ => true | None => false end.
Fixpoint sdict_set {V} (k : pystr) (v : V) (d : sdict V) : sdict V :=
  match d with
  | [] => [(k, v)]
  | (k', v') :: r => if str_eqb k' k then (k', v) :: r else (k', v') :: sdict_set k v r
  end.
Definition sdict_update {V} (d m : sdict V) : sdict V :=
  fold_left (fun d kv => sdict_set (fst kv) (snd kv) d) m d.
Definition sdict_of_list {V} (l : list (pystr * V)) : sdict V := sdict_update [] l.
Definition sdict_items {V} (d : sdict V) : list (pystr * V) := d.
(* defaultdict(dict):  d[k1][k2] = v *)
Definition ddict_set2 {V} (k1 k2 : pystr) (v : V) (d : sdict (sdict V)) : sdict (sdict V) :=
  sdict_set k1 (sdict_set k2 v (match sdict_get k1 d with Some inner => inner | None => [] end)) d.

(* ------------------------------------------------------------------ types *)
Inductive pytype := TyList | TyDict | TyOrderedDict | TyOther.
Definition pytype_eqb (a b : pytype) : bool :=
  match a, b with
  | TyList, TyList | TyDict, TyDict | TyOrderedDict, TyOrderedDict | TyOther, TyOther => true
  | _, _ => false
  end.
(* issubclass(a, b) among the builtins that occur: collections.OrderedDict is a subclass of dict *)
Definition pytype_subclass (a b : pytype) : bool :=
  pytype_eqb a b || match a, b with TyOrderedDict, TyDict => true | _, _ => false end.

(* type(obj) for the objects flatten receives: anything that is not exactly list / dict / OrderedDict is [Leaf] *)
Definition py_type (o : obj) : pytype :=
  match o with
  | Leaf _ => TyOther
  | OList _ => TyList
  | ODict false _ => TyDict
  | ODict true _ => TyOrderedDict
  end.
Definition obj_list_items (o : obj) : list obj := match o with OList xs => xs | _ => [] end.
Definition obj_items (o : obj) : list (key * obj) := match o with ODict _ kvs => kvs | _ => [] end.
Definition obj_keys (o : obj) : list key := map fst (obj_items o).
Definition enumerate {A} (l : list A) : list (Z * A) := combine (map Z.of_nat (seq 0 (length l))) l.

(* ------------------------------------------------------------------ container entries (torchsnapshot.manifest) *)
Inductive ecls := ClsListEntry | ClsDictEntry | ClsOrderedDictEntry.
Definition ecls_eqb (a b : ecls) : bool :=
  match a, b with
  | ClsListEntry, ClsListEntry | ClsDictEntry, ClsDictEntry | ClsOrderedDictEntry, ClsOrderedDictEntry => true
  | _, _ => false
  end.
Definition entry_cls (e : entry) : ecls :=
  match e with EList => ClsListEntry | EDict false _ => ClsDictEntry | EDict true _ => ClsOrderedDictEntry end.
(* isinstance(entry, C): the translator checks in manifest.py that the three classes derive from Entry directly,
   so that isinstance is equality of classes *)
Definition entry_isinstance (e : entry) (c : ecls) : bool := ecls_eqb (entry_cls e) c.
Definition entry_keys (e : entry) : option (list key) :=      (* entry.keys ; ListEntry has no such attribute *)
  match e with EList => None | EDict _ ks => Some ks end.
Definition mk_entry (c : ecls) (keys : list key) : entry :=
  match c with ClsListEntry => EList | ClsDictEntry => EDict false keys | ClsOrderedDictEntry => EDict true keys end.

(* ------------------------------------------------------------------ mutable containers, references, the heap *)
Inductive cont (V : Type) :=
| CList (xs : list V)
| CDict (ord : bool) (kvs : list (key * V)).
Arguments CList {V} xs.
Arguments CDict {V} ord kvs.

Inductive ref :=
| RCont (p : pystr)      (* the container object created for path p *)
| RVal (o : obj).        (* any other object *)

Definition heap := sdict (cont ref).

Definition cont_type {V} (c : cont V) : pytype :=
  match c with CList _ => TyList | CDict false _ => TyDict | CDict true _ => TyOrderedDict end.
Definition cont_isinstance {V} (c : cont V) (tys : list pytype) : bool :=
  existsb (pytype_subclass (cont_type c)) tys.

(* list.extend *)
Definition cont_extend {V} (c : cont V) (ys : list V) : option (cont V) :=
  match c with CList xs => Some (CList (xs ++ ys)) | CDict _ _ => None end.
(* list(d.keys()) *)
Definition cont_keys {V} (c : cont V) : option (list key) :=
  match c with CList _ => None | CDict _ kvs => Some (map fst kvs) end.

Fixpoint kdict_set {V} (k : key) (v : V) (d : list (key * V)) : list (key * V) :=
  match d with
  | [] => [(k, v)]
  | (k', v') :: r => if py_eqb k' k then (k', v) :: r else (k', v') :: kdict_set k v r
  end.
Fixpoint kdict_del {V} (k : key) (d : list (key * V)) : option (list (key * V)) :=
  match d with
  | [] => None                                                            (* KeyError *)
  | (k', v') :: r => if py_eqb k' k then Some r else option_map (cons (k', v')) (kdict_del k r)
  end.
(* d[k] = v ; del d[k]   (on a list these mean something else: not reached behind isinstance(container, dict)) *)
Definition cont_setitem {V} (c : cont V) (k : key) (v : V) : option (cont V) :=
  match c with CDict ord kvs => Some (CDict ord (kdict_set k v kvs)) | CList _ => None end.
Definition cont_delitem {V} (c : cont V) (k : key) : option (cont V) :=
  match c with CDict ord kvs => option_map (CDict ord) (kdict_del k kvs) | CList _ => None end.
(* dict.fromkeys(keys) / OrderedDict.fromkeys(keys): every value None *)
Definition cont_fromkeys {V} (ord : bool) (none : V) (keys : list key) : cont V :=
  CDict ord (map (fun k => (k, none)) (fromkeys keys)).

(* containers.items() / flattened.items() as itertools.chain sees them: (path, object) *)
Definition heap_items (h : heap) : list (pystr * ref) := map (fun kv => (fst kv, RCont (fst kv))) h.
Definition leaf_items (d : sdict obj) : list (pystr * ref) := map (fun kv => (fst kv, RVal (snd kv))) d.
(* containers[path] used as a value: the container object itself (KeyError when absent) *)
Definition heap_ref (h : heap) (p : pystr) : option ref := if sdict_mem p h then Some (RCont p) else None.

(* the value a reference denotes once the heap is final; one unit of fuel per level of nesting *)
Fixpoint resolve (fuel : nat) (h : heap) (r : ref) {struct fuel} : option obj :=
  match r with
  | RVal o => Some o
  | RCont p =>
      match fuel with
      | O => None
      | S f =>
          match sdict_get p h with
          | None => None
          | Some (CList xs) => option_map OList (mapM (resolve f h) xs)
          | Some (CDict ord kvs) =>
              option_map (ODict ord) (mapM (fun kv => option_map (fun o => (fst kv, o)) (resolve f h (snd kv))) kvs)
          end
      end
  end.

(* ------------------------------------------------------------------ sorted(items, key=...) : stable *)
Definition py_sorted_int {X} (keyf : X -> option Z) (l : list X) : option (list X) :=
  match mapM (fun x => option_map (fun z => (z, x)) (keyf x)) l with
  | None => None                                            (* the key function raised *)
  | Some zs => Some (map snd (sort_by_int zs))
  end.

Fixpoint str_ltb (a b : pystr) : bool :=                    (* str < str : by code points *)
  match a, b with
  | _, [] => false
  | [], _ :: _ => true
  | x :: a', y :: b' => (x <? y) || ((x =? y) && str_ltb a' b')
  end.
Fixpoint insert_str {X} (x : pystr * X) (l : list (pystr * X)) : list (pystr * X) :=
  match l with
  | [] => [x]
  | y :: r => if str_ltb (fst y) (fst x) then y :: insert_str x r else x :: l
  end.
Definition py_sorted_str {X} (keyf : X -> pystr) (l : list X) : list X :=
  map snd (fold_right insert_str [] (map (fun x => (keyf x, x)) l)).

(* ------------------------------------------------------------------ lists and strings *)
(* l.pop() : (the list afterwards, the popped item); IndexError on [] *)
Definition py_pop {A} (l : list A) : option (list A * A) :=
  match rev l with [] => None | x :: _ => Some (removelast l, x) end.
(* s.split("/")[0] : split never returns the empty list *)
Definition split_head (s : pystr) : pystr := hd [] (split s).
