(* C14 layer 1: primitive codecs used by torchsnapshot/manifest.py (PrimitiveEntry._serialize / get_value)
   and by the JSON layer.  Executable definitions only.
     str_of_int / int_of_str   Python str(int) / int(str) on plain ASCII decimal strings
     str_of_bool / bool_of_str "True" / "False" (anything else: RuntimeError = None)
     b64encode / b64decode     base64.b64encode / b64decode, standard alphabet, '=' padding, on canonical input
   Characters are code points (Z); bytes are Z in 0..255. *)
From TS Require Import model.Base.

Definition pystr := list Z.
Definition pystr_eqb (a b : pystr) : bool := list_eqb Z.eqb a b.

(* ------------------------------------------------------------------ decimal *)
Definition is_digit (c : Z) : bool := (48 <=? c) && (c <=? 57).

(* little-endian decimal digits of n >= 0 ; fuel = number of bits of n is always enough *)
Fixpoint dle (fuel : nat) (n : Z) : list Z :=
  match fuel with
  | O => [n mod 10]
  | S f => if n <? 10 then [n] else (n mod 10) :: dle f (n / 10)
  end.

Definition digits_of_nonneg (n : Z) : list Z :=
  match n with
  | Zpos p => map (fun d => 48 + d) (rev (dle (Pos.size_nat p) n))
  | _ => [48]
  end.

(* Python str(int) *)
Definition str_of_int (z : Z) : pystr :=
  if z <? 0 then 45 :: digits_of_nonneg (- z) else digits_of_nonneg z.

(* Horner value of a list of ASCII digits (most significant first) *)
Definition digits_value (ds : list Z) : Z := fold_left (fun a c => a * 10 + (c - 48)) ds 0.

Definition nat_of_str (s : pystr) : option Z :=
  match s with
  | [] => None
  | _ => if forallb is_digit s then Some (digits_value s) else None
  end.

(* Python int(str) restricted to [+-]?[0-9]+ (no whitespace, underscores or non-ASCII digits) *)
Definition int_of_str (s : pystr) : option Z :=
  match s with
  | [] => None
  | c :: s' =>
      if c =? 45 then option_map Z.opp (nat_of_str s')
      else if c =? 43 then nat_of_str s'
      else nat_of_str s
  end.

(* ------------------------------------------------------------------ bool *)
Definition lit_True : pystr := [84; 114; 117; 101].
Definition lit_False : pystr := [70; 97; 108; 115; 101].
Definition str_of_bool (b : bool) : pystr := if b then lit_True else lit_False.
Definition bool_of_str (s : pystr) : option bool :=
  if pystr_eqb s lit_True then Some true else if pystr_eqb s lit_False then Some false else None.

(* ------------------------------------------------------------------ base64 *)
Definition b64char (k : Z) : Z :=
  if k <? 26 then 65 + k
  else if k <? 52 then 71 + k
  else if k <? 62 then k - 4
  else if k =? 62 then 43 else 47.

Definition b64val (c : Z) : option Z :=
  if (65 <=? c) && (c <=? 90) then Some (c - 65)
  else if (97 <=? c) && (c <=? 122) then Some (c - 71)
  else if (48 <=? c) && (c <=? 57) then Some (c + 4)
  else if c =? 43 then Some 62
  else if c =? 47 then Some 63
  else None.

Fixpoint b64encode (bs : list Z) : list Z :=
  match bs with
  | [] => []
  | [a] => [b64char (a / 4); b64char ((a mod 4) * 16); 61; 61]
  | [a; b] => [b64char (a / 4); b64char ((a mod 4) * 16 + b / 16); b64char ((b mod 16) * 4); 61]
  | a :: b :: c :: rest =>
      b64char (a / 4) :: b64char ((a mod 4) * 16 + b / 16) :: b64char ((b mod 16) * 4 + c / 64)
      :: b64char (c mod 64) :: b64encode rest
  end.

Definition is_nil {A} (l : list A) : bool := match l with [] => true | _ => false end.

(* canonical decoder: groups of four alphabet characters, '=' padding only in the last group.
   (binascii's lenient mode - skipping foreign characters - is not modelled.) *)
Fixpoint b64decode (cs : list Z) : option (list Z) :=
  match cs with
  | [] => Some []
  | c1 :: c2 :: c3 :: c4 :: rest =>
      match b64val c1, b64val c2 with
      | Some v1, Some v2 =>
          if c3 =? 61 then
            if (c4 =? 61) && is_nil rest then Some [v1 * 4 + v2 / 16] else None
          else
            match b64val c3 with
            | None => None
            | Some v3 =>
                if c4 =? 61 then
                  if is_nil rest then Some [v1 * 4 + v2 / 16; (v2 mod 16) * 16 + v3 / 4] else None
                else
                  match b64val c4 with
                  | None => None
                  | Some v4 =>
                      match b64decode rest with
                      | None => None
                      | Some out =>
                          Some (v1 * 4 + v2 / 16 :: (v2 mod 16) * 16 + v3 / 4 :: (v3 mod 4) * 64 + v4 :: out)
                      end
                  end
            end
      | _, _ => None
      end
  | _ => None
  end.

Definition is_byte (b : Z) : Prop := 0 <= b < 256.
Definition bytes_ok (bs : list Z) : Prop := Forall is_byte bs.

(* ------------------------------------------------------------------ primitive values
   PrimitiveEntry.from_object / get_value.  A float is its 8 bytes (struct.pack('d') is the identity on
   the 64-bit pattern), so every bit pattern - NaN payloads, signed zero, subnormals, infinities - is covered. *)
Inductive pkind := PInt | PStr | PBool | PBytes | PFloat.
Inductive pvalue :=
| VInt (z : Z) | VStr (s : pystr) | VBool (b : bool) | VBytes (bs : list Z) | VFloat (bits : list Z).

Definition kind_of (v : pvalue) : pkind :=
  match v with VInt _ => PInt | VStr _ => PStr | VBool _ => PBool | VBytes _ => PBytes | VFloat _ => PFloat end.

Definition serialize (v : pvalue) : pystr :=
  match v with
  | VInt z => str_of_int z
  | VStr s => s
  | VBool b => str_of_bool b
  | VBytes bs => b64encode bs
  | VFloat bits => b64encode bits
  end.

Definition get_value (k : pkind) (sv : pystr) : option pvalue :=
  match k with
  | PInt => option_map VInt (int_of_str sv)
  | PStr => Some (VStr sv)
  | PBool => option_map VBool (bool_of_str sv)
  | PBytes => option_map VBytes (b64decode sv)
  | PFloat => match b64decode sv with
              | Some bits => if (length bits =? 8)%nat then Some (VFloat bits) else None
              | None => None
              end
  end.

Definition pvalue_ok (v : pvalue) : Prop :=
  match v with
  | VBytes bs => bytes_ok bs
  | VFloat bits => bytes_ok bits /\ length bits = 8%nat
  | _ => True
  end.

(* observations for the harness *)
Definition obs_str_of_int (z : Z) : val := vlistZ (str_of_int z).
Definition obs_b64 (bs : list Z) : val := VL [vlistZ (b64encode bs); vopt vlistZ (b64decode (b64encode bs))].
Definition obs_int_of_str (s : pystr) : val := vopt VZ (int_of_str s).
