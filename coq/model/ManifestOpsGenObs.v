(* C07: the functions generated from manifest_ops.py / manifest_utils.py (gen/ManifestOpsGen.v) wired to a metadata
   object and run the way Snapshot uses them - several views computed one after the other from ONE metadata object,
   each followed by handle_sharded_tensor_elasticity - with the observations used by the correspondence harness.
   Executable definitions only. *)
From TS Require Import model.Base model.Flatten model.ManifestOps model.Dispatch model.ManifestPy gen.DispatchGen
  gen.ManifestOpsGen.

(* ------------------------------------------------------------------ running views *)
(* one query = (rank, tensor_requests): get_manifest_for_rank(metadata, rank) and then
   handle_sharded_tensor_elasticity(manifest, merged_sd_entries, tensor_requests) on what it returned.
   What is kept of each step: the view before elasticity and merged_sd_entries (dereferenced at that moment), and the
   view after elasticity; None = the call raised. *)
Definition view_result := (option (list (pystr * pentry) * list (pystr * pentry)) * option (list (pystr * pentry)))%type.

Definition run_query (knob : bool) (md : pmeta) (q : Z * list pystr) (h : heap) : view_result * heap :=
  match g_get_manifest_for_rank md (fst q) h with
  | (None, h1) => ((None, None), h1)
  | (Some (view, merged), h1) =>
      let before := (deref h1 view, deref h1 merged) in
      match g_handle_sharded_tensor_elasticity knob view merged (snd q) h1 with
      | (None, h2) => ((Some before, None), h2)
      | (Some view', h2) => ((Some before, Some (deref h2 view')), h2)
      end
  end.

Fixpoint run_queries (knob : bool) (md : pmeta) (qs : list (Z * list pystr)) (h : heap) : list view_result * heap :=
  match qs with
  | [] => ([], h)
  | q :: r => let '(x, h1) := run_query knob md q h in
              let '(xs, h2) := run_queries knob md r h1 in (x :: xs, h2)
  end.

(* ------------------------------------------------------------------ observations *)
Definition obs_shard_g (s : shard) : val := VL [vlistZ (fst s); VZ (snd s)].

(* [class id; keys; replicated (-1: no such attribute); shards; dim_map; mesh shape; mesh elements; id]
   the id is reported for the classes whose objects the operations never create (leaves) *)
Definition obs_pentry (e : pentry) : val :=
  let c := pe_cls e in
  VL [VZ (eclass_id c);
      VL (map obs_key (pe_keys e));
      VZ (if g_has_attr c AReplicated then (if pe_repl e then 1 else 0) else -1);
      VL (map obs_shard_g (pe_shards e));
      VL (map vlistZ (pe_dim_map e));
      vlistZ (fst (pe_mesh e)); vlistZ (snd (pe_mesh e));
      VZ (if g_has_attr c AReplicated then pe_id e else 0)].

Definition obs_items (l : list (pystr * pentry)) : val :=
  VL (map (fun ke => VL [vlistZ (fst ke); obs_pentry (snd ke)]) l).

(* per query: [0] = get_manifest_for_rank raised; [1; view; merged] = handle_sharded_tensor_elasticity raised (the view as
   get_manifest_for_rank returned it); [2; view after elasticity; merged] *)
Definition obs_view_result (r : view_result) : val :=
  match r with
  | (None, _) => VL [VZ 0]
  | (Some b, None) => VL [VZ 1; obs_items (fst b); obs_items (snd b)]
  | (Some b, Some v) => VL [VZ 2; obs_items v; obs_items (snd b)]
  end.

(* (world_size, metadata.manifest items, queries, root-only knob)  ->  per query its results, then the metadata
   object's manifest as it is AFTER all the queries *)
Definition obs_views_gen (x : Z * list (pystr * pentry) * list (Z * list pystr) * bool) : val :=
  let '(W, items, qs, knob) := x in
  let '(md, h0) := load_meta W items in
  let '(rs, h) := run_queries knob md qs h0 in
  VL [VL (map obs_view_result rs); obs_items (meta_items md h)].

(* _remove_entry(manifest, logical_path) on a manifest of distinct objects: None = raised *)
Definition obs_remove_entry_gen (x : list (pystr * pentry) * pystr) : val :=
  let '(md, h0) := load_meta 0 (fst x) in
  match g_remove_entry (pm_manifest md) (snd x) h0 with
  | (None, _) => VL []
  | (Some m, h) => VL [obs_items (deref h m)]
  end.

(* the predicates of manifest_utils on one entry: None = raised *)
Definition obs_pred (c : addr -> M bool) (e : pentry) : val :=
  match c O [e] with (Some b, _) => VL [vbool b] | (None, _) => VL [] end.
Definition obs_predicates_gen (e : pentry) : val :=
  VL [obs_pred g_is_dict_entry e; obs_pred g_is_container_entry e; obs_pred g_is_fully_replicated_entry e;
      obs_pred g_is_partially_replicated_entry e; obs_pred g_is_replicated_entry e; obs_pred g_is_sharded_entry e].

(* hand-modelled: _get_replicated_ranks (rank sets compared as sorted lists),
   _ReplicatedShards.get_all_replicated_ranks *)
Fixpoint insertZ (x : Z) (l : list Z) : list Z :=
  match l with [] => [x] | y :: r => if x <=? y then x :: l else y :: insertZ x r end.
Definition sortZ (l : list Z) : list Z := fold_right insertZ [] l.
Definition obs_replicated_ranks (x : mesh * list (list Z) * list Z) : val :=
  let '(m, dm, ranks) := x in
  let rs := np_replicated_ranks m dm in
  VL [VL (map (fun s => vlistZ (sortZ s)) rs); VL (map (fun r => vlistZ (sortZ (rs_lookup rs r))) ranks)].
