(* C04: reading a committed snapshot whose payload objects may be damaged (deleted / truncated).
   Executable definitions only.

   Anchors in /repo/torchsnapshot:
     storage_plugins/fs.py      FSStoragePlugin.read        -> rd_fs_read        (short file => short buffer; missing => error)
     serialization.py           tensor_from_memoryview      -> rd_frombuffer     (empty-buffer branch; frombuffer; reshape)
                                torch_load_from_bytes       -> load (Section variable)
     io_preparers/tensor.py     TensorBufferConsumer        -> rd_consume (RdTensor / RdLoad for torch_save tensors)
                                prepare_read / _tiled       -> rd_tensor_leaves  (tiles: model/Chunk.v [tile])
     io_preparers/sharded_tensor.py  ShardedTensorBufferConsumer: the same deserialize_tensor check on the saved shard
     io_preparers/chunked_tensor.py  prepare_read           -> rd_entry_leaves (one tensor read per chunk)
     io_preparers/object.py     ObjectBufferConsumer        -> rd_consume RdLoad
     batcher.py                 batch_read_requests         -> model/Batch.v [batch_read]
                                BatchedBufferConsumer       -> rd_run_req (current: errors propagate; legacy: swallowed)
     scheduler.py               execute_read_reqs           -> rd_run: every request is read and consumed exactly once and the
                                                               first failure is raised (C11_read_exactly_once,
                                                               C11_read_failure_raises); the order is irrelevant for the verdict
     snapshot.py                restore                     -> rd_restore on the leaves of ALL entries of the rank's manifest
                                                               (_load_stateful does not filter the manifest by key), no tiling
                                read_object                 -> rd_restore on the leaves of one entry, tiled by memory_budget_bytes

   Paths and consumers are integers as in model/Batch.v; a consumer id is the index of its leaf in the plan. *)
From TS Require Import model.Base model.FsStream model.Chunk model.Batch.

(* ------------------------------------------------------------------ storage and damage *)
(* a storage object is a byte list; an object that is not in the store is Missing (Batch.lookup = None) *)
Definition rd_store := list (Z * bytes).

Inductive rd_damage :=
| RdDeleted
| RdTruncated (t : Z).        (* the object keeps its first t bytes; the property quantifies over 0 <= t < size *)

Definition rd_damage_obj (d : rd_damage) (ob : bytes) : option bytes :=
  match d with
  | RdDeleted => None
  | RdTruncated t => Some (firstn (Z.to_nat t) ob)
  end.

(* damage object f of the store *)
Fixpoint rd_apply (d : rd_damage) (f : Z) (s : rd_store) : rd_store :=
  match s with
  | [] => []
  | (p, ob) :: r =>
      if p =? f then
        match rd_damage_obj d ob with
        | None => rd_apply d f r
        | Some ob' => (p, ob') :: rd_apply d f r
        end
      else (p, ob) :: rd_apply d f r
  end.

(* FSStoragePlugin.read: open() raises for a missing file; seek(a); read(b - a) on a short file returns what is there
   (model/FsStream.v file_read_range, C20_ranged_read_exact for the in-range case) *)
Definition rd_fs_read (s : rd_store) (p : Z) (rg : option (Z * Z)) : option bytes :=
  match lookup s p with
  | None => None
  | Some ob => Some (match rg with None => ob | Some (a, b) => file_read_range ob a b end)
  end.

(* ------------------------------------------------------------------ consumers *)
(* tensor_from_memoryview(mv, dtype, shape):
     if len(mv) == 0: return torch.reshape(torch.empty(0, dtype=dtype), shape)     -- raises unless prod(shape) = 0
     return torch.reshape(torch.frombuffer(mv, dtype=dtype), shape)
   torch.frombuffer raises unless len(mv) is a multiple of the element size; reshape raises unless the element count
   is prod(shape).  The deserialized tensor is identified with its bytes (C17: the byte image is the content). *)
Definition rd_frombuffer (esize : Z) (shape : list Z) (buf : bytes) : option bytes :=
  if blen buf =? 0 then
    (if prodZ shape =? 0 then Some [] else None)
  else if blen buf mod esize =? 0 then
    (if blen buf / esize =? prodZ shape then Some buf else None)
  else None.

Inductive rd_kind :=
| RdTensor (esize : Z) (shape : list Z)     (* buffer-protocol TensorBufferConsumer / ShardedTensorBufferConsumer *)
| RdLoad.                                   (* torch.load: ObjectBufferConsumer and torch_save-serialized tensors *)

(* one ReadReq as the io preparers emit it, before batching *)
Record rd_leaf := mkLeaf { lf_path : Z; lf_range : option (Z * Z); lf_kind : rd_kind }.

(* the read requests handed to the pipeline *)
Inductive rd_req :=
| RdSingle (p : Z) (rg : option (Z * Z)) (c : Z)               (* a ReadReq with the entry's own consumer *)
| RdBatched (p lo hi : Z) (subs : list ((Z * Z) * Z)).         (* a merged ReadReq with a BatchedBufferConsumer *)

Definition rd_of_rplan (pl : rplan) : rd_req :=
  match pl with
  | RWhole p c => RdSingle p None c
  | RMerged p lo hi _ subs => RdBatched p lo hi subs
  end.

Definition rd_req_path (r : rd_req) : Z :=
  match r with RdSingle p _ _ => p | RdBatched p _ _ _ => p end.

(* consumer id = index of the leaf *)
Definition rd_reqs_of (ls : list rd_leaf) : list rreq :=
  map (fun il : Z * rd_leaf => (lf_path (snd il), lf_range (snd il), fst il)) (index_from 0 ls).

Definition rd_plan (batching : bool) (ls : list rd_leaf) : list rd_req :=
  if batching then map rd_of_rplan (batch_read (rd_reqs_of ls))
  else map (fun r : rreq => RdSingle (fst (fst r)) (snd (fst r)) (snd r)) (rd_reqs_of ls).

Fixpoint rd_all_ok {A} (l : list (option A)) : option (list A) :=
  match l with
  | [] => Some []
  | None :: _ => None
  | Some x :: r => match rd_all_ok r with None => None | Some xs => Some (x :: xs) end
  end.

Definition rd_keep_ok {A} (l : list (option A)) : list A :=
  flat_map (fun o : option A => match o with Some x => [x] | None => [] end) l.

(* buffers handed to the (sub-)consumers of one request; None = the storage read raised.
   BatchedBufferConsumer.consume_buffer: buf[lo:hi] per sub-consumer - Python slicing of a possibly short buffer *)
Definition rd_req_deliveries (s : rd_store) (r : rd_req) : option (list (Z * bytes)) :=
  match r with
  | RdSingle p rg c =>
      match rd_fs_read s p rg with None => None | Some buf => Some [(c, buf)] end
  | RdBatched p lo hi subs =>
      match rd_fs_read s p (Some (lo, hi)) with
      | None => None
      | Some buf => Some (map (fun sb : (Z * Z) * Z => (snd sb, pyslice buf (fst (fst sb)) (snd (fst sb)))) subs)
      end
  end.

Section ReadDamageRun.
  (* torch.load, external: archive bytes -> object, None = it raises *)
  Variable obj : Type.
  Variable load : bytes -> option obj.

  Inductive rd_value :=
  | RdBytes (b : bytes)        (* the bytes copied into the target tensor / region *)
  | RdObj (o : obj).           (* the object placed in the Future *)

  Definition rd_consume (k : rd_kind) (buf : bytes) : option rd_value :=
    match k with
    | RdTensor esize shape => match rd_frombuffer esize shape buf with None => None | Some b => Some (RdBytes b) end
    | RdLoad => match load buf with None => None | Some o => Some (RdObj o) end
    end.

  Definition rd_kind_of (ls : list rd_leaf) (c : Z) : option rd_kind :=
    if c <? 0 then None
    else match nth_error ls (Z.to_nat c) with None => None | Some l => Some (lf_kind l) end.

  Definition rd_consume_one (ls : list rd_leaf) (d : Z * bytes) : option (Z * rd_value) :=
    match rd_kind_of ls (fst d) with
    | None => None
    | Some k => match rd_consume k (snd d) with None => None | Some v => Some (fst d, v) end
    end.

  (* one request through read + consume.  legacy = BatchedBufferConsumer before the fix: `await asyncio.wait(tasks)`
     without retrieving the results - a failing sub-consumer leaves its target untouched and nothing is raised *)
  Definition rd_run_req (legacy : bool) (ls : list rd_leaf) (s : rd_store) (r : rd_req) : option (list (Z * rd_value)) :=
    match rd_req_deliveries s r with
    | None => None
    | Some dl =>
        match r with
        | RdSingle _ _ _ => rd_all_ok (map (rd_consume_one ls) dl)
        | RdBatched _ _ _ _ =>
            if legacy then Some (rd_keep_ok (map (rd_consume_one ls) dl))
            else rd_all_ok (map (rd_consume_one ls) dl)
        end
    end.

  (* execute_read_reqs: all requests, first failure raised.  Result: what every consumer stored, or None = raised *)
  Definition rd_run (legacy : bool) (ls : list rd_leaf) (s : rd_store) (plan : list rd_req)
    : option (list (Z * rd_value)) :=
    match rd_all_ok (map (rd_run_req legacy ls s) plan) with
    | None => None
    | Some outs => Some (concat outs)
    end.

  Definition rd_restore (legacy batching : bool) (ls : list rd_leaf) (s : rd_store) : option (list (Z * rd_value)) :=
    rd_run legacy ls s (rd_plan batching ls).

  (* what leaf l should deliver from the undamaged store *)
  Definition rd_expected (s : rd_store) (l : rd_leaf) : option rd_value :=
    match lookup s (lf_path l) with
    | None => None
    | Some ob =>
        match lf_kind l with
        | RdTensor _ _ => Some (RdBytes (read_obj ob (lf_range l)))
        | RdLoad => match load ob with None => None | Some o => Some (RdObj o) end
        end
    end.

  (* targets are pre-filled; a consumer that never stores anything leaves its target as it was *)
  Inductive rd_final := RdStored (v : rd_value) | RdUntouched.
  Fixpoint rd_final_of (out : list (Z * rd_value)) (c : Z) : rd_final :=
    match out with
    | [] => RdUntouched
    | (c', v) :: r => if c' =? c then RdStored v else rd_final_of r c
    end.
End ReadDamageRun.

Arguments RdBytes {obj} b.
Arguments RdObj {obj} o.
Arguments RdStored {obj} v.
Arguments RdUntouched {obj}.

(* ------------------------------------------------------------------ entries -> leaves (prepare_read) *)
(* a TensorEntry together with the one fact about its target the planner looks at *)
Record rd_tentry := mkTentry {
  te_loc : Z;
  te_range : option (Z * Z);      (* byte_range (set by batch_write_requests for slab members) *)
  te_bufproto : bool;             (* serializer == buffer_protocol; false: torch_save *)
  te_esize : Z;
  te_shape : list Z;
  te_flat : bool                  (* tensor_out.view(-1) succeeds (prepare_read_tiled) *)
}.

Inductive rd_entry :=
| RdETensor (t : rd_tentry)
| RdEChunked (chunks : list rd_tentry)       (* ChunkedTensorEntry: one tensor read per chunk, tiled like a tensor *)
| RdESharded (shards : list rd_tentry)       (* ShardedTensorEntry: the saved shards that overlap the target; never tiled *)
| RdEObject (loc : Z)
| RdEPrimitive.                              (* inline in the metadata: no read request *)

(* TensorIOPreparer.prepare_read(entry, tensor_out, buffer_size_limit_bytes) *)
Definition rd_tensor_leaves (limit : option Z) (t : rd_tentry) : option (list rd_leaf) :=
  if te_bufproto t then
    match limit with
    | None => Some [mkLeaf (te_loc t) (te_range t) (RdTensor (te_esize t) (te_shape t))]
    | Some lim =>
        let base := match te_range t with None => 0 | Some (lo, _) => lo end in
        match tile (te_shape t) (te_flat t) (te_esize t) lim base with
        | None => None
        | Some tiles =>
            Some (map (fun tl : tile_t =>
                         let '(lo, hi, sh) := tl in mkLeaf (te_loc t) (Some (lo, hi)) (RdTensor (te_esize t) sh)) tiles)
        end
    end
  else Some [mkLeaf (te_loc t) (te_range t) RdLoad].

Definition rd_concat_opt {A} (l : list (option (list A))) : option (list A) :=
  match rd_all_ok l with None => None | Some xs => Some (concat xs) end.

(* the tensor reads an entry is made of, each with the buffer limit that applies to it:
   ChunkedTensorIOPreparer.prepare_read passes buffer_size_limit_bytes on to every chunk; ShardedTensorIOPreparer never
   tiles; an ObjectEntry is one whole-object torch.load read (like a torch_save tensor) *)
Definition rd_entry_parts (limit : option Z) (e : rd_entry) : list (option Z * rd_tentry) :=
  match e with
  | RdETensor t => [(limit, t)]
  | RdEChunked cs => map (pair limit) cs
  | RdESharded ss => map (pair None) ss
  | RdEObject loc => [(None, mkTentry loc None false 1 [] true)]
  | RdEPrimitive => []
  end.

Definition rd_parts (limit : option Z) (es : list rd_entry) : list (option Z * rd_tentry) :=
  flat_map (rd_entry_parts limit) es.

Definition rd_entry_leaves (limit : option Z) (e : rd_entry) : option (list rd_leaf) :=
  rd_concat_opt (map (fun lt : option Z * rd_tentry => rd_tensor_leaves (fst lt) (snd lt)) (rd_entry_parts limit e)).

(* restore: every entry of the rank's manifest, limit = None;  read_object: one entry, limit = memory_budget_bytes *)
Definition rd_read_plan (limit : option Z) (es : list rd_entry) : option (list rd_leaf) :=
  rd_concat_opt (map (fun lt : option Z * rd_tentry => rd_tensor_leaves (fst lt) (snd lt)) (rd_parts limit es)).

(* ------------------------------------------------------------------ a concrete loader (non-vacuity, correspondence) *)
(* a self-delimiting toy archive: one length byte followed by that many payload bytes.  It satisfies the law assumed of
   torch.load/torch.save (accepts the full archive, rejects every strict prefix); the harness maps a real archive of
   n >= 1 bytes to a toy archive of n bytes - only lengths matter for the verdict *)
Definition rd_toy_save (payload : bytes) : bytes := blen payload :: payload.
Definition rd_toy_load (buf : bytes) : option bytes :=
  match buf with
  | [] => None
  | n :: rest => if blen rest =? n then Some rest else None
  end.

(* ------------------------------------------------------------------ observations *)
Definition obs_rd_frombuffer (x : Z * list Z * Z) : val :=
  let '(esize, shape, n) := x in
  match rd_frombuffer esize shape (repeat 0 (Z.to_nat n)) with None => VZ 0 | Some _ => VZ 1 end.

(* a file: (path, size, is_archive) *)
Definition rd_mkfile (f : Z * Z * bool) : Z * bytes :=
  let '(p, n, arch) := f in
  (p, if arch then rd_toy_save (repeat 0 (Z.to_nat (n - 1))) else repeat 7 (Z.to_nat n)).

Definition rd_verdict {A} (o : option A) : Z := match o with None => 0 | Some _ => 1 end.

(* (files, leaves, damaged path, damage, batching, legacy, watch): [0] = raises; [1; w] = returns normally, w = the
   watched consumers (those with something to store) whose target was left untouched ([] with the current code) *)
Definition obs_rd_restore (x : list (Z * Z * bool) * list rd_leaf * Z * rd_damage * bool * bool * list Z) : val :=
  let '(files, ls, f, d, batching, legacy, watch) := x in
  let s := rd_apply d f (map rd_mkfile files) in
  match rd_restore bytes rd_toy_load legacy batching ls s with
  | None => VL [VZ 0]
  | Some out =>
      VL [VZ 1; vlistZ (filter (fun c => match rd_final_of bytes out c with RdUntouched => true | _ => false end) watch)]
  end.

(* entries -> leaves: (limit, entries) *)
Definition obs_rd_leaf (l : rd_leaf) : val :=
  VL [VZ (lf_path l);
      match lf_range l with None => VL [] | Some (a, b) => VL [VZ a; VZ b] end;
      match lf_kind l with RdTensor e sh => VL [VZ e; vlistZ sh] | RdLoad => VL [] end].
Definition obs_rd_read_plan (x : option Z * list rd_entry) : val :=
  vopt (fun ls => VL (map obs_rd_leaf ls)) (rd_read_plan (fst x) (snd x)).

(* one API call end to end: (files, limit, entries, damaged path, damage, batching):
   2 = the planner itself fails (outside the model), 0 = the call raises, 1 = it returns normally *)
Definition obs_rd_call (x : list (Z * Z * bool) * option Z * list rd_entry * Z * rd_damage * bool) : val :=
  let '(files, limit, es, f, d, batching) := x in
  match rd_read_plan limit es with
  | None => VZ 2
  | Some ls => VZ (rd_verdict (rd_restore bytes rd_toy_load false batching ls (rd_apply d f (map rd_mkfile files))))
  end.
