(* C08: resharding of sharded tensors (io_preparers/sharded_tensor.py, manifest.py, manifest_ops.py).
   Executable definitions only.

   A box is (offsets, sizes) with any number of dimensions.  A tensor is a total function from local
   coordinates to elements (element type arbitrary: the theorems hold for every dtype at once; the harness
   instantiates it with Z = element ids).  [rs_of_list]/[rs_to_list] convert from/to the row-major element
   list over a box, so that the model runs on small cases inside coqc. *)
From TS Require Import model.Base.

Definition coord := list Z.

Record box := mkBox { boff : list Z; bsz : list Z }.

(* ------------------------------------------------------------------ vectors *)
Fixpoint vadd (a b : list Z) : list Z :=
  match a, b with
  | x :: a', y :: b' => (x + y) :: vadd a' b'
  | _, _ => []
  end.

Fixpoint vsub (a b : list Z) : list Z :=
  match a, b with
  | x :: a', y :: b' => (x - y) :: vsub a' b'
  | _, _ => []
  end.

Definition zeros (l : list Z) : list Z := map (fun _ => 0) l.

Fixpoint upd (l : list Z) (k : nat) (v : Z) : list Z :=
  match l, k with
  | [], _ => []
  | _ :: l', O => v :: l'
  | x :: l', S k' => x :: upd l' k' v
  end.

(* ------------------------------------------------------------------ membership *)
(* x lies in the box with corner [off] and extents [sz] (all three lists of the same length) *)
Fixpoint in_range (off sz x : list Z) : bool :=
  match off, sz, x with
  | [], [], [] => true
  | o :: off', s :: sz', v :: x' => (o <=? v) && (v <? o + s) && in_range off' sz' x'
  | _, _, _ => false
  end.

(* a GLOBAL coordinate lies in the box *)
Definition in_box (b : box) (g : coord) : bool := in_range (boff b) (bsz b) g.
(* a LOCAL coordinate (relative to the box corner) is a valid index of a tensor of shape [bsz b] *)
Definition in_local (b : box) (c : coord) : bool := in_range (zeros (bsz b)) (bsz b) c.

(* ------------------------------------------------------------------ torch's overlap test *)
(* torch.distributed._shard.sharding_spec._internals._check_shard_metadata_pair_overlap:
     for i in range(len(shard1.shard_offsets)):
         if shard1.off[i] >= shard2.off[i] + shard2.size[i]: return False
         if shard2.off[i] >= shard1.off[i] + shard1.size[i]: return False
     return True
   (external: validated against the real function on every run).  Lists shorter than shard1's offsets
   raise IndexError in Python: modelled as [false], excluded by well-formedness in every theorem. *)
Fixpoint overlaps_l (o1 s1 o2 s2 : list Z) : bool :=
  match o1 with
  | [] => true
  | a :: o1' =>
      match s1, o2, s2 with
      | x :: s1', b :: o2', y :: s2' =>
          negb (b + y <=? a) && negb (a + x <=? b) && overlaps_l o1' s1' o2' s2'
      | _, _, _ => false
      end
  end.

Definition overlaps (b1 b2 : box) : bool := overlaps_l (boff b1) (bsz b1) (boff b2) (bsz b2).

(* ------------------------------------------------------------------ the overlap region, as coded *)
(* ShardedTensorIOPreparer._shards_get_overlap_region_wrt_saved_tensor: per dim
   (offset in the saved shard, offset in the current shard, length); zip stops at the shortest list. *)
Definition region := list (Z * Z * Z).

Definition region_dim (so ss co cs : Z) : Z * Z * Z :=
  let min_range_end := Z.min (so + ss) (co + cs) in
  let length := min_range_end - Z.max co so in
  if so >? co then (0, so - co, length) else (co - so, 0, length).

Fixpoint overlap_region_l (so ss co cs : list Z) : region :=
  match so, co, ss, cs with
  | a :: so', b :: co', x :: ss', y :: cs' => region_dim a x b y :: overlap_region_l so' ss' co' cs'
  | _, _, _, _ => []
  end.

Definition overlap_region (saved cur : box) : region :=
  overlap_region_l (boff saved) (bsz saved) (boff cur) (bsz cur).

Definition r_src (r : region) : list Z := map (fun t => fst (fst t)) r.
Definition r_dst (r : region) : list Z := map (fun t => snd (fst t)) r.
Definition r_len (r : region) : list Z := map snd r.

(* ------------------------------------------------------------------ coordinates of a shape, row-major *)
Definition upto (n : Z) : list Z := map Z.of_nat (seq 0 (Z.to_nat n)).

Fixpoint coords (lens : list Z) : list coord :=
  match lens with
  | [] => [[]]
  | l :: lens' => flat_map (fun i => map (cons i) (coords lens')) (upto l)
  end.

(* ------------------------------------------------------------------ tensors *)
Definition tensor (E : Type) := coord -> E.

Definition coord_eqb (a b : coord) : bool := list_eqb Z.eqb a b.

Definition tget {E} (t : tensor E) (c : coord) : E := t c.
Definition tset {E} (t : tensor E) (c : coord) (v : E) : tensor E :=
  fun c' => if coord_eqb c c' then v else t c'.

(* dense tensor of shape [sz] from its row-major element list (missing positions read [dflt]) *)
Fixpoint rs_assoc {E} (l : list (coord * E)) (dflt : E) (c : coord) : E :=
  match l with
  | [] => dflt
  | (k, v) :: l' => if coord_eqb k c then v else rs_assoc l' dflt c
  end.
Definition rs_of_list {E} (sz : list Z) (data : list E) (dflt : E) : tensor E :=
  rs_assoc (combine (coords sz) data) dflt.
Definition rs_to_list {E} (sz : list Z) (t : tensor E) : list E := map t (coords sz).

(* torch.narrow(t, dim, start, _): local coordinate c of the view is coordinate c + start*e_dim of t *)
Definition narrow {E} (t : tensor E) (dim : nat) (start : Z) : tensor E :=
  fun c => t (upd c dim (nth dim c 0 + start)).

(* _OverlappingRegion.get_views + tensor_copy (dst_view.copy_(src_view)): narrowing both tensors by the region
   and copying writes  dst[dst_off + c] := src[src_off + c]  for every c in the length box *)
Definition copy_region {E} (r : region) (src dst : tensor E) : tensor E :=
  fold_left (fun t c => tset t (vadd (r_dst r) c) (src (vadd (r_src r) c))) (coords (r_len r)) dst.

(* ------------------------------------------------------------------ shards *)
(* a saved shard: Shard(offsets, sizes, tensor=TensorEntry(location, byte_range)) and the tensor its payload
   deserialises to.  [s_loc] is the id of the location string (the harness numbers the locations of one entry by
   first occurrence), [s_br] the byte range: [] for None, [lo; hi] otherwise.  [s_key] = [loc; lo; hi] ([loc] when
   there is no byte range) is the canonical form of the pair (location, byte_range): two saved shards denote the
   same stored bytes iff their s_key agree. *)
Record sshard (E : Type) := mkS { s_box : box; s_loc : Z; s_br : list Z; s_data : tensor E }.
(* a destination (local) shard of obj_out; a dense tensor is one box at the origin *)
Record dshard (E : Type) := mkD { d_box : box; d_data : tensor E }.
Arguments mkS {E}. Arguments s_box {E}. Arguments s_loc {E}. Arguments s_br {E}. Arguments s_data {E}.
Arguments mkD {E}. Arguments d_box {E}. Arguments d_data {E}.

Definition s_key {E} (s : sshard E) : list Z := s_loc s :: s_br s.

(* a dictionary key computed from a saved shard's (location, byte_range_tuple), encoded as a list of integers;
   [key_pair] is the encoding of the Python tuple (location, byte_range_tuple) *)
Definition keyfn := Z -> list Z -> list Z.
Definition key_pair : keyfn := fun location byte_range_tuple => location :: byte_range_tuple.

Definition dense_box (shape : list Z) : box := mkBox (zeros shape) shape.

(* one (saved shard, destination shard) pair of prepare_read/consume_buffer *)
Definition load_step {E} (db : box) (t : tensor E) (s : sshard E) : tensor E :=
  if overlaps db (s_box s) then copy_region (overlap_region (s_box s) db) (s_data s) t else t.

(* everything the read requests do to ONE destination shard, saved shards in entry order *)
Definition load_dst {E} (shards : list (sshard E)) (d : dshard E) : tensor E :=
  fold_left (load_step (d_box d)) shards (d_data d).

Definition load {E} (shards : list (sshard E)) (dsts : list (dshard E)) : list (tensor E) :=
  map (load_dst shards) dsts.

(* ------------------------------------------------------------------ the read plan, as coded *)
Fixpoint indexed_from {A} (i : Z) (l : list A) : list (Z * A) :=
  match l with
  | [] => []
  | x :: l' => (i, x) :: indexed_from (i + 1) l'
  end.
Definition indexed {A} (l : list A) := indexed_from 0 l.

Definition key_eqb (a b : list Z) : bool := list_eqb Z.eqb a b.

(* path_byte_range_to_overlapping_regions, flattened in insertion order:
   for local_shard, shard in itertools.product(local_shards, entry.shards): if overlap: dict[kins shard].append(..)
   [kins] is the key expression of the insertion site (a function of the shard's location and byte range) *)
Definition regions_keyed {E} (kins : keyfn) (shards : list (sshard E)) (dboxes : list box)
  : list (list Z * (Z * region)) :=
  flat_map (fun id =>
    flat_map (fun s =>
      if overlaps (snd id) (s_box s)
      then [(kins (s_loc s) (s_br s), (fst id, overlap_region (s_box s) (snd id)))] else [])
      shards)
    (indexed dboxes).

Definition regions_for {R} (key : list Z) (rs : list (list Z * R)) : list R :=
  map snd (filter (fun kr => key_eqb (fst kr) key) rs).
(* key in dict *)
Definition key_mem {R} (key : list Z) (rs : list (list Z * R)) : bool :=
  existsb (fun kr => key_eqb (fst kr) key) rs.

(* read_reqs: for shard in entry.shards: if kmem shard not in dict: continue; ReadReq(consumer(dict[kget shard], shard.tensor)).
   [kmem]/[kget] are the key expressions of the membership test and of the lookup.  A request = (index of the saved
   shard in the entry, the saved shard its consumer deserialises, its regions).  (A defaultdict holds a key iff
   something was appended under it.) *)
Definition read_reqs_full {E} (kins kmem kget : keyfn) (shards : list (sshard E)) (dboxes : list box)
  : list (Z * sshard E * list (Z * region)) :=
  let rs := regions_keyed kins shards dboxes in
  flat_map (fun js =>
    match regions_for (kmem (s_loc (snd js)) (s_br (snd js))) rs with
    | [] => []
    | _ => [(fst js, snd js, regions_for (kget (s_loc (snd js)) (s_br (snd js))) rs)]
    end) (indexed shards).

Definition read_reqs {E} (kins kmem kget : keyfn) (shards : list (sshard E)) (dboxes : list box)
  : list (Z * list (Z * region)) :=
  map (fun q => (fst (fst q), snd q)) (read_reqs_full kins kmem kget shards dboxes).

(* indices (in entry order) of the saved shards that are read *)
Definition read_plan {E} (kins kmem kget : keyfn) (shards : list (sshard E)) (dboxes : list box) : list Z :=
  map fst (read_reqs kins kmem kget shards dboxes).

(* the regions a saved shard has with the destination shards, in destination order *)
Definition own_regions (sb : box) (dboxes : list box) : list (Z * region) :=
  flat_map (fun id => if overlaps (snd id) sb then [(fst id, overlap_region sb (snd id))] else [])
           (indexed dboxes).

(* the execution as the code performs it: one consumer per read request, each applying its region list to the
   destination tensors it refers to (by position) *)
Fixpoint upd_nth {A} (l : list A) (k : nat) (f : A -> A) : list A :=
  match l, k with
  | [], _ => []
  | x :: l', O => f x :: l'
  | x :: l', S k' => x :: upd_nth l' k' f
  end.

Definition consume {E} (src : tensor E) (rs : list (Z * region)) (ts : list (tensor E)) : list (tensor E) :=
  fold_left (fun ts ir => upd_nth ts (Z.to_nat (fst ir)) (copy_region (snd ir) src)) rs ts.

Definition load_grouped {E} (kins kmem kget : keyfn) (shards : list (sshard E)) (dsts : list (dshard E))
  : list (tensor E) :=
  fold_left (fun ts q => consume (s_data (snd (fst q))) (snd q) ts)
            (read_reqs_full kins kmem kget shards (map d_box dsts)) (map d_data dsts).

(* ------------------------------------------------------------------ vocabulary of the generated terms *)
(* gen/ReshardGen.v (written by translator/gen_reshard.py from the source on every run) is phrased with the
   definitions of this file plus the following. *)

(* zip(a, b, c, d): stops at the shortest list *)
Fixpoint zip4 (a b c d : list Z) : list (Z * Z * Z * Z) :=
  match a, b, c, d with
  | x :: a', y :: b', z :: c', w :: d' => (x, y, z, w) :: zip4 a' b' c' d'
  | _, _, _, _ => []
  end.

(* the overlap region as the code builds it: (dim, saved offset, current offset, length) per dimension *)
Definition region4 := list (Z * Z * Z * Z).
Definition drop_dims (r : region4) : region := map (fun t => (snd (fst (fst t)), snd (fst t), snd t)) r.
Definition dims_of (r : region4) : list Z := map (fun t => fst (fst (fst t))) r.

(* a region with its dimension numbers 0, 1, 2, ... attached *)
Definition with_dims (r : region) : region4 :=
  map (fun ir => (fst ir, fst (fst (snd ir)), snd (fst (snd ir)), snd (snd ir))) (indexed r).

(* A view of a tensor = (offset vector into the base tensor, shape).  torch.narrow(view, dim, start, length)
   moves the offset of [dim] by [start] and sets its extent to [length] (runtime behaviour, modelled). *)
Definition view := (list Z * list Z)%type.
Definition full_view (shape : list Z) : view := (zeros shape, shape).
Definition vnarrow (v : view) (dim start length : Z) : view :=
  let k := Z.to_nat dim in (upd (fst v) k (nth k (fst v) 0 + start), upd (snd v) k length).

(* tensor_copy(dst_view, src_view) = dst_view.copy_(src_view): every element of the destination view is assigned
   the element of the source view at the same view coordinate *)
Definition copy_views {E} (src_view dst_view : view) (src dst : tensor E) : tensor E :=
  fold_left (fun t c => tset t (vadd (fst dst_view) c) (src (vadd (fst src_view) c))) (coords (snd dst_view)) dst.

(* A ReadReq as prepare_read builds it: (path, byte_range, (index of the saved shard whose TensorEntry the consumer
   holds, that shard, the consumer's regions: index of the destination tensor + region)) *)
Definition greq (E : Type) := (Z * list Z * (Z * sshard E * list (Z * region4)))%type.

(* the storage as the read pipeline sees it: the payload stored under (path, byte_range) is that of the saved
   shard with that location and byte range *)
Definition fetch {E} (shards : list (sshard E)) (path : Z) (byte_range : list Z) : option (sshard E) :=
  find (fun s => key_eqb (s_key s) (path :: byte_range)) shards.

(* ------------------------------------------------------------------ global shape, both implementations *)
Definition corner (b : box) : list Z := vadd (boff b) (bsz b).

Fixpoint vmax_gt (acc c : list Z) : list Z :=   (* if c[dim] > acc[dim]: acc[dim] = c[dim] *)
  match acc, c with
  | a :: acc', x :: c' => (if x >? a then x else a) :: vmax_gt acc' c'
  | _, _ => acc
  end.

(* ShardedTensorIOPreparer._get_global_shape; None = IndexError on an empty entry *)
Definition global_shape (bs : list box) : option (list Z) :=
  match bs with
  | [] => None
  | b0 :: _ => Some (fold_left (fun acc b => vmax_gt acc (corner b)) bs (zeros (bsz b0)))
  end.

Fixpoint all_ge (a b : list Z) : bool :=   (* all(x >= y for x, y in zip(a, b)) *)
  match a, b with
  | x :: a', y :: b' => (y <=? x) && all_ge a' b'
  | _, _ => true
  end.

(* ShardedTensorEntry.get_tensor_shape; None = the assertion on an empty entry *)
Definition tensor_shape (bs : list box) : option (list Z) :=
  match bs with
  | [] => None
  | b0 :: rest =>
      Some (fold_left (fun shape b => if all_ge (corner b) shape then corner b else shape) rest (corner b0))
  end.

(* ------------------------------------------------------------------ subdivide_shard *)
(* pieces of length [cl] (the last one shorter) along [dim] *)
Definition subdivide_with (cl : Z) (b : box) (dim : nat) : list (Z * box) :=
  let sd := nth dim (bsz b) 0 in
  map (fun i =>
         let start := i * cl in
         let length := Z.min ((i + 1) * cl) sd - i * cl in
         (start, mkBox (upd (boff b) dim (nth dim (boff b) 0 + start)) (upd (bsz b) dim length)))
      (upto (cdiv sd cl)).

(* slice_sz = prod(sizes) // sizes[dim] * element_size; chunk_length = max(floor(max_bytes / slice_sz), 1) *)
Definition chunk_length (b : box) (dim : nat) (esize maxb : Z) : Z :=
  let slice_sz := prodZ (bsz b) / nth dim (bsz b) 0 * esize in
  Z.max (maxb / slice_sz) 1.

Definition subdivide (b : box) (dim : nat) (esize maxb : Z) : list (Z * box) :=
  subdivide_with (chunk_length b dim esize maxb) b dim.

(* prepare_write: every local shard subdivided along [dim]; each piece is a narrowed view of the shard *)
Definition write_shards {E} (dim : nat) (esize maxb : Z) (locals : list (dshard E)) : list (dshard E) :=
  flat_map (fun d =>
    map (fun p => mkD (snd p) (narrow (d_data d) dim (fst p))) (subdivide (d_box d) dim esize maxb))
    locals.

(* _get_merged_sharded_tensor_entries sorts the shards of all ranks by offsets (lexicographic list order);
   insertion sort = Python's stable sort on the observable result *)
Fixpoint lex_leb (a b : list Z) : bool :=
  match a, b with
  | [], _ => true
  | _ :: _, [] => false
  | x :: a', y :: b' => if x <? y then true else if y <? x then false else lex_leb a' b'
  end.

Fixpoint insert_shard {E} (s : sshard E) (l : list (sshard E)) : list (sshard E) :=
  match l with
  | [] => [s]
  | t :: l' => if lex_leb (boff (s_box s)) (boff (s_box t)) then s :: l else t :: insert_shard s l'
  end.

Definition merge_shards {E} (ranks : list (list (sshard E))) : list (sshard E) :=
  fold_right insert_shard [] (concat ranks).

(* ------------------------------------------------------------------ observations for the harness *)
Definition obs_box (b : box) : val := VL [vlistZ (boff b); vlistZ (bsz b)].

(* validation of [overlaps] against the real torch function *)
Definition obs_overlaps (x : (list Z * list Z) * (list Z * list Z)) : val :=
  vbool (overlaps (mkBox (fst (fst x)) (snd (fst x))) (mkBox (fst (snd x)) (snd (snd x)))).

(* validation of [overlap_region] against the real static method: (saved, current) *)
Definition obs_region_of (r : region) : val :=
  VL (map (fun t => VL [VZ (fst (fst t)); VZ (snd (fst t)); VZ (snd t)]) r).
Definition obs_region (x : (list Z * list Z) * (list Z * list Z)) : val :=
  obs_region_of (overlap_region (mkBox (fst (fst x)) (snd (fst x))) (mkBox (fst (snd x)) (snd (snd x)))).

(* element ids: E := Z *)
Definition mk_d (x : (list Z * list Z) * list Z) : dshard Z :=
  mkD (mkBox (fst (fst x)) (snd (fst x))) (rs_of_list (snd (fst x)) (snd x) (-1)).
(* ((offsets, sizes), key, ids) with key = [location id; lo; hi] / [location id] *)
Definition mk_s (x : ((list Z * list Z) * list Z) * list Z) : sshard Z :=
  mkS (mkBox (fst (fst (fst x))) (snd (fst (fst x)))) (hd 0 (snd (fst x))) (tl (snd (fst x)))
      (rs_of_list (snd (fst (fst x))) (snd x) (-1)).

(* prepare_write: input (dim, esize, max bytes, local shards with row-major ids);
   output: per saved shard (offsets, sizes, staged ids) *)
Definition obs_write (x : ((nat * Z) * Z) * list ((list Z * list Z) * list Z)) : val :=
  let '(((dim, esize), maxb), locals) := x in
  VL (map (fun d => VL [obs_box (d_box d); vlistZ (rs_to_list (bsz (d_box d)) (d_data d))])
          (write_shards dim esize maxb (map mk_d locals))).

Definition obs_reqs (l : list (Z * list (Z * region))) : val :=
  VL (map (fun req => VL [VZ (fst req);
                          VL (map (fun ir => VL [VZ (fst ir); obs_region_of (snd ir)]) (snd req))]) l).

(* prepare_read + consume: input (saved shards with key and ids, destination shards with initial ids);
   output: [read requests; final contents per destination shard (as coded, grouped); the same by [load];
            _get_global_shape; get_tensor_shape] *)
Definition obs_read (x : list (((list Z * list Z) * list Z) * list Z) * list ((list Z * list Z) * list Z)) : val :=
  let shards := map mk_s (fst x) in
  let dsts := map mk_d (snd x) in
  let fin (ts : list (tensor Z)) :=
      VL (map (fun dt => vlistZ (rs_to_list (bsz (d_box (fst dt))) (snd dt))) (combine dsts ts)) in
  VL [obs_reqs (read_reqs key_pair key_pair key_pair shards (map d_box dsts));
      fin (load_grouped key_pair key_pair key_pair shards dsts);
      fin (load shards dsts);
      vopt vlistZ (global_shape (map s_box shards));
      vopt vlistZ (tensor_shape (map s_box shards))].

(* merge of per-rank entries: input = per rank a list of (offsets, sizes, key); output = the keys in merged order *)
Definition obs_merge (x : list (list ((list Z * list Z) * list Z))) : val :=
  VL (map (fun s => vlistZ (s_key s))
          (merge_shards (map (map (fun y => mk_s (y, []))) x))).
