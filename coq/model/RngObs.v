(* C19: the interpreter of model/Rng.v run on the skeletons generated from the source (gen/RngGen.v), with a concrete
   RNG state for the correspondence harness: G := (seed, number of torch.rand(1) draws since seeding).
   Executable definitions only. *)
From TS Require Import model.Base model.Rng gen.RngGen.

Definition GZ : Type := (Z * Z)%type.

(* one stateful of the application: key id, is it the RNGState, draws in state_dict(), draws in load_state_dict() *)
Definition ent : Type := (Z * bool * Z * Z)%type.
Definition e_key (e : ent) : Z := fst (fst (fst e)).
Definition e_rng (e : ent) : bool := snd (fst (fst e)).
Definition e_sd (e : ent) : Z := snd (fst e).
Definition e_ld (e : ent) : Z := snd e.

Fixpoint lookup (f : ent -> Z) (es : list ent) (k : Z) : Z :=
  match es with
  | [] => 0
  | e :: r => if e_key e =? k then f e else lookup f r k
  end.

Definition draw (n : Z) (x : GZ) : GZ := (fst x, snd x + n).
Definition bad : GZ := (-1, -1).

Definition run_skel (skel : list rstmt) (es : list ent) (gk : list Z) (stored g0 : GZ) : st GZ :=
  exec GZ (fun k => draw (lookup e_sd es k)) (fun k => draw (lookup e_ld es k)) (fun _ => gk) (fun _ => bad) stored
       skel (map (fun e => (e_key e, e_rng e)) es) g0.

Definition vg (x : GZ) : val := VL [VZ (fst x); VZ (snd x)].

(* input: ((take-time statefuls, global keys, RNG state before take), (restore-time statefuls, global keys, RNG state
   before restore), mode)   mode 0 = take, 1 = async_take *)
Definition obs_rng (x : (list ent * list Z * GZ) * (list ent * list Z * GZ) * Z) : val :=
  let '((es_t, gk_t, g0), (es_r, gk_r, g1), mode) := x in
  let skel := if mode =? 0 then gen_take_skel else gen_async_take_skel in
  let t := run_skel skel es_t gk_t bad g0 in
  let stored := match cap t with Some v => v | None => bad end in
  let r := run_skel gen_restore_skel es_r gk_r stored g1 in
  VL [vg (g t); vopt vg (cap t); vbool (failed t); vg (g r); vbool (failed r)].

(* ---------------------------------------------------------------- the order of application-visible calls
   1 = RNGState.state_dict() at capture, (2,k) = stateful k .state_dict(), (3,k) = stateful k .load_state_dict(),
   4 = RNGState.load_state_dict(captured) in take, 5 = RNGState.load_state_dict(saved) in restore, 9 = unknown call *)
Definition ev_b (a : list (key * bool)) (k : key) (b : bstmt) : list val :=
  match b with
  | BStateDict => if has k a then [VL [VZ 2; VZ k]] else []
  | BLoadStateDict => if has k a then [VL [VZ 3; VZ k]] else []
  | BAppCall | BTorchRng => [VL [VZ 9; VZ k]]
  | BBarrier | BLocal => []
  end.

Definition ev_r (s : st GZ) (r : rstmt) : list val :=
  if failed s then [] else
  match r with
  | RCaptureRng => match popped s with Some _ => [VL [VZ 1]] | None => [] end
  | RReapplyRng => match popped s, cap s with Some _, Some _ => [VL [VZ 4]] | _, _ => [] end
  | RLoadRng => match popped s with Some _ => [VL [VZ 5]] | None => [] end
  | RLoopKeys body => flat_map (fun k => flat_map (ev_b (app s) k) body) (gkeys s)
  | RAppCall | RTorchRng => [VL [VZ 9]]
  | _ => []
  end.

Definition trace_skel (skel : list rstmt) (es : list ent) (gk : list Z) : list val :=
  let step := exec_r GZ (fun k => draw (lookup e_sd es k)) (fun k => draw (lookup e_ld es k)) (fun _ => gk) (fun _ => bad) bad in
  snd (fold_left (fun (p : st GZ * list val) r => (step (fst p) r, snd p ++ ev_r (fst p) r)) skel
                 (init GZ (map (fun e => (e_key e, e_rng e)) es) (0, 0), [])).

(* input: (take-time statefuls, global keys), (restore-time statefuls, global keys), mode *)
Definition obs_rng_trace (x : (list ent * list Z) * (list ent * list Z) * Z) : val :=
  let '((es_t, gk_t), (es_r, gk_r), mode) := x in
  let skel := if mode =? 0 then gen_take_skel else gen_async_take_skel in
  VL [VL (trace_skel skel es_t gk_t); VL (trace_skel gen_restore_skel es_r gk_r)].
