(* C05: where torchsnapshot puts bytes.  Executable definitions only.

   io_preparer.get_storage_path          os.path.join(<prefix>, logical_path), four prefixes
   ChunkedTensorIOPreparer.prepare_write f"{storage_path}_{'_'.join(str(x) for x in chunk.offsets)}"   (string level)
   ShardedTensorIOPreparer.prepare_write the same suffix from the (sub)shard offsets
   batcher.Slab.location                 os.path.join("batched", str(uuid.uuid4()))     (the uuid is an oracle)
   Snapshot._gather_manifest             os.path.join(str(rank), logical_path)
   FSStoragePlugin.write / read          os.path.join(root, path), then the OS resolves "", "." and ".."

   Strings are Python strs (lists of code points, model/Flatten.v); a logical path is the "/"-join of components that
   flatten produced with _encode (model/Flatten.v [encode], [join], [split], [str_of_Z] are reused, not redefined).

   NOT modelled: symbolic links below the snapshot root (none are created by torchsnapshot; the harness takes
   snapshots into fresh directories), case-insensitive or normalising file systems, path length limits, storage
   plugins other than the file system plugin (S3/GCS keys are flat strings: only the string-level theorems apply). *)
From TS Require Import model.Base model.Flatten.

Definition component := token.

(* ------------------------------------------------------------------ literals *)
Definition s_replicated : pystr := [114; 101; 112; 108; 105; 99; 97; 116; 101; 100].          (* "replicated" *)
Definition s_sharded : pystr := [115; 104; 97; 114; 100; 101; 100].                            (* "sharded" *)
Definition s_replicated_sharded : pystr := s_replicated ++ 95 :: s_sharded.                    (* "replicated_sharded" *)
Definition s_batched : pystr := [98; 97; 116; 99; 104; 101; 100].                              (* "batched" *)

(* ------------------------------------------------------------------ posixpath.join(a, b) *)
Definition starts_slash (s : pystr) : bool := match s with c :: _ => c =? 47 | [] => false end.
Definition ends_slash (s : pystr) : bool := match rev s with c :: _ => c =? 47 | [] => false end.
Definition is_nil {A} (l : list A) : bool := match l with [] => true | _ => false end.

(*  if b.startswith("/"): path = b   elif not path or path.endswith("/"): path += b   else: path += "/" + b  *)
Definition os_join (a b : pystr) : pystr :=
  if starts_slash b then b
  else if is_nil a || ends_slash a then a ++ b
  else a ++ 47 :: b.

(* ------------------------------------------------------------------ get_storage_path *)
(* is_sharded(obj), replicated, rank *)
Definition prefix_of (sharded replicated : bool) (rank : Z) : component :=
  if sharded then (if replicated then s_replicated_sharded else s_sharded)
  else if replicated then s_replicated
  else str_of_Z rank.

Definition storage_path (sharded replicated : bool) (rank : Z) (logical : pystr) : pystr :=
  os_join (prefix_of sharded replicated rank) logical.

(* "_".join(str(x) for x in offsets), generic separator *)
Fixpoint joinc (sep : Z) (ts : list pystr) : pystr :=
  match ts with
  | [] => []
  | t :: r => match r with [] => t | _ => t ++ sep :: joinc sep r end
  end.

Definition offsets_suffix (offs : list Z) : pystr := 95 :: joinc 95 (map str_of_Z offs).      (* "_" + "o1_o2_..." *)

(* f"{storage_path}_{suffix}" : plain string concatenation *)
Definition chunk_location (sp : pystr) (offs : list Z) : pystr := sp ++ offsets_suffix offs.

Definition slab_location (uuid : pystr) : pystr := os_join s_batched uuid.

(* key of the global manifest *)
Definition manifest_path (rank : Z) (logical : pystr) : pystr := os_join (str_of_Z rank) logical.

(* the keys of the global manifest built by _gather_manifest from the per-rank manifests (rank = position) *)
Fixpoint global_from (r : nat) (ms : list (list pystr)) : list pystr :=
  match ms with
  | [] => []
  | m :: rest => map (manifest_path (Z.of_nat r)) m ++ global_from (S r) rest
  end.
Definition global_paths (ms : list (list pystr)) : list pystr := global_from 0 ms.

(* the leaf paths of one rank: app_state = [(key, state_dict)], each flattened under its key *)
Definition rank_leaf_paths (st : list (pystr * obj)) : list pystr :=
  flat_map (fun kv => map fst (snd (flatten_s (snd kv) (fst kv)))) st.

(* ------------------------------------------------------------------ a saved object's own location *)
(* one write request of one leaf: the leaf's logical path as components, and the chunk / shard offsets if the leaf
   is written in pieces *)
Record litem := mkLoc {
  li_sharded : bool;
  li_replicated : bool;
  li_rank : Z;
  li_path : path;
  li_offs : option (list Z)
}.

Definition item_prefix (a : litem) : component := prefix_of (li_sharded a) (li_replicated a) (li_rank a).
Definition item_storage_path (a : litem) : pystr :=
  storage_path (li_sharded a) (li_replicated a) (li_rank a) (join (li_path a)).
Definition location_of (a : litem) : pystr :=
  match li_offs a with
  | None => item_storage_path a
  | Some offs => chunk_location (item_storage_path a) offs
  end.

(* ------------------------------------------------------------------ what the file system does with a location *)
Definition is_dot (c : component) : bool := str_eqb c [46].
Definition is_dotdot (c : component) : bool := str_eqb c [46; 46].

(* walk the components below the root; [stack] is the current directory, innermost first *)
Fixpoint resolve_from (stack : list component) (cs : list component) : option (list component) :=
  match cs with
  | [] => Some (rev stack)
  | c :: r =>
      if is_nil c || is_dot c then resolve_from stack r               (* "a//b" = "a/./b" = "a/b"; a trailing "/" too *)
      else if is_dotdot c then
        match stack with
        | [] => None                                                   (* climbs above the snapshot root *)
        | _ :: up => resolve_from up r
        end
      else resolve_from (c :: stack) r
  end.

(* os.path.join(root, location) followed by the OS: the components of the file below the root, None when the
   location is absolute (os.path.join drops the root) or climbs above the root at some point *)
Definition resolve (cs : list component) : option (list component) :=
  match cs with
  | [] :: _ :: _ => None                                                (* location starts with "/" *)
  | _ => resolve_from [] cs
  end.

Definition resolve_s (location : pystr) : option (list component) := resolve (split location).

(* ------------------------------------------------------------------ references held by a manifest *)
(* (location, byte_range); None = the whole object *)
Definition ref := (pystr * option (Z * Z))%type.

Definition ranges_meet (a b : option (Z * Z)) : bool :=
  match a, b with
  | Some (l1, h1), Some (l2, h2) => Z.max l1 l2 <? Z.min h1 h2
  | _, _ => true
  end.

Definition opt_path_eqb (a b : option (list component)) : bool :=
  match a, b with
  | Some x, Some y => path_eqb x y
  | None, None => true
  | _, _ => false
  end.

(* two references share at least one byte of one file (or one of them is the whole file) *)
Definition overlaps (a b : ref) : bool :=
  opt_path_eqb (resolve_s (fst a)) (resolve_s (fst b)) && ranges_meet (snd a) (snd b).

(* slab k (members with byte ranges, model/Batch.v) is stored under slab_location (nth k uuids) *)
Definition slab_refs (uuid : pystr) (members : list (Z * Z * Z)) : list ref :=
  map (fun m => (slab_location uuid, Some (snd (fst m), snd m))) members.

Definition layout_refs (items : list litem) (slabs : list (pystr * list (Z * Z * Z))) : list ref :=
  map (fun a => (location_of a, None)) items ++ flat_map (fun s => slab_refs (fst s) (snd s)) slabs.

(* ------------------------------------------------------------------ the escaping before commit 69c8b93 *)
Definition encode_legacy (s : pystr) : pystr := flat_map esc_char s.

(* ------------------------------------------------------------------ observations for the harness *)
Definition obs_components (l : list component) : val := VL (map vlistZ l).

(* (is_sharded, replicated, rank, logical path string, chunk offsets) -> the location string *)
Definition obs_location (x : bool * bool * Z * pystr * option (list Z)) : val :=
  let '(sh, rp, rank, logical, offs) := x in
  let sp := storage_path sh rp rank logical in
  vlistZ (match offs with None => sp | Some o => chunk_location sp o end).

(* the same from the key sequence of the leaf: app_state key, then str(dict key) / str(list index) per level *)
Definition obs_location_keys (x : bool * bool * Z * list pystr * option (list Z)) : val :=
  let '(sh, rp, rank, keys, offs) := x in obs_location (sh, rp, rank, join (map encode keys), offs).

Definition obs_manifest_path (x : Z * pystr) : val := vlistZ (manifest_path (fst x) (snd x)).
Definition obs_slab_location (u : pystr) : val := vlistZ (slab_location u).
Definition obs_os_join (x : pystr * pystr) : val := vlistZ (os_join (fst x) (snd x)).

(* a location string -> components below the root, or [] when it leaves the root *)
Definition obs_resolve (s : pystr) : val := vopt obs_components (resolve_s s).

(* the real flatten's leaf path for a key sequence: components = encode of each key, "/"-joined *)
Definition obs_logical (keys : list pystr) : val := vlistZ (join (map encode keys)).

(* pairs (i, j), i < j, of references that overlap *)
Fixpoint overlapping_from (i : Z) (rs : list ref) : list (Z * Z) :=
  match rs with
  | [] => []
  | r :: rest =>
      map (fun jq => (i, fst jq))
          (filter (fun jq => overlaps r (snd jq)) (combine (map (fun k => i + 1 + Z.of_nat k) (seq 0 (length rest))) rest))
      ++ overlapping_from (i + 1) rest
  end.
Definition obs_overlaps (rs : list ref) : val :=
  VL (map (fun p => VL [VZ (fst p); VZ (snd p)]) (overlapping_from 0 rs)).
