(* C01 / C05 / C18: vocabulary of the routing code of io_preparer.py (which preparer writes an object, which reads an
   entry) - the targets of translator/gen_dispatch.py.  Executable definitions only. *)
From TS Require Import model.Base.

(* the preparer that writes an object *)
Inductive wkind := WPrimitive | WSharded | WDTensor | WChunked | WTensor | WObject.
(* the preparer that reads an entry *)
Inductive rkind := RPrimitive | RSharded | RDTensor | RChunked | RTensor | RObject.
(* the entry classes of manifest.py *)
Inductive eclass := EEntry | ETensor | ESharded | EChunked | EDTensor | EObject | EList | EDict | EOrderedDict | EPrimitive.

Definition eclass_id (c : eclass) : Z :=
  match c with
  | EEntry => 0 | ETensor => 1 | ESharded => 2 | EChunked => 3 | EDTensor => 4 | EObject => 5
  | EList => 6 | EDict => 7 | EOrderedDict => 8 | EPrimitive => 9
  end.
Definition eclass_eqb (a b : eclass) : bool := eclass_id a =? eclass_id b.
Definition all_eclasses : list eclass :=
  [EEntry; ETensor; ESharded; EChunked; EDTensor; EObject; EList; EDict; EOrderedDict; EPrimitive].

Definition wkind_id (k : wkind) : Z :=
  match k with WPrimitive => 0 | WSharded => 1 | WDTensor => 2 | WChunked => 3 | WTensor => 4 | WObject => 5 end.
Definition rkind_id (k : rkind) : Z :=
  match k with RPrimitive => 0 | RSharded => 1 | RDTensor => 2 | RChunked => 3 | RTensor => 4 | RObject => 5 end.

(* isinstance(entry, X) for an entry whose class is [c], given each class's base class; the hierarchy has ten
   classes, so ten steps reach the root *)
Fixpoint is_a_fuel (fuel : nat) (parent : eclass -> option eclass) (c x : eclass) : bool :=
  if eclass_eqb c x then true
  else match fuel with
       | O => false
       | S f => match parent c with Some p => is_a_fuel f parent p x | None => false end
       end.
Definition is_a := is_a_fuel 10.

(* the entry class each write preparer produces (read off the preparers' prepare_write return statements;
   validated against the real preparers by the correspondence harness) *)
Definition entry_class_of (k : wkind) : eclass :=
  match k with
  | WPrimitive => EPrimitive | WSharded => ESharded | WDTensor => EDTensor
  | WChunked => EChunked | WTensor => ETensor | WObject => EObject
  end.

(* the read preparer that is the inverse of a write preparer *)
Definition reader_of (k : wkind) : rkind :=
  match k with
  | WPrimitive => RPrimitive | WSharded => RSharded | WDTensor => RDTensor
  | WChunked => RChunked | WTensor => RTensor | WObject => RObject
  end.

(* the object classes prepare_write distinguishes, as the flag vectors Python's isinstance gives them:
   ShardedTensor and DTensor ARE torch.Tensor subclasses *)
Inductive oclass := OInline | OShardedTensor | ODTensor | OPlainTensor | OOther.
Definition all_oclasses : list oclass := [OInline; OShardedTensor; ODTensor; OPlainTensor; OOther].

(* (should_inline, isinstance ShardedTensor, isinstance DTensor, isinstance torch.Tensor) *)
Definition oflags (o : oclass) : bool * bool * bool * bool :=
  match o with
  | OInline => (true, false, false, false)
  | OShardedTensor => (false, true, false, true)
  | ODTensor => (false, false, true, true)
  | OPlainTensor => (false, false, false, true)
  | OOther => (false, false, false, false)
  end.

(* the routing the property needs *)
Definition wanted_wkind (o : oclass) (nbytes knob : Z) : wkind :=
  match o with
  | OInline => WPrimitive
  | OShardedTensor => WSharded
  | ODTensor => WDTensor
  | OPlainTensor => if nbytes >? knob then WChunked else WTensor
  | OOther => WObject
  end.
