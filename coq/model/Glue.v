(* C01: the vocabulary in which translator/gen_glue.py writes the statement-by-statement translation of the GLUE of
   torchsnapshot/snapshot.py (gen/GlueGen.v): Snapshot._take_impl, _pop_rng_state, _gather_keys, _gather_manifest,
   restore, _load_stateful, _get_state_dict_for_manifest, read_object.   Executable definitions only.

   What is concrete here is Python (dict / list / str operations, the option monad for exceptions - model/FlattenPy.v)
   and the CONTAINER LEVEL of the components the glue wires together:
     flatten / inflate ............ the terms generated from flatten.py (gen/FlattenRecGen.v through model/FlattenGenObs.v)
     prepare_write ................ a primitive becomes an inline entry; anything else gets an entry with the storage
                                    location computed by the generated get_storage_path (gen/DispatchGen.v) and one write
                                    request (location, the object, the flags the stager keeps)
     prepare_read ................. the future of an inline entry holds its value; any other entry yields a read request
     write / read execution ....... performing a list of requests = the list of (location, object) pairs in the store, resp.
                                    the futures of the requested entries filled with what [w_read] finds (C11: each request
                                    performed exactly once)
   What is ABSTRACT is collected in one record, [world]: the view of one rank on the job (rank, world size, knobs, the
   collectives as they answer on this rank), the classification of leaf objects, and the components whose internals are the
   subject of other properties: the partitioner (C06), the batchers (C16), the consolidation of replicated entries (C06),
   the per-rank manifest view and the elasticity rewrite (C07), the replicated-path computation (C06), and the
   byte-level read-back of one stored entry, [w_read] (C17 / C16 / the data-path theorems of C01).
   The theorems of props/C01.v quantify over every world that satisfies the laws stated there as hypotheses;
   model/GlueGenObs.v has a concrete one-rank world that satisfies them and is run against the real code.

   Leaves are opaque identities ([Leaf n], model/Flatten.v).  Effects of the glue that the property speaks about are
   threaded through the generated code as a value of type [effects]: the load_state_dict calls, the prepare_write /
   prepare_read calls with their arguments, the futures filled by the read executor.

   NOT modelled: ShardedTensor / DTensor entries (no leaf of this model is sharded: merged_sd_entries and the elasticity
   rewrite are world functions with the law "nothing to do"), exceptions raised by state_dict() / load_state_dict(),
   the event loop, the storage plugin object (a store is the list of writes performed), collectives other than through
   the world record, log_event / logger calls (observers, dropped by the translator). *)
From TS Require Import model.Base model.Flatten model.FlattenPy model.StoragePath gen.FlattenGen gen.FlattenRecGen
  model.FlattenGenObs model.Dispatch gen.DispatchGen.

(* ------------------------------------------------------------------ manifest entries *)
Inductive lentry :=
| LPrim (v : obj) (repl : bool)                              (* PrimitiveEntry: the value is inside the entry *)
| LObj (loc : pystr) (rng : option (Z * Z)) (repl : bool).   (* any entry whose payload is in storage *)
Inductive mentry :=
| MCont (e : entry)                                          (* ListEntry / DictEntry / OrderedDictEntry *)
| MLeaf (l : lentry).

(* manifest_utils.is_container_entry (checked verbatim by the translator) *)
Definition is_container_entry_m (e : mentry) : bool := match e with MCont _ => true | MLeaf _ => false end.
(* isinstance(entry, PrimitiveEntry) *)
Definition is_primitive_entry (e : mentry) : bool := match e with MLeaf (LPrim _ _) => true | _ => false end.
(* entry.get_value(): only PrimitiveEntry has it *)
Definition entry_get_value (e : mentry) : option obj := match e with MLeaf (LPrim v _) => Some v | _ => None end.
Definition entry_replicated (e : mentry) : bool :=
  match e with MLeaf (LPrim _ r) => r | MLeaf (LObj _ _ r) => r | MCont _ => false end.
(* the manifest flatten() returns holds container entries only *)
Definition lift_conts (m : sdict entry) : sdict mentry := map (fun kv => (fst kv, MCont (snd kv))) m.
Definition conts_of (m : sdict mentry) : sdict entry :=
  flat_map (fun kv => match snd kv with MCont e => [(fst kv, e)] | MLeaf _ => [] end) m.

Definition lentry_eqb (a b : lentry) : bool :=
  match a, b with
  | LObj la ra pa, LObj lb rb pb =>
      str_eqb la lb && Bool.eqb pa pb &&
      match ra, rb with
      | None, None => true
      | Some (x, y), Some (x', y') => (x =? x') && (y =? y')
      | _, _ => false
      end
  | _, _ => false                      (* inline entries never become read requests *)
  end.

(* ------------------------------------------------------------------ requests, futures, storage *)
Record wreq := mkWreq { wr_path : pystr; wr_obj : obj; wr_async : bool; wr_custom : option (Z * pystr) }.
Definition rreq := lentry.               (* the read request(s) of one stored entry *)
Record fut := mkFut { f_entry : lentry; f_out : option obj }.
Definition store := list (pystr * obj).  (* what has been written where *)

Record wcall := mkWcall {                (* the arguments of one prepare_write call *)
  wc_obj : obj; wc_path : pystr; wc_rank : Z; wc_replicated : bool; wc_async : bool; wc_custom : option (Z * pystr) }.

Record metadata := mkMeta { md_world_size : Z; md_manifest : sdict mentry }.
Record snapshot := mkSnap { snap_metadata : metadata; snap_store : store }.   (* a committed snapshot *)

(* a Stateful: an identity, what state_dict() returns, isinstance(_, RNGState), isinstance(_, torch.nn.Module) *)
Record stateful := mkSf { sf_id : Z; sf_state : obj; sf_is_rng : bool; sf_is_module : bool }.

Record load_ev := mkLoad { ld_id : Z; ld_state : obj; ld_strict : option bool }.
Record effects := mkFx {
  fx_loads : list load_ev;                       (* stateful.load_state_dict(state_dict[, strict]) calls, in order *)
  fx_writes : list wcall;                        (* prepare_write calls, in order *)
  fx_preps : list (mentry * option obj);         (* prepare_read(entry, obj_out) calls, in order *)
  fx_done : list (lentry * option obj) }.        (* entries whose read requests were executed, with what was read *)
Definition fx0 : effects := mkFx [] [] [] [].

(* ------------------------------------------------------------------ the world *)
Record world := mkWorld {
  w_rank : Z;                                    (* pg.get_rank() *)
  w_world_size : Z;                              (* pg.get_world_size() *)
  w_batching_disabled : bool;                    (* knobs.is_batching_disabled() *)
  w_memory_budget : Z;                           (* scheduler.get_process_memory_budget_bytes(pg) *)
  w_max_budget : Z;                              (* scheduler._MAX_PER_RANK_MEMORY_BUDGET_BYTES *)
  w_should_inline : obj -> bool;                 (* PrimitivePreparer.should_inline *)
  w_is_tensor : obj -> bool;                     (* isinstance(v, (torch.Tensor, ShardedTensor, DTensor)) *)
  w_is_sharded : obj -> bool;                    (* dtensor_utils.is_sharded *)
  w_all_gather : forall A : Type, A -> list A;   (* pg.all_gather_object(out, x): what `out` holds afterwards *)
  w_calc_replicated : sdict obj -> list pystr -> list pystr;      (* Snapshot._calculate_replicated_entries (C06) *)
  w_partition : sdict mentry -> sdict (list wreq) -> option (sdict mentry * sdict (list wreq));  (* partition_write_reqs *)
  w_batch_write : list mentry -> list wreq -> list mentry * list wreq;   (* batch_write_requests: entries relocated *)
  w_consolidate : list (sdict mentry) -> option (list (sdict mentry));   (* consolidate_replicated_entries *)
  w_manifest_for_rank : metadata -> Z -> sdict mentry * sdict mentry;    (* manifest_ops.get_manifest_for_rank *)
  w_elasticity : sdict mentry -> sdict mentry -> list pystr -> sdict mentry;  (* handle_sharded_tensor_elasticity *)
  w_batch_read : list rreq -> list rreq;         (* batch_read_requests *)
  w_read : store -> lentry -> option obj         (* the value the consumers of one entry deliver from this store *)
}.

(* ------------------------------------------------------------------ Python *)
Definition sdict_keys {V} (d : sdict V) : list pystr := map fst d.
Definition sdict_values {V} (d : sdict V) : list V := map snd d.
(* del d[k] : KeyError when absent *)
Fixpoint sdict_del {V} (k : pystr) (d : sdict V) : option (sdict V) :=
  match d with
  | [] => None
  | (k', v) :: r => if str_eqb k' k then Some r else option_map (cons (k', v)) (sdict_del k r)
  end.
(* the objects held by d were mutated in place by a callee that returned them in d.values() order *)
Definition sdict_with_values {V} (d : sdict V) (vs : list V) : sdict V := combine (map fst d) vs.
(* dict( **a, **b): TypeError on a repeated keyword *)
Definition py_dict_kw2 {V} (a b : sdict V) : option (sdict V) :=
  if existsb (fun k => sdict_mem k a) (sdict_keys b) then None else Some (sdict_update (sdict_update [] a) b).
(* a, b = s.split("/", 1) : ValueError unless there is a "/" *)
Fixpoint py_split1 (s : pystr) : option (pystr * pystr) :=
  match s with
  | [] => None
  | c :: r => if c =? 47 then Some ([], r)
              else match py_split1 r with Some (a, b) => Some (c :: a, b) | None => None end
  end.
(* set(l) for membership tests and sorted(): the distinct elements *)
Definition py_set (l : list pystr) : list pystr := dedup l.
(* x or y  on an Optional[int] x: None and 0 are falsy *)
Definition py_or_int (x : option Z) (y : Z) : Z := match x with Some b => if b =? 0 then y else b | None => y end.
Definition is_none {A} (x : option A) : bool := match x with None => true | Some _ => false end.
(* a.get(k) or b[k]  on dicts of entries (every Entry object is truthy) *)
Definition py_get_or {V} (k1 : pystr) (a : sdict V) (k2 : pystr) (b : sdict V) : option V :=
  match sdict_get k1 a with Some v => Some v | None => sdict_get k2 b end.
(* s.startswith(p) *)
Fixpoint str_prefixb (p s : pystr) : bool :=
  match p, s with
  | [], _ => true
  | a :: p', b :: s' => (a =? b) && str_prefixb p' s'
  | _ :: _, [] => false
  end.
Definition py_index0 {A} (l : list A) : option A := match l with x :: _ => Some x | [] => None end.
Definition opt_test {A} (f : A -> bool) (x : option A) : bool := match x with Some a => f a | None => false end.

(* ------------------------------------------------------------------ components at the container level *)
(* io_preparer.prepare_write, and the log of its arguments *)
Definition prepare_write_m (W : world) (c : wcall) : mentry * list wreq :=
  if w_should_inline W (wc_obj c) then (MLeaf (LPrim (wc_obj c) (wc_replicated c)), [])
  else
    let loc := g_storage_path (w_is_sharded W (wc_obj c)) (wc_replicated c) (wc_rank c) (wc_path c) in
    (MLeaf (LObj loc None (wc_replicated c)), [mkWreq loc (wc_obj c) (wc_async c) (wc_custom c)]).
Definition prepare_write_fx (W : world) (c : wcall) (x : effects) : (mentry * list wreq) * effects :=
  (prepare_write_m W c, mkFx (fx_loads x) (fx_writes x ++ [c]) (fx_preps x) (fx_done x)).

(* io_preparer.prepare_read: containers are refused (gen/DispatchGen.v g_read_kind, C01_generated_read_refuses_only_containers);
   PrimitivePreparer.prepare_read(entry) does not receive obj_out *)
Definition prepare_read_m (e : mentry) (out : option obj) : option (list rreq * fut) :=
  match e with
  | MCont _ => None
  | MLeaf (LPrim v r) => Some ([], mkFut (LPrim v r) None)
  | MLeaf l => Some ([l], mkFut l out)
  end.
Definition prepare_read_fx (e : mentry) (out : option obj) (limit : option Z) (x : effects) : option ((list rreq * fut) * effects) :=
  match prepare_read_m e out with
  | None => None
  | Some r => Some (r, mkFx (fx_loads x) (fx_writes x) (fx_preps x ++ [(e, out)]) (fx_done x))
  end.

(* sync_execute_write_reqs + PendingIOWork.sync_complete: every request written once *)
Definition exec_write_m (st : store) (wrs : list wreq) (budget rank : Z) : store :=
  st ++ map (fun w => (wr_path w, wr_obj w)) wrs.
(* sync_execute_read_reqs: the consumers of every request run once *)
Definition exec_read_fx (W : world) (x : effects) (st : store) (rrs : list rreq) (budget rank : Z) : effects :=
  mkFx (fx_loads x) (fx_writes x) (fx_preps x) (fx_done x ++ map (fun r => (r, w_read W st r)) rrs).

Fixpoint assoc_lentry {A} (l : lentry) (d : list (lentry * A)) : option A :=
  match d with
  | [] => None
  | (l', a) :: r => if lentry_eqb l' l then Some a else assoc_lentry l r
  end.
(* fut.obj : None until the consumer of the entry's request has run *)
Definition fut_obj (x : effects) (f : fut) : obj :=
  match f_entry f with
  | LPrim v _ => v
  | l => match assoc_lentry l (fx_done x) with Some (Some o) => o | _ => py_none end
  end.

(* stateful.load_state_dict(state_dict) / (state_dict, strict=strict) *)
Definition fx_load (x : effects) (s : stateful) (sd : obj) (strict : option bool) : effects :=
  mkFx (fx_loads x ++ [mkLoad (sf_id s) sd strict]) (fx_writes x) (fx_preps x) (fx_done x).

(* flatten.inflate on a manifest that may hold non-container entries: _entry_to_container raises for a non-container
   entry under the prefix unless the prefix itself is a leaf *)
Definition inflate_m (m : sdict mentry) (f : sdict obj) (prefix : pystr) : option obj :=
  if existsb (fun kv => negb (is_container_entry_m (snd kv)) && str_eqb (split_head (fst kv)) (encode_gen prefix)) m
     && negb (sdict_mem (encode_gen prefix) f)
  then None
  else inflate_run_gen (conts_of m) f prefix.
