(* C14 layers 2 and 4: the JSON text layer of SnapshotMetadata.to_yaml / from_yaml.
     escape / quote   json.dumps(ensure_ascii=True) string escaping (json.encoder.py_encode_basestring_ascii)
     print            json.dumps(v, indent=2) as CPython prints it (json.encoder._make_iterencode)
     scan_string      json.decoder scanstring (C scanner: strict mode, \uXXXX, surrogate-pair joining)
     parse            json.loads on the grammar without floats / NaN / Infinity (those never occur in metadata;
                      the model rejects them)
   Executable definitions only.  Text is a list of code points (Z). *)
From TS Require Import model.Base model.Codec.

Inductive jvalue :=
| JNull
| JBool (b : bool)
| JInt (z : Z)
| JStr (s : pystr)
| JArr (l : list jvalue)
| JObj (l : list (pystr * jvalue)).

(* ------------------------------------------------------------------ escaping *)
Definition hexd (k : Z) : Z := if k <? 10 then 48 + k else 87 + k.

Definition hexv (c : Z) : option Z :=
  if (48 <=? c) && (c <=? 57) then Some (c - 48)
  else if (97 <=? c) && (c <=? 102) then Some (c - 87)
  else if (65 <=? c) && (c <=? 70) then Some (c - 55)
  else None.

Definition hex4 (a b c d : Z) : option Z :=
  match hexv a, hexv b, hexv c, hexv d with
  | Some x, Some y, Some z, Some w => Some (((x * 16 + y) * 16 + z) * 16 + w)
  | _, _, _, _ => None
  end.

(* \uXXXX with lowercase hex, 0 <= n < 65536 *)
Definition esc_u (n : Z) : list Z :=
  [92; 117; hexd (n / 4096); hexd ((n / 256) mod 16); hexd ((n / 16) mod 16); hexd (n mod 16)].

Definition esc_char (c : Z) : list Z :=
  if c =? 34 then [92; 34]
  else if c =? 92 then [92; 92]
  else if c =? 10 then [92; 110]
  else if c =? 13 then [92; 114]
  else if c =? 9 then [92; 116]
  else if c =? 8 then [92; 98]
  else if c =? 12 then [92; 102]
  else if (32 <=? c) && (c <=? 126) then [c]
  else if c <? 65536 then esc_u c
  else esc_u (55296 + (c - 65536) / 1024) ++ esc_u (56320 + (c - 65536) mod 1024).

Fixpoint escape_body (s : pystr) : list Z :=
  match s with
  | [] => []
  | c :: s' => esc_char c ++ escape_body s'
  end.

Definition quote (s : pystr) : list Z := 34 :: escape_body s ++ [34].
Definition escape := quote.

Definition is_hi (u : Z) : bool := (55296 <=? u) && (u <=? 56319).
Definition is_lo (u : Z) : bool := (56320 <=? u) && (u <=? 57343).
Definition join_surr (u u2 : Z) : Z := 65536 + (u - 55296) * 1024 + (u2 - 56320).

Definition simple_escape (e : Z) : option Z :=
  if e =? 34 then Some 34
  else if e =? 92 then Some 92
  else if e =? 47 then Some 47
  else if e =? 98 then Some 8
  else if e =? 102 then Some 12
  else if e =? 110 then Some 10
  else if e =? 114 then Some 13
  else if e =? 116 then Some 9
  else None.

Definition cons_opt (x : Z) (o : option (pystr * list Z)) : option (pystr * list Z) :=
  match o with
  | Some (s, r) => Some (x :: s, r)
  | None => None
  end.

(* scanstring, called just after the opening quote; returns the decoded string and the text after the
   closing quote.  Raw characters >= 0x20 other than the quote (34) and the backslash (92) are kept (strict mode rejects < 0x20). *)
Fixpoint scan_string (s : list Z) : option (pystr * list Z) :=
  match s with
  | [] => None
  | c :: s1 =>
      if c =? 34 then Some ([], s1)
      else if c =? 92 then
        match s1 with
        | [] => None
        | e :: s2 =>
            if e =? 117 then
              match s2 with
              | h1 :: h2 :: h3 :: h4 :: s3 =>
                  match hex4 h1 h2 h3 h4 with
                  | None => None
                  | Some u =>
                      if is_hi u then
                        match s3 with
                        | b :: u' :: g1 :: g2 :: g3 :: g4 :: s4 =>
                            if (b =? 92) && (u' =? 117) then
                              match hex4 g1 g2 g3 g4 with
                              | None => None
                              | Some u2 =>
                                  if is_lo u2 then cons_opt (join_surr u u2) (scan_string s4)
                                  else cons_opt u (scan_string s3)
                              end
                            else cons_opt u (scan_string s3)
                        | _ => cons_opt u (scan_string s3)
                        end
                      else cons_opt u (scan_string s3)
                  end
              | _ => None
              end
            else
              match simple_escape e with
              | Some x => cons_opt x (scan_string s2)
              | None => None
              end
        end
      else if c <? 32 then None
      else cons_opt c (scan_string s1)
  end.

(* json.loads of one complete string literal (opening quote .. closing quote, nothing after it) *)
Definition unescape (t : list Z) : option pystr :=
  match t with
  | c :: t' =>
      if c =? 34 then
        match scan_string t' with
        | Some (s, []) => Some s
        | _ => None
        end
      else None
  | [] => None
  end.

(* well-formed strings: code points 0..0x10FFFF (surrogates allowed) and no high surrogate immediately followed
   by a low surrogate (json.loads joins such a pair into one code point) *)
Definition cp_ok (c : Z) : bool := (0 <=? c) && (c <=? 1114111).

Fixpoint no_adj_hi_lo (s : pystr) : bool :=
  match s with
  | [] => true
  | c :: s' => match s' with
               | d :: _ => negb (is_hi c && is_lo d)
               | [] => true
               end && no_adj_hi_lo s'
  end.

Definition str_ok (s : pystr) : bool := forallb cp_ok s && no_adj_hi_lo s.

(* ------------------------------------------------------------------ printing, indent = 2 *)
Definition lit_null : list Z := [110; 117; 108; 108].
Definition lit_true : list Z := [116; 114; 117; 101].
Definition lit_false : list Z := [102; 97; 108; 115; 101].

Definition nl (lvl : nat) : list Z := 10 :: repeat 32 (2 * lvl).

(* the items after the first one, then the closing line:  (comma newline indent item)*  newline outer-indent close *)
Fixpoint print_items (pr : jvalue -> list Z) (sep close : list Z) (l : list jvalue) : list Z :=
  match l with
  | [] => close
  | y :: ys => sep ++ pr y ++ print_items pr sep close ys
  end.

Fixpoint print_members (pr : jvalue -> list Z) (sep close : list Z) (l : list (pystr * jvalue)) : list Z :=
  match l with
  | [] => close
  | (k, y) :: ys => sep ++ quote k ++ 58 :: 32 :: pr y ++ print_members pr sep close ys
  end.

Fixpoint print_at (lvl : nat) (v : jvalue) {struct v} : list Z :=
  match v with
  | JNull => lit_null
  | JBool b => if b then lit_true else lit_false
  | JInt z => str_of_int z
  | JStr s => quote s
  | JArr l =>
      match l with
      | [] => [91; 93]
      | x :: xs =>
          91 :: nl (S lvl) ++ print_at (S lvl) x ++
          (fix items (l : list jvalue) : list Z :=
             match l with
             | [] => nl lvl ++ [93]
             | y :: ys => (44 :: nl (S lvl)) ++ print_at (S lvl) y ++ items ys
             end) xs
      end
  | JObj l =>
      match l with
      | [] => [123; 125]
      | (k, x) :: xs =>
          123 :: nl (S lvl) ++ quote k ++ 58 :: 32 :: print_at (S lvl) x ++
          (fix members (l : list (pystr * jvalue)) : list Z :=
             match l with
             | [] => nl lvl ++ [125]
             | (k, y) :: ys => (44 :: nl (S lvl)) ++ quote k ++ 58 :: 32 :: print_at (S lvl) y ++ members ys
             end) xs
      end
  end.

Definition print (v : jvalue) : list Z := print_at 0 v.

(* ------------------------------------------------------------------ parsing *)
Definition is_ws (c : Z) : bool := (c =? 32) || (c =? 10) || (c =? 13) || (c =? 9).

Fixpoint skip_ws (s : list Z) : list Z :=
  match s with
  | c :: s' => if is_ws c then skip_ws s' else s
  | [] => []
  end.

Fixpoint strip_prefix (p s : list Z) : option (list Z) :=
  match p with
  | [] => Some s
  | c :: p' =>
      match s with
      | d :: s' => if c =? d then strip_prefix p' s' else None
      | [] => None
      end
  end.

Fixpoint span_digits (s : list Z) : list Z * list Z :=
  match s with
  | c :: s' => if is_digit c then let (d, r) := span_digits s' in (c :: d, r) else ([], s)
  | [] => ([], [])
  end.

(* optional minus, then 0 or a nonzero digit followed by digits; a following fraction or exponent is not consumed (the caller then rejects) *)
Definition lex_nat (s : list Z) : option (Z * list Z) :=
  match s with
  | c :: s' =>
      if c =? 48 then Some (0, s')
      else if is_digit c then let (d, r) := span_digits s' in Some (digits_value (c :: d), r)
      else None
  | [] => None
  end.

Definition lex_int (s : list Z) : option (Z * list Z) :=
  match s with
  | c :: s' =>
      if c =? 45 then
        match lex_nat s' with Some (n, r) => Some (- n, r) | None => None end
      else lex_nat s
  | [] => None
  end.

Definition lit (p : list Z) (v : jvalue) (s : list Z) : option (jvalue * list Z) :=
  match strip_prefix p s with Some r => Some (v, r) | None => None end.

(* scan_once and the array / object loops of the C scanner; [fuel] bounds the number of nested calls.
   parse_elems / parse_members start at the first character of an element / of a key. *)
Fixpoint parse_value (fuel : nat) (s : list Z) {struct fuel} : option (jvalue * list Z) :=
  match fuel with
  | O => None
  | S f =>
      match s with
      | [] => None
      | c :: s1 =>
          if c =? 34 then
            match scan_string s1 with Some (str, r) => Some (JStr str, r) | None => None end
          else if c =? 123 then
            match skip_ws s1 with
            | [] => None
            | c2 :: s3 =>
                if c2 =? 125 then Some (JObj [], s3)
                else match parse_members f (c2 :: s3) with
                     | Some (ms, r) => Some (JObj ms, r)
                     | None => None
                     end
            end
          else if c =? 91 then
            match skip_ws s1 with
            | [] => None
            | c2 :: s3 =>
                if c2 =? 93 then Some (JArr [], s3)
                else match parse_elems f (c2 :: s3) with
                     | Some (vs, r) => Some (JArr vs, r)
                     | None => None
                     end
            end
          else if c =? 110 then lit lit_null JNull s
          else if c =? 116 then lit lit_true (JBool true) s
          else if c =? 102 then lit lit_false (JBool false) s
          else match lex_int s with Some (z, r) => Some (JInt z, r) | None => None end
      end
  end
with parse_elems (fuel : nat) (s : list Z) {struct fuel} : option (list jvalue * list Z) :=
  match fuel with
  | O => None
  | S f =>
      match parse_value f s with
      | None => None
      | Some (v, r) =>
          match skip_ws r with
          | [] => None
          | c :: r2 =>
              if c =? 93 then Some ([v], r2)
              else if c =? 44 then
                match parse_elems f (skip_ws r2) with
                | Some (vs, r3) => Some (v :: vs, r3)
                | None => None
                end
              else None
          end
      end
  end
with parse_members (fuel : nat) (s : list Z) {struct fuel} : option (list (pystr * jvalue) * list Z) :=
  match fuel with
  | O => None
  | S f =>
      match s with
      | [] => None
      | q :: s1 =>
          if q =? 34 then
            match scan_string s1 with
            | None => None
            | Some (k, r) =>
                match skip_ws r with
                | [] => None
                | c :: r2 =>
                    if c =? 58 then
                      match parse_value f (skip_ws r2) with
                      | None => None
                      | Some (v, r3) =>
                          match skip_ws r3 with
                          | [] => None
                          | c3 :: r4 =>
                              if c3 =? 125 then Some ([(k, v)], r4)
                              else if c3 =? 44 then
                                match parse_members f (skip_ws r4) with
                                | Some (ms, r5) => Some ((k, v) :: ms, r5)
                                | None => None
                                end
                              else None
                          end
                      end
                    else None
                end
            end
          else None
      end
  end.

(* Python dict semantics for repeated keys: the first occurrence fixes the position, the last the value *)
Fixpoint obj_set (k : pystr) (v : jvalue) (l : list (pystr * jvalue)) : list (pystr * jvalue) :=
  match l with
  | [] => [(k, v)]
  | (k', v') :: l' => if pystr_eqb k' k then (k', v) :: l' else (k', v') :: obj_set k v l'
  end.

Definition dedup (l : list (pystr * jvalue)) : list (pystr * jvalue) :=
  fold_left (fun acc kv => obj_set (fst kv) (snd kv) acc) l [].

Fixpoint normalize (v : jvalue) : jvalue :=
  match v with
  | JArr l => JArr ((fix go (l : list jvalue) : list jvalue :=
                       match l with [] => [] | x :: xs => normalize x :: go xs end) l)
  | JObj l => JObj (dedup ((fix go (l : list (pystr * jvalue)) : list (pystr * jvalue) :=
                              match l with [] => [] | (k, x) :: xs => (k, normalize x) :: go xs end) l))
  | _ => v
  end.

(* well-formed values: strings and keys well formed, keys of one object pairwise distinct *)
Fixpoint mem_str (k : pystr) (l : list pystr) : bool :=
  match l with [] => false | x :: l' => pystr_eqb x k || mem_str k l' end.
Fixpoint nodup_str (l : list pystr) : bool :=
  match l with [] => true | x :: l' => negb (mem_str x l') && nodup_str l' end.

Fixpoint wf_j (v : jvalue) : bool :=
  match v with
  | JStr s => str_ok s
  | JArr l => (fix go (l : list jvalue) : bool :=
                 match l with [] => true | x :: xs => wf_j x && go xs end) l
  | JObj l => nodup_str (map fst l) &&
              (fix go (l : list (pystr * jvalue)) : bool :=
                 match l with [] => true | (k, x) :: xs => str_ok k && wf_j x && go xs end) l
  | _ => true
  end.

(* JSONDecoder.decode: leading whitespace, one value, trailing whitespace, end of text *)
Definition parse_fuel (fuel : nat) (s : list Z) : option jvalue :=
  match parse_value fuel (skip_ws s) with
  | Some (v, r) => match skip_ws r with [] => Some (normalize v) | _ => None end
  | None => None
  end.

Definition parse (s : list Z) : option jvalue := parse_fuel (S (length s)) s.

(* ------------------------------------------------------------------ observations *)
Fixpoint val_of_jvalue (v : jvalue) : val :=
  match v with
  | JNull => VL [VZ 0]
  | JBool b => VL [VZ 1; vbool b]
  | JInt z => VL [VZ 2; VZ z]
  | JStr s => VL [VZ 3; vlistZ s]
  | JArr l => VL (VZ 4 :: (fix go (l : list jvalue) : list val :=
                            match l with [] => [] | x :: xs => val_of_jvalue x :: go xs end) l)
  | JObj l => VL (VZ 5 :: (fix go (l : list (pystr * jvalue)) : list val :=
                            match l with [] => [] | (k, x) :: xs => VL [vlistZ k; val_of_jvalue x] :: go xs end) l)
  end.

Definition obs_quote (s : pystr) : val := vlistZ (quote s).
Definition obs_unescape (t : list Z) : val := vopt vlistZ (unescape t).
Definition obs_parse (s : list Z) : val := vopt val_of_jvalue (parse s).
