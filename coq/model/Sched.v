(* C10 / C11: the write pipeline (execute_write_reqs + PendingIOWork.complete) and the read pipeline
   (execute_read_reqs) of scheduler.py as labelled transition systems.
   The admission guards, the refund expressions and the order of the two dispatch calls are NOT written here:
   they come from coq/gen/SchedGen.v, regenerated from scheduler.py on every run.
   Executable definitions only. *)
From TS Require Import model.Base gen.SchedGen.

Definition zlen {A} (l : list A) : Z := Z.of_nat (length l).

Fixpoint memz (i : Z) (l : list Z) : bool :=
  match l with [] => false | x :: r => if Z.eqb i x then true else memz i r end.

Fixpoint remove1 (i : Z) (l : list Z) : list Z :=
  match l with [] => [] | x :: r => if Z.eqb i x then r else x :: remove1 i r end.

(* a request: declared cost (staging cost / consuming cost) and the size of the buffer it produces *)
Definition reqs := list (Z * Z).
Definition cost_of (rq : reqs) (i : Z) : Z := fst (nth (Z.to_nat i) rq (0, 0)).
Definition bsz_of (rq : reqs) (i : Z) : Z := snd (nth (Z.to_nat i) rq (0, 0)).
Definition ids_from (n : nat) : list Z := map Z.of_nat (seq 0 n).

Inductive status := Running | Raised.

(* ------------------------------------------------------------------ write pipeline *)
Record wstate := {
  rfs : list Z;      (* ready_for_staging *)
  stg : list Z;      (* staging_tasks *)
  rfi : list Z;      (* ready_for_io *)
  io  : list Z;      (* io_tasks *)
  dn  : list Z;      (* done (implicit in the code) *)
  rem : Z;           (* memory_budget_bytes *)
  lstage : list Z;   (* ghost: stage_buffer() calls issued, in order *)
  lwrite : list Z;   (* ghost: storage.write() calls issued, in order *)
  wst : status }.

Definition admit_staging (rq : reqs) (p : Z) (s : wstate) : wstate :=
  {| rfs := remove1 p (rfs s); stg := stg s ++ [p]; rfi := rfi s; io := io s; dn := dn s;
     rem := gen_stage_admit_rem (rem s) (cost_of rq p);
     lstage := lstage s ++ [p]; lwrite := lwrite s; wst := wst s |}.

Definition start_io (p : Z) (s : wstate) : wstate :=
  {| rfs := rfs s; stg := stg s; rfi := remove1 p (rfi s); io := io s ++ [p]; dn := dn s;
     rem := rem s; lstage := lstage s; lwrite := lwrite s ++ [p]; wst := wst s |}.

(* for p in set(ready_for_staging): the visit order [v] is an oracle (Python set iteration) *)
Fixpoint dispatch_staging (rq : reqs) (v : list Z) (s : wstate) : wstate :=
  match v with
  | [] => s
  | p :: r =>
      if memz p (rfs s) &&
         gen_stage_admit (zlen (stg s)) (zlen (rfi s)) (zlen (io s)) (cost_of rq p) (rem s)
      then dispatch_staging rq r (admit_staging rq p s)
      else dispatch_staging rq r s
  end.

(* for p in set(ready_for_io): if len(io_tasks) >= K: break *)
Fixpoint dispatch_io (K : Z) (v : list Z) (s : wstate) : wstate :=
  match v with
  | [] => s
  | p :: r =>
      if gen_io_full (zlen (io s)) K then s
      else if memz p (rfi s) then dispatch_io K r (start_io p s)
      else dispatch_io K r s
  end.

Definition run_dispatch (rq : reqs) (K : Z) (vio vst : list Z) (d : gen_dispatch) (s : wstate) : wstate :=
  match d with DIo => dispatch_io K vio s | DStaging => dispatch_staging rq vst s end.

Definition after_completion (rq : reqs) (K : Z) (vio vst : list Z) (s : wstate) : wstate :=
  fold_left (fun s d => run_dispatch rq K vio vst d s) gen_write_after_completion s.

Definition stage_done (rq : reqs) (i : Z) (s : wstate) : wstate :=
  {| rfs := rfs s; stg := remove1 i (stg s); rfi := rfi s ++ [i]; io := io s; dn := dn s;
     rem := gen_stage_done_rem (rem s) (cost_of rq i) (bsz_of rq i);
     lstage := lstage s; lwrite := lwrite s; wst := wst s |}.

Definition io_done (rq : reqs) (i : Z) (s : wstate) : wstate :=
  {| rfs := rfs s; stg := stg s; rfi := rfi s; io := remove1 i (io s); dn := dn s ++ [i];
     rem := gen_io_done_rem (rem s) (bsz_of rq i);
     lstage := lstage s; lwrite := lwrite s; wst := wst s |}.

Definition raise (s : wstate) : wstate :=
  {| rfs := rfs s; stg := stg s; rfi := rfi s; io := io s; dn := dn s; rem := rem s;
     lstage := lstage s; lwrite := lwrite s; wst := Raised |}.

(* one completed task is processed: handler, then the dispatch calls.  vio / vst: visit orders *)
Inductive wevent :=
| StageDone (i : Z) (vio vst : list Z)
| IoDone (i : Z) (vio vst : list Z)
| StageFail (i : Z)
| IoFail (i : Z).

Definition wstep (rq : reqs) (K : Z) (s : wstate) (e : wevent) : wstate :=
  match wst s with
  | Raised => s
  | Running =>
    match e with
    | StageDone i vio vst => if memz i (stg s) then after_completion rq K vio vst (stage_done rq i s) else s
    | IoDone i vio vst => if memz i (io s) then after_completion rq K vio vst (io_done rq i s) else s
    | StageFail i => if memz i (stg s) then raise s else s
    | IoFail i => if memz i (io s) then raise s else s
    end
  end.

Definition winit (rq : reqs) (B : Z) (v0 : list Z) : wstate :=
  dispatch_staging rq v0
    {| rfs := ids_from (length rq); stg := []; rfi := []; io := []; dn := []; rem := B;
       lstage := []; lwrite := []; wst := Running |}.

Definition wrun (rq : reqs) (K B : Z) (v0 : list Z) (evs : list wevent) : wstate :=
  fold_left (wstep rq K) evs (winit rq B v0).

(* PendingIOWork.complete (after execute_write_reqs returned: nothing left to stage) *)
Definition io_done2 (rq : reqs) (i : Z) (s : wstate) : wstate :=
  {| rfs := rfs s; stg := stg s; rfi := rfi s; io := remove1 i (io s); dn := dn s ++ [i];
     rem := gen_complete_io_done_rem (rem s) (bsz_of rq i);
     lstage := lstage s; lwrite := lwrite s; wst := wst s |}.

Fixpoint dispatch_io2 (K : Z) (v : list Z) (s : wstate) : wstate :=
  match v with
  | [] => s
  | p :: r =>
      if gen_complete_io_full (zlen (io s)) K then s
      else if memz p (rfi s) then dispatch_io2 K r (start_io p s)
      else dispatch_io2 K r s
  end.

Definition wstep2 (rq : reqs) (K : Z) (s : wstate) (e : wevent) : wstate :=
  match wst s with
  | Raised => s
  | Running =>
    match e with
    | IoDone i vio _ => if memz i (io s) then dispatch_io2 K vio (io_done2 rq i s) else s
    | IoFail i => if memz i (io s) then raise s else s
    | _ => s
    end
  end.

(* accounting, as the property words it: declared cost until the buffer exists, buffer size afterwards *)
Definition sum_cost (rq : reqs) (l : list Z) : Z := sumZ (map (cost_of rq) l).
Definition sum_bsz (rq : reqs) (l : list Z) : Z := sumZ (map (bsz_of rq) l).
Definition accounted (rq : reqs) (s : wstate) : Z :=
  sum_cost rq (stg s) + sum_bsz rq (rfi s) + sum_bsz rq (io s).
Definition inflight (s : wstate) : Z := zlen (stg s) + zlen (rfi s) + zlen (io s).
Definition wfinal (s : wstate) : bool :=
  match rfs s, stg s, rfi s, io s with [], [], [], [] => true | _, _, _, _ => false end.
Definition wmeasure (s : wstate) : Z := 2 * zlen (rfs s) + 2 * zlen (stg s) + zlen (rfi s) + zlen (io s).

(* ------------------------------------------------------------------ read pipeline *)
Record rstate := {
  pend : list Z;     (* pending_ids *)
  rio : list Z;      (* io_tasks *)
  cons : list Z;     (* consuming_tasks *)
  rdn : list Z;
  rrem : Z;
  lread : list Z;    (* ghost: storage.read() calls issued *)
  lcons : list Z;    (* ghost: consume_buffer() calls issued *)
  rst : status }.

Definition admit_read (rq : reqs) (i : Z) (s : rstate) : rstate :=
  {| pend := remove1 i (pend s); rio := rio s ++ [i]; cons := cons s; rdn := rdn s;
     rrem := gen_read_admit_rem (rrem s) (cost_of rq i);
     lread := lread s ++ [i]; lcons := lcons s; rst := rst s |}.

Fixpoint rdispatch (rq : reqs) (K : Z) (v : list Z) (s : rstate) : rstate :=
  match v with
  | [] => s
  | i :: r =>
      if gen_read_full (zlen (rio s)) K then s
      else if memz i (pend s) &&
              gen_read_admit (zlen (rio s)) (zlen (cons s)) (cost_of rq i) (rrem s)
      then rdispatch rq K r (admit_read rq i s)
      else rdispatch rq K r s
  end.

Inductive revent :=
| RDispatch (v : list Z)
| RIoDone (i : Z)
| RConsDone (i : Z)
| RIoFail (i : Z)
| RConsFail (i : Z).

Definition rraise (s : rstate) : rstate :=
  {| pend := pend s; rio := rio s; cons := cons s; rdn := rdn s; rrem := rrem s;
     lread := lread s; lcons := lcons s; rst := Raised |}.

Definition rstep (rq : reqs) (K : Z) (s : rstate) (e : revent) : rstate :=
  match rst s with
  | Raised => s
  | Running =>
    match e with
    | RDispatch v => rdispatch rq K v s
    | RIoDone i =>
        if memz i (rio s) then
          {| pend := pend s; rio := remove1 i (rio s); cons := cons s ++ [i]; rdn := rdn s; rrem := rrem s;
             lread := lread s; lcons := lcons s ++ [i]; rst := rst s |}
        else s
    | RConsDone i =>
        if memz i (cons s) then
          {| pend := pend s; rio := rio s; cons := remove1 i (cons s); rdn := rdn s ++ [i];
             rrem := gen_read_done_rem (rrem s) (cost_of rq i);
             lread := lread s; lcons := lcons s; rst := rst s |}
        else s
    | RIoFail i => if memz i (rio s) then rraise s else s
    | RConsFail i => if memz i (cons s) then rraise s else s
    end
  end.

Definition rinit (rq : reqs) (B : Z) : rstate :=
  {| pend := ids_from (length rq); rio := []; cons := []; rdn := []; rrem := B;
     lread := []; lcons := []; rst := Running |}.
Definition rrun (rq : reqs) (K B : Z) (evs : list revent) : rstate := fold_left (rstep rq K) evs (rinit rq B).

Definition raccounted (rq : reqs) (s : rstate) : Z := sum_cost rq (rio s) + sum_cost rq (cons s).
Definition rinflight (s : rstate) : Z := zlen (rio s) + zlen (cons s).
Definition rfinal (s : rstate) : bool :=
  match pend s, rio s, cons s with [], [], [] => true | _, _, _ => false end.
Definition rmeasure (s : rstate) : Z := 2 * zlen (pend s) + 2 * zlen (rio s) + zlen (cons s).

(* ------------------------------------------------------------------ automatic budget *)
(* int(available * multiplier): the float literal's exact binary value is num/den *)
Definition available_budget (available : Z) : Z := available * gen_multiplier_num / gen_multiplier_den.
Definition auto_budget (available lws : Z) : Z := gen_auto_budget (available_budget available) lws gen_budget_cap.

(* ------------------------------------------------------------------ observations for the harness *)
Definition obs_status (s : status) : val := match s with Running => VZ 0 | Raised => VZ 1 end.
Definition obs_w (s : wstate) : val :=
  VL [vlistZ (rfs s); vlistZ (stg s); vlistZ (rfi s); vlistZ (io s); obs_status (wst s);
      vlistZ (lstage s); vlistZ (lwrite s)].

(* the harness supplies: requests, K, B, initial visit order, events (with the visit orders it observed) and
   the step indices at which the real code exposes its remaining budget (hand-off to PendingIOWork, end);
   the model answers with the state after every event and its budget at those indices *)
Fixpoint wstates (rq : reqs) (K : Z) (s : wstate) (evs : list wevent) : list wstate :=
  s :: match evs with [] => [] | e :: r => wstates rq K (wstep rq K s e) r end.
Definition obs_wrun (x : reqs * (Z * Z) * list Z * list wevent * list Z) : val :=
  let '(rq, (K, B), v0, evs, ridx) := x in
  let ss := wstates rq K (winit rq B v0) evs in
  VL [VL (map obs_w ss); vlistZ (map (fun k => rem (nth (Z.to_nat k) ss (winit rq B v0))) ridx)].

Definition obs_r (s : rstate) : val :=
  VL [vlistZ (pend s); vlistZ (rio s); vlistZ (cons s); obs_status (rst s);
      vlistZ (lread s); vlistZ (lcons s)].
Fixpoint rtrace (rq : reqs) (K : Z) (s : rstate) (evs : list revent) : list val :=
  match evs with
  | [] => []
  | e :: r => let s' := rstep rq K s e in obs_r s' :: rtrace rq K s' r
  end.
Definition obs_rrun (x : reqs * (Z * Z) * list revent) : val :=
  let '(rq, (K, B), evs) := x in VL (rtrace rq K (rinit rq B) evs).

Definition obs_auto_budget (x : Z * Z) : val := VZ (gen_auto_budget (fst x) (snd x) gen_budget_cap).
