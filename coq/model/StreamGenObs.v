(* C20: the generated stream methods and file programs (gen/StreamGen.v) wired into a step function and a store, with the
   observations used by the correspondence harness.  Executable definitions only. *)
From TS Require Import model.Base model.FsStream gen.StreamGen.

Definition lift (s : mvs) (r : sres) : mvs * sout :=
  match r with
  | SRet out p => ({| mv_data := mv_data s; mv_pos := p; mv_closed := mv_closed s |}, out)
  | SRaise k => (s, if k =? 2 then OValueError else ONone)
  end.

(* one step of the generated stream; close() is io.IOBase's (sets the closed flag) *)
Definition g_step (s : mvs) (o : sop) : mvs * sout :=
  match o with
  | SClose => ({| mv_data := mv_data s; mv_pos := mv_pos s; mv_closed := true |}, ONone)
  | SRead n => lift s (g_mvs_read (mv_data s) (mv_pos s) (mv_closed s) n)
  | SSeek p w => lift s (g_mvs_seek (mv_data s) (mv_pos s) (mv_closed s) p w)
  | STell => lift s (g_mvs_tell (mv_data s) (mv_pos s) (mv_closed s))
  end.

Definition run_gen (d : bytes) := run g_step {| mv_data := d; mv_pos := 0; mv_closed := false |}.

(* observations over the generated terms *)
Definition obs_stream_gen (x : bytes * list sop) : val := VL (map obs_out (run_gen (fst x) (snd x))).

(* a storage scenario run through the generated write/read programs: each write replaces the path's content by
   g_fs_write (previous content) buf; each read applies g_fs_read to the stored content *)
Definition obs_fs_gen (x : list (path * bytes) * list (path * option (Z * Z))) : val :=
  let s := fold_left (fun s w => fs_write s (fst w) (g_fs_write (fs_lookup s (fst w)) (snd w))) (fst x) [] in
  VL (map (fun r => vopt vlistZ (option_map (fun d => g_fs_read d (snd r)) (fs_lookup s (fst r)))) (snd x)).
