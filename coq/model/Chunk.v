(* C16 (part 1): chunking (io_preparers/chunked_tensor.py chunk_tensor), shard subdivision
   (io_preparers/sharded_tensor.py subdivide_shard) and tiled reads (io_preparers/tensor.py
   prepare_read_tiled).  Executable definitions only.

   A piece ("box") is (offsets, sizes), one entry per dimension.  dim is a list position (nat):
   Python's negative dims are not modelled. *)
From TS Require Import model.Base.

Definition box := (list Z * list Z)%type.

Definition zrange (n : Z) : list Z := map Z.of_nat (seq 0 (Z.to_nat n)).

(* ------------------------------------------------------------------ torch.chunk (external) *)
(* Piece lengths of torch.chunk(t, chunks=n, dim) along a dim of extent d.  torch is not part of the
   code under verification: this definition is validated exhaustively against real torch by the
   harness on every run (d <= 40, n <= 50).
     n <= 0           : RuntimeError "chunk expects `chunks` to be greater than 0"      -> None
     d = 0            : n empty pieces
     otherwise        : cs = ceil(d / n); ceil(d / cs) pieces of length cs, the last one shorter *)
Fixpoint chunk_lens (fuel : nat) (rem cs : Z) : list Z :=
  match fuel with
  | O => []
  | S f => if rem <=? 0 then [] else Z.min cs rem :: chunk_lens f (rem - cs) cs
  end.

Definition torch_chunk (d n : Z) : option (list Z) :=
  if n <=? 0 then None
  else if d <=? 0 then Some (repeat 0 (Z.to_nat n))
  else Some (chunk_lens (Z.to_nat d) d (cdiv d n)).

(* ------------------------------------------------------------------ boxes along one dim *)
Fixpoint set_nth (i : nat) (v : Z) (l : list Z) : list Z :=
  match l, i with
  | [], _ => []
  | _ :: r, O => v :: r
  | x :: r, S j => x :: set_nth j v r
  end.

(* the loop of chunk_tensor: offsets[dim] runs from cur in steps of the piece length; sizes = the
   whole shape with sizes[dim] replaced by the piece length; every other coordinate is copied *)
Fixpoint boxes_along (dim : nat) (offs sizes : list Z) (cur : Z) (lens : list Z) : list box :=
  match lens with
  | [] => []
  | l :: ls => (set_nth dim cur offs, set_nth dim l sizes) :: boxes_along dim offs sizes (cur + l) ls
  end.

(* is the index vector idx inside the box (offs, sizes)?  (lengths must agree) *)
Fixpoint in_boxb (idx offs sizes : list Z) : bool :=
  match idx, offs, sizes with
  | [], [], [] => true
  | x :: idx', o :: offs', s :: sizes' => (o <=? x) && (x <? o + s) && in_boxb idx' offs' sizes'
  | _, _, _ => false
  end.
Definition in_piece (idx : list Z) (p : box) : bool := in_boxb idx (fst p) (snd p).

(* ------------------------------------------------------------------ chunk_tensor *)
(* ChunkedTensorIOPreparer.chunk_tensor(tensor, chunking_dim, chunk_sz_bytes):
     0-d tensors are viewed as shape [1];
     n_chunks = math.ceil(tensor_sz_bytes / chunk_sz_bytes);  torch.chunk along chunking_dim;
     offsets accumulate along chunking_dim.
   chunk_sz_bytes <= 0 is outside the model (0/None selects the knob default): None.
   A zero-element tensor gives n_chunks = 0 and torch.chunk raises: None. *)
Definition shape1 (shape : list Z) : list Z := match shape with [] => [1] | _ => shape end.

Definition chunk_tensor (shape : list Z) (dim : nat) (esize csz : Z) : option (list box) :=
  let sh := shape1 shape in
  if csz <=? 0 then None
  else if (length sh <=? dim)%nat then None
  else
    let tensor_sz_bytes := prodZ sh * esize in
    let n_chunks := cdiv tensor_sz_bytes csz in
    match torch_chunk (nth dim sh 0) n_chunks with
    | None => None
    | Some lens => Some (boxes_along dim (map (fun _ => 0) sh) sh 0 lens)
    end.

(* ------------------------------------------------------------------ subdivide_shard *)
(* ShardedTensorIOPreparer.subdivide_shard(shard, offsets, sizes, dim, max_shard_sz_bytes), line by line:
     max_shard_sz_bytes <= 0                      -> ValueError          (None)
     slice_sz = reduce(mul, sizes) // sizes[dim] * element_size   ; sizes[dim] = 0 -> ZeroDivisionError (None)
     chunk_length = max(math.floor(max / slice_sz), 1)            ; slice_sz   = 0 -> ZeroDivisionError (None)
     n_chunks = math.ceil(sizes[dim] / chunk_length)
     piece i: start = i*chunk_length, length = min((i+1)*chunk_length, sizes[dim]) - i*chunk_length *)
Definition subdivide_shard (offs sizes : list Z) (dim : nat) (esize maxsz : Z) : option (list box) :=
  if maxsz <=? 0 then None
  else if (length sizes <=? dim)%nat then None
  else
    let sd := nth dim sizes 0 in
    if sd =? 0 then None
    else
      let slice_sz := prodZ sizes / sd * esize in
      if slice_sz =? 0 then None
      else
        let chunk_length := Z.max (maxsz / slice_sz) 1 in
        let n_chunks := cdiv sd chunk_length in
        Some (map (fun i =>
                     let start := i * chunk_length in
                     let len := Z.min ((i + 1) * chunk_length) sd - i * chunk_length in
                     (set_nth dim (nth dim offs 0 + start) offs, set_nth dim len sizes))
                  (zrange n_chunks)).

(* ------------------------------------------------------------------ prepare_read_tiled *)
(* TensorIOPreparer.prepare_read_tiled(entry, tensor_out, buffer_size_limit_bytes):
     num_chunks = max(ceil(size_from_entry / limit), 1)
     flat = tensor_out.view(-1) succeeds (always for 0-d, contiguous and zero-element tensors):
        torch.chunk over the flattened tensor (extent = number of elements), chunk shape [l]
     otherwise torch.chunk along dim 0 of the original shape, chunk shape l :: rest
     byte ranges run consecutively from base (= entry.byte_range[0], or 0 when the entry has none);
     each is nelement(chunk) * element_size long.
   A tile is (lo, hi, chunk shape).  limit <= 0 is outside the model: None. *)
Definition tile_t := (Z * Z * list Z)%type.

Fixpoint tile_ranges (esize : Z) (rest : list Z) (cur : Z) (lens : list Z) : list tile_t :=
  match lens with
  | [] => []
  | l :: ls => let b := l * prodZ rest * esize in
               (cur, cur + b, l :: rest) :: tile_ranges esize rest (cur + b) ls
  end.

Definition tile (shape : list Z) (flat : bool) (esize limit base : Z) : option (list tile_t) :=
  if limit <=? 0 then None
  else
    let size := esize * prodZ shape in
    let n := Z.max (cdiv size limit) 1 in
    let dr := if flat then Some (prodZ shape, [])
              else match shape with [] => None | d :: r => Some (d, r) end in
    match dr with
    | None => None
    | Some (d, rest) =>
        match torch_chunk d n with
        | None => None
        | Some lens => Some (tile_ranges esize rest base lens)
        end
    end.

(* ------------------------------------------------------------------ observations *)
Definition obs_box (b : box) : val := VL [vlistZ (fst b); vlistZ (snd b)].
Definition obs_boxes (o : option (list box)) : val := vopt (fun l => VL (map obs_box l)) o.
Definition obs_tile1 (t : tile_t) : val := let '(lo, hi, sh) := t in VL [VZ lo; VZ hi; vlistZ sh].
Definition obs_tiles (o : option (list tile_t)) : val := vopt (fun l => VL (map obs_tile1 l)) o.

Definition obs_torch_chunk (x : Z * Z) : val := vopt vlistZ (torch_chunk (fst x) (snd x)).

(* threshold sweeps: run f for every threshold t = 1 .. tmax and run-length-encode the results, so
   that one small literal covers every threshold *)
Fixpoint rle (l : list val) : list (Z * val) :=
  match l with
  | [] => []
  | x :: r => match rle r with
              | (k, y) :: r' => if val_eqb x y then (k + 1, y) :: r' else (1, x) :: (k, y) :: r'
              | [] => [(1, x)]
              end
  end.
Definition obs_sweep (f : Z -> val) (tmax : Z) : val :=
  VL (map (fun kv => VL [VZ (fst kv); snd kv]) (rle (map (fun i => f (i + 1)) (zrange tmax)))).

(* (shape, dim, esize, tmax) *)
Definition obs_chunk_sweep (x : list Z * nat * Z * Z) : val :=
  let '(shape, dim, esize, tmax) := x in
  obs_sweep (fun t => obs_boxes (chunk_tensor shape dim esize t)) tmax.

(* (offsets, sizes, dim, esize, tmax) *)
Definition obs_subdivide_sweep (x : list Z * list Z * nat * Z * Z) : val :=
  let '(offs, sizes, dim, esize, tmax) := x in
  obs_sweep (fun t => obs_boxes (subdivide_shard offs sizes dim esize t)) tmax.

(* (shape, flat, esize, base, tmax) *)
Definition obs_tile_sweep (x : list Z * bool * Z * Z * Z) : val :=
  let '(shape, flat, esize, base, tmax) := x in
  obs_sweep (fun t => obs_tiles (tile shape flat esize t base)) tmax.
