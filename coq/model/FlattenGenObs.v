(* C15: observations over the terms generated from flatten.py (gen/FlattenGen.v, gen/FlattenRecGen.v), used by the
   correspondence harness; and the two wrappers that close the generated functions:
     - the fuel handed to the generated _flatten: one more than the nesting depth of the object (structural);
     - reading the reference returned by the generated inflate back as a value ([FlattenPy.resolve]).
   Executable definitions only. *)
From TS Require Import model.Base model.Flatten model.FlattenPy gen.FlattenGen gen.FlattenRecGen.

(* nesting depth of list / dict / OrderedDict objects (every dict counts, flattened or kept whole) *)
Fixpoint obj_depth (o : obj) : nat :=
  match o with
  | Leaf _ => O
  | OList xs => S (fold_right (fun x a => Nat.max (obj_depth x) a) O xs)
  | ODict _ kvs => S (fold_right (fun kv a => Nat.max (obj_depth (snd kv)) a) O kvs)
  end.

(* flatten(obj, prefix) as generated, with enough fuel for the recursion of _flatten *)
Definition flatten_run_gen (o : obj) (prefix : pystr) : option (sdict entry * sdict obj) :=
  flatten_top_gen (S (obj_depth o)) o prefix.

(* inflate(manifest, flattened, prefix) as generated, the returned object read back from the heap of containers *)
Definition inflate_run_gen (m : sdict entry) (lm : sdict obj) (prefix : pystr) : option obj :=
  hr <- inflate_gen m lm prefix ;; resolve (S (length (fst hr))) (fst hr) (snd hr).

Definition obs_flatten_gen (x : obj * pystr) : val :=
  vopt (fun r : sdict entry * sdict obj =>
          VL [VL (map (fun e => VL [vlistZ (fst e); obs_entry (snd e)]) (fst r));
              VL (map (fun e => VL [vlistZ (fst e); obs_obj (snd e)]) (snd r))])
       (flatten_run_gen (fst x) (snd x)).

Definition obs_inflate_gen (x : list (pystr * entry) * list (pystr * obj) * pystr) : val :=
  vopt obs_obj (inflate_run_gen (fst (fst x)) (snd (fst x)) (snd x)).

Definition obs_roundtrip_gen (x : obj * pystr) : val :=
  vopt obs_obj (r <- flatten_run_gen (fst x) (snd x) ;; inflate_run_gen (fst r) (snd r) (snd x)).

(* _entry_to_container(entry): the fresh container (its values are all None) *)
Definition obs_cont (c : cont ref) : val :=
  match c with
  | CList xs => VL [VZ 1; VL (map (fun r => vopt obs_obj (resolve 0 [] r)) xs)]
  | CDict ord kvs => VL [VZ 2; vbool ord; VL (map (fun kv => VL [obs_key (fst kv); vopt obs_obj (resolve 0 [] (snd kv))]) kvs)]
  end.
Definition obs_entry_to_container_gen (e : entry) : val := vopt obs_cont (entry_to_container_gen e).

(* _populate_container(path, container, values) on a container without nested containers: values are plain objects *)
Definition obs_populate_gen (x : entry * list (pystr * obj)) : val :=
  vopt obs_cont (c <- entry_to_container_gen (fst x) ;; populate_container_gen [] c (leaf_items (snd x))).
