(* C01: observations over the terms generated from snapshot.py (gen/GlueGen.v), used by the correspondence harness, and the
   concrete ONE-RANK world in which they run.  Executable definitions only.

   [world1] is a job of one rank: collectives return what the rank contributed, the partitioner and the consolidation
   leave the rank's entries alone, the batchers are the identity (entries are compared modulo relocation), the per-rank
   view of the global manifest strips the "<rank>/" prefix, and reading an entry back looks its location up in the store.
   proofs/GlueInst.v shows that [world1] satisfies every law the theorems of props/C01.v assume of a world.
   Leaf ids carry their kind: id mod 3 = 0 a tensor, 1 a primitive that is inlined, 2 any other object. *)
From TS Require Import model.Base model.Flatten model.FlattenPy model.StoragePath model.FlattenGenObs model.Glue gen.GlueGen.

Definition leaf_id (o : obj) : option Z := match o with Leaf l => Some l | _ => None end.
Definition kind_is (k : Z) (o : obj) : bool := match o with Leaf l => l mod 3 =? k | _ => false end.

Definition pair_memb (p g : pystr) (t : list (pystr * pystr)) : bool :=
  existsb (fun x => str_eqb (fst x) p && str_eqb (snd x) g) t.

(* get_manifest_for_rank on a job whose ranks hold no sharded entries, for rank < world size: the rank's own entries
   (replicated entries of a one-rank job are the rank's own) *)
Definition view1 (md : metadata) (rank : Z) : sdict mentry :=
  flat_map (fun kv => match py_split1 (fst kv) with
                      | Some (rs, lp) => match parse_int rs with
                                         | Some r => if r =? rank then [(lp, snd kv)] else []
                                         | None => []
                                         end
                      | None => []
                      end) (md_manifest md).

(* fnmatch table: the (path, pattern) pairs that match (computed by the harness with the real fnmatch) *)
Definition world1 (nobatch : bool) (table : list (pystr * pystr)) : world :=
  mkWorld 0 1 nobatch 1000 2000
    (kind_is 1) (kind_is 0) (fun _ => false)
    (fun A x => [x])
    (fun fl globs => filter (fun p => existsb (fun g => pair_memb p g table) globs) (sdict_keys fl))
    (fun es ws => Some (es, ws))
    (fun es ws => (es, ws))
    (fun ms => Some ms)
    (fun md r => (view1 md r, []))
    (fun m _ _ => m)
    (fun rs => rs)
    (fun st l => match l with LObj loc None _ => sdict_get loc st | _ => None end).

(* ------------------------------------------------------------------ inputs *)
(* one stateful: key, (identity, is RNGState, what state_dict() returns) *)
Definition sf_in := (pystr * (Z * bool * obj))%type.
Definition mk_app (l : list sf_in) : sdict stateful :=
  sdict_of_list (map (fun x => (fst x, mkSf (fst (fst (snd x))) (snd (snd x)) (snd (fst (snd x))) false)) l).
(* app state, replication globs, fnmatch table, batching disabled *)
Definition take_in := (list sf_in * list pystr * list (pystr * pystr) * bool)%type.
Definition ti_app (x : take_in) := fst (fst (fst x)).
Definition ti_globs (x : take_in) := snd (fst (fst x)).
Definition ti_world (x : take_in) : world := world1 (snd x) (snd (fst x)).

(* Snapshot.take = _take_impl + completion of the pending I/O + the metadata commit (C02/C14 are the subject of the commit
   and of the metadata round trip): the snapshot a later Snapshot(path) sees *)
Definition take_run (x : take_in) : option (snapshot * effects) :=
  r <- take_impl_gen (ti_world x) [] (mk_app (ti_app x)) (ti_globs x) [] false None fx0 ;;
  Some (mkSnap (snd (fst r)) (fst (fst r)), snd r).

(* ------------------------------------------------------------------ observations *)
Definition obs_lentry (with_loc : bool) (l : lentry) : val :=
  match l with
  | LPrim v r => VL [VZ 4; vbool r; obs_obj v]
  | LObj loc _ r => VL [VZ 3; vbool r; if with_loc then vlistZ loc else VL []]
  end.
Definition obs_mentry (with_loc : bool) (e : mentry) : val :=
  match e with MCont c => obs_entry c | MLeaf l => obs_lentry with_loc l end.
Definition obs_manifest (with_loc : bool) (m : sdict mentry) : val :=
  VL (map (fun kv => VL [vlistZ (fst kv); obs_mentry with_loc (snd kv)]) (py_sorted_str (fun kv : pystr * mentry => fst kv) m)).
Definition obs_load (l : load_ev) : val := VL [VZ (ld_id l); obs_obj (ld_state l); vopt vbool (ld_strict l)].
Definition obs_wcall (c : wcall) : val :=
  VL [obs_obj (wc_obj c); vlistZ (wc_path c); VZ (wc_rank c); vbool (wc_replicated c); vbool (wc_async c)].

(* the global manifest of the snapshot take wrote (paths sorted), the prepare_write calls, take's own load_state_dict
   calls (the RNG state is re-applied) *)
Definition obs_take (x : take_in) : val :=
  vopt (fun r : snapshot * effects =>
          VL [obs_manifest (snd x) (md_manifest (snap_metadata (fst r)));
              VL (map obs_wcall (py_sorted_str (fun c => wc_path c) (fx_writes (snd r))));
              VL (map obs_load (fx_loads (snd r)))])
       (take_run x).

(* logical path of a stored entry in a view *)
Definition path_of (view : sdict mentry) (e : mentry) : pystr :=
  match e with
  | MLeaf l => match find (fun kv => match snd kv with MLeaf l' => lentry_eqb l' l | _ => false end) view with
               | Some kv => fst kv
               | None => []
               end
  | MCont _ => []
  end.

(* take, then restore into the targets: what each load_state_dict received (in call order), and the in-place target of
   every prepare_read of a stored (non-inline) entry, by logical path (stable sort: per path in call order) *)
Definition obs_take_restore (x : take_in * list sf_in * bool) : val :=
  let tin := fst (fst x) in
  vopt (fun fxr : sdict mentry * effects =>
          VL [VL (map obs_load (fx_loads (snd fxr)));
              VL (map (fun po : pystr * option obj => VL [vlistZ (fst po); vopt obs_obj (snd po)])
                    (py_sorted_str (fun po : pystr * option obj => fst po)
                       (flat_map (fun eo : mentry * option obj =>
                                    if is_primitive_entry (fst eo) then [] else [(path_of (fst fxr) (fst eo), snd eo)])
                                 (fx_preps (snd fxr)))))])
       (r <- take_run tin ;;
        fxr <- restore_gen (ti_world tin) (fst r) (mk_app (snd (fst x))) (snd x) fx0 ;;
        Some (fst (w_manifest_for_rank (ti_world tin) (snap_metadata (fst r)) 0), fxr)).

(* take, then read_object(path) with no obj_out and no budget *)
Definition obs_read_object (x : take_in * pystr) : val :=
  vopt obs_obj
       (r <- take_run (fst x) ;;
        o <- read_object_gen (ti_world (fst x)) (fst r) (snd x) None None fx0 ;;
        Some (fst o)).
