(* C13: the store-based commit barrier of async_take.
   dist_store.py  LinearBarrier.arrive / depart / report_error  and
   snapshot.py    PendingSnapshot._complete_snapshot
   as a transition system: one step = one store operation, one I/O completion or one metadata write of
   one background thread (rank) of one snapshot instance.

   Timeouts ARE modelled: a rank blocked in (or about to enter) a store.wait - the leader waiting for the peers'
   keys in arrive, a peer waiting for the leader's key in depart - may at any time take a TIMEOUT step, also
   spuriously (while the awaited keys are present or about to be set): store.wait raises, the exception leaves
   arrive/depart, is caught by `except Exception` in _complete_snapshot (pc PHandler), whose next step is
   barrier.report_error (store.set of this rank's key to an error text); exc_info is recorded and the rank ends
   in PRaised.  Ranks that are ABSENT from the protocol (they raised inside async_take itself, before their
   background thread and barrier existed) never take a step and never set a key (pc PAbsent).
   Executable definitions only. *)
From TS Require Import model.Base.

(* ------------------------------------------------------------------ the job-wide key/value store *)
Inductive value := VOk     (* the empty string: "arrived" / "departed" *)
                 | VErr.   (* a non-empty string: "Rank r encountered error: ..." *)

(* a key is  f"{prefix}_{rank}" : (prefix id, rank) *)
Definition key := (Z * Z)%type.
Definition key_eqb (a b : key) : bool := (fst a =? fst b) && (snd a =? snd b).

(* finite map, newest binding first; keys are never deleted (dist.Store has no delete in this protocol) *)
Definition store := list (key * value).

Fixpoint st_get (s : store) (k : key) : option value :=
  match s with
  | [] => None
  | (k', v) :: s' => if key_eqb k' k then Some v else st_get s' k
  end.

Definition st_set (s : store) (k : key) (v : value) : store := (k, v) :: s.

Definition st_has (s : store) (k : key) : bool :=
  match st_get s k with Some _ => true | None => false end.

(* ------------------------------------------------------------------ structural skeleton of the code
   (what translator/gen_barrier.py extracts from the source on every run; proofs/BarrierInst.v checks that the
   extracted skeleton is this one) *)
Inductive BarrierTarget := KPeers | KOwn | KLeader.
Inductive BarrierOnErr := RaiseOnly | ReportThenRaise.
(* second argument of store.wait: the `timeout` parameter of arrive/depart, or none (the store's own default) *)
Inductive BarrierWaitTimeout := WTimeoutArg | WStoreDefault.
Inductive BarrierOp :=
| BWait (t : BarrierTarget) (w : BarrierWaitTimeout)  (* store.wait(keys of t, timeout) - raises when the timeout expires *)
| BGetEach (t : BarrierTarget) (e : BarrierOnErr)  (* for key in keys of t: err = store.get(key); if len(err) != 0: [report_error;] raise *)
| BGet (t : BarrierTarget) (e : BarrierOnErr)      (* err = store.get(key of t); if len(err) != 0: [report_error;] raise *)
| BSet (t : BarrierTarget) (v : value).            (* store.set(key of t, "" | error text) *)
Inductive BarrierStmt := CSyncComplete | CArrive | CIfRank0WriteMeta | CDepart | CReportError
                       | CRecordExcInfo.          (* self.exc_info = sys.exc_info() *)
(* how _complete_snapshot calls arrive/depart: timeout=self.DEFAULT_BARRIER_TIMEOUT (a timedelta class
   attribute of PendingSnapshot), or anything else *)
Inductive BarrierTimeoutArg := TDefaultBarrierTimeout | TOther.
Inductive BarrierCatch := CatchException | CatchOther.

Record BarrierSkeleton := {
  sk_arrive_leader : list BarrierOp;
  sk_arrive_peer : list BarrierOp;
  sk_depart_leader : list BarrierOp;
  sk_depart_peer : list BarrierOp;
  sk_report_error : list BarrierOp;
  sk_try : list BarrierStmt;
  sk_catch : BarrierCatch;                 (* `except Exception` around the whole try body *)
  sk_except : list BarrierStmt;            (* the handler, in order *)
  sk_arrive_timeout : BarrierTimeoutArg;   (* barrier.arrive(timeout=...) *)
  sk_depart_timeout : BarrierTimeoutArg;   (* barrier.depart(timeout=...) *)
  sk_leader_rank : Z }.

Definition model_skeleton : BarrierSkeleton := {|
  sk_arrive_leader := [BWait KPeers WTimeoutArg; BGetEach KPeers ReportThenRaise];
  sk_arrive_peer := [BSet KOwn VOk];
  sk_depart_leader := [BSet KLeader VOk];
  sk_depart_peer := [BWait KLeader WTimeoutArg; BGet KLeader RaiseOnly];
  sk_report_error := [BSet KOwn VErr];
  sk_try := [CSyncComplete; CArrive; CIfRank0WriteMeta; CDepart];
  sk_catch := CatchException;
  sk_except := [CReportError; CRecordExcInfo];
  sk_arrive_timeout := TDefaultBarrierTimeout;
  sk_depart_timeout := TDefaultBarrierTimeout;
  sk_leader_rank := 0 |}.

(* the store.wait sites of a skeleton: who can be blocked where (and therefore: who can time out where) *)
Inductive BarrierRole := RLeader | RPeer.
Inductive BarrierPhase := PhArrive | PhDepart.
Definition WaitSite := (BarrierRole * BarrierPhase * BarrierTarget * BarrierWaitTimeout)%type.

Definition waits_of (ro : BarrierRole) (ph : BarrierPhase) (ops : list BarrierOp) : list WaitSite :=
  flat_map (fun o => match o with BWait t w => [(ro, ph, t, w)] | _ => [] end) ops.

Definition wait_sites (sk : BarrierSkeleton) : list WaitSite :=
  waits_of RLeader PhArrive (sk_arrive_leader sk) ++ waits_of RPeer PhArrive (sk_arrive_peer sk) ++
  waits_of RLeader PhDepart (sk_depart_leader sk) ++ waits_of RPeer PhDepart (sk_depart_peer sk).

(* what happens to an exception raised by a store.wait of arrive/depart, as far as the skeleton says: both calls
   are statements of the try body, the handler catches Exception, reports first and records exc_info *)
Definition timeout_is_reported (sk : BarrierSkeleton) : bool :=
  existsb (fun s => match s with CArrive => true | _ => false end) (sk_try sk) &&
  existsb (fun s => match s with CDepart => true | _ => false end) (sk_try sk) &&
  match sk_catch sk with CatchException => true | CatchOther => false end &&
  match sk_except sk with [CReportError; CRecordExcInfo] => true | _ => false end &&
  match sk_report_error sk with [BSet KOwn VErr] => true | _ => false end &&
  match sk_arrive_timeout sk, sk_depart_timeout sk with TDefaultBarrierTimeout, TDefaultBarrierTimeout => true | _, _ => false end.

(* ------------------------------------------------------------------ one snapshot instance *)
(* program counter of one rank's background thread: the NEXT thing it does *)
Inductive pc :=
| PIo              (* pending_io_work.sync_complete(event_loop) *)
| PArrive          (* leader: store.wait(peer keys, timeout)   peer: store.set(own key, "") *)
| PGet (k : nat)   (* leader, inside arrive: store.get(key of peer k) *)
| PErrReport       (* leader, inside arrive after reading an error: self.report_error(...) then raise *)
| PMeta            (* leader: Snapshot._write_snapshot_metadata *)
| PDepart          (* leader: store.set(leader key, "")        peer: store.wait([leader key], timeout) *)
| PDepartGet       (* peer: store.get(leader key) *)
| PHandler         (* except handler: barrier.report_error(str(e)) *)
| PDone            (* _complete_snapshot returned with exc_info = None: wait() succeeds *)
| PRaised          (* _complete_snapshot returned with exc_info set:    wait() raises *)
| PAbsent.         (* this rank raised inside async_take: no background thread, no barrier, no PendingSnapshot *)

Record inst := {
  i_prefix : Z;               (* id of the barrier prefix string f"torchsnapshot_{path}_{barrier_id}" *)
  i_W : nat;                  (* world size *)
  i_iofail : list nat;        (* fault plan: ranks whose sync_complete raises *)
  i_metafail : bool;          (* fault plan: the leader's metadata write raises *)
  i_absent : list nat;        (* fault plan: ranks that never enter the protocol *)
  i_pcs : nat -> pc;          (* per-rank program counter *)
  i_meta : bool;              (* .snapshot_metadata written *)
  i_iodone : nat -> bool;     (* per rank: sync_complete returned normally *)
  i_tmo : nat -> bool }.      (* per rank (history variable): one of its store.wait calls timed out *)

Definition iofails (x : inst) (r : nat) : bool := existsb (Nat.eqb r) (i_iofail x).
Definition absent (x : inst) (r : nat) : bool := existsb (Nat.eqb r) (i_absent x).

Definition set_pc (x : inst) (r : nat) (p : pc) : inst :=
  {| i_prefix := i_prefix x; i_W := i_W x; i_iofail := i_iofail x; i_metafail := i_metafail x;
     i_absent := i_absent x;
     i_pcs := fun r' => if Nat.eqb r' r then p else i_pcs x r';
     i_meta := i_meta x; i_iodone := i_iodone x; i_tmo := i_tmo x |}.

Definition set_iodone (x : inst) (r : nat) : inst :=
  {| i_prefix := i_prefix x; i_W := i_W x; i_iofail := i_iofail x; i_metafail := i_metafail x;
     i_absent := i_absent x;
     i_pcs := i_pcs x; i_meta := i_meta x;
     i_iodone := fun r' => if Nat.eqb r' r then true else i_iodone x r'; i_tmo := i_tmo x |}.

Definition set_meta (x : inst) : inst :=
  {| i_prefix := i_prefix x; i_W := i_W x; i_iofail := i_iofail x; i_metafail := i_metafail x;
     i_absent := i_absent x;
     i_pcs := i_pcs x; i_meta := true; i_iodone := i_iodone x; i_tmo := i_tmo x |}.

Definition set_tmo (x : inst) (r : nat) : inst :=
  {| i_prefix := i_prefix x; i_W := i_W x; i_iofail := i_iofail x; i_metafail := i_metafail x;
     i_absent := i_absent x;
     i_pcs := i_pcs x; i_meta := i_meta x; i_iodone := i_iodone x;
     i_tmo := fun r' => if Nat.eqb r' r then true else i_tmo x r' |}.

Definition kz (x : inst) (r : nat) : key := (i_prefix x, Z.of_nat r).
Definition peers (W : nat) : list nat := seq 1 (W - 1).
Definition all_present (st : store) (x : inst) (rs : list nat) : bool :=
  forallb (fun r => st_has st (kz x r)) rs.

(* what a step did, as seen at the store / storage seam *)
Inductive op :=
| OIo (ok : bool)
| OSet (p : Z) (r : nat) (v : value)
| OWait (p : Z) (rs : list nat)
| OGet (p : Z) (r : nat) (v : value)
| OMeta (ok : bool)
| OTimeout (p : Z) (rs : list nat).    (* store.wait(keys of rs under prefix p, timeout) raised *)

(* one NORMAL step of rank r of instance x against the store; None = not enabled (blocked wait, finished rank,
   absent rank, rank outside the world) *)
Definition istep (st : store) (x : inst) (r : nat) : option (store * inst * op) :=
  if negb (r <? i_W x)%nat then None else
  let p := i_prefix x in
  match i_pcs x r with
  | PIo =>
      if iofails x r then Some (st, set_pc x r PHandler, OIo false)
      else Some (st, set_iodone (set_pc x r PArrive) r, OIo true)
  | PArrive =>
      if Nat.eqb r 0 then
        if all_present st x (peers (i_W x))
        then Some (st, set_pc x r (if (1 <? i_W x)%nat then PGet 1 else PMeta), OWait p (peers (i_W x)))
        else None
      else Some (st_set st (kz x r) VOk, set_pc x r PDepart, OSet p r VOk)
  | PGet k =>
      match st_get st (kz x k) with
      | None => None
      | Some VOk => Some (st, set_pc x r (if (S k <? i_W x)%nat then PGet (S k) else PMeta), OGet p k VOk)
      | Some VErr => Some (st, set_pc x r PErrReport, OGet p k VErr)
      end
  | PErrReport => Some (st_set st (kz x r) VErr, set_pc x r PHandler, OSet p r VErr)
  | PMeta =>
      if i_metafail x then Some (st, set_pc x r PHandler, OMeta false)
      else Some (st, set_meta (set_pc x r PDepart), OMeta true)
  | PDepart =>
      if Nat.eqb r 0 then Some (st_set st (kz x 0) VOk, set_pc x r PDone, OSet p 0 VOk)
      else if st_has st (kz x 0) then Some (st, set_pc x r PDepartGet, OWait p [0%nat]) else None
  | PDepartGet =>
      match st_get st (kz x 0) with
      | None => None
      | Some VOk => Some (st, set_pc x r PDone, OGet p 0 VOk)
      | Some VErr => Some (st, set_pc x r PHandler, OGet p 0 VErr)
      end
  | PHandler => Some (st_set st (kz x r) VErr, set_pc x r PRaised, OSet p r VErr)
  | PDone | PRaised | PAbsent => None
  end.

(* the TIMEOUT step of rank r: enabled exactly when r's next operation is a store.wait (whether or not the awaited
   keys are present): the wait raises, control is in the except handler of _complete_snapshot, whose next step
   (istep at PHandler) is report_error = store.set(own key, error text), after which the rank is PRaised *)
Definition itimeout (st : store) (x : inst) (r : nat) : option (store * inst * op) :=
  if negb (r <? i_W x)%nat then None else
  let p := i_prefix x in
  match i_pcs x r with
  | PArrive => if Nat.eqb r 0 then Some (st, set_tmo (set_pc x r PHandler) r, OTimeout p (peers (i_W x))) else None
  | PDepart => if Nat.eqb r 0 then None else Some (st, set_tmo (set_pc x r PHandler) r, OTimeout p [0%nat])
  | _ => None
  end.

(* the wait site at which rank r stands, if any (cf. wait_sites model_skeleton) *)
Definition site_of (r : nat) (p : pc) : option (BarrierRole * BarrierPhase) :=
  match p with
  | PArrive => if Nat.eqb r 0 then Some (RLeader, PhArrive) else None
  | PDepart => if Nat.eqb r 0 then None else Some (RPeer, PhDepart)
  | _ => None
  end.

Inductive kind := KStep | KTimeout.

Definition iact (k : kind) (st : store) (x : inst) (r : nat) : option (store * inst * op) :=
  match k with KStep => istep st x r | KTimeout => itimeout st x r end.

(* ------------------------------------------------------------------ a job: store + history of instances *)
Record gstate := { g_store : store; g_insts : list inst }.

Fixpoint upd {A} (l : list A) (n : nat) (x : A) : list A :=
  match l, n with
  | [], _ => []
  | _ :: t, O => x :: t
  | h :: t, S n' => h :: upd t n' x
  end.

(* a scheduler choice: (instance index, rank, normal step | timeout) *)
Definition choice := (nat * nat * kind)%type.
Definition c_inst (c : choice) : nat := fst (fst c).
Definition c_rank (c : choice) : nat := snd (fst c).
Definition c_kind (c : choice) : kind := snd c.
Definition is_timeout (c : choice) : bool := match c_kind c with KTimeout => true | KStep => false end.

(* a schedule without timeouts, written as (instance, rank) pairs *)
Definition steps (l : list (nat * nat)) : list choice := map (fun c => (c, KStep)) l.

Definition gstep (s : gstate) (c : choice) : gstate * option op :=
  match nth_error (g_insts s) (c_inst c) with
  | None => (s, None)
  | Some x =>
      match iact (c_kind c) (g_store s) x (c_rank c) with
      | None => (s, None)
      | Some (st', x', o) => ({| g_store := st'; g_insts := upd (g_insts s) (c_inst c) x' |}, Some o)
      end
  end.

Fixpoint grun (s : gstate) (sch : list choice) : gstate :=
  match sch with
  | [] => s
  | c :: sch' => grun (fst (gstep s c)) sch'
  end.

(* specification of one snapshot in a history: prefix id, world size, fault plan *)
Record spec := { sp_prefix : Z; sp_W : nat; sp_iofail : list nat; sp_metafail : bool; sp_absent : list nat }.

Definition mk_inst (sp : spec) : inst :=
  {| i_prefix := sp_prefix sp; i_W := sp_W sp; i_iofail := sp_iofail sp; i_metafail := sp_metafail sp;
     i_absent := sp_absent sp;
     i_pcs := fun r => if existsb (Nat.eqb r) (sp_absent sp) then PAbsent else PIo;
     i_meta := false; i_iodone := fun _ => false; i_tmo := fun _ => false |}.

Definition ginit (st0 : store) (h : list spec) : gstate :=
  {| g_store := st0; g_insts := map mk_inst h |}.

(* the background thread has finished: _complete_snapshot returned *)
Definition terminated (p : pc) : bool := match p with PDone | PRaised => true | _ => false end.
(* a background thread exists and has not finished *)
Definition live (p : pc) : bool := match p with PDone | PRaised | PAbsent => false | _ => true end.

Definition enabled (s : gstate) (c : choice) : bool :=
  match snd (gstep s c) with Some _ => true | None => false end.

(* no rank of instance i can take a normal step *)
Definition quiescent_inst (s : gstate) (i : nat) : Prop :=
  forall r, snd (gstep s (i, r, KStep)) = None.

(* every (instance, rank) pair once: one round of a round-robin scheduler (normal steps only) *)
Fixpoint choices_from (i : nat) (ws : list nat) : list choice :=
  match ws with
  | [] => []
  | w :: t => map (fun r => (i, r, KStep)) (seq 0 w) ++ choices_from (S i) t
  end.

Definition all_choices (s : gstate) : list choice := choices_from 0 (map i_W (g_insts s)).

(* one round of a round-robin scheduler whose timeouts are fair: every (instance, rank) pair gets one normal step
   and then, if it is (still or again) about to wait, its timeout *)
Definition with_timeouts (l : list choice) : list choice :=
  flat_map (fun c => [c; (fst c, KTimeout)]) l.

Definition all_choices_t (s : gstate) : list choice := with_timeouts (all_choices s).

Fixpoint rounds_of (l : list choice) (n : nat) : list choice :=
  match n with O => [] | S n' => l ++ rounds_of l n' end.

Definition rounds (s : gstate) (n : nat) : list choice := rounds_of (all_choices s) n.
Definition rounds_t (s : gstate) (n : nat) : list choice := rounds_of (all_choices_t s) n.

(* measure: an upper bound on the number of steps (normal or timeout) a rank can still take *)
Definition pc_measure (W : nat) (p : pc) : nat :=
  match p with
  | PIo => 7 + W
  | PArrive => 6 + W
  | PGet k => 5 + (W - k)
  | PMeta => 4
  | PDepart => 3
  | PDepartGet => 2
  | PErrReport => 2
  | PHandler => 1
  | PDone | PRaised | PAbsent => 0
  end%nat.

Definition inst_measure (x : inst) : nat :=
  list_sum (map (fun r => pc_measure (i_W x) (i_pcs x r)) (seq 0 (i_W x))).

Definition gmeasure (s : gstate) : nat := list_sum (map inst_measure (g_insts s)).

(* ------------------------------------------------------------------ observations for the harness *)
Definition vvalue (v : value) : val := VZ (match v with VOk => 0 | VErr => 1 end).
Definition vnat (n : nat) : val := VZ (Z.of_nat n).

Definition obs_op (o : option op) : val :=
  match o with
  | None => VL [VZ 0]
  | Some (OIo ok) => VL [VZ 1; vbool ok]
  | Some (OSet p r v) => VL [VZ 2; VZ p; vnat r; vvalue v]
  | Some (OWait p rs) => VL [VZ 3; VZ p; VL (map vnat rs)]
  | Some (OGet p r v) => VL [VZ 4; VZ p; vnat r; vvalue v]
  | Some (OMeta ok) => VL [VZ 5; vbool ok]
  | Some (OTimeout p rs) => VL [VZ 6; VZ p; VL (map vnat rs)]
  end.

(* 0 Done / 1 Raised / 2 unfinished / 3 absent *)
Definition pc_code (p : pc) : Z := match p with PDone => 0 | PRaised => 1 | PAbsent => 3 | _ => 2 end.
Definition obs_outcome (p : pc) : val := VZ (pc_code p).

Definition obs_inst (x : inst) : val :=
  VL [VL (map (fun r => obs_outcome (i_pcs x r)) (seq 0 (i_W x)));
      vbool (i_meta x);
      VL (map (fun r => vbool (i_iodone x r)) (seq 0 (i_W x)));
      VL (map (fun r => vbool (i_tmo x r)) (seq 0 (i_W x)))].

(* ranks of instance i that can take a step of kind k *)
Definition enabled_ranks (s : gstate) (i : nat) (k : kind) : list nat :=
  match nth_error (g_insts s) i with
  | None => []
  | Some x => filter (fun r => enabled s (i, r, k)) (seq 0 (i_W x))
  end.

Fixpoint obs_steps (s : gstate) (sch : list choice) : list val * gstate :=
  match sch with
  | [] => ([], s)
  | c :: sch' =>
      let en := enabled_ranks s (c_inst c) KStep in
      let ent := enabled_ranks s (c_inst c) KTimeout in
      let '(s', o) := gstep s c in
      let '(l, sf) := obs_steps s' sch' in
      (VL [obs_op o; VL (map vnat en); VL (map vnat ent)] :: l, sf)
  end.

Definition BarrierSpecT := (Z * nat * list nat * bool * list nat)%type.
Definition spec_of (t : BarrierSpecT) : spec :=
  let '(p, w, f, m, a) := t in {| sp_prefix := p; sp_W := w; sp_iofail := f; sp_metafail := m; sp_absent := a |}.

(* a schedule entry as the harness writes it: (instance, rank, is-timeout) *)
Definition BarrierChoiceT := (nat * nat * bool)%type.
Definition choice_of (t : BarrierChoiceT) : choice :=
  let '(i, r, b) := t in (i, r, if b then KTimeout else KStep).

(* what can still happen in the final state, per instance: ranks whose normal step is enabled, ranks whose timeout
   is enabled (a run that ended blocked: [no normal step; the ranks parked at a store.wait]) *)
Definition obs_final (s : gstate) (i : nat) : val :=
  VL [VL (map vnat (enabled_ranks s i KStep)); VL (map vnat (enabled_ranks s i KTimeout))].

(* input: history (prefix id, world size, io-failing ranks, metadata write fails, absent ranks) and a schedule;
   output: per step [operation; ranks of that instance whose normal step is enabled before the step; ranks of that
   instance whose timeout is enabled before the step], then per instance
   [outcomes per rank (0 Done / 1 Raised / 2 unfinished / 3 absent); metadata written; io done per rank;
    timed out per rank], then per instance what is enabled in the final state *)
Definition obs_barrier (x : list BarrierSpecT * list BarrierChoiceT) : val :=
  let s0 := ginit [] (map spec_of (fst x)) in
  let '(steps, sf) := obs_steps s0 (map choice_of (snd x)) in
  VL [VL steps; VL (map obs_inst (g_insts sf)); VL (map (obs_final sf) (seq 0 (length (g_insts sf))))].

(* ------------------------------------------------------------------ executable readings of a job state
   (used by the vm_compute witnesses and examples in props/C13.v) *)
Definition BarrierOutcomes (s : gstate) (i : nat) : list Z :=
  match nth_error (g_insts s) i with
  | Some x => map (fun r => pc_code (i_pcs x r)) (seq 0 (i_W x))
  | None => []
  end.
Definition BarrierMeta (s : gstate) (i : nat) : bool :=
  match nth_error (g_insts s) i with Some x => i_meta x | None => false end.
Definition BarrierIoDone (s : gstate) (i : nat) : list bool :=
  match nth_error (g_insts s) i with Some x => map (i_iodone x) (seq 0 (i_W x)) | None => [] end.
Definition BarrierTimedOut (s : gstate) (i : nat) : list bool :=
  match nth_error (g_insts s) i with Some x => map (i_tmo x) (seq 0 (i_W x)) | None => [] end.
Definition BarrierKeys (s : gstate) (i : nat) : list (option value) :=
  match nth_error (g_insts s) i with
  | Some x => map (fun r => st_get (g_store s) (kz x r)) (seq 0 (i_W x))
  | None => []
  end.

(* ------------------------------------------------------------------ causes of errors (static plan / history) *)
Definition no_fault (x : inst) : Prop :=
  (forall r, (r < i_W x)%nat -> iofails x r = false) /\ i_metafail x = false.
Definition no_absent (x : inst) : Prop := forall r, (r < i_W x)%nat -> absent x r = false.
Definition no_timeout (x : inst) : Prop := forall r, (r < i_W x)%nat -> i_tmo x r = false.
