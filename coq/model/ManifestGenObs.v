(* C14: the terms generated from torchsnapshot/manifest.py (gen/ManifestGen.v, regenerated on every run by
   translator/gen_manifest.py) run through the interpreter of model/PyManifest.v, and the observations the
   correspondence harness evaluates against the real code.  Executable definitions only. *)
From TS Require Import model.Base model.Codec model.Json model.ManifestCodec model.PyManifest gen.ManifestGen.

(* ------------------------------------------------------------------ the generated writer *)
(* asdict of the entry object built by the entry class's constructor *)
Definition g_entry_json (e : entry) : option jvalue :=
  do o <- inst_of_entry g_classes e; asdict 8 g_classes o.

(* SnapshotMetadata(version, world_size, manifest).to_yaml() *)
Definition g_to_yaml (md : metadata) : option (list Z) :=
  do o <- inst_of_md g_classes md; to_yaml_dyn g_classes g_dumps_opts o.

(* ------------------------------------------------------------------ the generated reader *)
(* the dispatch of SnapshotMetadata.from_yaml on one manifest value, then the class's from_yaml_obj *)
Definition g_entry_obj_of_json (j : jvalue) : option pv :=
  do r <- read_entry 3 g_classes g_from_yaml_def (PJ j); r.

Definition g_entry_of_json (j : jvalue) : option entry := bind (g_entry_obj_of_json j) entry_of_inst.

(* SnapshotMetadata.from_yaml, dynamically typed: the SnapshotMetadata object, or None when an exception is raised *)
Definition g_from_yaml_dyn (yaml_rest : list Z -> option pv) (s : list Z) : option pv :=
  load_chain (fy_loaders g_from_yaml_def) yaml_rest (md_of_loaded g_classes g_from_yaml_def) s.

(* ... and its typed view *)
Definition g_from_yaml (yaml_rest : list Z -> option metadata) (s : list Z) : option metadata :=
  load_chain (fy_loaders g_from_yaml_def) yaml_rest
    (fun v => bind (md_of_loaded g_classes g_from_yaml_def v) md_of_inst) s.

(* ------------------------------------------------------------------ PrimitiveEntry *)
Definition g_get_value (ty sv : pystr) : option pvalue := get_value_dyn g_get_value_chain ty sv.

Definition g_entry_get_value (e : entry) : option pvalue :=
  match e with
  | EPrim k sv _ _ => g_get_value (kind_name k) sv
  | _ => None
  end.

(* type(obj).__name__ of a primitive value *)
Definition type_name_of (v : pvalue) : pystr := kind_name (kind_of v).

Definition g_from_object_obj (v : pvalue) (float_repr : pystr) : option pv :=
  from_object_dyn g_classes g_serialize_chain g_from_object_def (type_name_of v) v float_repr.

Definition g_from_object (v : pvalue) (float_repr : pystr) : option entry :=
  bind (g_from_object_obj v float_repr) entry_of_inst.

Definition g_byte_range_tuple (br : option (list Z)) : option (option (Z * Z)) :=
  byte_range_tuple_dyn (fst g_byte_range_idx) (snd g_byte_range_idx) br.

(* ------------------------------------------------------------------ observations *)
(* [text], or [] when to_yaml raises *)
Definition obs_to_yaml_gen (md : metadata) : val := vopt vlistZ (g_to_yaml md).

(* the real reader on text s, dynamically typed (ill-typed documents are accepted as Python accepts them):
   [0] json.loads raises; [1] it parses but building the metadata raises; [2; text] accepted, re-serialised
   with to_yaml; [3] accepted but to_yaml raises; [9] the reader does not start with json.loads *)
Definition obs_read_gen (s : list Z) : val :=
  match fy_loaders g_from_yaml_def with
  | LJson :: _ =>
      match parse s with
      | None => VL [VZ 0]
      | Some v =>
          match md_of_loaded g_classes g_from_yaml_def v with
          | None => VL [VZ 1]
          | Some o => match to_yaml_dyn g_classes g_dumps_opts o with
                      | Some t => VL [VZ 2; vlistZ t]
                      | None => VL [VZ 3]
                      end
          end
      end
  | _ => VL [VZ 9]
  end.

Definition obs_prefixes_gen (doc : list Z) : val :=
  VL (map (fun k => obs_read_gen (firstn k doc)) (seq 0 (length doc))).

Definition val_of_pvalue (o : option pvalue) : val :=
  match o with
  | None => VL []
  | Some (VInt z) => VL [VZ 0; VZ z]
  | Some (VStr s) => VL [VZ 1; vlistZ s]
  | Some (VBool b) => VL [VZ 2; vbool b]
  | Some (VBytes bs) => VL [VZ 3; vlistZ bs]
  | Some (VFloat bs) => VL [VZ 4; vlistZ bs]
  end.

(* get_value of a PrimitiveEntry with the given `type` string (any string) and serialized_value *)
Definition obs_get_value_gen (x : pystr * pystr) : val := val_of_pvalue (g_get_value (fst x) (snd x)).

(* from_object: [type; serialized_value; replicated; readable-or-[]] of the entry built, [] when it raises *)
Definition obs_from_object_gen (x : pvalue * pystr) : val :=
  match g_from_object (fst x) (snd x) with
  | Some (EPrim k sv r rd) => VL [vlistZ (kind_name k); vlistZ sv; vbool r; vopt vlistZ rd]
  | _ => VL []
  end.

Definition obs_byte_range_tuple_gen (br : option (list Z)) : val :=
  match g_byte_range_tuple br with
  | None => VL [VZ 0]                                   (* raises *)
  | Some None => VL [VZ 1]
  | Some (Some (a, b)) => VL [VZ 2; VZ a; VZ b]
  end.
