(* C17: strided tensors and the buffer-protocol (de)serialization of torchsnapshot/serialization.py
   (tensor_as_memoryview, _tensor_as_memoryview_via_untyped_storage, contiguous_view_as_untyped_storage,
   tensor_from_memoryview).  Executable definitions only.

   Elements are an abstract type E with a byte encoding  elem_bytes : E -> list Z  of esize bytes
   (Section variables): every theorem holds for every dtype and every bit pattern at once.  What torch /
   numpy do at run time (memcpy of contiguous(), reinterpretation of bytes by frombuffer) is not modelled
   here - it is checked differentially by harness/props/C17.py. *)
From TS Require Import model.Base.

Inductive result (A : Type) : Type :=
| Ok (a : A)
| Err.
Arguments Ok {A} a.
Arguments Err {A}.

Definition llen {A} (l : list A) : Z := Z.of_nat (length l).

(* 0, 1, ..., d-1  (empty for d <= 0) *)
Definition zrange (d : Z) : list Z := map Z.of_nat (seq 0 (Z.to_nat d)).

(* all multi-indices of [shape] in row-major (C) order: last index fastest.
   [] has the single index []; any zero-length dimension gives no index at all. *)
Fixpoint row_major (shape : list Z) : list (list Z) :=
  match shape with
  | [] => [[]]
  | d :: rest => flat_map (fun i => map (cons i) (row_major rest)) (zrange d)
  end.

(* sum_k idx_k * stride_k *)
Fixpoint dot (idx strides : list Z) : Z :=
  match idx, strides with
  | i :: idx', s :: strides' => i * s + dot idx' strides'
  | _, _ => 0
  end.

(* row-major (contiguous) strides of a shape: stride_k = prod_{j>k} shape_j.  (torch records max(shape_j, 1) in the
   product; the two differ only when some dimension is 0, and then there is no index to multiply a stride with.) *)
Fixpoint contiguous_strides (shape : list Z) : list Z :=
  match shape with
  | [] => []
  | _ :: rest => prodZ rest :: contiguous_strides rest
  end.

(* torch.Tensor.is_contiguous() for a tensor with at least one element: walking from the last dimension,
   every dimension of size <> 1 must have stride = product of the later sizes (size-1 dimensions may carry
   any stride).  Returns the product of the sizes when contiguous. *)
Fixpoint contiguous_prod (shape strides : list Z) : option Z :=
  match shape, strides with
  | [], [] => Some 1
  | d :: shape', s :: strides' =>
      match contiguous_prod shape' strides' with
      | Some p => if d =? 1 then Some p else if s =? p then Some (d * p) else None
      | None => None
      end
  | _, _ => None
  end.

(* split a byte string into n pieces of k bytes *)
Fixpoint take_chunks (n k : nat) (l : list Z) : list (list Z) :=
  match n with
  | O => []
  | S n' => firstn k l :: take_chunks n' k (skipn k l)
  end.

Section Layout.
  Variable E : Type.
  Variable esize : Z.                    (* element size in bytes *)
  Variable elem_bytes : E -> list Z.     (* the esize bytes of one element, as they lie in memory *)

  Record tensor := mkTensor {
    t_shape : list Z;
    t_strides : list Z;                  (* in elements *)
    t_offset : Z;                        (* storage offset, in elements *)
    t_storage : list E
  }.

  Definition numel (t : tensor) : Z := prodZ (t_shape t).

  (* position in the storage of the element at multi-index idx *)
  Definition lin (t : tensor) (idx : list Z) : Z := t_offset t + dot idx (t_strides t).

  (* the storage element at position k ([] when k is outside the storage: excluded by wf_layout) *)
  Definition fetch (st : list E) (k : Z) : list E :=
    if k <? 0 then [] else
    match nth_error st (Z.to_nat k) with
    | Some e => [e]
    | None => []
    end.

  (* logical content: gather by index arithmetic, row-major.  Independent of torch.contiguous(). *)
  Definition elems (t : tensor) : list E :=
    flat_map (fun idx => fetch (t_storage t) (lin t idx)) (row_major (t_shape t)).

  Definition bytes_of (l : list E) : list Z := flat_map elem_bytes l.

  (* decidable well-formedness: shape entries >= 0, one stride per dimension, every index inside the storage *)
  Definition wf_layoutb (t : tensor) : bool :=
    forallb (fun d => 0 <=? d) (t_shape t)
    && (length (t_strides t) =? length (t_shape t))%nat
    && forallb (fun idx => (0 <=? lin t idx) && (lin t idx <? llen (t_storage t))) (row_major (t_shape t)).

  (* what torch checks when a view is built (as_strided): non-negative sizes/strides/offset and, when the
     tensor has elements, the largest reachable position inside the storage *)
  Definition torch_valid_view (t : tensor) : bool :=
    forallb (fun d => 0 <=? d) (t_shape t)
    && forallb (fun s => 0 <=? s) (t_strides t)
    && (length (t_strides t) =? length (t_shape t))%nat
    && (0 <=? t_offset t)
    && ((numel t =? 0)
        || (t_offset t + dot (map (fun d => d - 1) (t_shape t)) (t_strides t) <? llen (t_storage t))).

  Definition is_contiguous (t : tensor) : bool :=
    (numel t =? 0) || match contiguous_prod (t_shape t) (t_strides t) with Some _ => true | None => false end.

  (* ---- tensor_as_memoryview -------------------------------------------------------------------------
       if not tensor.is_contiguous(): tensor = tensor.contiguous()
       if tensor.nelement() == 0: return memoryview(b"")
       if tensor.dtype == torch.bfloat16: return _tensor_as_memoryview_via_untyped_storage(tensor)
       return memoryview(tensor.numpy()).cast("b")

     The payload is the bytes of the elements in row-major order.  The buffer that comes out is seen through
     a carrier of item size c: the bfloat16 branch puts the storage bytes under a tensor
     torch.empty((0), dtype=<carrier>) with set_(), which keeps  (nbytes / c)  carrier elements, i.e. the first
     c * (nbytes / c) bytes; the numpy branch casts to format "b" (c = 1).  c is a parameter: the generated
     DtypeGen.bf16_carrier_dtype says what it is in the source now. *)
  Definition as_memoryview (c : Z) (t : tensor) : list Z :=
    if numel t =? 0 then []
    else
      let payload := bytes_of (elems t) in
      firstn (Z.to_nat (c * (llen payload / c))) payload.

  (* the same, following the bfloat16 branch literally: a contiguous tensor is NOT gathered; its bytes are the
     slice [offset, offset + numel) of the storage (contiguous_view_as_untyped_storage); a non-contiguous one
     was replaced by tensor.contiguous() (fresh storage = elems t, offset 0) beforehand. *)
  Definition storage_slice (t : tensor) : list E :=
    firstn (Z.to_nat (numel t)) (skipn (Z.to_nat (t_offset t)) (t_storage t)).

  Definition as_memoryview_via_storage (c : Z) (t : tensor) : list Z :=
    if numel t =? 0 then []
    else
      let payload := bytes_of (if is_contiguous t then storage_slice t else elems t) in
      firstn (Z.to_nat (c * (llen payload / c))) payload.

  (* ---- tensor_from_memoryview ------------------------------------------------------------------------
       if len(mv) == 0: return torch.reshape(torch.empty(0, dtype=dtype), shape)
       return torch.reshape(torch.frombuffer(mv, dtype=dtype), shape)

     frombuffer needs len(mv) to be a multiple of the element size and yields len(mv)/esize elements; reshape
     needs that count to equal prod shape.  The result is a contiguous tensor whose elements, in row-major
     order, are the consecutive esize-byte pieces of mv (elements are identified with their bytes). *)
  Definition from_memoryview (mv : list Z) (shape : list Z) : result (list (list Z)) :=
    if llen mv =? 0 then
      (if prodZ shape =? 0 then Ok [] else Err)
    else if (llen mv mod esize =? 0) && (llen mv / esize =? prodZ shape) then
      Ok (take_chunks (Z.to_nat (prodZ shape)) (Z.to_nat esize) mv)
    else Err.

  (* the tensor tensor_from_memoryview returns: contiguous, offset 0, storage = the decoded pieces *)
  Definition contiguous_tensor (shape : list Z) (st : list E) : tensor :=
    {| t_shape := shape; t_strides := contiguous_strides shape; t_offset := 0; t_storage := st |}.
End Layout.

Arguments mkTensor {E}.
Arguments t_shape {E}.
Arguments t_strides {E}.
Arguments t_offset {E}.
Arguments t_storage {E}.
Arguments numel {E}.
Arguments lin {E}.
Arguments fetch {E}.
Arguments elems {E}.
Arguments bytes_of {E}.
Arguments wf_layoutb {E}.
Arguments torch_valid_view {E}.
Arguments is_contiguous {E}.
Arguments as_memoryview {E}.
Arguments storage_slice {E}.
Arguments as_memoryview_via_storage {E}.
Arguments contiguous_tensor {E}.

(* ---- observations for the correspondence harness --------------------------------------------------------
   Elements are given by their bytes (E := list Z, elem_bytes := identity), so the model computes the very
   byte string the implementation must produce.  Input: ((carrier, shape), (strides, offset), storage). *)
Definition layout_input := ((Z * list Z) * (list Z * Z) * list (list Z))%type.

Definition layout_tensor (x : layout_input) : tensor (list Z) :=
  let '((_, shape), (strides, offset), st) := x in mkTensor shape strides offset st.

Definition obs_as_memoryview (x : layout_input) : val :=
  let t := layout_tensor x in
  let c := fst (fst (fst x)) in
  VL [vbool (wf_layoutb t); vbool (torch_valid_view t); vbool (is_contiguous t);
      vlistZ (as_memoryview (fun e => e) c t);
      vlistZ (as_memoryview_via_storage (fun e => e) c t)].

(* element-id variant: storage = list of ids, the model returns the gathered ids *)
Definition obs_elems_ids (x : (list Z * list Z) * (Z * list Z)) : val :=
  let '((shape, strides), (offset, st)) := x in vlistZ (elems (mkTensor shape strides offset st)).

(* input (esize, mv, shape); Ok pieces -> VL [VL pieces], Err -> VL [] *)
Definition obs_from_memoryview (x : Z * list Z * list Z) : val :=
  let '(es, mv, shape) := x in
  match from_memoryview es mv shape with
  | Ok l => VL [VL (map vlistZ l)]
  | Err => VL []
  end.
