(* Shared vocabulary of the torchsnapshot models.  Executable definitions only. *)
From Coq Require Export ZArith List Bool Lia.
Export ListNotations.
Open Scope Z_scope.

(* ------------------------------------------------------------------ *)
(* Universal observation type used by the correspondence harness:
   every model exposes  obs : input -> val  and the harness prints the
   implementation's canonicalised observation as a [val] literal.      *)
Inductive val : Type :=
| VZ (z : Z)
| VL (l : list val).

Fixpoint val_eqb (a b : val) {struct a} : bool :=
  match a, b with
  | VZ x, VZ y => Z.eqb x y
  | VL xs, VL ys =>
      (fix go (xs ys : list val) {struct xs} : bool :=
         match xs, ys with
         | [], [] => true
         | x :: xs', y :: ys' => val_eqb x y && go xs' ys'
         | _, _ => false
         end) xs ys
  | _, _ => false
  end.

Definition vbool (b : bool) : val := VZ (if b then 1 else 0).
Definition vlistZ (l : list Z) : val := VL (map VZ l).
Definition vopt {A} (f : A -> val) (o : option A) : val :=
  match o with None => VL [] | Some x => VL [f x] end.
Definition vpair (a b : val) : val := VL [a; b].

(* indices (from 0) of the cases on which model and implementation disagree *)
Fixpoint bad_from {A} (model : A -> val) (cases : list (A * val)) (i : Z) : list Z :=
  match cases with
  | [] => []
  | (x, expected) :: rest =>
      if val_eqb (model x) expected then bad_from model rest (i + 1)
      else i :: bad_from model rest (i + 1)
  end.
Definition bad_indices {A} (model : A -> val) (cases : list (A * val)) : list Z :=
  bad_from model cases 0.

(* ------------------------------------------------------------------ *)
(* Small list utilities shared by several models *)
Definition sumZ (l : list Z) : Z := fold_right Z.add 0 l.
Definition prodZ (l : list Z) : Z := fold_right Z.mul 1 l.

Fixpoint list_eqb {A} (eqb : A -> A -> bool) (a b : list A) : bool :=
  match a, b with
  | [], [] => true
  | x :: a', y :: b' => eqb x y && list_eqb eqb a' b'
  | _, _ => false
  end.

Definition slice {A} (l : list A) (a b : Z) : list A :=
  firstn (Z.to_nat (b - a)) (skipn (Z.to_nat a) l).

(* exact ceil division for b > 0 : what  math.ceil(a / b)  computes on
   operands below 2^53 *)
Definition cdiv (a b : Z) : Z := (a + b - 1) / b.
