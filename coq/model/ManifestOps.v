(* C07: torchsnapshot/manifest_ops.py  (get_manifest_for_rank, _get_manifest_for_existing_rank,
   _get_manifest_for_new_rank, _get_rank_to_manifest, _get_merged_sharded_tensor_entries, _remove_entry,
   handle_sharded_tensor_elasticity).  Executable definitions only.  The model follows the code as it stands after
   the fix commits
     489d382  _remove_entry removes the key whose str() equals the unquoted last path component, and
     bb9e810  handle_sharded_tensor_elasticity appends the unquoted component to a dict parent's keys and leaves
              list parents alone;
   the code before them is kept as [remove_key_legacy] / [manifest_for_new_rank_legacy] and [elasticity_legacy]
   for the _refuted theorems.

   Representation.
   * A logical path is the list of its "/"-separated components ([Flatten.path]); the code's string operations
     logical_path.split("/"), tokens.pop(), "/".join(tokens) become [last], [removelast] and [Flatten.join].
     (split/join are mutually inverse on non-empty lists of "/"-free components: C15_split_join.)
   * The global manifest (SnapshotMetadata.manifest, keys "<rank>/<logical path>") is a list of
     (rank, logical path, entry) in dict order.  The decimal rank prefix is taken as already parsed; two items of
     the Python dict never agree on (rank, path) because the dict keys are distinct strings (this is [wf_globalb]'s
     per-rank uniqueness), so rank_to_manifest[r] is the sub-list of rank r.
   * Entries: a container entry (ListEntry / DictEntry / OrderedDictEntry = Flatten.entry, with the typed keys
     KStr / KInt / KBool of model/Flatten.v), a leaf with replicated = True ([MRepl id]), a leaf that is neither
     replicated nor sharded ([MPriv id]: TensorEntry / ChunkedTensorEntry / ObjectEntry / PrimitiveEntry with
     replicated = False), a ShardedTensorEntry ([MShard shards], a shard = (offsets, id)).  The id of a leaf /
     shard stands for everything else the entry holds (location, dtype, shape, byte range ...): the operations
     here never look inside.

   NOT modelled (stated here once, repeated in harness/props/C07.py):
   * DTensorEntry (_get_merged_dtensor_entries, partial replication over a device mesh) - out of scope of C07 here;
   * the root-only knob TORCHSNAPSHOT_ENABLE_SHARDED_TENSOR_ELASTICITY_ROOT_ONLY (modelled OFF, its default);
   * a negative rank argument (Python list indexing wraps around) and rank prefixes >= world_size (IndexError);
   * urllib.parse.unquote of "%XY" with XY >= 0x80 ([Flatten.decode] leaves it; _encode never produces one);
   * int(token) beyond [+-]?[0-9]+ in the LEGACY _remove_entry ([Flatten.parse_int]);
   * which exception is raised: every exception is [None]. *)
From TS Require Import model.Base model.Flatten.

(* ------------------------------------------------------------------ entries, manifests *)
Definition shard := (list Z * Z)%type.          (* (Shard.offsets, id of the shard's TensorEntry) *)

Inductive mentry :=
| MCont (e : entry)                 (* is_container_entry *)
| MRepl (id : Z)                    (* is_fully_replicated_entry: has .replicated and it is True *)
| MPriv (id : Z)                    (* a leaf that is neither replicated nor sharded *)
| MShard (shards : list shard).     (* ShardedTensorEntry (has no .replicated attribute) *)

Definition man := list (path * mentry).               (* Dict[str, Entry] in insertion order *)
Definition gman := list (Z * path * mentry).          (* SnapshotMetadata.manifest *)

Definition grank (x : Z * path * mentry) : Z := fst (fst x).
Definition gpath (x : Z * path * mentry) : path := snd (fst x).
Definition gentry (x : Z * path * mentry) : mentry := snd x.

Definition is_container (e : mentry) : bool := match e with MCont _ => true | _ => false end.
Definition is_replicated (e : mentry) : bool := match e with MRepl _ => true | _ => false end.
Definition is_sharded (e : mentry) : bool := match e with MShard _ => true | _ => false end.
Definition is_private (e : mentry) : bool := match e with MPriv _ => true | _ => false end.

(* Python dict operations on an association list with pairwise distinct paths *)
Fixpoint mget (m : man) (p : path) : option mentry :=
  match m with
  | [] => None
  | (q, e) :: r => if path_eqb q p then Some e else mget r p
  end.

(* d[p] = e : in place when the key exists, appended otherwise *)
Fixpoint mset (m : man) (p : path) (e : mentry) : man :=
  match m with
  | [] => [(p, e)]
  | (q, e') :: r => if path_eqb q p then (q, e) :: r else (q, e') :: mset r p e
  end.

(* del d[p] *)
Fixpoint mdel (m : man) (p : path) : man :=
  match m with
  | [] => []
  | (q, e) :: r => if path_eqb q p then r else (q, e) :: mdel r p
  end.

(* ------------------------------------------------------------------ _get_rank_to_manifest *)
Definition rank_manifest (g : gman) (r : Z) : man :=
  flat_map (fun x => if grank x =? r then [(gpath x, gentry x)] else []) g.

Definition ranks (W : Z) : list Z := map Z.of_nat (seq 0 (Z.to_nat W)).

(* ------------------------------------------------------------------ _get_merged_sharded_tensor_entries *)
(* Python's  list < list  on Shard.offsets *)
Fixpoint lex_ltb (a b : list Z) : bool :=
  match a, b with
  | [], [] => false
  | [], _ :: _ => true
  | _ :: _, [] => false
  | x :: a', y :: b' => if x <? y then true else if y <? x then false else lex_ltb a' b'
  end.

(* sorted(..., key=lambda shard: shard.offsets): stable; x goes in front of the first element that is not smaller *)
Fixpoint insert_shard (x : shard) (l : list shard) : list shard :=
  match l with
  | [] => [x]
  | y :: r => if lex_ltb (fst y) (fst x) then y :: insert_shard x r else x :: l
  end.
Fixpoint sort_shards (l : list shard) : list shard :=
  match l with
  | [] => []
  | x :: r => insert_shard x (sort_shards r)
  end.

Definition shards_of (m : man) (p : path) : list shard :=
  match mget m p with Some (MShard s) => s | _ => [] end.

(* the shards of every rank (rank order, then entry order), before sorting *)
Definition all_shards (W : Z) (g : gman) (p : path) : list shard :=
  flat_map (fun r => shards_of (rank_manifest g r) p) (ranks W).

Definition merged_shards (W : Z) (g : gman) (p : path) : list shard := sort_shards (all_shards W g p).

(* logical_path in merged_sd_entries *)
Definition merged_has (W : Z) (g : gman) (p : path) : bool :=
  existsb (fun r => match mget (rank_manifest g r) p with Some (MShard _) => true | _ => false end) (ranks W).

(* the dict merged_sd_entries itself, keys in first-occurrence order (only observed, see obs_get_manifest) *)
Definition sharded_paths_of (m : man) : list path :=
  flat_map (fun pe => match snd pe with MShard _ => [fst pe] | _ => [] end) m.
Fixpoint first_occurrences (seen l : list path) : list path :=
  match l with
  | [] => []
  | p :: r => if path_memb p seen then first_occurrences seen r else p :: first_occurrences (p :: seen) r
  end.
Definition merged_entries (W : Z) (g : gman) : list (path * list shard) :=
  map (fun p => (p, merged_shards W g p))
      (first_occurrences [] (flat_map (fun r => sharded_paths_of (rank_manifest g r)) (ranks W))).

(* ------------------------------------------------------------------ _get_manifest_for_existing_rank *)
(* for logical_path, entry in rank_to_manifest[0].items(): if is_fully_replicated_entry(entry): local[path] = entry *)
Definition add_replicated (m0 local : man) : man :=
  fold_left (fun l pe => if is_replicated (snd pe) then mset l (fst pe) (snd pe) else l) m0 local.

(* sharded entries are replaced, in place, by the merged entry *)
Definition replace_sharded (W : Z) (g : gman) (m : man) : man :=
  map (fun pe => match snd pe with
                 | MShard _ => (fst pe, MShard (merged_shards W g (fst pe)))
                 | _ => pe
                 end) m.

Definition manifest_for_existing_rank (W : Z) (g : gman) (r : Z) : man :=
  replace_sharded W g (add_replicated (rank_manifest g 0) (rank_manifest g r)).

(* ------------------------------------------------------------------ _remove_entry *)
(* for k in parent.keys: if str(k) == key: parent.keys.remove(k); break
   list.remove(k) deletes the first element equal to k under Python equality *)
Fixpoint find_key (s : pystr) (ks : list key) : option key :=
  match ks with
  | [] => None
  | k :: r => if str_eqb (key_str k) s then Some k else find_key s r
  end.
Fixpoint remove_pyeq (k : key) (ks : list key) : list key :=
  match ks with
  | [] => []
  | x :: r => if py_eqb x k then r else x :: remove_pyeq k r
  end.
Definition remove_key (ks : list key) (s : pystr) : list key :=
  match find_key s ks with
  | None => ks
  | Some k => remove_pyeq k ks
  end.

(* the code before commit 489d382:
     if key in parent.keys: parent.keys.remove(key) else: parent.keys.remove(int(key))
   with key the raw (still encoded) last path component; None = ValueError *)
Definition remove_key_legacy (ks : list key) (tok : token) : option (list key) :=
  if existsb (fun k => py_eqb k (KStr tok)) ks then Some (remove_pyeq (KStr tok) ks)
  else match parse_int tok with
       | None => None
       | Some z => if existsb (fun k => py_eqb k (KInt z)) ks then Some (remove_pyeq (KInt z) ks) else None
       end.

(* [rk keys token]: how the key of the removed child is deleted from a dict parent *)
Definition remove_entry_with (rk : list key -> token -> option (list key)) (m : man) (p : path) : option man :=
  match mget m p with
  | None => Some m                                         (* if logical_path not in manifest: return *)
  | Some _ =>
      let m1 := mdel m p in
      let parent := removelast p in
      match join parent with
      | [] => Some m1                                      (* if len(parent_path) == 0: return *)
      | _ =>
          match mget m1 parent with
          | None => None                                   (* manifest[parent_path]: KeyError *)
          | Some (MCont (EDict ord ks)) =>
              match rk ks (last p []) with
              | None => None
              | Some ks' => Some (mset m1 parent (MCont (EDict ord ks')))
              end
          | Some _ => Some m1                              (* list parent (or not a dict entry): untouched *)
          end
      end
  end.

Definition rk_current (ks : list key) (tok : token) : option (list key) := Some (remove_key ks (decode tok)).

Definition remove_entry : man -> path -> option man := remove_entry_with rk_current.
Definition remove_entry_legacy : man -> path -> option man := remove_entry_with remove_key_legacy.

(* ------------------------------------------------------------------ _get_manifest_for_new_rank *)
(* is_container_entry(entry) or is_fully_replicated_entry(entry) *)
Definition keep_for_new_rank (e : mentry) : bool := is_container e || is_replicated e.

Definition new_rank_step (rk : list key -> token -> option (list key)) (cur : option man) (p : path) : option man :=
  match cur with
  | None => None
  | Some m =>
      match mget m p with
      | None => None                                       (* local_manifest[logical_path]: KeyError *)
      | Some e => if keep_for_new_rank e then Some m else remove_entry_with rk m p
      end
  end.

(* for logical_path in list(local_manifest.keys()): ... *)
Definition manifest_for_new_rank_with rk (m0 : man) : option man :=
  fold_left (new_rank_step rk) (map fst m0) (Some m0).

Definition manifest_for_new_rank : man -> option man := manifest_for_new_rank_with rk_current.
Definition manifest_for_new_rank_legacy : man -> option man := manifest_for_new_rank_with remove_key_legacy.

(* ------------------------------------------------------------------ get_manifest_for_rank *)
(* if rank < metadata.world_size *)
Definition is_existing_rank (W r : Z) : bool := r <? W.

Definition get_manifest_for_rank (W : Z) (g : gman) (r : Z) : option man :=
  if is_existing_rank W r then Some (manifest_for_existing_rank W g r)
  else manifest_for_new_rank (rank_manifest g 0).

Definition get_manifest_for_rank_legacy (W : Z) (g : gman) (r : Z) : option man :=
  if is_existing_rank W r then Some (manifest_for_existing_rank W g r)
  else manifest_for_new_rank_legacy (rank_manifest g 0).

(* ------------------------------------------------------------------ handle_sharded_tensor_elasticity *)
(* "/".join(tokens) of an empty token list is "", which as a dict key is the one-component path [""] *)
Definition norm_path (q : path) : path := match q with [] => [[]] | _ => q end.

(* if logical_path not in manifest:
       manifest[logical_path] = merged_sd_entries[logical_path]
       parent = manifest["/".join(tokens)]                  KeyError when the parent is absent
       if is_dict_entry(parent): parent.keys.append(unquote(key))        (a str; list parents are left alone)
   [legacy = true] is the code before commit bb9e810:
       manifest["/".join(tokens)].keys.append(key)          the raw, still encoded component;
                                                            AttributeError when the parent has no .keys *)
Definition elastic_add_with (legacy : bool) (W : Z) (g : gman) (cur : option man) (p : path) : option man :=
  match cur with
  | None => None
  | Some m =>
      match mget m p with
      | Some _ => Some m
      | None =>
          let m1 := mset m p (MShard (merged_shards W g p)) in
          let parent := norm_path (removelast p) in
          match mget m1 parent with
          | None => None
          | Some (MCont (EDict ord ks)) =>
              let k := KStr (if legacy then last p [] else decode (last p [])) in
              Some (mset m1 parent (MCont (EDict ord (ks ++ [k]))))
          | Some _ => if legacy then None else Some m1
          end
      end
  end.

Definition elasticity_with (legacy : bool) (W : Z) (g : gman) (m : man) (reqs : list path) : option man :=
  (* tensor_requests = [tr for tr in tensor_requests if tr in merged_sd_entries] *)
  let reqs' := filter (merged_has W g) reqs in
  match fold_left (elastic_add_with legacy W g) reqs' (Some m) with
  | None => None
  | Some m' =>
      (* del manifest[p] for sharded entries that are not requested (the parent's keys are left alone) *)
      Some (filter (fun pe => negb (is_sharded (snd pe) && negb (path_memb (fst pe) reqs'))) m')
  end.

Definition elastic_add := elastic_add_with false.
Definition elasticity := elasticity_with false.
Definition elasticity_legacy := elasticity_with true.

(* what _load_stateful hands to inflate: get_manifest_for_rank followed by handle_sharded_tensor_elasticity *)
Definition load_view (W : Z) (g : gman) (r : Z) (reqs : list path) : option man :=
  match get_manifest_for_rank W g r with
  | None => None
  | Some m => elasticity W g m reqs
  end.

Definition load_view_legacy (W : Z) (g : gman) (r : Z) (reqs : list path) : option man :=
  match get_manifest_for_rank W g r with
  | None => None
  | Some m => elasticity_legacy W g m reqs
  end.

(* ------------------------------------------------------------------ well-formedness of a gathered manifest *)
(* what Snapshot._gather_manifest + consolidate_replicated_entries (over flatten's output on every rank) establish *)
Fixpoint nodup_pathb (l : list path) : bool :=
  match l with [] => true | p :: r => negb (path_memb p r) && nodup_pathb r end.
Fixpoint nodup_strb (l : list pystr) : bool :=
  match l with [] => true | s :: r => negb (str_memb s r) && nodup_strb r end.
Fixpoint nodup_Zb (l : list Z) : bool :=
  match l with [] => true | z :: r => negb (existsb (Z.eqb z) r) && nodup_Zb r end.
Fixpoint keys_py_distinctb (ks : list key) : bool :=
  match ks with [] => true | k :: r => negb (existsb (py_eqb k) r) && keys_py_distinctb r end.

(* dict keys: pairwise distinct under Python equality (a dict) and pairwise distinct str() (_should_flatten_dict) *)
Definition keys_ok (e : mentry) : bool :=
  match e with
  | MCont (EDict _ ks) => keys_py_distinctb ks && nodup_strb (map key_str ks)
  | _ => true
  end.

(* a non-root entry's parent is a container entry of the same manifest and, when a dict, lists the key *)
Definition parent_ok (m : man) (p : path) : bool :=
  match removelast p with
  | [] => true
  | P => match mget m P with
         | Some (MCont EList) => true
         | Some (MCont (EDict _ ks)) => existsb (fun k => str_eqb (key_str k) (decode (last p []))) ks
         | _ => false
         end
  end.

(* a path has at least one component and its first component (the encoded app_state key) is not empty *)
Definition path_ok (p : path) : bool :=
  match p with [] => false | [] :: _ => false | _ => true end.

Definition repl_at0 (g : gman) (p : path) : bool :=
  match mget (rank_manifest g 0) p with Some (MRepl _) => true | _ => false end.

Definition priv_ids (g : gman) : list Z :=
  flat_map (fun x => match gentry x with MPriv i => [i] | _ => [] end) g.

Definition wf_globalb (W : Z) (g : gman) : bool :=
  (1 <=? W)
  && forallb (fun x => (0 <=? grank x) && (grank x <? W)) g                           (* rank prefixes in range *)
  && forallb (fun r => nodup_pathb (map fst (rank_manifest g r))) (ranks W)           (* paths unique per rank *)
  && forallb (fun x => path_ok (gpath x) && keys_ok (gentry x)) g
  && forallb (fun x => parent_ok (rank_manifest g (grank x)) (gpath x)) g             (* parents exist, list the key *)
  && forallb (fun x => (grank x =? 0) ||                                              (* replicated: once, rank 0 *)
                       (negb (is_replicated (gentry x)) && negb (repl_at0 g (gpath x)))) g
  && nodup_Zb (priv_ids g).                                                           (* a private leaf = one object *)

(* ------------------------------------------------------------------ observations for the harness *)
Definition obs_shard (s : shard) : val := VL [vlistZ (fst s); VZ (snd s)].

Definition obs_mentry (e : mentry) : val :=
  match e with
  | MCont c => obs_entry c                       (* [0] | [1; keys] | [2; keys] *)
  | MRepl i => VL [VZ 3; VZ i]
  | MPriv i => VL [VZ 4; VZ i]
  | MShard s => VL [VZ 5; VL (map obs_shard s)]
  end.

Definition obs_path (p : path) : val := VL (map vlistZ p).
Definition obs_man (m : man) : val := VL (map (fun pe => VL [obs_path (fst pe); obs_mentry (snd pe)]) m).

(* get_manifest_for_rank(metadata, rank): local manifest in dict order (None = exception) and merged_sd_entries *)
Definition obs_get_manifest (x : Z * gman * Z) : val :=
  let '(W, g, r) := x in
  VL [vopt obs_man (get_manifest_for_rank W g r);
      VL (map (fun pe => VL [obs_path (fst pe); VL (map obs_shard (snd pe))]) (merged_entries W g))].

(* get_manifest_for_rank then handle_sharded_tensor_elasticity(manifest, merged, requests) *)
Definition obs_load_view (x : Z * gman * Z * list path) : val :=
  let '(W, g, r, reqs) := x in vopt obs_man (load_view W g r reqs).

(* the code before commit 489d382 (used by the replay of the _refuted witness) *)
Definition obs_get_manifest_legacy (x : Z * gman * Z) : val :=
  let '(W, g, r) := x in vopt obs_man (get_manifest_for_rank_legacy W g r).

Definition obs_load_view_legacy (x : Z * gman * Z * list path) : val :=
  let '(W, g, r, reqs) := x in vopt obs_man (load_view_legacy W g r reqs).

Definition obs_wf (x : Z * gman) : val := vbool (wf_globalb (fst x) (snd x)).
