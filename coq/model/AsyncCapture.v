(* C09: what async_take hands to the background writer.
   Memory cells (tensor storages, Python objects) hold bytes; staging a write request yields a buffer that is either
   a COPY of bytes or an ALIAS of a live cell (a memoryview over the tensor's storage).  After async_take returns the
   application mutates cells in place, interleaved arbitrarily with the background writes; a write of an alias writes
   the CURRENT contents of the cell.
   The copy decision is not written here: it is `should_copy_cpu_tensor`, translated (typed: str == Enum member is
   false) from TensorBufferStager._should_copy_cpu_tensor on every run (gen/DtypeGen.v).
   Executable definitions only. *)
From TS Require Import model.Base model.Dtype gen.DtypeGen.

Definition cell := Z.
Definition bytes := list Z.

(* ---------------------------------------------------------------- memory *)
Definition mem := list (cell * bytes).          (* newest binding first *)
Fixpoint mget (m : mem) (c : cell) : bytes :=
  match m with
  | [] => []
  | (c', b) :: r => if c' =? c then b else mget r c
  end.
Definition mset (m : mem) (c : cell) (b : bytes) : mem := (c, b) :: m.

(* a tensor's view of its storage: the byte offsets it covers, in serialisation (row-major) order.
   contiguous = consecutive offsets (possibly a slice of a larger storage); transposed / strided = any other list *)
Definition view := list Z.
Definition rd (v : view) (content : bytes) : bytes := map (fun i => nth (Z.to_nat i) content 0) v.

Record tensor := { t_cell : cell; t_view : view; t_contig : bool; t_whole : bool (* nelement() = storage().size() *) }.

(* write requests as _take_impl builds them (CPU only: CUDA/UVM tensors are copied to the host by construction) *)
Inductive leaf :=
| LBuf (t : tensor)            (* TensorBufferStager, buffer-protocol dtype (also: one chunk of a chunked tensor) *)
| LSave (t : tensor)           (* TensorBufferStager, torch_save serializer (complex, quantized dtypes) *)
| LObj (c : cell)              (* ObjectBufferStager: torch.save(obj) into a BytesIO *)
| LSlab (ts : list tensor).    (* BatchedBufferStager over buffer-protocol tensors *)

Inductive sbuf :=
| Copy (b : bytes)
| Alias (c : cell) (v : view).  (* memoryview(tensor.numpy()): reads the cell when the write happens *)

Definition resolve (m : mem) (s : sbuf) : bytes :=
  match s with Copy b => b | Alias c v => rd v (mget m c) end.
Definition is_copy (s : sbuf) : bool := match s with Copy _ => true | Alias _ _ => false end.

Section Stage.
  (* the copy decision: serializer -> is_async -> is_contiguous -> nelement != storage size -> bool *)
  Variable decide : pystr -> bool -> bool -> bool -> bool.
  (* torch.save's encoding of a payload: some function of the bytes it is given, evaluated when it is called *)
  Variable ser : bytes -> bytes.

  (* TensorBufferStager.stage_buffer, buffer protocol:
       if _should_copy_cpu_tensor(): cpu_tensor = cpu_tensor.clone()      -> a private cell nobody else can mutate: Copy
       tensor_as_memoryview: non-contiguous -> .contiguous() copies; contiguous -> memoryview over the storage: Alias *)
  Definition stage_buf (is_async : bool) (m : mem) (t : tensor) : sbuf :=
    if decide serializer_BUFFER_PROTOCOL_value is_async (t_contig t) (negb (t_whole t))
    then Copy (rd (t_view t) (mget m (t_cell t)))
    else if t_contig t then Alias (t_cell t) (t_view t)
    else Copy (rd (t_view t) (mget m (t_cell t))).

  (* torch_save: torch_save_as_bytes(cpu_tensor) serialises at staging time: a copy by construction.  What is
     serialised is the clone of the view (decision true) or the tensor with its whole storage (decision false). *)
  Definition stage_save (is_async : bool) (m : mem) (t : tensor) : sbuf :=
    if decide serializer_TORCH_SAVE_value is_async (t_contig t) (negb (t_whole t))
    then Copy (ser (rd (t_view t) (mget m (t_cell t))))
    else Copy (ser (mget m (t_cell t))).

  Definition stage (is_async : bool) (m : mem) (l : leaf) : sbuf :=
    match l with
    | LBuf t => stage_buf is_async m t
    | LSave t => stage_save is_async m t
    | LObj c => Copy (ser (mget m c))
    (* BatchedBufferStager.stage_buffer: slab = bytearray(n); every member is staged and its buffer is copied into
       the slab (slab[a:b] = buf) before stage_buffer returns: a copy by construction even when a member aliases *)
    | LSlab ts => Copy (concat (map (fun t => resolve m (stage_buf is_async m t)) ts))
    end.

  (* execute_write_reqs returns only when every staging task is done (gen_write_phase1_continue = false, see
     props/C09.v C09_all_staged_at_return): the buffers exist, computed from the memory at that time, when
     take / async_take returns. *)
  Definition stage_all (is_async : bool) (m : mem) (ls : list leaf) : list sbuf := map (stage is_async m) ls.
End Stage.

(* ---------------------------------------------------------------- what happens after async_take returned *)
Inductive step :=
| Mut (c : cell) (b : bytes)       (* the application overwrites cell c in place *)
| Wr (i : nat).                    (* the background thread writes staged buffer i to storage *)

Fixpoint run (staged : list sbuf) (m : mem) (steps : list step) : list (nat * bytes) :=
  match steps with
  | [] => []
  | Mut c b :: r => run staged (mset m c b) r
  | Wr i :: r => (i, resolve m (nth i staged (Copy []))) :: run staged m r
  end.

Definition writes (steps : list step) : list nat :=
  flat_map (fun s => match s with Wr i => [i] | Mut _ _ => [] end) steps.

(* the code as it is: decision = the generated should_copy_cpu_tensor *)
Definition async_run (ser : bytes -> bytes) (m : mem) (ls : list leaf) (steps : list step) : list (nat * bytes) :=
  run (stage_all should_copy_cpu_tensor ser true m ls) m steps.
(* synchronous take: every buffer is written before take returns; the application cannot run in between *)
Definition sync_bytes (ser : bytes -> bytes) (m : mem) (ls : list leaf) : list bytes :=
  map (resolve m) (stage_all should_copy_cpu_tensor ser false m ls).

(* the legacy decision: `self.entry.serializer == Serializer.BUFFER_PROTOCOL` compared a str with an Enum member *)
Definition legacy_decide (_ : pystr) (_ _ _ : bool) : bool := false.

(* manifest entry of a write request: serializer kind and the size of what is written; prepare_write does not look
   at is_async_snapshot for it (the flag is only stored in the stager) *)
Definition entry_of (is_async : bool) (l : leaf) : Z * Z :=
  match l with
  | LBuf t => (0, Z.of_nat (length (t_view t)))
  | LSave t => (1, Z.of_nat (length (t_view t)))
  | LObj _ => (2, 0)
  | LSlab ts => (3, Z.of_nat (length (concat (map t_view ts))))
  end.

(* ---------------------------------------------------------------- observations for the harness *)
Definition ser_id (b : bytes) : bytes := b.

Definition obs_should_copy (x : pystr * (bool * bool * bool)) : val :=
  let '(s, (a, c, n)) := x in vbool (should_copy_cpu_tensor s a c n).

(* does the staged buffer of a buffer-protocol tensor alias the live tensor?  input (is_async, contiguous, whole) *)
Definition obs_alias (x : bool * bool * bool) : val :=
  let '(a, c, w) := x in
  vbool (negb (is_copy (stage_buf should_copy_cpu_tensor a [] {| t_cell := 0; t_view := []; t_contig := c; t_whole := w |}))).

(* a stager-level run: cells, tensors (cell, view, contiguous, whole), flag, steps (0 c bytes = Mut, 1 i = Wr) *)
Definition mk_tensor (x : Z * list Z * bool * bool) : tensor :=
  let '(c, v, k, w) := x in {| t_cell := c; t_view := v; t_contig := k; t_whole := w |}.
Definition mk_step (x : Z * Z * list Z) : step :=
  let '(k, a, b) := x in if k =? 0 then Mut a b else Wr (Z.to_nat a).
Definition obs_run (x : list (Z * list Z) * list (Z * list Z * bool * bool) * bool * list (Z * Z * list Z)) : val :=
  let '(m, ts, is_async, steps) := x in
  let staged := stage_all should_copy_cpu_tensor ser_id is_async m (map (fun t => LBuf (mk_tensor t)) ts) in
  VL (map (fun w => VL [VZ (Z.of_nat (fst w)); vlistZ (snd w)]) (run staged m (map mk_step steps))).

(* does the staged buffer of a request of the given kind alias live memory?  kind 0 LBuf, 1 LSave, 2 LObj, 3 LSlab of
   one tensor;  input (kind, (is_async, contiguous, whole)) *)
Definition obs_alias_kind (x : Z * (bool * bool * bool)) : val :=
  let '(k, (a, c, w)) := x in
  let t := {| t_cell := 0; t_view := [0; 1]; t_contig := c; t_whole := w |} in
  let l := if k =? 0 then LBuf t else if k =? 1 then LSave t else if k =? 2 then LObj 0 else LSlab [t; t] in
  vbool (negb (is_copy (stage should_copy_cpu_tensor ser_id a [(0, [5; 6])] l))).
