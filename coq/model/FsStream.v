(* C20: filesystem storage plugin (storage_plugins/fs.py) and MemoryviewStream (memoryview_stream.py).
   Executable definitions only. *)
From TS Require Import model.Base.

(* ---------------- file store: path -> bytes, last write wins --------------- *)
Definition path := list Z.
Definition bytes := list Z.
Definition fs := list (path * bytes).

Definition path_eqb (a b : path) : bool := list_eqb Z.eqb a b.

Fixpoint fs_lookup (s : fs) (p : path) : option bytes :=
  match s with
  | [] => None
  | (q, d) :: s' => if path_eqb q p then Some d else fs_lookup s' p
  end.

(* FSStoragePlugin.write: open(path, "wb+") truncates, then writes the whole buffer *)
Definition fs_write (s : fs) (p : path) (d : bytes) : fs := (p, d) :: s.

(* FSStoragePlugin.read: whole file, or seek(a) ; read(b - a).  A file shorter than b yields a short
   buffer (POSIX read semantics) - this is what C04 builds on.  Missing path: error (None). *)
Definition file_read_range (d : bytes) (a b : Z) : bytes :=
  firstn (Z.to_nat (b - a)) (skipn (Z.to_nat a) d).

Definition fs_read (s : fs) (p : path) (range : option (Z * Z)) : option bytes :=
  match fs_lookup s p with
  | None => None
  | Some d => match range with
              | None => Some d
              | Some (a, b) => Some (file_read_range d a b)
              end
  end.

(* ---------------- MemoryviewStream, following the code line by line -------- *)
Inductive sop :=
| SRead (n : option Z)          (* read(size); None = read(None) *)
| SSeek (pos : Z) (whence : Z)
| STell
| SClose.

Inductive sout :=
| OBytes (l : bytes)
| OInt (z : Z)
| OValueError
| ONone.

Record mvs := { mv_data : bytes; mv_pos : Z; mv_closed : bool }.

Definition zlen {A} (l : list A) : Z := Z.of_nat (length l).

Definition mvs_step (s : mvs) (o : sop) : mvs * sout :=
  match o with
  | SClose => ({| mv_data := mv_data s; mv_pos := mv_pos s; mv_closed := true |}, ONone)
  | _ =>
    if mv_closed s then (s, OValueError) else
    match o with
    | SRead n =>
        let size0 := match n with None => -1 | Some k => k end in
        let size := if size0 <? 0 then zlen (mv_data s) else size0 in
        if zlen (mv_data s) <=? mv_pos s then (s, OBytes [])
        else
          let newpos := Z.min (zlen (mv_data s)) (mv_pos s + size) in
          ({| mv_data := mv_data s; mv_pos := newpos; mv_closed := false |},
           OBytes (slice (mv_data s) (mv_pos s) newpos))
    | SSeek pos whence =>
        if whence =? 0 then
          if pos <? 0 then (s, OValueError)
          else ({| mv_data := mv_data s; mv_pos := pos; mv_closed := false |}, OInt pos)
        else if whence =? 1 then
          let p := Z.max 0 (mv_pos s + pos) in
          ({| mv_data := mv_data s; mv_pos := p; mv_closed := false |}, OInt p)
        else if whence =? 2 then
          let p := Z.max 0 (zlen (mv_data s) + pos) in
          ({| mv_data := mv_data s; mv_pos := p; mv_closed := false |}, OInt p)
        else (s, OValueError)
    | STell => (s, OInt (mv_pos s))
    | SClose => (s, ONone)
    end
  end.

(* ---------------- targets of translator/gen_stream.py ---------------------- *)
(* result of one MemoryviewStream method: value + new position, or an exception kind (2 ValueError, 4 TypeError) *)
Inductive sres :=
| SRet (out : sout) (newpos : Z)
| SRaise (kind : Z).

(* a POSIX file handle as used by FSStoragePlugin (modelled, not verified): content, position, append flag *)
Inductive fmode := MRead | MTrunc | MAppend | MUpdate.
Record fh := { fh_content : bytes; fh_pos : Z; fh_append : bool }.

Definition fh_open (m : fmode) (old : option bytes) : fh :=
  let d := match old with Some d => d | None => [] end in
  match m with
  | MRead | MUpdate => {| fh_content := d; fh_pos := 0; fh_append := false |}
  | MTrunc => {| fh_content := []; fh_pos := 0; fh_append := false |}
  | MAppend => {| fh_content := d; fh_pos := zlen d; fh_append := true |}
  end.

Definition fh_seek (f : fh) (off : Z) : fh :=
  {| fh_content := fh_content f; fh_pos := off; fh_append := fh_append f |}.

(* read(n): the next min(n, remaining) bytes; read(): the rest (n < 0 also means the rest) *)
Definition fh_read (f : fh) (n : option Z) : fh * bytes :=
  let rest := skipn (Z.to_nat (fh_pos f)) (fh_content f) in
  let got := match n with
             | None => rest
             | Some k => if k <? 0 then rest else firstn (Z.to_nat k) rest
             end in
  ({| fh_content := fh_content f; fh_pos := fh_pos f + zlen got; fh_append := fh_append f |}, got).

(* write(buf) at the position (at the end in append mode), overwriting / extending; positions past the end
   are zero-filled *)
Definition fh_write (f : fh) (buf : bytes) : fh :=
  let d := fh_content f in
  let p := if fh_append f then zlen d else fh_pos f in
  let before := firstn (Z.to_nat p) d ++ repeat 0 (Z.to_nat p - length d) in
  let after := skipn (Z.to_nat p + length buf) d in
  {| fh_content := before ++ buf ++ after; fh_pos := p + zlen buf; fh_append := fh_append f |}.

(* ---------------- reference: an in-memory byte stream (io.BytesIO) ---------- *)
(* Written as the simplest specification: data, a position, a closed flag;
   read returns the next min(n, remaining) bytes and advances by what it returned. *)
Record bio := { b_data : bytes; b_pos : Z; b_closed : bool }.

Definition bio_step (s : bio) (o : sop) : bio * sout :=
  match o with
  | SClose => ({| b_data := b_data s; b_pos := b_pos s; b_closed := true |}, ONone)
  | _ =>
    if b_closed s then (s, OValueError) else
    match o with
    | SRead n =>
        let rest := skipn (Z.to_nat (b_pos s)) (b_data s) in
        let got := match n with
                   | None => rest
                   | Some k => if k <? 0 then rest else firstn (Z.to_nat k) rest
                   end in
        ({| b_data := b_data s; b_pos := b_pos s + zlen got; b_closed := false |}, OBytes got)
    | SSeek pos whence =>
        if whence =? 0 then
          if pos <? 0 then (s, OValueError)
          else ({| b_data := b_data s; b_pos := pos; b_closed := false |}, OInt pos)
        else if whence =? 1 then
          let p := Z.max 0 (b_pos s + pos) in
          ({| b_data := b_data s; b_pos := p; b_closed := false |}, OInt p)
        else if whence =? 2 then
          let p := Z.max 0 (zlen (b_data s) + pos) in
          ({| b_data := b_data s; b_pos := p; b_closed := false |}, OInt p)
        else (s, OValueError)
    | STell => (s, OInt (b_pos s))
    | SClose => (s, ONone)
    end
  end.

Fixpoint run {S} (step : S -> sop -> S * sout) (s : S) (ops : list sop) : list sout :=
  match ops with
  | [] => []
  | o :: ops' => let '(s', out) := step s o in out :: run step s' ops'
  end.

Definition run_mvs (d : bytes) := run mvs_step {| mv_data := d; mv_pos := 0; mv_closed := false |}.
Definition run_bio (d : bytes) := run bio_step {| b_data := d; b_pos := 0; b_closed := false |}.

(* ---------------- observations for the correspondence harness -------------- *)
Definition obs_out (o : sout) : val :=
  match o with
  | OBytes l => VL [VZ 0; vlistZ l]
  | OInt z => VL [VZ 1; VZ z]
  | OValueError => VL [VZ 2]
  | ONone => VL [VZ 3]
  end.

Definition obs_stream_mvs (x : bytes * list sop) : val := VL (map obs_out (run_mvs (fst x) (snd x))).
Definition obs_stream_bio (x : bytes * list sop) : val := VL (map obs_out (run_bio (fst x) (snd x))).

(* a storage scenario: a list of writes (in completion order), then reads *)
Definition obs_fs (x : list (path * bytes) * list (path * option (Z * Z))) : val :=
  let s := fold_left (fun s w => fs_write s (fst w) (snd w)) (fst x) [] in
  VL (map (fun r => vopt vlistZ (fs_read s (fst r) (snd r))) (snd x)).
