(* C14 layer 3: torchsnapshot/manifest.py entries <-> the yaml/json object tree.
     yaml_of_entry / yaml_of_md   dataclasses.asdict: field order exactly as the dataclasses declare it
                                  (base class field "type" first, then the subclass fields)
     entry_of_yaml / md_of_yaml   the from_yaml_obj classmethods and the dispatch loop of SnapshotMetadata.from_yaml
     to_yaml / from_yaml_json     SnapshotMetadata.to_yaml and the json.loads branch of from_yaml
   The model is typed: Python would also build entries whose fields have the wrong type (no checks); the model
   rejects those.  Executable definitions only. *)
From TS Require Import model.Base model.Codec model.Json.

(* ------------------------------------------------------------------ entries *)
Inductive dkey := KInt (z : Z) | KStr (s : pystr) | KBool (b : bool).

Record tensor_entry := mkTensor {
  t_location : pystr; t_serializer : pystr; t_dtype : pystr; t_shape : list Z;
  t_replicated : bool; t_byte_range : option (list Z) }.

Record shard := mkShard { sh_offsets : list Z; sh_sizes : list Z; sh_tensor : tensor_entry }.

(* NestedList = Union[int, List[NestedList]] *)
Inductive mesh := MInt (z : Z) | MList (l : list mesh).

Inductive entry :=
| EList
| EDict (keys : list dkey)
| EOrderedDict (keys : list dkey)
| EPrim (k : pkind) (serialized_value : pystr) (replicated : bool) (readable : option pystr)
| ETensor (t : tensor_entry)
| ESharded (shards : list shard)
| EChunked (dtype : pystr) (shape : list Z) (chunks : list shard) (replicated : bool)
| EDTensor (shards : list shard) (m : mesh) (dim_map : list (list Z))
| EObject (location serializer obj_type : pystr) (replicated : bool).

Record metadata := mkMd { md_version : pystr; md_world_size : Z; md_manifest : list (pystr * entry) }.

(* the reader deletes "readable" (display only) *)
Definition drop_readable (e : entry) : entry :=
  match e with
  | EPrim k sv r _ => EPrim k sv r None
  | _ => e
  end.

Definition drop_readable_md (md : metadata) : metadata :=
  mkMd (md_version md) (md_world_size md) (map (fun pe => (fst pe, drop_readable (snd pe))) (md_manifest md)).

(* PrimitiveEntry.get_value *)
Definition entry_get_value (e : entry) : option pvalue :=
  match e with
  | EPrim k sv _ _ => get_value k sv
  | _ => None
  end.

(* PrimitiveEntry.from_object: readable is str(obj) for floats only; it is display text, kept opaque here *)
Definition from_object (v : pvalue) (float_repr : pystr) : entry :=
  EPrim (kind_of v) (serialize v) false (match v with VFloat _ => Some float_repr | _ => None end).

(* ------------------------------------------------------------------ names *)
Definition s_type : pystr := [116; 121; 112; 101].
Definition s_location : pystr := [108; 111; 99; 97; 116; 105; 111; 110].
Definition s_serializer : pystr := [115; 101; 114; 105; 97; 108; 105; 122; 101; 114].
Definition s_dtype : pystr := [100; 116; 121; 112; 101].
Definition s_shape : pystr := [115; 104; 97; 112; 101].
Definition s_replicated : pystr := [114; 101; 112; 108; 105; 99; 97; 116; 101; 100].
Definition s_byte_range : pystr := [98; 121; 116; 101; 95; 114; 97; 110; 103; 101].
Definition s_offsets : pystr := [111; 102; 102; 115; 101; 116; 115].
Definition s_sizes : pystr := [115; 105; 122; 101; 115].
Definition s_tensor : pystr := [116; 101; 110; 115; 111; 114].
Definition s_shards : pystr := [115; 104; 97; 114; 100; 115].
Definition s_chunks : pystr := [99; 104; 117; 110; 107; 115].
Definition s_mesh : pystr := [109; 101; 115; 104].
Definition s_dim_map : pystr := [100; 105; 109; 95; 109; 97; 112].
Definition s_obj_type : pystr := [111; 98; 106; 95; 116; 121; 112; 101].
Definition s_keys : pystr := [107; 101; 121; 115].
Definition s_serialized_value : pystr := [115; 101; 114; 105; 97; 108; 105; 122; 101; 100; 95; 118; 97; 108; 117; 101].
Definition s_readable : pystr := [114; 101; 97; 100; 97; 98; 108; 101].
Definition s_version : pystr := [118; 101; 114; 115; 105; 111; 110].
Definition s_world_size : pystr := [119; 111; 114; 108; 100; 95; 115; 105; 122; 101].
Definition s_manifest : pystr := [109; 97; 110; 105; 102; 101; 115; 116].
Definition s_list : pystr := [108; 105; 115; 116].
Definition s_dict : pystr := [100; 105; 99; 116].
Definition s_OrderedDict : pystr := [79; 114; 100; 101; 114; 101; 100; 68; 105; 99; 116].
Definition s_Tensor : pystr := [84; 101; 110; 115; 111; 114].
Definition s_ShardedTensor : pystr := [83; 104; 97; 114; 100; 101; 100; 84; 101; 110; 115; 111; 114].
Definition s_ChunkedTensor : pystr := [67; 104; 117; 110; 107; 101; 100; 84; 101; 110; 115; 111; 114].
Definition s_DTensor : pystr := [68; 84; 101; 110; 115; 111; 114].
Definition s_object : pystr := [111; 98; 106; 101; 99; 116].
Definition s_int : pystr := [105; 110; 116].
Definition s_str : pystr := [115; 116; 114].
Definition s_bool : pystr := [98; 111; 111; 108].
Definition s_bytes : pystr := [98; 121; 116; 101; 115].
Definition s_float : pystr := [102; 108; 111; 97; 116].

Definition kind_name (k : pkind) : pystr :=
  match k with PInt => s_int | PStr => s_str | PBool => s_bool | PBytes => s_bytes | PFloat => s_float end.

Definition kind_of_name (s : pystr) : option pkind :=
  if pystr_eqb s s_int then Some PInt
  else if pystr_eqb s s_str then Some PStr
  else if pystr_eqb s s_bool then Some PBool
  else if pystr_eqb s s_bytes then Some PBytes
  else if pystr_eqb s s_float then Some PFloat
  else None.

(* ------------------------------------------------------------------ asdict *)
Definition j_ints (l : list Z) : jvalue := JArr (map JInt l).
Definition j_key (k : dkey) : jvalue :=
  match k with KInt z => JInt z | KStr s => JStr s | KBool b => JBool b end.
Definition j_opt_ints (o : option (list Z)) : jvalue :=
  match o with None => JNull | Some l => j_ints l end.
Definition j_opt_str (o : option pystr) : jvalue :=
  match o with None => JNull | Some s => JStr s end.

Definition j_tensor (t : tensor_entry) : jvalue :=
  JObj [(s_type, JStr s_Tensor); (s_location, JStr (t_location t)); (s_serializer, JStr (t_serializer t));
        (s_dtype, JStr (t_dtype t)); (s_shape, j_ints (t_shape t)); (s_replicated, JBool (t_replicated t));
        (s_byte_range, j_opt_ints (t_byte_range t))].

Definition j_shard (s : shard) : jvalue :=
  JObj [(s_offsets, j_ints (sh_offsets s)); (s_sizes, j_ints (sh_sizes s)); (s_tensor, j_tensor (sh_tensor s))].

Fixpoint j_mesh (m : mesh) : jvalue :=
  match m with
  | MInt z => JInt z
  | MList l => JArr ((fix go (l : list mesh) : list jvalue :=
                        match l with [] => [] | x :: xs => j_mesh x :: go xs end) l)
  end.

Definition yaml_of_entry (e : entry) : jvalue :=
  match e with
  | EList => JObj [(s_type, JStr s_list)]
  | EDict ks => JObj [(s_type, JStr s_dict); (s_keys, JArr (map j_key ks))]
  | EOrderedDict ks => JObj [(s_type, JStr s_OrderedDict); (s_keys, JArr (map j_key ks))]
  | EPrim k sv r rd =>
      JObj [(s_type, JStr (kind_name k)); (s_serialized_value, JStr sv); (s_replicated, JBool r);
            (s_readable, j_opt_str rd)]
  | ETensor t => j_tensor t
  | ESharded shs => JObj [(s_type, JStr s_ShardedTensor); (s_shards, JArr (map j_shard shs))]
  | EChunked dt shp chs r =>
      JObj [(s_type, JStr s_ChunkedTensor); (s_dtype, JStr dt); (s_shape, j_ints shp);
            (s_chunks, JArr (map j_shard chs)); (s_replicated, JBool r)]
  | EDTensor shs m dm =>
      JObj [(s_type, JStr s_DTensor); (s_shards, JArr (map j_shard shs)); (s_mesh, j_mesh m);
            (s_dim_map, JArr (map j_ints dm))]
  | EObject loc ser ot r =>
      JObj [(s_type, JStr s_object); (s_location, JStr loc); (s_serializer, JStr ser); (s_obj_type, JStr ot);
            (s_replicated, JBool r)]
  end.

Definition yaml_of_md (md : metadata) : jvalue :=
  JObj [(s_version, JStr (md_version md)); (s_world_size, JInt (md_world_size md));
        (s_manifest, JObj (map (fun pe => (fst pe, yaml_of_entry (snd pe))) (md_manifest md)))].

Definition to_yaml (md : metadata) : list Z := print (yaml_of_md md).

(* ------------------------------------------------------------------ from_yaml_obj *)
Definition bind {A B} (o : option A) (f : A -> option B) : option B :=
  match o with Some a => f a | None => None end.
Notation "'do' x <- e ; k" := (bind e (fun x => k)) (at level 200, x name, e at level 100, k at level 200).

Fixpoint mapM {A B} (f : A -> option B) (l : list A) : option (list B) :=
  match l with
  | [] => Some []
  | x :: xs => do y <- f x; do ys <- mapM f xs; Some (y :: ys)
  end.

Fixpoint lookup (k : pystr) (l : list (pystr * jvalue)) : option jvalue :=
  match l with
  | [] => None
  | (k', v) :: l' => if pystr_eqb k' k then Some v else lookup k l'
  end.

Definition has (k : pystr) (l : list (pystr * jvalue)) : bool :=
  match lookup k l with Some _ => true | None => false end.
Definition b2n (b : bool) : nat := if b then 1%nat else 0%nat.

Definition get_int (v : jvalue) : option Z := match v with JInt z => Some z | _ => None end.
Definition get_str (v : jvalue) : option pystr := match v with JStr s => Some s | _ => None end.
Definition get_bool (v : jvalue) : option bool := match v with JBool b => Some b | _ => None end.
Definition get_arr (v : jvalue) : option (list jvalue) := match v with JArr l => Some l | _ => None end.
Definition get_obj (v : jvalue) : option (list (pystr * jvalue)) := match v with JObj l => Some l | _ => None end.
Definition get_ints (v : jvalue) : option (list Z) := do l <- get_arr v; mapM get_int l.
Definition get_key (v : jvalue) : option dkey :=
  match v with JInt z => Some (KInt z) | JStr s => Some (KStr s) | JBool b => Some (KBool b) | _ => None end.
Definition get_opt_ints (o : option jvalue) : option (option (list Z)) :=
  match o with
  | None => Some None                    (* constructor default byte_range=None *)
  | Some JNull => Some None
  | Some v => do l <- get_ints v; Some (Some l)
  end.

(* cls(kwargs = yaml_obj): a dict has unique keys, so "n keys and every expected key present" = exactly the expected keys *)
Definition nkeys (n : nat) (l : list (pystr * jvalue)) : bool := (length l =? n)%nat.

(* TensorEntry.from_yaml_obj = Entry.from_yaml_obj: "type" deleted when present, byte_range optional *)
Definition tensor_of_yaml (v : jvalue) : option tensor_entry :=
  do l <- get_obj v;
  do loc <- bind (lookup s_location l) get_str;
  do ser <- bind (lookup s_serializer l) get_str;
  do dt <- bind (lookup s_dtype l) get_str;
  do shp <- bind (lookup s_shape l) get_ints;
  do r <- bind (lookup s_replicated l) get_bool;
  do br <- get_opt_ints (lookup s_byte_range l);
  if nkeys (5 + b2n (has s_type l) + b2n (has s_byte_range l)) l
  then Some (mkTensor loc ser dt shp r br) else None.

Definition shard_of_yaml (v : jvalue) : option shard :=
  do l <- get_obj v;
  do offs <- bind (lookup s_offsets l) get_ints;
  do szs <- bind (lookup s_sizes l) get_ints;
  do t <- bind (lookup s_tensor l) tensor_of_yaml;
  if nkeys 3 l then Some (mkShard offs szs t) else None.

Definition shards_of_yaml (v : jvalue) : option (list shard) :=
  do l <- get_arr v; mapM shard_of_yaml l.

Fixpoint mesh_of_yaml (v : jvalue) : option mesh :=
  match v with
  | JInt z => Some (MInt z)
  | JArr l =>
      match (fix go (l : list jvalue) : option (list mesh) :=
               match l with
               | [] => Some []
               | x :: xs => match mesh_of_yaml x, go xs with
                            | Some m, Some ms => Some (m :: ms)
                            | _, _ => None
                            end
               end) l with
      | Some ms => Some (MList ms)
      | None => None
      end
  | _ => None
  end.

Definition keys_of_yaml (v : jvalue) : option (list dkey) := do l <- get_arr v; mapM get_key l.
Definition dim_map_of_yaml (v : jvalue) : option (list (list Z)) := do l <- get_arr v; mapM get_ints l.

(* the if/elif chain of SnapshotMetadata.from_yaml on yaml_obj["type"], then the class's from_yaml_obj *)
Definition entry_of_yaml (v : jvalue) : option entry :=
  do l <- get_obj v;
  do ty <- bind (lookup s_type l) get_str;
  if pystr_eqb ty s_list then (if nkeys 1 l then Some EList else None)
  else if pystr_eqb ty s_dict then
    (do ks <- bind (lookup s_keys l) keys_of_yaml; if nkeys 2 l then Some (EDict ks) else None)
  else if pystr_eqb ty s_OrderedDict then
    (do ks <- bind (lookup s_keys l) keys_of_yaml; if nkeys 2 l then Some (EOrderedDict ks) else None)
  else match kind_of_name ty with
  | Some k =>
      do sv <- bind (lookup s_serialized_value l) get_str;
      do r <- bind (lookup s_replicated l) get_bool;
      do _rd <- lookup s_readable l;           (* del yaml_obj["readable"]: must exist, value dropped *)
      if nkeys 4 l then Some (EPrim k sv r None) else None
  | None =>
  if pystr_eqb ty s_Tensor then option_map ETensor (tensor_of_yaml v)
  else if pystr_eqb ty s_ShardedTensor then
    (do shs <- bind (lookup s_shards l) shards_of_yaml; if nkeys 2 l then Some (ESharded shs) else None)
  else if pystr_eqb ty s_ChunkedTensor then
    (do dt <- bind (lookup s_dtype l) get_str;
     do shp <- bind (lookup s_shape l) get_ints;
     do chs <- bind (lookup s_chunks l) shards_of_yaml;
     do r <- bind (lookup s_replicated l) get_bool;
     if nkeys 5 l then Some (EChunked dt shp chs r) else None)
  else if pystr_eqb ty s_DTensor then
    (do shs <- bind (lookup s_shards l) shards_of_yaml;
     do m <- bind (lookup s_mesh l) mesh_of_yaml;
     do dm <- bind (lookup s_dim_map l) dim_map_of_yaml;
     if nkeys 4 l then Some (EDTensor shs m dm) else None)
  else if pystr_eqb ty s_object then
    (do loc <- bind (lookup s_location l) get_str;
     do ser <- bind (lookup s_serializer l) get_str;
     do ot <- bind (lookup s_obj_type l) get_str;
     do r <- bind (lookup s_replicated l) get_bool;
     if nkeys 5 l then Some (EObject loc ser ot r) else None)
  else None
  end.

Definition type_names : list pystr :=
  [s_list; s_dict; s_OrderedDict; s_int; s_str; s_bool; s_bytes; s_float;
   s_Tensor; s_ShardedTensor; s_ChunkedTensor; s_DTensor; s_object].

(* a type name outside the if/elif chain (or a non-string) falls through: the entry is silently skipped *)
Definition type_known (t : jvalue) : bool :=
  match t with JStr s => existsb (pystr_eqb s) type_names | _ => false end.

Fixpoint manifest_of_yaml (l : list (pystr * jvalue)) : option (list (pystr * entry)) :=
  match l with
  | [] => Some []
  | (p, v) :: l' =>
      do f <- get_obj v;
      do t <- lookup s_type f;
      if type_known t then
        do e <- entry_of_yaml v; do rest <- manifest_of_yaml l'; Some ((p, e) :: rest)
      else manifest_of_yaml l'
  end.

Definition md_of_yaml (v : jvalue) : option metadata :=
  do d <- get_obj v;
  do ml <- bind (lookup s_manifest d) get_obj;
  do m <- manifest_of_yaml ml;
  do ver <- bind (lookup s_version d) get_str;
  do ws <- bind (lookup s_world_size d) get_int;
  if nkeys 3 d then Some (mkMd ver ws m) else None.

(* the json.loads branch of SnapshotMetadata.from_yaml *)
Definition from_yaml_json (s : list Z) : option metadata :=
  match parse s with Some v => md_of_yaml v | None => None end.

(* from_yaml: json.loads first; only when it raises ValueError, the legacy YAML loader (an oracle) *)
Definition from_yaml (yaml_oracle : list Z -> option metadata) (s : list Z) : option metadata :=
  match parse s with Some v => md_of_yaml v | None => yaml_oracle s end.

(* ------------------------------------------------------------------ well-formed metadata
   every string that occurs in it (version, logical paths, dict keys, string primitives, locations, dtypes ...)
   is a sequence of code points 0..0x10FFFF without a high surrogate immediately followed by a low one
   (Json.str_ok), and the manifest paths are pairwise distinct (it is a Python dict) *)
Definition tensor_strs (t : tensor_entry) : list pystr := [t_location t; t_serializer t; t_dtype t].
Definition shard_strs (s : shard) : list pystr := tensor_strs (sh_tensor s).
Definition key_strs (k : dkey) : list pystr := match k with KStr s => [s] | _ => [] end.
Definition entry_strs (e : entry) : list pystr :=
  match e with
  | EList => []
  | EDict ks => flat_map key_strs ks
  | EOrderedDict ks => flat_map key_strs ks
  | EPrim _ sv _ rd => sv :: match rd with Some s => [s] | None => [] end
  | ETensor t => tensor_strs t
  | ESharded shs => flat_map shard_strs shs
  | EChunked dt _ chs _ => dt :: flat_map shard_strs chs
  | EDTensor shs _ _ => flat_map shard_strs shs
  | EObject a b c _ => [a; b; c]
  end.
Definition entry_ok (e : entry) : bool := forallb str_ok (entry_strs e).
Definition md_ok (md : metadata) : bool :=
  str_ok (md_version md) && nodup_str (map fst (md_manifest md)) &&
  forallb (fun pe => str_ok (fst pe) && entry_ok (snd pe)) (md_manifest md).

(* ------------------------------------------------------------------ observations *)
Definition obs_to_yaml (md : metadata) : val := vlistZ (to_yaml md).

(* [0] json.loads raises; [1] it parses but building the metadata raises; [2; text] accepted, re-serialised *)
Definition obs_read (s : list Z) : val :=
  match parse s with
  | None => VL [VZ 0]
  | Some v => match md_of_yaml v with
              | None => VL [VZ 1]
              | Some md => VL [VZ 2; vlistZ (to_yaml md)]
              end
  end.

Definition obs_roundtrip (md : metadata) : val := obs_read (to_yaml md).

(* every strict prefix of a document, shortest first *)
Definition obs_prefixes (doc : list Z) : val :=
  VL (map (fun k => obs_read (firstn k doc)) (seq 0 (length doc))).

Definition obs_get_value (x : pkind * pystr) : val :=
  match get_value (fst x) (snd x) with
  | None => VL []
  | Some (VInt z) => VL [VZ 0; VZ z]
  | Some (VStr s) => VL [VZ 1; vlistZ s]
  | Some (VBool b) => VL [VZ 2; vbool b]
  | Some (VBytes bs) => VL [VZ 3; vlistZ bs]
  | Some (VFloat bs) => VL [VZ 4; vlistZ bs]
  end.
