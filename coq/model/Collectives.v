(* C12: collective skeletons.  The skeletons of take / async_take / restore are generated from the source by
   translator/gen_coll.py on every run (coq/gen/CollGen.v); this file gives their semantics, the decidable
   uniformity condition, and an acceptance function used to validate the translation against recorded runs.
   Executable definitions only. *)
From TS Require Import model.Base.
From Coq Require Import Arith.
Local Close Scope Z_scope.
Local Open Scope nat_scope.

(* collective kinds: 0 barrier, 1 broadcast_object_list, 2 all_gather_object, 3 scatter_object_list *)
Inductive skel :=
| Skip
| Coll (k : nat)
| Ret                              (* return from the enclosing function (nearest Scope) *)
| Seq (a b : skel)
| Scope (s : skel)                 (* an inlined function body *)
| IfU (c : nat) (a b : skel)       (* condition that is the same on every rank *)
| IfL (c : nat) (a b : skel)       (* condition that may differ between ranks *)
| LoopU (c : nat) (b : skel)       (* iteration count the same on every rank *)
| LoopL (c : nat) (b : skel).      (* iteration count may differ between ranks *)

(* An environment answers "value of condition / loop count number c in iteration context ctx"
   (ctx = the indices of the enclosing loop iterations, innermost first), so a condition may evaluate
   differently in every iteration.  genv is shared by all ranks, lenv is per rank. *)
Definition env := nat -> list nat -> nat.

Section Run.
Variables (g l : env).

(* run the loop body for i = start, start+1, ..., start+n-1 unless it returns *)
Fixpoint iter (body : list nat -> list nat * bool) (ctx : list nat) (n start : nat) : list nat * bool :=
  match n with
  | O => ([], false)
  | S n' =>
      let '(t, r) := body (start :: ctx) in
      if r then (t, true)
      else let '(t', r') := iter body ctx n' (S start) in (t ++ t', r')
  end.

Fixpoint run (s : skel) (ctx : list nat) : list nat * bool :=
  match s with
  | Skip => ([], false)
  | Coll k => ([k], false)
  | Ret => ([], true)
  | Seq a b =>
      let '(t, r) := run a ctx in
      if r then (t, true) else let '(t', r') := run b ctx in (t ++ t', r')
  | Scope s' => (fst (run s' ctx), false)
  | IfU c a b => if Nat.eqb (g c ctx) 0 then run b ctx else run a ctx
  | IfL c a b => if Nat.eqb (l c ctx) 0 then run b ctx else run a ctx
  | LoopU c b => iter (run b) ctx (g c ctx) 0
  | LoopL c b => iter (run b) ctx (l c ctx) 0
  end.
End Run.

Definition trace (s : skel) (g l : env) : list nat := fst (run g l s []).

(* ------------------------------------------------------------------ the decidable condition *)
Fixpoint has_coll (s : skel) : bool :=
  match s with
  | Skip | Ret => false
  | Coll _ => true
  | Seq a b | IfU _ a b | IfL _ a b => has_coll a || has_coll b
  | Scope s' | LoopU _ s' | LoopL _ s' => has_coll s'
  end.

(* may execute a Ret (escaping to the enclosing function) whose execution depends on rank-local state *)
Fixpoint may_ret (s : skel) : bool :=
  match s with
  | Skip | Coll _ | Scope _ => false
  | Ret => true
  | Seq a b | IfU _ a b | IfL _ a b => may_ret a || may_ret b
  | LoopU _ b | LoopL _ b => may_ret b
  end.

Fixpoint lret (s : skel) : bool :=
  match s with
  | Skip | Coll _ | Ret | Scope _ => false
  | Seq a b => lret a || lret b
  | IfU _ a b => lret a || lret b
  | IfL _ a b => may_ret a || may_ret b
  | LoopU _ b => lret b
  | LoopL _ b => may_ret b
  end.

Fixpoint uniform (s : skel) : bool :=
  match s with
  | Skip | Coll _ | Ret => true
  | Seq a b => uniform a && uniform b && (negb (lret a) || negb (has_coll b))
  | Scope s' => uniform s'
  | IfU _ a b => uniform a && uniform b
  | IfL _ a b => negb (has_coll a) && negb (has_coll b)
  | LoopU _ b => uniform b && (negb (lret b) || negb (has_coll b))
  | LoopL _ b => negb (has_coll b)
  end.

(* ------------------------------------------------------------------ acceptance of a recorded sequence *)
(* all (remaining suffix, returned?) configurations after the skeleton consumed a prefix of the sequence,
   for SOME environment: conditions and loop counts are existentially quantified *)
Definition cfg := (list nat * bool)%type.

Fixpoint cfg_mem (c : cfg) (l : list cfg) : bool :=
  match l with
  | [] => false
  | (t, r) :: rest => (list_eqb Nat.eqb (fst c) t && Bool.eqb (snd c) r) || cfg_mem c rest
  end.
Fixpoint cfg_union (a b : list cfg) : list cfg :=
  match a with [] => b | c :: a' => if cfg_mem c b then cfg_union a' b else c :: cfg_union a' b end.

Definition bind (cs : list cfg) (f : list nat -> list cfg) : list cfg :=
  fold_right (fun c acc => match c with (t, true) => cfg_union [(t, true)] acc | (t, false) => cfg_union (f t) acc end) [] cs.

(* zero or more iterations of f, at most [fuel] of them (each useful iteration consumes at least one element,
   the harness passes fuel = length of the sequence + 1) *)
Fixpoint star (f : list nat -> list cfg) (fuel : nat) (cs : list cfg) : list cfg :=
  match fuel with
  | O => cs
  | S fuel' => cfg_union cs (star f fuel' (bind cs f))
  end.

Fixpoint steps (s : skel) (fuel : nat) (t : list nat) : list cfg :=
  match s with
  | Skip => [(t, false)]
  | Coll k => match t with x :: t' => if Nat.eqb x k then [(t', false)] else [] | [] => [] end
  | Ret => [(t, true)]
  | Seq a b => bind (steps a fuel t) (steps b fuel)
  | Scope s' => map (fun c => (fst c, false)) (steps s' fuel t)
  | IfU _ a b | IfL _ a b => cfg_union (steps a fuel t) (steps b fuel t)
  | LoopU _ b | LoopL _ b => star (steps b fuel) fuel [(t, false)]
  end.

Definition accepts (s : skel) (t : list nat) : bool :=
  existsb (fun c => match fst c with [] => true | _ => false end) (steps s (S (length t)) t).

Definition obs_accepts (s : skel) (t : list Z) : val := vbool (accepts s (map Z.to_nat t)).
