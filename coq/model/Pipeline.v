(* C01 / C18: the tensor data path end to end at the byte level, composed from the component models:
     leaf bytes --(chunk along dim 0 when larger than the chunk knob)--> pieces
                --(slab batching, model/Batch.v)--> storage objects
                --(read plan: whole / ranged / tiled under a buffer limit; merged per location)--> deliveries
                --(reassembly in chunk order)--> leaf bytes.
   Executable definitions only. *)
From TS Require Import model.Base model.Chunk model.Batch.

(* ---- write side: io_preparer.prepare_write's chunk decision + ChunkedTensorIOPreparer ------------------- *)
(* byte ranges (within the tensor's row-major bytes) and shapes of the dim-0 chunks; chunk k is staged as the
   contiguous bytes of tensor.narrow(0, off_k, len_k) *)
Definition chunk_ranges (shape : list Z) (esize csz : Z) : option (list tile_t) :=
  let sh := shape1 shape in
  if csz <=? 0 then None
  else match torch_chunk (hd 0 sh) (cdiv (prodZ sh * esize) csz) with
       | None => None
       | Some lens => Some (tile_ranges esize (tl sh) 0 lens)
       end.

Definition cut (b : bytes) (rs : list tile_t) : list bytes :=
  map (fun t => slice b (fst (fst t)) (snd (fst t))) rs.

(* `if obj.nelement() * obj.element_size() > get_max_chunk_size_bytes()` : chunk, else one piece *)
Definition pieces (shape : list Z) (esize csz : Z) (b : bytes) : option (list bytes) :=
  if prodZ shape * esize >? csz then
    match chunk_ranges shape esize csz with Some rs => Some (cut b rs) | None => None end
  else Some [b].

(* ---- read side ------------------------------------------------------------------------------------------ *)
(* what a consumer id receives: the first delivery addressed to it, or nothing (an empty buffer's consumer
   may be skipped by the batched consumer: C16) *)
Fixpoint delivered (id : Z) (dl : list (Z * bytes)) : bytes :=
  match dl with
  | [] => []
  | (c, buf) :: r => if c =? id then buf else delivered id r
  end.

Definition reassemble (ids : list Z) (dl : list (Z * bytes)) : bytes :=
  concat (map (fun id => delivered id dl) ids).

(* a tiled read of one stored piece (prepare_read_tiled): ranges relative to the object, then concatenation
   of what the tile consumers copy into consecutive slices of the flattened output tensor *)
Definition tiled_read (obj : bytes) (shape : list Z) (flat : bool) (esize limit base : Z) : option bytes :=
  match tile shape flat esize limit base with
  | None => None
  | Some ts => Some (concat (cut obj ts))
  end.

Definition tile_costs (ts : list tile_t) : list (Z * Z) :=
  map (fun t => (snd (fst t) - fst (fst t), snd (fst t) - fst (fst t))) ts.

(* ---- observations --------------------------------------------------------------------------------------- *)
Definition obs_pieces (x : list Z * Z * Z * bytes) : val :=
  let '(shape, esize, csz, b) := x in vopt (fun ps => VL (map vlistZ ps)) (pieces shape esize csz b).
Definition obs_tiled_read (x : bytes * list Z * bool * Z * Z * Z) : val :=
  let '(obj, shape, flat, esize, limit, base) := x in vopt vlistZ (tiled_read obj shape flat esize limit base).
