(* C06: torchsnapshot/partitioner.py (+ Snapshot._calculate_replicated_entries).
   Executable definitions only.

   The choice of the writer rank, the load update, the merge order of consolidated chunks, the dedup default and
   the "present on all ranks" test are NOT written here: they are the constants of coq/gen/PartitionGen.v,
   regenerated from the source on every run, and the functions below are DEFINED from them
   (an edit argmin -> argmax in partitioner.py changes [choose] and the balance proof stops checking).

   Not modelled: partially replicated DTensor entries (`is_partially_replicated_entry`: choice restricted to the
   replicated ranks of each shard); ranks that disagree on the write loads of a replicated, non-subpartitionable
   path (the code sizes the unit with rank 0's loads and hands out the chosen rank's loads; the model gives every
   rank the same loads for a replicated path, which is what "replicated" means). *)
From TS Require Import model.Base gen.PartitionGen.

Definition zlen {A} (l : list A) : Z := Z.of_nat (length l).

Fixpoint memz (i : Z) (l : list Z) : bool :=
  match l with [] => false | x :: r => if Z.eqb i x then true else memz i r end.

(* ------------------------------------------------------------------ choice of the writer rank *)
(* first index holding the minimum: min(ranks, key=...) over ranks 0..W-1 and np.argmin both return it *)
Fixpoint first_min (l : list Z) : nat :=
  match l with
  | [] => O
  | x :: r => match r with
              | [] => O
              | _ :: _ => let j := first_min r in if x <=? nth j r 0 then O else S j
              end
  end.

(* first index holding the maximum: max(ranks, key=...) and np.argmax *)
Fixpoint first_max (l : list Z) : nat :=
  match l with
  | [] => O
  | x :: r => match r with
              | [] => O
              | _ :: _ => let j := first_max r in if x >=? nth j r 0 then O else S j
              end
  end.

Definition choose (c : gen_choice) (sizes : list Z) : nat :=
  match c with ChooseFirstMin => first_min sizes | ChooseFirstMax => first_max sizes end.

(* rank_to_size[chosen_rank] += size   (or nothing, if the statement is not in the source) *)
Definition bump (u : gen_update) (s x : Z) : Z :=
  match u with AddSize => x + s | AddNothing => x end.

Fixpoint upd_at (c : nat) (f : Z -> Z) (l : list Z) : list Z :=
  match l with
  | [] => []
  | x :: r => match c with O => f x :: r | S c' => x :: upd_at c' f r end
  end.

(* ------------------------------------------------------------------ write loads and units of work *)
(* _WriteLoad(logical_path, write_req_idx, size) *)
Definition load := (Z * Z * Z)%type.
Definition l_path (l : load) : Z := fst (fst l).
Definition l_idx (l : load) : Z := snd (fst l).
Definition l_size (l : load) : Z := snd l.
Definition load_eqb (a b : load) : bool :=
  (l_path a =? l_path b) && (l_idx a =? l_idx b) && (l_size a =? l_size b).

(* a unit of partitioning: the write loads that travel together and the size the greedy pass adds *)
Record wunit := mkUnit { u_loads : list load; u_size : Z }.
(* non-subpartitionable path: all its write requests, size = sum(wl.size) *)
Definition whole_unit (ls : list load) : wunit := mkUnit ls (sumZ (map l_size ls)).
(* one chunk of a subpartitionable path *)
Definition chunk_unit (l : load) : wunit := mkUnit [l] (l_size l).

(* one replicated logical path of rank 0's dict: (path, _is_subpartitionable, rank_to_write_loads[0][path]) *)
Definition item := (Z * bool * list load)%type.
Definition it_path (it : item) : Z := fst (fst it).
Definition it_sub (it : item) : bool := snd (fst it).
Definition it_loads (it : item) : list load := snd it.

(* the greedy loop: choose, hand the unit to the chosen rank, update its load *)
Fixpoint greedy (ch : gen_choice) (up : gen_update) (sizes : list Z) (us : list wunit)
  : list Z * list (nat * wunit) :=
  match us with
  | [] => (sizes, [])
  | u :: r =>
      let c := choose ch sizes in
      let res := greedy ch up (upd_at c (bump up (u_size u)) sizes) r in
      (fst res, (c, u) :: snd res)
  end.

(* first loop of _partition_write_loads, as coded: over rank 0's paths in dict order; whole paths are assigned
   at once by _assign_rank_write_loads (candidates = all ranks), chunks are collected in `partitionables` *)
Fixpoint pass1 (sizes : list Z) (items : list item) : list Z * list (nat * wunit) * list load :=
  match items with
  | [] => (sizes, [], [])
  | it :: r =>
      if it_sub it then
        let res := pass1 sizes r in
        (fst (fst res), snd (fst res), it_loads it ++ snd res)
      else
        let u := whole_unit (it_loads it) in
        let c := choose gen_choice_pass1 sizes in
        let res := pass1 (upd_at c (bump gen_update_pass1 (u_size u)) sizes) r in
        (fst (fst res), (c, u) :: snd (fst res), snd res)
  end.

Definition partitionables (items : list item) : list load := snd (pass1 [] items).

(* both loops.  [ord] is the order in which `for partitionable in partitionables` (a Python set) visits the
   collected chunks: an argument, every theorem quantifies over all of them *)
Definition partition (sizes : list Z) (items : list item) (ord : list load) : list Z * list (nat * wunit) :=
  let r1 := pass1 sizes items in
  let r2 := greedy gen_choice_pass2 gen_update_pass2 (fst (fst r1)) (map chunk_unit ord) in
  (fst r2, snd (fst r1) ++ snd r2).

(* partition_result[r] *)
Definition rank_units (asg : list (nat * wunit)) (r : nat) : list wunit :=
  map snd (filter (fun a => Nat.eqb (fst a) r) asg).
Definition rank_loads (asg : list (nat * wunit)) (r : nat) : list load :=
  flat_map u_loads (rank_units asg r).
Definition partition_result (W : nat) (asg : list (nat * wunit)) : list (list load) :=
  map (rank_loads asg) (seq 0 W).

(* size of the last unit handed to rank r *)
Fixpoint last_size (asg : list (nat * wunit)) (r : nat) : option Z :=
  match asg with
  | [] => None
  | (c, u) :: rest =>
      match last_size rest r with
      | Some s => Some s
      | None => if Nat.eqb c r then Some (u_size u) else None
      end
  end.

(* ------------------------------------------------------------------ sorting (Python's stable `sorted`) *)
Fixpoint insert {A} (leb : A -> A -> bool) (x : A) (l : list A) : list A :=
  match l with
  | [] => [x]
  | y :: r => if leb x y then x :: y :: r else y :: insert leb x r
  end.
Definition isort {A} (leb : A -> A -> bool) (l : list A) : list A := fold_right (insert leb) [] l.

(* list comparison of Python: lexicographic, a proper prefix is smaller *)
Fixpoint lex_leb (a b : list Z) : bool :=
  match a, b with
  | [], _ => true
  | _ :: _, [] => false
  | x :: a', y :: b' => if x <? y then true else if y <? x then false else lex_leb a' b'
  end.

Definition pair_leb (a b : Z * Z) : bool :=
  if fst a <? fst b then true else if fst b <? fst a then false else snd a <=? snd b.

(* ------------------------------------------------------------------ entries and manifests *)
(* a chunk of a ChunkedTensorEntry: (offsets, identity of the Shard record: location/sizes/...) *)
Definition chunk := (list Z * Z)%type.
Definition chunk_leb (a b : chunk) : bool := lex_leb (fst a) (fst b).
Definition chunk_eqb (a b : chunk) : bool := list_eqb Z.eqb (fst a) (fst b) && (snd a =? snd b).

Inductive entry :=
| EChunked (repl : bool) (meta : Z) (chunks : list chunk)   (* ChunkedTensorEntry: replicated, (dtype, shape), chunks *)
| EOther (repl : bool) (id : Z).                            (* any other entry: is_fully_replicated_entry, identity *)

Definition is_repl (e : entry) : bool :=
  match e with EChunked r _ _ => r | EOther r _ => r end.
Definition is_repl_chunked (e : entry) : bool :=
  match e with EChunked r _ _ => r | EOther _ _ => false end.
Definition entry_eqb (a b : entry) : bool :=
  match a, b with
  | EChunked r m cs, EChunked r' m' cs' => Bool.eqb r r' && (m =? m') && list_eqb chunk_eqb cs cs'
  | EOther r i, EOther r' i' => Bool.eqb r r' && (i =? i')
  | _, _ => false
  end.

(* a Python dict str -> Entry in insertion order *)
Definition manifest := list (Z * entry).
Fixpoint lookup (p : Z) (m : manifest) : option entry :=
  match m with [] => None | (q, e) :: r => if q =? p then Some e else lookup p r end.
(* d[p] = e : replaces in place, or appends *)
Fixpoint dset (p : Z) (e : entry) (m : manifest) : manifest :=
  match m with
  | [] => [(p, e)]
  | (q, x) :: r => if q =? p then (q, e) :: r else (q, x) :: dset p e r
  end.

(* ------------------------------------------------------------------ rank-local selection
   _partition_replicated_write_reqs after the broadcast: the rank keeps the write requests of ITS list, visited
   sorted by (path, idx); a chunked entry keeps only the chunks picked by write_req_idx *)
Definition wreqs := list (Z * list Z).     (* path -> indices into the original write_reqs[path] *)
Fixpoint wr_add (p i : Z) (w : wreqs) : wreqs :=
  match w with
  | [] => [(p, [i])]
  | (q, l) :: r => if q =? p then (q, l ++ [i]) :: r else (q, l) :: wr_add p i r
  end.

Definition sel_step (entries : manifest) (st : manifest * wreqs) (pi : Z * Z) : manifest * wreqs :=
  let p := fst pi in
  let i := snd pi in
  match lookup p entries with
  | None => st                                        (* KeyError in Python: never for a verified replicated path *)
  | Some (EChunked rp meta cs) =>
      let ch := nth (Z.to_nat i) cs ([], -1) in
      let ne := match lookup p (fst st) with
                | Some (EChunked _ _ cs') => dset p (EChunked rp meta (cs' ++ [ch])) (fst st)
                | _ => dset p (EChunked rp meta [ch]) (fst st)
                end in
      (ne, wr_add p i (snd st))
  | Some e => (dset p e (fst st), wr_add p i (snd st))
  end.

Definition sorted_pairs (rl : list load) : list (Z * Z) :=
  isort pair_leb (map (fun l => (l_path l, l_idx l)) rl).

Definition select (entries : manifest) (rl : list load) : manifest * wreqs :=
  fold_left (sel_step entries) (sorted_pairs rl) ([], []).

(* chunks a rank keeps for path p *)
Definition selected_chunks (entries : manifest) (rl : list load) (p : Z) : list chunk :=
  match lookup p (fst (select entries rl)) with
  | Some (EChunked _ _ cs) => cs
  | _ => []
  end.

(* ------------------------------------------------------------------ consolidate_replicated_entries *)
Definition merge_chunks (cs : list chunk) : list chunk :=
  match gen_merge_order with MergeSortedByOffsets => isort chunk_leb cs | MergeUnsorted => cs end.

Definition repl_chunks_at (p : Z) (m : manifest) : list chunk :=
  match lookup p m with Some (EChunked true _ cs) => cs | _ => [] end.
Definition repl_meta_at (p : Z) (m : manifest) : option Z :=
  match lookup p m with Some (EChunked true meta _) => Some meta | _ => None end.

Fixpoint dedupz (l : list Z) (seen : list Z) : list Z :=
  match l with
  | [] => []
  | x :: r => if memz x seen then dedupz r seen else x :: dedupz r (x :: seen)
  end.

(* keys of `groups`, in first-insertion order *)
Definition group_paths (ms : list manifest) : list Z :=
  dedupz (flat_map (fun m => map fst (filter (fun kv => is_repl_chunked (snd kv)) m)) ms) [].

Fixpoint first_some {A} (l : list (option A)) : option A :=
  match l with [] => None | Some x :: _ => Some x | None :: r => first_some r end.

(* merged = ChunkedTensorEntry(group[0].dtype/shape, chunks = sorted(all chunks of the group), replicated=True) *)
Definition merged_entry (ms : list manifest) (p : Z) : entry :=
  EChunked true
    (match first_some (map (repl_meta_at p) ms) with Some m => m | None => 0 end)
    (merge_chunks (flat_map (repl_chunks_at p) ms)).

(* _consolidate_replicated_chunked_tensor_entries: for every group, entries[path] = merged on EVERY rank *)
Definition step1 (ms : list manifest) : list manifest :=
  fold_left (fun cur p => map (dset p (merged_entry ms p)) cur) (group_paths ms) ms.

(* collection loop: first occurrence wins, a later different one is a ValueError (None) *)
Fixpoint collect (kvs : manifest) (acc : manifest) : option manifest :=
  match kvs with
  | [] => Some acc
  | (p, e) :: r =>
      if is_repl e then
        match lookup p acc with
        | Some e' => if entry_eqb e' e then collect r acc else None
        | None => collect r (acc ++ [(p, e)])
        end
      else collect r acc
  end.

Definition strip_repl (m : manifest) : manifest := filter (fun kv => negb (is_repl (snd kv))) m.
Definition add_reps (reps : manifest) (m : manifest) : manifest :=
  fold_left (fun cur kv => dset (fst kv) (snd kv) cur) reps m.

(* `if dedup and rank != 0: continue` *)
Definition gets_reps (dedup : bool) (r : nat) : bool := negb (dedup && negb (Nat.eqb r 0)).

Fixpoint map_ranks (f : nat -> manifest -> manifest) (r : nat) (ms : list manifest) : list manifest :=
  match ms with [] => [] | m :: t => f r m :: map_ranks f (S r) t end.

Definition consolidate_with (dedup : bool) (ms : list manifest) : option (list manifest) :=
  let ms1 := step1 ms in
  match collect (concat ms1) [] with
  | None => None
  | Some reps =>
      Some (map_ranks (fun r m => if gets_reps dedup r then add_reps reps (strip_repl m) else strip_repl m) 0 ms1)
  end.

(* what Snapshot._gather_manifest calls *)
Definition consolidate (ms : list manifest) : option (list manifest) := consolidate_with gen_dedup_default ms.

(* ------------------------------------------------------------------ Snapshot._calculate_replicated_entries *)
(* per rank: paths p of `flattened` with any(fnmatch(p, g) for g in globs) and not is_sharded(value) *)
Definition rp_matched (fm : Z -> Z -> bool) (globs : list Z) (sharded : Z -> bool) (keys : list Z) : list Z :=
  filter (fun p => existsb (fm p) globs && negb (sharded p)) keys.

Definition countz (p : Z) (l : list Z) : Z :=
  fold_right (fun q n => if q =? p then n + 1 else n) 0 l.

(* rank 0: filter its own list by the count over the all-gathered lists *)
Definition rp_filter (lists : list (list Z)) : list Z :=
  match lists with
  | [] => []
  | l0 :: _ => filter (fun p => gen_replicated_count_test (countz p (concat lists)) (zlen lists)) l0
  end.

Definition replicated_paths (fm : Z -> Z -> bool) (globs : list Z) (ranks : list (list Z * (Z -> bool))) : list Z :=
  rp_filter (map (fun ks => rp_matched fm globs (snd ks) (fst ks)) ranks).

(* ------------------------------------------------------------------ observations for the correspondence harness *)
Definition vload (l : load) : val := VL [VZ (l_path l); VZ (l_idx l); VZ (l_size l)].

Fixpoint count_load (x : load) (l : list load) : Z :=
  match l with [] => 0 | y :: r => (if load_eqb x y then 1 else 0) + count_load x r end.
Definition perm_loads (a b : list load) : bool :=
  (zlen a =? zlen b) && forallb (fun x => count_load x a =? count_load x b) a.

(* (starting loads, items of rank 0 in dict order, observed visit order of the set)
   -> [visit order is a permutation of the collected chunks; partition_result per rank; final rank_to_size] *)
Definition obs_partition (x : list Z * list item * list load) : val :=
  let sizes := fst (fst x) in
  let items := snd (fst x) in
  let ord := snd x in
  let res := partition sizes items ord in
  VL [vbool (perm_loads ord (partitionables items));
      VL (map (fun ls => VL (map vload ls)) (partition_result (length sizes) (snd res)));
      vlistZ (fst res)].

Definition vchunk (c : chunk) : val := VL [vlistZ (fst c); VZ (snd c)].
Definition ventry (e : entry) : val :=
  match e with
  | EChunked r m cs => VL [VZ 0; vbool r; VZ m; VL (map vchunk cs)]
  | EOther r i => VL [VZ 1; vbool r; VZ i]
  end.
Definition vmanifest (m : manifest) : val := VL (map (fun kv => VL [VZ (fst kv); ventry (snd kv)]) m).

(* (replicated entries of the rank, partition_result[rank]) -> [new_entries; new_write_reqs] *)
Definition obs_select (x : manifest * list load) : val :=
  let r := select (fst x) (snd x) in
  VL [vmanifest (fst r); VL (map (fun pl => VL [VZ (fst pl); vlistZ (snd pl)]) (snd r))].

(* all-gathered manifests -> [] on ValueError, [[manifest per rank]] otherwise *)
Definition obs_consolidate (ms : list manifest) : val :=
  vopt (fun out => VL (map vmanifest out)) (consolidate ms).

(* (fnmatch table as the list of matching (path, glob) pairs, globs, per rank (keys, sharded keys)) *)
Definition obs_replicated_paths (x : list (Z * Z) * list Z * list (list Z * list Z)) : val :=
  let tbl := fst (fst x) in
  let fm := fun p g => existsb (fun pg => (fst pg =? p) && (snd pg =? g)) tbl in
  vlistZ (replicated_paths fm (snd (fst x)) (map (fun ks => (fst ks, fun p => memz p (snd ks))) (snd x))).
