(* C04: the generated pieces of the read path (gen/ReadPathGen.v, regenerated from the source on every run by
   translator/gen_readpath.py; FSStoragePlugin.read from gen/StreamGen.v) wired into one restore / read_object run, and
   the observations the correspondence harness evaluates.  Executable definitions only.

   What is wiring here (hand-written, exercised by the correspondences):
     - a missing object makes the storage read raise (aiofiles.open on a missing path);
     - dynamic dispatch of consume_buffer on the consumer object (g_consume) and of prepare_read on the entry type
       (g_entry_prepare_read: io_preparer.prepare_read), concatenation of the per-entry read requests;
     - consumer ids are positions in the list of read requests; batching on/off (TORCHSNAPSHOT_DISABLE_BATCHING);
     - the values stored by the consumers of one call are collected in one list. *)
From TS Require Import model.Base model.FsStream model.Chunk model.Batch model.ReadDamage model.ReadPathPrims.
From TS Require Import gen.StreamGen gen.ReadPathGen.

(* FSStoragePlugin.read through the generated file program *)
Definition g_storage_read (s : rd_store) (p : Z) (rg : option (Z * Z)) : option bytes :=
  match lookup s p with
  | None => None
  | Some ob => Some (g_fs_read ob rg)
  end.

(* the hand model's view of a generated read request *)
Definition g_kind_of (c : gcons) : rd_kind :=
  match c with
  | GCTensor e | GCSharded e => if te_bufproto e then RdTensor (te_esize e) (te_shape e) else RdLoad
  | GCObject => RdLoad
  end.
Definition g_leaf_of (g : greq) : rd_leaf := mkLeaf (gq_path g) (gq_range g) (g_kind_of (gq_cons g)).

Definition g_reqs_of (gs : list greq) : list rreq :=
  map (fun ig : Z * greq => (gq_path (snd ig), gq_range (snd ig), fst ig)) (index_from 0 gs).

Definition g_plan (batching : bool) (gs : list greq) : list rd_req :=
  if batching then map rd_of_rplan (g_batch_read_requests (g_reqs_of gs))
  else map (fun r : rreq => RdSingle (rq_path r) (rq_range r) (rq_cons r)) (g_reqs_of gs).

Definition g_req_range (r : rd_req) : option (Z * Z) :=
  match r with RdSingle _ rg _ => rg | RdBatched _ lo hi _ => Some (lo, hi) end.

Section GenRun.
  Variable obj : Type.
  Variable load : bytes -> option obj.      (* torch.load, external *)

  (* execute_read_reqs hands its ThreadPoolExecutor to every consumer: executor is not None *)
  Definition g_consume (c : gcons) (buf : bytes) : option (rd_value obj) :=
    match c with
    | GCTensor e => g_tensor_consume obj load e true buf
    | GCSharded e => g_sharded_consume obj load e true buf
    | GCObject => g_object_consume obj load buf
    end.

  Definition g_consume_one (gs : list greq) (d : Z * bytes) : option (Z * rd_value obj) :=
    if fst d <? 0 then None
    else match nth_error gs (Z.to_nat (fst d)) with
         | None => None
         | Some g => obind (g_consume (gq_cons g) (snd d)) (fun v => Some (fst d, v))
         end.

  Definition g_req_consume (gs : list greq) (r : rd_req) (buf : bytes) : option (list (Z * rd_value obj)) :=
    match r with
    | RdSingle _ _ c => obind (g_consume_one gs (c, buf)) (fun x => Some [x])
    | RdBatched _ _ _ subs => g_batched_consume (g_consume_one gs) subs buf
    end.

  Definition g_run (gs : list greq) (s : rd_store) (plan : list rd_req) : option (list (Z * rd_value obj)) :=
    obind (g_execute_read_reqs
             (fun r : rd_req => g_pipeline_read_buffer (g_storage_read s) (rd_req_path r) (g_req_range r))
             (fun (r : rd_req) (buf : bytes) => g_pipeline_consume_buffer (g_req_consume gs r) buf)
             plan)
          (fun outs => Some (concat outs)).

  Definition g_restore (batching : bool) (gs : list greq) (s : rd_store) : option (list (Z * rd_value obj)) :=
    g_run gs s (g_plan batching gs).
End GenRun.

(* ------------------------------------------------------------------ entries -> read requests *)
Definition g_entry_prepare_read (limit : option Z) (e : rd_entry) : option (list greq) :=
  match e with
  | RdETensor t => g_tensor_prepare_read limit t
  | RdEChunked cs => g_chunked_prepare_read limit cs
  | RdESharded ss => Some (g_sharded_prepare_read ss)
  | RdEObject loc => Some (g_object_prepare_read loc)
  | RdEPrimitive => Some []
  end.

Definition g_read_plan (limit : option Z) (es : list rd_entry) : option (list greq) :=
  rd_concat_opt (map (g_entry_prepare_read limit) es).

(* ------------------------------------------------------------------ observations *)
Definition obs_g_frombuffer (x : Z * list Z * Z) : val :=
  let '(esize, shape, n) := x in
  match g_tensor_from_memoryview esize shape (repeat 0 (Z.to_nat n)) with None => VZ 0 | Some _ => VZ 1 end.

Definition obs_g_read_plan (x : option Z * list rd_entry) : val :=
  vopt (fun gs => VL (map (fun g => obs_rd_leaf (g_leaf_of g)) gs)) (g_read_plan (fst x) (snd x)).

(* the batched plan of a list of entries: per request [path; [lo; hi] or []; consumers], consumers = the positions of the
   original read requests it serves with their sub-ranges ([c] for a request passed through) *)
Definition obs_g_req (r : rd_req) : val :=
  match r with
  | RdSingle p rg c => VL [VZ p; match rg with None => VL [] | Some (a, b) => VL [VZ a; VZ b] end; VL [VL [VZ c]]]
  | RdBatched p lo hi subs =>
      VL [VZ p; VL [VZ lo; VZ hi];
          VL (map (fun sb : (Z * Z) * Z => VL [VZ (snd sb); VZ (fst (fst sb)); VZ (snd (fst sb))]) subs)]
  end.
Definition obs_g_batched_plan (x : option Z * list rd_entry) : val :=
  vopt (fun gs => VL (map obs_g_req (g_plan true gs))) (g_read_plan (fst x) (snd x)).

(* one API call end to end on the generated terms; same input and verdicts as obs_rd_call:
   2 = the planner fails, 0 = the call raises, 1 = it returns normally *)
Definition obs_g_call (x : list (Z * Z * bool) * option Z * list rd_entry * Z * rd_damage * bool) : val :=
  let '(files, limit, es, f, d, batching) := x in
  match g_read_plan limit es with
  | None => VZ 2
  | Some gs => VZ (rd_verdict (g_restore bytes rd_toy_load batching gs (rd_apply d f (map rd_mkfile files))))
  end.
