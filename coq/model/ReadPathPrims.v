(* C04: the vocabulary in which translator/gen_readpath.py expresses the read path (gen/ReadPathGen.v).
   Executable definitions only.  Everything here is RUNTIME that the translated code calls and that is modelled, not
   translated: the torch tensor primitives, Python dict / defaultdict(list), Python objects as values, the
   representation of ReadReq objects, and the tiled planner whose arithmetic is C16's (gen/ChunkGen.v).

   torch (validated each run by the consumer correspondence on buffers of every length):
     torch.empty(n, dtype)           a tensor of n elements (uninitialised: its bytes are modelled as zeros)
     torch.empty(shape, dtype)       a tensor of prod(shape) elements
     torch.frombuffer(mv, dtype)     raises on an empty buffer and unless len(mv) is a multiple of the element size;
                                     else len(mv) / esize elements sharing the buffer's bytes
     torch.reshape(t, shape)         raises unless prod(shape) = t.numel(); same bytes
   A dtype is represented by its element size. *)
From TS Require Import model.Base model.FsStream model.Chunk model.Batch model.ReadDamage.

Definition obind {A B} (o : option A) (f : A -> option B) : option B :=
  match o with None => None | Some x => f x end.

Definition is_some {A} (o : option A) : bool := match o with Some _ => true | None => false end.

(* ------------------------------------------------------------------ torch tensors *)
Record tns := mkTns { tn_numel : Z; tn_bytes : bytes }.

Definition tp_empty_n (esize n : Z) : option tns :=
  if n <? 0 then None else Some (mkTns n (repeat 0 (Z.to_nat (esize * n)))).
Definition tp_empty_shape (esize : Z) (shape : list Z) : option tns :=
  Some (mkTns (prodZ shape) (repeat 0 (Z.to_nat (esize * prodZ shape)))).
Definition tp_frombuffer (esize : Z) (mv : bytes) : option tns :=
  if blen mv =? 0 then None
  else if blen mv mod esize =? 0 then Some (mkTns (blen mv / esize) mv) else None.
Definition tp_reshape (t : tns) (shape : list Z) : option tns :=
  if tn_numel t =? prodZ shape then Some t else None.

(* ------------------------------------------------------------------ Python values a consumer handles *)
Inductive pyval (obj : Type) :=
| PTensor (t : tns)        (* a torch.Tensor built from the buffer *)
| PObj (o : obj).          (* whatever torch.load returned *)
Arguments PTensor {obj} t.
Arguments PObj {obj} o.

(* tensor_copy(dst, src) / copying views of src into the destination regions: what ends up in the target is src's
   content (which region of the target receives which part of src is C08's / C18's subject, not C04's) *)
Definition tp_copy {obj} (src : pyval obj) : rd_value obj :=
  match src with PTensor t => RdBytes (tn_bytes t) | PObj o => RdObj o end.

(* ------------------------------------------------------------------ Serializer *)
Inductive ser := SerTorchSave | SerBufferProtocol | SerOther.
Definition ser_eqb (a b : ser) : bool :=
  match a, b with
  | SerTorchSave, SerTorchSave | SerBufferProtocol, SerBufferProtocol | SerOther, SerOther => true
  | _, _ => false
  end.
(* TensorEntry.serializer of the model's tensor entry (model/ReadDamage.v rd_tentry keeps one bit) *)
Definition te_ser (t : rd_tentry) : ser := if te_bufproto t then SerBufferProtocol else SerTorchSave.

(* ------------------------------------------------------------------ Python dict (insertion ordered), defaultdict(list) *)
Definition dict_mem {K V} (eqb : K -> K -> bool) (k : K) (d : list (K * V)) : bool := is_some (dict_get eqb k d).
(* d[k] for a key that is present (KeyError is outside the model: dflt) *)
Definition dict_at {K V} (eqb : K -> K -> bool) (dflt : V) (k : K) (d : list (K * V)) : V :=
  match dict_get eqb k d with Some v => v | None => dflt end.
(* d[k].append(x) on a defaultdict(list) *)
Definition dd_append {K V} (eqb : K -> K -> bool) (k : K) (x : V) (d : list (K * list V)) : list (K * list V) :=
  dict_set eqb k (dict_at eqb [] k d ++ [x]) d.

(* ------------------------------------------------------------------ ReadReq objects *)
(* a ReadReq before batching is model/Batch.v's rreq = (path, byte_range, consumer id) *)
Definition rq_path (r : rreq) : Z := fst (fst r).
Definition rq_range (r : rreq) : option (Z * Z) := snd (fst r).
Definition rq_cons (r : rreq) : Z := snd r.
(* the same ReadReq once its byte_range is known not to be None *)
Definition rq_ranged (r : rreq) (byte_range : Z * Z) : ranged := (rq_path r, byte_range, rq_cons r).
Definition rg_path (r : ranged) : Z := fst (fst r).
Definition rg_range (r : ranged) : Z * Z := snd (fst r).
Definition rg_cons (r : ranged) : Z := snd r.
(* a ReadReq passed through unchanged by batch_read_requests (its byte_range is None) *)
Definition rq_whole (r : rreq) : rplan := RWhole (rq_path r) (rq_cons r).
(* ReadReq(path, BatchedBufferConsumer(byte_range_to_buffer_consumer, buf_sz_bytes), byte_range) *)
Definition rq_batched (path : Z) (byte_range_to_buffer_consumer : list ((Z * Z) * Z)) (buf_sz_bytes : Z)
           (byte_range : Z * Z) : rplan :=
  RMerged path (fst byte_range) (snd byte_range) buf_sz_bytes byte_range_to_buffer_consumer.

(* ------------------------------------------------------------------ read requests as the io preparers emit them *)
Inductive gcons :=
| GCTensor (entry : rd_tentry)       (* TensorBufferConsumer(tensor=..., entry=entry) *)
| GCSharded (entry : rd_tentry)      (* ShardedTensorBufferConsumer(overlapping_regions=..., entry=entry) *)
| GCObject.                          (* ObjectBufferConsumer(fut=...) *)
Record greq := mkGreq { gq_path : Z; gq_range : option (Z * Z); gq_cons : gcons }.

(* TensorIOPreparer.prepare_read_tiled: one ReadReq per tile, each with a TensorBufferConsumer whose entry is the
   tile's own TensorEntry (location, serializer, dtype of the tensor; shape of the tile; no byte_range).  The tile
   arithmetic is model/Chunk.v [tile], tied to the source by gen/ChunkGen.v (proofs/ChunkGenProofs.v tile_g_eq). *)
Definition pp_prepare_read_tiled (entry : rd_tentry) (limit : option Z) : option (list greq) :=
  match limit with
  | None => None
  | Some lim =>
      let base := match te_range entry with None => 0 | Some (lo, _) => lo end in
      match tile (te_shape entry) (te_flat entry) (te_esize entry) lim base with
      | None => None
      | Some tiles =>
          Some (map (fun tl : tile_t =>
                       let '(lo, hi, sh) := tl in
                       mkGreq (te_loc entry) (Some (lo, hi))
                              (GCTensor (mkTentry (te_loc entry) None (te_bufproto entry) (te_esize entry) sh true))) tiles)
      end
  end.
