(* C07: the Python-object vocabulary that translator/gen_manifest_ops.py targets when it regenerates
   torchsnapshot/manifest_ops.py and the predicates of torchsnapshot/manifest_utils.py statement by statement
   (gen/ManifestOpsGen.v).  Executable definitions only.

   Representation.
   * A str is a [pystr] (list of code points); logical paths and global paths ("<rank>/<logical path>") are plain
     strings here: the code's  path.split("/") / tokens.pop(0) / int(..) / "/".join(tokens)  are [Flatten.split],
     [pop_first], [py_int] (= Flatten.parse_int), [Flatten.join].
   * A Python dict is an insertion-ordered association list [pdict A]: d[k] = v keeps the position of an existing
     key and appends a new one ([dset]); del d[k] removes it ([ddel_m], KeyError when absent); d.items() / d.keys()
     are the list itself.  defaultdict(list) / defaultdict(set) are read with [dd_get] (the default inserted by a
     mere read is never observed: the translator checks that such a dict is only read, appended to and iterated
     after appends).
   * ENTRY OBJECTS LIVE IN A HEAP.  An entry (manifest.py) is an object with identity: dicts hold ADDRESSES
     ([addr], an index into [heap]); the one field that the code mutates in place - DictEntry.keys /
     OrderedDictEntry.keys (list.remove / list.append) - is updated in the heap ([keys_remove], [keys_append]), so two
     dicts that hold the same address see the change, exactly as two Python dicts that hold the same object.
     copy.deepcopy allocates fresh objects ([deepcopy_dicts]; sharing inside the copied structure is preserved, as
     deepcopy's memo does); dict.copy() copies the association list and shares the entries.
   * Every translated function is a computation [M A := heap -> option A * heap]; [None] = a Python exception was
     raised (which one is not modelled); the heap survives an exception.
   * An entry object [pentry]: its class (the [eclass] of model/Dispatch.v; isinstance is [is_a] over the class
     hierarchy generated from manifest.py), keys (typed keys of model/Flatten.v), replicated, shards (a shard =
     (offsets, id), as in model/ManifestOps.v), dim_map, mesh (numpy shape + row-major elements), and an id standing
     for everything else the entry holds.  An attribute read raises (AttributeError) when the class does not have
     the attribute according to the table the translator generates from the __init__ methods of manifest.py.

   NOT modelled: which exception is raised; IndexError of dims[0] inside the comprehensions of manifest_utils
   (an empty dim_map element: [zhd] answers 0); int(token) beyond [+-]?[0-9]+ ([Flatten.parse_int]); urllib unquote
   of escapes >= 0x80 ([Flatten.decode]); truthiness of a non-bool `replicated`.  Hand-modelled (not translated; the
   translator pins the source text and fails closed on any change): numpy's mesh slicing in
   manifest_utils._get_replicated_ranks ([np_replicated_ranks]) and dtensor_utils._ReplicatedShards ([rs_lookup]). *)
From TS Require Import model.Base model.Flatten model.ManifestOps model.Dispatch.

(* ------------------------------------------------------------------ entries, heap *)
Definition addr := nat.

Inductive attr := AKeys | AReplicated | AShards | ADimMap | AMesh | AOther.
Definition attr_id (a : attr) : Z :=
  match a with AKeys => 0 | AReplicated => 1 | AShards => 2 | ADimMap => 3 | AMesh => 4 | AOther => 5 end.
Definition attr_eqb (a b : attr) : bool := attr_id a =? attr_id b.

Definition mesh := (list Z * list Z)%type.        (* np.array(entry.mesh): (shape, elements in row-major order) *)

Record pentry := mkE {
  pe_cls : eclass;
  pe_keys : list key;
  pe_repl : bool;
  pe_shards : list shard;
  pe_dim_map : list (list Z);
  pe_mesh : mesh;
  pe_id : Z }.

Definition dflt_entry : pentry := mkE EEntry [] false [] [] ([], []) 0.

Definition heap := list pentry.
Definition hget (h : heap) (a : addr) : pentry := nth a h dflt_entry.

Fixpoint upd_nth {A} (l : list A) (n : nat) (f : A -> A) : list A :=
  match l, n with
  | [], _ => []
  | x :: r, O => f x :: r
  | x :: r, S n' => x :: upd_nth r n' f
  end.

(* ------------------------------------------------------------------ computations *)
Definition M (A : Type) := heap -> option A * heap.
Definition ret {A} (a : A) : M A := fun h => (Some a, h).
Definition raise {A} : M A := fun h => (None, h).
Definition bind {A B} (c : M A) (f : A -> M B) : M B :=
  fun h => match c h with
           | (Some a, h') => f a h'
           | (None, h') => (None, h')
           end.
Definition lift {A} (o : option A) : M A := match o with Some a => ret a | None => raise end.

Inductive loop (S : Type) := LNext (s : S) | LBreak (s : S).
Arguments LNext {S} s.
Arguments LBreak {S} s.

(* for x in l: body   - [s] is the tuple of the variables the body assigns / mutates *)
Fixpoint for_each {X S} (l : list X) (body : X -> S -> M (loop S)) (s : S) : M S :=
  match l with
  | [] => ret s
  | x :: r => bind (body x s) (fun c => match c with LNext s' => for_each r body s' | LBreak s' => ret s' end)
  end.

(* (y for x in l for y in f(x)) *)
Fixpoint concat_mapM {X Y} (f : X -> M (list Y)) (l : list X) : M (list Y) :=
  match l with
  | [] => ret []
  | x :: r => bind (f x) (fun ys => bind (concat_mapM f r) (fun zs => ret (ys ++ zs)))
  end.

(* ------------------------------------------------------------------ str, list *)
Definition zlen {A} (l : list A) : Z := Z.of_nat (length l).
Definition zhd (l : list Z) : Z := nth 0 l 0.
Definition py_int (s : pystr) : M Z := lift (parse_int s).
Definition py_range (n : Z) : list Z := map Z.of_nat (seq 0 (Z.to_nat n)).
Definition enumerate {A} (l : list A) : list (Z * A) := combine (map Z.of_nat (seq 0 (length l))) l.
Definition Zmemb (z : Z) (l : list Z) : bool := existsb (Z.eqb z) l.

(* tokens.pop(0) / tokens.pop(): (popped item, remaining list); IndexError on an empty list *)
Definition pop_first (l : list pystr) : M (pystr * list pystr) :=
  match l with [] => raise | x :: r => ret (x, r) end.
Definition pop_last (l : list pystr) : M (pystr * list pystr) :=
  match l with [] => raise | _ => ret (last l [], removelast l) end.

(* l[i] with Python's negative indices; IndexError outside -len .. len-1 *)
Definition norm_index (n : nat) (i : Z) : option nat :=
  if (0 <=? i) && (i <? Z.of_nat n) then Some (Z.to_nat i)
  else if (i <? 0) && (- Z.of_nat n <=? i) then Some (Z.to_nat (Z.of_nat n + i))
  else None.
Definition list_get {A} (l : list A) (i : Z) : M A :=
  match norm_index (length l) i with
  | Some k => lift (nth_error l k)
  | None => raise
  end.
Definition list_set {A} (l : list A) (i : Z) (v : A) : M (list A) :=
  match norm_index (length l) i with
  | Some k => ret (upd_nth l k (fun _ => v))
  | None => raise
  end.

(* ------------------------------------------------------------------ dict *)
Definition pdict (A : Type) := list (pystr * A).

Fixpoint dget {A} (d : pdict A) (k : pystr) : option A :=
  match d with
  | [] => None
  | (q, v) :: r => if str_eqb q k then Some v else dget r k
  end.
Fixpoint dset {A} (d : pdict A) (k : pystr) (v : A) : pdict A :=
  match d with
  | [] => [(k, v)]
  | (q, v') :: r => if str_eqb q k then (q, v) :: r else (q, v') :: dset r k v
  end.
Fixpoint ddel {A} (d : pdict A) (k : pystr) : pdict A :=
  match d with
  | [] => []
  | (q, v) :: r => if str_eqb q k then r else (q, v) :: ddel r k
  end.
Definition dhas {A} (d : pdict A) (k : pystr) : bool := match dget d k with Some _ => true | None => false end.
Definition dkeys {A} (d : pdict A) : list pystr := map fst d.
Definition dget_m {A} (d : pdict A) (k : pystr) : M A := lift (dget d k).                 (* d[k]: KeyError *)
Definition ddel_m {A} (d : pdict A) (k : pystr) : M (pdict A) :=                           (* del d[k]: KeyError *)
  if dhas d k then ret (ddel d k) else raise.
Definition dupdate {A} (d1 d2 : pdict A) : pdict A := fold_left (fun d kv => dset d (fst kv) (snd kv)) d2 d1.
(* defaultdict(list) / defaultdict(set) *)
Definition dd_get {A} (d : pdict (list A)) (k : pystr) : list A := match dget d k with Some l => l | None => [] end.
Definition dd_append {A} (d : pdict (list A)) (k : pystr) (v : A) : pdict (list A) := dset d k (dd_get d k ++ [v]).
Definition dd_update (d : pdict (list Z)) (k : pystr) (s : list Z) : pdict (list Z) := dset d k (dd_get d k ++ s).

(* ------------------------------------------------------------------ entry objects *)
Section WithClasses.
  Variable parent : eclass -> option eclass.            (* manifest.py's class hierarchy (gen/DispatchGen.v) *)
  Variable has_attr : eclass -> attr -> bool.           (* the attributes each class's __init__ sets (gen/ManifestOpsGen.v) *)

  (* isinstance(entry, (C1, ..., Cn)) *)
  Definition isinstance_of (e : addr) (cs : list eclass) : M bool :=
    fun h => (Some (existsb (is_a parent (pe_cls (hget h e))) cs), h).
  (* hasattr(entry, name) *)
  Definition hasattr_of (e : addr) (a : attr) : M bool :=
    fun h => (Some (has_attr (pe_cls (hget h e)) a), h).
  (* entry.name: AttributeError when the class does not have it *)
  Definition attr_of {A} (a : attr) (f : pentry -> A) (e : addr) : M A :=
    fun h => if has_attr (pe_cls (hget h e)) a then (Some (f (hget h e)), h) else (None, h).
  (* entry.keys.remove(k): the first element equal to k under Python equality; ValueError when there is none *)
  Definition keys_remove (e : addr) (k : key) : M unit :=
    fun h => if has_attr (pe_cls (hget h e)) AKeys && existsb (fun x => py_eqb x k) (pe_keys (hget h e))
             then (Some tt, upd_nth h e (fun o => mkE (pe_cls o) (remove_pyeq k (pe_keys o)) (pe_repl o) (pe_shards o)
                                                         (pe_dim_map o) (pe_mesh o) (pe_id o)))
             else (None, h).
  (* entry.keys.append(k) *)
  Definition keys_append (e : addr) (k : key) : M unit :=
    fun h => if has_attr (pe_cls (hget h e)) AKeys
             then (Some tt, upd_nth h e (fun o => mkE (pe_cls o) (pe_keys o ++ [k]) (pe_repl o) (pe_shards o)
                                                         (pe_dim_map o) (pe_mesh o) (pe_id o)))
             else (None, h).
End WithClasses.

(* k in entry.keys for a str / int k *)
Definition key_in (k : key) (ks : list key) : bool := existsb (fun x => py_eqb x k) ks.

(* constructors: a new object *)
Definition new_entry (e : pentry) : M addr := fun h => (Some (length h), h ++ [e]).
Definition mk_sharded (shards : list shard) : pentry := mkE ESharded [] false shards [] ([], []) 0.
Definition mk_dtensor (m : mesh) (dim_map : list (list Z)) (shards : list shard) : pentry :=
  mkE EDTensor [] false shards dim_map m 0.

(* ------------------------------------------------------------------ copy.deepcopy *)
Fixpoint first_occ (seen l : list addr) : list addr :=
  match l with
  | [] => []
  | a :: r => if existsb (Nat.eqb a) seen then first_occ seen r else a :: first_occ (a :: seen) r
  end.
Fixpoint index_of (a : addr) (l : list addr) : nat :=
  match l with
  | [] => O
  | x :: r => if Nat.eqb x a then O else S (index_of a r)
  end.
Definition all_addrs (ds : list (pdict addr)) : list addr := flat_map (map snd) ds.

(* every entry object reachable from the dicts is copied once, in traversal order (deepcopy's memo keeps sharing) *)
Definition deepcopy_dicts (ds : list (pdict addr)) : M (list (pdict addr)) :=
  fun h =>
    let olds := first_occ [] (all_addrs ds) in
    (Some (map (map (fun ka => (fst ka, (length h + index_of (snd ka) olds)%nat))) ds), h ++ map (hget h) olds).
Definition deepcopy_dict (d : pdict addr) : M (pdict addr) :=
  bind (deepcopy_dicts [d]) (fun ds => match ds with [d'] => ret d' | _ => raise end).

(* ------------------------------------------------------------------ hand-modelled numpy / _ReplicatedShards *)
(* multi-indices of a shape in row-major order *)
Fixpoint multi_indices (shape : list Z) : list (list Z) :=
  match shape with
  | [] => [[]]
  | n :: r => flat_map (fun i => map (cons i) (multi_indices r)) (py_range n)
  end.
(* the coordinates of an index on the dims for which [keep] holds *)
Fixpoint project (keep : Z -> bool) (d : Z) (ix : list Z) : list Z :=
  match ix with
  | [] => []
  | i :: r => if keep d then i :: project keep (d + 1) r else project keep (d + 1) r
  end.
(* manifest_utils._get_replicated_ranks: one rank set per combination of indices on the sharded mesh dims
   (itertools.product order = row-major over those dims), holding the mesh elements with these coordinates *)
Definition np_replicated_ranks (m : mesh) (dim_map : list (list Z)) : list (list Z) :=
  let shard_dims := flat_map (fun dims => if negb (zhd dims =? -1) then dims else []) dim_map in
  let is_shard := fun d => Zmemb d shard_dims in
  let shape := fst m in
  let cells := combine (multi_indices shape) (snd m) in
  let combos := multi_indices (project is_shard 0 shape) in
  map (fun c => flat_map (fun cell => if list_eqb Z.eqb (project is_shard 0 (fst cell)) c then [snd cell] else []) cells)
      combos.
(* _ReplicatedShards(repranks).get_all_replicated_ranks(rank): self.lookup[rank] = rankset, later sets win *)
Definition rs_lookup (rs : list (list Z)) (rank : Z) : list Z :=
  fold_left (fun acc s => if Zmemb rank s then s else acc) rs [].
Definition get_replicated_ranks_of (has_attr : eclass -> attr -> bool) (e : addr) : M (list (list Z)) :=
  bind (attr_of has_attr AMesh pe_mesh e) (fun m =>
  bind (attr_of has_attr ADimMap pe_dim_map e) (fun dm => ret (np_replicated_ranks m dm))).

(* ------------------------------------------------------------------ SnapshotMetadata *)
Record pmeta := mkMeta { pm_world_size : Z; pm_manifest : pdict addr }.

(* a metadata object whose manifest values are pairwise distinct objects (what from_yaml / _gather_manifest build) *)
Definition load_meta (W : Z) (items : list (pystr * pentry)) : pmeta * heap :=
  (mkMeta W (combine (map fst items) (seq 0 (length items))), map snd items).
Definition meta_items (md : pmeta) (h : heap) : list (pystr * pentry) :=
  map (fun ka => (fst ka, hget h (snd ka))) (pm_manifest md).
Definition deref (h : heap) (d : pdict addr) : list (pystr * pentry) := map (fun ka => (fst ka, hget h (snd ka))) d.
