(* C15: torchsnapshot/flatten.py  (flatten / inflate / _encode / _decode / _should_flatten_dict).
   Executable definitions only.  The model follows the code as it stands after the fix commits
   d68bde6 (dict values looked up by str(key)) and 69c8b93 ("." and ".." components escaped).

   NOT modelled (stated here once, repeated in harness/props/C15.py):
   * urllib.parse.unquote on "%XY" with XY >= 0x80 (UTF-8 decoding with errors='replace'); [decode] leaves such
     an escape as it is.  [encode] never produces one (its only escapes are %25, %2F, %2E).
   * Python's int(str) beyond  [+-]?[0-9]+  (surrounding white space, '_' separators, non-ASCII digits);
     [parse_int] answers None (= ValueError) there.  flatten only ever puts str(idx) under a list.
   * [flatten] concatenates the children's manifests/leaf maps where the code does dict.update; the two agree
     because all produced paths are pairwise distinct (theorem C15_flatten_paths_nodup).
   * a path that is present both in the manifest and in the leaf map (flatten never produces one).
   * leaves are opaque identities (Z); dict keys that are neither str nor int (tuples, floats, None ...) are
     [KOther id] - such a dict is never flattened, so their str() is never consulted. *)
From TS Require Import model.Base.
From Coq Require Import Decimal DecimalZ.

Definition pystr := list Z.          (* Python str = list of code points *)
Definition token := pystr.           (* one "/"-separated path component *)
Definition path := list token.

Definition str_eqb (a b : pystr) : bool := list_eqb Z.eqb a b.
Definition path_eqb (a b : path) : bool := list_eqb str_eqb a b.

(* ------------------------------------------------------------------ keys *)
Inductive key :=
| KStr (s : pystr)
| KInt (z : Z)
| KBool (b : bool)
| KOther (id : Z).     (* not a str/int: tuple, non-integral float, None, ...; distinct ids = distinct keys *)

(* Python dict key equality: True == 1, False == 0, a str never equals a number *)
Definition key_num (k : key) : option Z :=
  match k with
  | KInt z => Some z
  | KBool b => Some (if b then 1 else 0)
  | _ => None
  end.

Definition py_eqb (a b : key) : bool :=
  match a, b with
  | KStr x, KStr y => str_eqb x y
  | KOther x, KOther y => x =? y
  | _, _ => match key_num a, key_num b with
            | Some x, Some y => x =? y
            | _, _ => false
            end
  end.

(* isinstance(k, (str, int)) - bool is a subclass of int *)
Definition is_str_or_int (k : key) : bool :=
  match k with KOther _ => false | _ => true end.

(* ------------------------------------------------------------------ str(int), int(str) *)
Fixpoint uint_chars (d : uint) : pystr :=
  match d with
  | Nil => []
  | D0 r => 48 :: uint_chars r
  | D1 r => 49 :: uint_chars r
  | D2 r => 50 :: uint_chars r
  | D3 r => 51 :: uint_chars r
  | D4 r => 52 :: uint_chars r
  | D5 r => 53 :: uint_chars r
  | D6 r => 54 :: uint_chars r
  | D7 r => 55 :: uint_chars r
  | D8 r => 56 :: uint_chars r
  | D9 r => 57 :: uint_chars r
  end.

(* Python str(z) for an int z: decimal, '-' for negatives, no leading zeros *)
Definition str_of_Z (z : Z) : pystr :=
  match Z.to_int z with
  | Pos d => uint_chars d
  | Neg d => 45 :: uint_chars d
  end.

Fixpoint chars_uint (s : pystr) : option uint :=
  match s with
  | [] => Some Nil
  | c :: r =>
      match chars_uint r with
      | None => None
      | Some d =>
          if c =? 48 then Some (D0 d) else if c =? 49 then Some (D1 d) else if c =? 50 then Some (D2 d)
          else if c =? 51 then Some (D3 d) else if c =? 52 then Some (D4 d) else if c =? 53 then Some (D5 d)
          else if c =? 54 then Some (D6 d) else if c =? 55 then Some (D7 d) else if c =? 56 then Some (D8 d)
          else if c =? 57 then Some (D9 d) else None
      end
  end.

(* Python int(s) restricted to [+-]?[0-9]+ ; None = ValueError (see header) *)
Definition parse_int (s : pystr) : option Z :=
  match s with
  | [] => None
  | c :: r =>
      if c =? 45 then match r with [] => None | _ => option_map (fun d => - Z.of_uint d) (chars_uint r) end
      else if c =? 43 then match r with [] => None | _ => option_map Z.of_uint (chars_uint r) end
      else option_map Z.of_uint (chars_uint s)
  end.

(* Python str(key) *)
Definition key_str (k : key) : pystr :=
  match k with
  | KStr s => s
  | KInt z => str_of_Z z
  | KBool true => [84; 114; 117; 101]          (* "True" *)
  | KBool false => [70; 97; 108; 115; 101]     (* "False" *)
  | KOther _ => []                             (* never consulted: see should_flatten *)
  end.

(* ------------------------------------------------------------------ _encode / _decode *)
(* Python s.replace(old, new) for a non-empty [old]: leftmost non-overlapping occurrences.
   (Used by the translated definition in gen/FlattenGen.v; the hand model below is character-wise.) *)
Fixpoint strip_str (p s : pystr) : option pystr :=
  match p with
  | [] => Some s
  | a :: p' => match s with
               | [] => None
               | b :: s' => if a =? b then strip_str p' s' else None
               end
  end.

Fixpoint replace_fuel (n : nat) (old new s : pystr) : pystr :=
  match n with
  | O => s
  | S n' =>
      match s with
      | [] => []
      | c :: r =>
          match strip_str old s with
          | Some rest => new ++ replace_fuel n' old new rest
          | None => c :: replace_fuel n' old new r
          end
      end
  end.
Definition replace_all (old new s : pystr) : pystr :=
  match old with [] => s | _ => replace_fuel (length s) old new s end.

Definition esc_char (c : Z) : pystr :=
  if c =? 37 then [37; 50; 53]            (* "%" -> "%25" *)
  else if c =? 47 then [37; 50; 70]       (* "/" -> "%2F" *)
  else [c].
Definition esc_dot (c : Z) : pystr := if c =? 46 then [37; 50; 69] else [c].   (* "." -> "%2E" *)

Definition encode (s : pystr) : pystr :=
  let s1 := flat_map esc_char s in
  if str_eqb s1 [46] || str_eqb s1 [46; 46] then flat_map esc_dot s1 else s1.

Definition hexval (c : Z) : option Z :=
  if (48 <=? c) && (c <=? 57) then Some (c - 48)
  else if (65 <=? c) && (c <=? 70) then Some (c - 55)
  else if (97 <=? c) && (c <=? 102) then Some (c - 87)
  else None.

(* urllib.parse.unquote, exact whenever every escape denotes a byte < 0x80 *)
Fixpoint decode (s : pystr) : pystr :=
  match s with
  | [] => []
  | c :: tl =>
      if c =? 37 then
        match tl with
        | a :: b :: r =>
            match hexval a, hexval b with
            | Some x, Some y => if 16 * x + y <? 128 then (16 * x + y) :: decode r else c :: decode tl
            | _, _ => c :: decode tl
            end
        | _ => c :: decode tl
        end
      else c :: decode tl
  end.

(* ------------------------------------------------------------------ "/".join and .split("/") *)
Fixpoint join (ts : list token) : pystr :=
  match ts with
  | [] => []
  | t :: r => match r with [] => t | _ => t ++ 47 :: join r end
  end.

Fixpoint split (s : pystr) : list token :=
  match s with
  | [] => [[]]
  | c :: r =>
      if c =? 47 then [] :: split r
      else match split r with
           | [] => [[c]]
           | t :: ts => (c :: t) :: ts
           end
  end.

(* ------------------------------------------------------------------ objects, entries *)
Inductive obj :=
| Leaf (l : Z)                                   (* anything that is not a list / dict / OrderedDict *)
| OList (xs : list obj)
| ODict (ordered : bool) (kvs : list (key * obj)).

Inductive entry :=
| EList
| EDict (ordered : bool) (keys : list key).

Definition manifest := list (path * entry).
Definition leafmap := list (path * obj).

(* _should_flatten_dict *)
Fixpoint str_memb (x : pystr) (l : list pystr) : bool :=
  match l with [] => false | y :: r => str_eqb x y || str_memb x r end.
Fixpoint dedup (l : list pystr) : list pystr :=       (* the set {str(k) for k in d} *)
  match l with
  | [] => []
  | x :: r => if str_memb x r then dedup r else x :: dedup r
  end.

Definition should_flatten (ks : list key) : bool :=
  if negb (forallb is_str_or_int ks) then false
  else if Z.of_nat (length (dedup (map key_str ks))) <? Z.of_nat (length ks) then false
  else true.

Definition list_tokens (n : nat) : list token := map (fun i => str_of_Z (Z.of_nat i)) (seq 0 n).
Definition key_token (k : key) : token := encode (key_str k).

(* _flatten *)
Fixpoint flatten (o : obj) (P : path) {struct o} : manifest * leafmap :=
  match o with
  | Leaf _ => ([], [(P, o)])
  | OList xs =>
      let r := (fix go (xs : list obj) (ts : list token) {struct xs} : manifest * leafmap :=
                  match xs, ts with
                  | x :: xs', t :: ts' =>
                      let a := flatten x (P ++ [t]) in
                      let b := go xs' ts' in (fst a ++ fst b, snd a ++ snd b)
                  | _, _ => ([], [])
                  end) xs (list_tokens (length xs)) in
      ((P, EList) :: fst r, snd r)
  | ODict ord kvs =>
      if should_flatten (map fst kvs) then
        let r := (fix go (kvs : list (key * obj)) {struct kvs} : manifest * leafmap :=
                    match kvs with
                    | [] => ([], [])
                    | kv :: kvs' =>
                        let a := flatten (snd kv) (P ++ [key_token (fst kv)]) in
                        let b := go kvs' in (fst a ++ fst b, snd a ++ snd b)
                    end) kvs in
        ((P, EDict ord (map fst kvs)) :: fst r, snd r)
      else ([], [(P, o)])
  end.

(* flatten(obj, prefix) *)
Definition flatten_top (o : obj) (prefix : pystr) : manifest * leafmap := flatten o [encode prefix].

(* ------------------------------------------------------------------ inflate *)
Fixpoint strip_prefix (P p : path) : option path :=
  match P with
  | [] => Some p
  | a :: P' => match p with
               | [] => None
               | b :: p' => if str_eqb a b then strip_prefix P' p' else None
               end
  end.

(* entries whose parent path is P, with their last token *)
Definition children {A} (l : list (path * A)) (P : path) : list (token * A) :=
  flat_map (fun e => match strip_prefix P (fst e) with
                     | Some [t] => [(t, snd e)]
                     | _ => []
                     end) l.

Fixpoint assoc_str {A} (s : pystr) (l : list (pystr * A)) : option A :=
  match l with
  | [] => None
  | (t, v) :: r => if str_eqb s t then Some v else assoc_str s r
  end.
Fixpoint assoc_path {A} (p : path) (l : list (path * A)) : option A :=
  match l with
  | [] => None
  | (q, v) :: r => if path_eqb p q then Some v else assoc_path p r
  end.

(* dict.fromkeys(keys): first occurrence of each key (Python equality) in order *)
Fixpoint key_memb (k : key) (l : list key) : bool :=
  match l with [] => false | x :: r => py_eqb x k || key_memb k r end.
Fixpoint fromkeys_acc (seen : list key) (ks : list key) : list key :=
  match ks with
  | [] => []
  | k :: r => if key_memb k seen then fromkeys_acc seen r else k :: fromkeys_acc (k :: seen) r
  end.
Definition fromkeys (ks : list key) : list key := fromkeys_acc [] ks.

(* sorted(items, key=int(token)) : stable insertion sort *)
Fixpoint insert_by {A} (x : Z * A) (l : list (Z * A)) : list (Z * A) :=
  match l with
  | [] => [x]
  | y :: r => if fst y <? fst x then y :: insert_by x r else x :: l
  end.
Fixpoint isort {A} (l : list (Z * A)) : list (Z * A) :=
  match l with
  | [] => []
  | x :: r => insert_by x (isort r)
  end.
(* x is inserted in front of the first element that is not smaller: equal keys keep their input order (stable) *)
Definition sort_by_int {A} (l : list (Z * A)) : list (Z * A) := isort l.

Fixpoint mapM {A B} (f : A -> option B) (l : list A) : option (list B) :=
  match l with
  | [] => Some []
  | x :: r => match f x, mapM f r with
              | Some y, Some ys => Some (y :: ys)
              | _, _ => None
              end
  end.

(* _populate_container *)
Definition populate (e : entry) (vals : list (token * obj)) : option obj :=
  match e with
  | EList =>
      match mapM (fun tv => option_map (fun z => (z, snd tv)) (parse_int (fst tv))) vals with
      | None => None                                                 (* ValueError from int(token) *)
      | Some zs => Some (OList (map snd (sort_by_int zs)))
      end
  | EDict ord keys =>
      let dec := map (fun tv => (decode (fst tv), snd tv)) vals in
      (* {_decode(k): v for k, v in values.items()} : for equal decoded tokens the last one wins *)
      Some (ODict ord (flat_map (fun k => match assoc_str (key_str k) (List.rev dec) with
                                          | Some v => [(k, v)]
                                          | None => []              (* del container[key] *)
                                          end) (fromkeys keys)))
  end.

(* the None that dict.fromkeys puts under every key *)
Definition py_none : obj := Leaf (-1).

(* _entry_to_container *)
Definition init_container (e : entry) : obj :=
  match e with
  | EList => OList []
  | EDict ord keys => ODict ord (map (fun k => (k, py_none)) (fromkeys keys))
  end.

(* the container at path P (whose entry is e), fully populated; containers are built before leaves are
   attached exactly as itertools.chain(containers.items(), flattened.items()) visits them *)
Fixpoint build (fuel : nat) (m : manifest) (lm : leafmap) (P : path) (e : entry) : option obj :=
  match fuel with
  | O => None
  | S f =>
      match mapM (fun te => option_map (fun o => (fst te, o)) (build f m lm (P ++ [fst te]) (snd te)))
                 (children m P) with
      | None => None
      | Some vc =>
          (* _populate_container runs only for containers that received at least one child; a container without
             any child stays as _entry_to_container made it: [] or dict.fromkeys(keys) (every value None) *)
          match vc ++ children lm P with
          | [] => Some (init_container e)
          | vals => populate e vals
          end
      end
  end.

Definition head_is (p : token) (q : path) : bool :=
  match q with t :: _ => str_eqb t p | [] => false end.

Definition path_memb (p : path) (l : list path) : bool := existsb (path_eqb p) l.

(* every grouped path needs its parent among the containers (containers[path] would raise KeyError) *)
Definition parents_ok (m : manifest) (lm : leafmap) (root : path) : bool :=
  forallb (fun q => path_eqb q root || path_memb (removelast q) (map fst m)) (map fst m ++ map fst lm).

(* inflate(manifest, flattened, prefix); None = an exception *)
Definition inflate (m : manifest) (lm : leafmap) (prefix : pystr) : option obj :=
  let p := encode prefix in
  let m' := filter (fun e => head_is p (fst e)) m in
  let lm' := filter (fun e => head_is p (fst e)) lm in
  match assoc_path [p] lm' with
  | Some o => Some o
  | None =>
      match assoc_path [p] m' with
      | None => None
      | Some e => if parents_ok m' lm' [p] then build (S (length m')) m' lm' [p] e else None
      end
  end.

(* ------------------------------------------------------------------ string level: what the code really holds *)
Definition flatten_s (o : obj) (prefix : pystr) : list (pystr * entry) * list (pystr * obj) :=
  let r := flatten_top o prefix in
  (map (fun e => (join (fst e), snd e)) (fst r), map (fun e => (join (fst e), snd e)) (snd r)).

Definition inflate_s (m : list (pystr * entry)) (lm : list (pystr * obj)) (prefix : pystr) : option obj :=
  inflate (map (fun e => (split (fst e), snd e)) m) (map (fun e => (split (fst e), snd e)) lm) prefix.

(* ------------------------------------------------------------------ observations for the harness *)
Definition obs_key (k : key) : val :=
  match k with
  | KStr s => VL [VZ 0; vlistZ s]
  | KInt z => VL [VZ 1; VZ z]
  | KBool b => VL [VZ 2; vbool b]
  | KOther i => VL [VZ 3; VZ i]
  end.

Fixpoint obs_obj (o : obj) : val :=
  match o with
  | Leaf l => VL [VZ 0; VZ l]
  | OList xs => VL [VZ 1; VL (map obs_obj xs)]
  | ODict ord kvs => VL [VZ 2; vbool ord; VL (map (fun kv => VL [obs_key (fst kv); obs_obj (snd kv)]) kvs)]
  end.

Definition obs_entry (e : entry) : val :=
  match e with
  | EList => VL [VZ 0]
  | EDict ord ks => VL [VZ (if ord then 2 else 1); VL (map obs_key ks)]
  end.

(* flatten(obj, prefix): manifest and leaf map in insertion order, paths as strings *)
Definition obs_flatten (x : obj * pystr) : val :=
  let r := flatten_s (fst x) (snd x) in
  VL [VL (map (fun e => VL [vlistZ (fst e); obs_entry (snd e)]) (fst r));
      VL (map (fun e => VL [vlistZ (fst e); obs_obj (snd e)]) (snd r))].

(* inflate(manifest, flattened, prefix) on string paths *)
Definition obs_inflate (x : list (pystr * entry) * list (pystr * obj) * pystr) : val :=
  vopt obs_obj (inflate_s (fst (fst x)) (snd (fst x)) (snd x)).

(* inflate applied to the output of flatten, entirely inside the model *)
Definition obs_roundtrip (x : obj * pystr) : val :=
  let r := flatten_s (fst x) (snd x) in vopt obs_obj (inflate_s (fst r) (snd r) (snd x)).

Definition obs_encode (s : pystr) : val := vlistZ (encode s).
Definition obs_decode (s : pystr) : val := vlistZ (decode s).
Definition obs_should_flatten (ks : list key) : val := vbool (should_flatten ks).
Definition obs_key_str (k : key) : val := vlistZ (key_str k).
Definition obs_parse_int (s : pystr) : val := vopt VZ (parse_int s).
