(* C06 - Replicated objects are written once, by one rank, with balanced load.
   Property theorems only.  The choice of the writer rank, the load update, the merge order, the dedup default and
   the "on all ranks" test are the constants generated from partitioner.py / snapshot.py on this run
   (coq/gen/PartitionGen.v); model/Partition.v is defined from them, proofs/PartitionInst.v holds the
   instantiation lemmas.  World size W = length of the starting-load vector, any W >= 1.
   Not modelled: partially replicated DTensor entries. *)
From TS Require Import model.Base gen.PartitionGen model.Partition proofs.PartitionInst proofs.PartitionProofs.
From Coq Require Import Permutation Sorting.Sorted.

(* EXACTLY ONCE.  For every world size W >= 1, every vector of starting loads, every list of replicated paths
   (whole-path units and chunked = subpartitionable paths, any sizes) and EVERY order [ord] in which the Python
   set `partitionables` is visited:
   - the units are handed out one by one, each to one rank < W (the assignment sequence lists every unit once);
   - counting invariant: for every weight w on units, summing over the ranks the weights of the units a rank holds
     gives the sum over all units - with w = indicator of a unit: the number of ranks holding it is 1; with
     w = size: the replicated bytes assigned in the whole job are the sum of the sizes, not W times it;
   - a unit that is distinct from the others is in exactly one rank's result;
   - the ranks' write-load lists together are a permutation of all replicated write loads. *)
Theorem C06_assigned_exactly_once : forall (sizes : list Z) (items : list item) (ord : list load),
  sizes <> [] -> Permutation ord (partitionables items) ->
  let W := length sizes in
  let asg := snd (partition sizes items ord) in
  map snd asg = all_units items ord /\
  Forall (fun a => (fst a < W)%nat) asg /\
  (forall w : wunit -> Z,
     sumZ (map (fun r => sumZ (map w (rank_units asg r))) (seq 0 W)) = sumZ (map w (all_units items ord))) /\
  (forall u, NoDup (all_units items ord) -> In u (all_units items ord) ->
     exists r, (r < W)%nat /\ In u (rank_units asg r) /\ forall r', In u (rank_units asg r') -> r' = r) /\
  Permutation (concat (partition_result W asg)) (all_loads items).
Proof. exact assigned_exactly_once. Qed.
Print Assumptions C06_assigned_exactly_once.

(* LOAD ACCOUNTING.  The load the partitioner tracks for rank r ends at its starting load (its non-replicated
   bytes) plus the sizes of the replicated units it was given. *)
Theorem C06_final_load : forall (sizes : list Z) (items : list item) (ord : list load) (r : nat),
  sizes <> [] ->
  nth r (fst (partition sizes items ord)) 0 =
  nth r sizes 0 + sumZ (map u_size (rank_units (snd (partition sizes items ord)) r)).
Proof. intros sizes items ord r H. exact (partition_final_load sizes items ord r H). Qed.
Print Assumptions C06_final_load.

(* BALANCE.  For every W >= 1, all starting loads, all sizes >= 0, every visit order: a rank r that received
   replicated work (last_size = Some s, s the size of the LAST unit it received, which is one of its units) ends at
   most s above EVERY rank q, in particular above the least-loaded one.  (Invariant of both greedy loops:
   load(r) - last(r) <= min load, and min load never decreases.) *)
Theorem C06_balance : forall (sizes : list Z) (items : list item) (ord : list load),
  sizes <> [] -> items_nonneg items -> Permutation ord (partitionables items) ->
  let final := fst (partition sizes items ord) in
  let asg := snd (partition sizes items ord) in
  forall r s, last_size asg r = Some s ->
  (exists u, In u (rank_units asg r) /\ u_size u = s) /\
  forall q, (q < length sizes)%nat -> nth r final 0 <= nth q final 0 + s.
Proof. exact balance_two_pass. Qed.
Print Assumptions C06_balance.

(* a rank received replicated work exactly when last_size is defined for it *)
Theorem C06_received_work_iff : forall (asg : list (nat * wunit)) (r : nat),
  (exists s, last_size asg r = Some s) <-> rank_units asg r <> [].
Proof. exact last_size_some_iff. Qed.
Print Assumptions C06_received_work_iff.

(* CONSOLIDATION (consolidate_replicated_entries as run by _gather_manifest, dedup = the generated default).
   For every list of per-rank manifests (W >= 1) whose keys are distinct per rank and in which a path is replicated
   on every rank where it appears or on none, if consolidation does not raise:
   - the number of ranks is unchanged and every rank's private entries are untouched (same entries, same order);
   - ranks >= 1 hold nothing but their private entries (replicated entries live only under rank 0);
   - for every path p that carries a replicated ChunkedTensorEntry on some rank: rank 0 holds ONE entry for p (its
     keys are distinct), replicated, whose chunk list is a permutation of ALL chunks that the ranks hold for p and is
     sorted by offsets (Python list order); p is not a key of any rank >= 1;
   - every other replicated entry of any rank is found under rank 0. *)
Theorem C06_consolidate_complete : forall (ms ms' : list manifest),
  ms <> [] -> keys_distinct ms -> consistent ms -> consolidate ms = Some ms' ->
  length ms' = length ms /\
  (forall r, strip_repl (nth r ms' []) = strip_repl (nth r ms [])) /\
  (forall r, (1 <= r)%nat -> nth r ms' [] = strip_repl (nth r ms [])) /\
  NoDup (map fst (nth 0 ms' [])) /\
  (forall p, In p (group_paths ms) ->
     (exists meta cs, lookup p (nth 0 ms' []) = Some (EChunked true meta cs) /\
                      Permutation cs (all_repl_chunks ms p) /\ sorted_by chunk_leb cs) /\
     (forall r, (1 <= r)%nat -> ~ In p (map fst (nth r ms' [])))) /\
  (forall m p e, In m ms -> In (p, e) m -> is_repl e = true -> ~ In p (group_paths ms) ->
     lookup p (nth 0 ms' []) = Some e).
Proof. exact consolidate_complete. Qed.
Print Assumptions C06_consolidate_complete.

(* ... and consolidation does not raise (no ValueError) when two ranks never hold different replicated entries for
   the same non-chunked path - after partitioning a whole-path object sits on exactly one rank. *)
Theorem C06_consolidate_no_error : forall (ms : list manifest),
  keys_distinct ms ->
  (forall m m' p e e', In m ms -> In m' ms -> In (p, e) m -> In (p, e') m' ->
     is_repl e = true -> is_repl e' = true -> ~ In p (group_paths ms) -> e = e') ->
  exists ms', consolidate ms = Some ms'.
Proof. exact consolidate_no_error. Qed.
Print Assumptions C06_consolidate_no_error.

(* SELECTION KEEPS THE OBJECT COMPLETE.  A replicated chunked tensor p (same entry, chunks cs, on every rank; its
   write loads are its chunks 0..n-1): after the partitioning (any W >= 1, any loads, any visit order) and the
   rank-local selection of _partition_replicated_write_reqs, the chunk lists that the ranks keep for p are TOGETHER a
   permutation of cs - nothing lost, nothing twice.  With C06_consolidate_complete: the consolidated entry is the
   sorted list of exactly the object's chunks, which is what restore reads on every rank. *)
Theorem C06_selected_chunks_complete :
  forall (sizes : list Z) (items : list item) (ord : list load) (entries : manifest) (p : Z) rp meta (cs : list chunk),
  sizes <> [] -> Permutation ord (partitionables items) ->
  lookup p entries = Some (EChunked rp meta cs) ->
  map l_idx (filter (fun l => l_path l =? p) (all_loads items)) = map Z.of_nat (seq 0 (length cs)) ->
  Permutation
    (flat_map (fun r => selected_chunks entries (rank_loads (snd (partition sizes items ord)) r) p) (seq 0 (length sizes)))
    cs.
Proof. exact selected_chunks_complete. Qed.
Print Assumptions C06_selected_chunks_complete.

(* ABSENT SOMEWHERE => PRIVATE (_calculate_replicated_entries), for EVERY glob matcher fm, every glob list, every
   world size, every per-rank key list (distinct keys) and sharded-value predicate: a path is treated as replicated
   IFF on every rank it is a key, matches some glob and its value is not sharded.  Hence a path missing from one
   rank's matched list is never replicated, and a path present and matching on all ranks is. *)
Theorem C06_absent_somewhere_is_private :
  forall (fm : Z -> Z -> bool) (globs : list Z) (ranks : list (list Z * (Z -> bool))) (p : Z),
  Forall (fun ks => NoDup (fst ks)) ranks ->
  (In p (replicated_paths fm globs ranks) <->
   ranks <> [] /\ forall ks, In ks ranks ->
     In p (fst ks) /\ (exists g, In g globs /\ fm p g = true) /\ snd ks p = false).
Proof. exact replicated_paths_iff. Qed.
Print Assumptions C06_absent_somewhere_is_private.

(* Non-vacuity: W = 3, starting loads [5;0;2]; a whole-path unit of size 4 (path 0), a chunked path 1 with chunks
   of 4, 1 and 7 bytes visited in the order 7, 4, 1. *)
Example C06_example_items : list item :=
  [(0, false, [(0, 0, 3); (0, 1, 1)]); (1, true, [(1, 0, 4); (1, 1, 1); (1, 2, 7)])].
Example C06_example_run :
  let res := partition [5; 0; 2] C06_example_items [(1, 2, 7); (1, 0, 4); (1, 1, 1)] in
  fst res = [6; 8; 9] /\
  partition_result 3 (snd res) = [[(1, 1, 1)]; [(0, 0, 3); (0, 1, 1); (1, 0, 4)]; [(1, 2, 7)]] /\
  map (last_size (snd res)) [0%nat; 1%nat; 2%nat] = [Some 1; Some 4; Some 7].
Proof. vm_compute. repeat split; reflexivity. Qed.
Example C06_example_hyps :
  items_nonneg C06_example_items /\ Permutation [(1, 2, 7); (1, 0, 4); (1, 1, 1)] (partitionables C06_example_items).
Proof.
  split.
  - repeat constructor; cbn; lia.
  - vm_compute. apply perm_trans with [(1, 0, 4); (1, 2, 7); (1, 1, 1)]; [apply perm_swap|].
    apply perm_skip. apply perm_swap.
Qed.

(* consolidation after partitioning: rank 1 kept chunks 2 and 0 of path 7, rank 0 kept chunk 1 and the whole
   object 3; rank 1 also has a private entry 9 *)
Example C06_example_consolidate :
  consolidate [[(7, EChunked true 5 [([4], 11)]); (3, EOther true 30); (8, EOther false 80)];
               [(7, EChunked true 5 [([0], 10); ([8], 12)]); (9, EOther false 90)]]
  = Some [[(8, EOther false 80); (7, EChunked true 5 [([0], 10); ([4], 11); ([8], 12)]); (3, EOther true 30)];
          [(9, EOther false 90)]].
Proof. vm_compute. reflexivity. Qed.

(* path 2 is missing on rank 1, path 1 is sharded on rank 1, path 3 matches no glob: only path 0 is replicated *)
Example C06_example_replicated_paths :
  replicated_paths (fun p g => (g =? 0) && (p <? 3)) [0]
    [([0; 1; 2; 3], fun _ => false); ([3; 1; 0], fun p => p =? 1)] = [0].
Proof. vm_compute. reflexivity. Qed.

(* selection on rank 1 of the run above (it was given whole object 0 and chunk 0 of path 1) *)
Example C06_example_select :
  select [(0, EOther true 30); (1, EChunked true 5 [([0], 10); ([4], 11); ([5], 12)])]
         [(0, 0, 3); (0, 1, 1); (1, 0, 4)]
  = ([(0, EOther true 30); (1, EChunked true 5 [([0], 10)])], [(0, [0; 1]); (1, [0])]).
Proof. vm_compute. reflexivity. Qed.
