(* C06 - Replicated objects are written once, by one rank, with balanced load.
   Property theorems only.  The choice of the writer rank, the load update, the merge order, the dedup default and
   the "on all ranks" test are the constants generated from partitioner.py / snapshot.py on this run
   (coq/gen/PartitionGen.v); model/Partition.v is defined from them, proofs/PartitionInst.v holds the
   instantiation lemmas.  World size W = length of the starting-load vector, any W >= 1.
   Not modelled: partially replicated DTensor entries. *)
From TS Require Import model.Base gen.PartitionGen model.Partition proofs.PartitionInst proofs.PartitionProofs.
From Coq Require Import Permutation Sorting.Sorted.

(* EXACTLY ONCE.  For every world size W >= 1, every vector of starting loads, every list of replicated paths
   (whole-path units and chunked = subpartitionable paths, any sizes) and EVERY order [ord] in which the Python
   set `partitionables` is visited:
   - the units are handed out one by one, each to one rank < W (the assignment sequence lists every unit once);
   - counting invariant: for every weight w on units, summing over the ranks the weights of the units a rank holds
     gives the sum over all units - with w = indicator of a unit: the number of ranks holding it is 1; with
     w = size: the replicated bytes assigned in the whole job are the sum of the sizes, not W times it;
   - a unit that is distinct from the others is in exactly one rank's result;
   - the ranks' write-load lists together are a permutation of all replicated write loads. *)
Theorem C06_assigned_exactly_once : forall (sizes : list Z) (items : list item) (ord : list load),
  sizes <> [] -> Permutation ord (partitionables items) ->
  let W := length sizes in
  let asg := snd (partition sizes items ord) in
  map snd asg = all_units items ord /\
  Forall (fun a => (fst a < W)%nat) asg /\
  (forall w : wunit -> Z,
     sumZ (map (fun r => sumZ (map w (rank_units asg r))) (seq 0 W)) = sumZ (map w (all_units items ord))) /\
  (forall u, NoDup (all_units items ord) -> In u (all_units items ord) ->
     exists r, (r < W)%nat /\ In u (rank_units asg r) /\ forall r', In u (rank_units asg r') -> r' = r) /\
  Permutation (concat (partition_result W asg)) (all_loads items).
Proof.
  intros sizes items ord Hne HP W asg.
  pose proof (partition_units sizes items ord) as HU.
  pose proof (partition_ranks sizes items ord Hne) as HR.
  split; [exact HU|]. split; [exact HR|]. split; [|split].
  - intro w. unfold asg, W. rewrite (bucket_sum w (length sizes) _ HR), HU. reflexivity.
  - intros u ND Hin. exact (exactly_one_rank W asg (all_units items ord) u HU HR ND Hin).
  - unfold asg, W. rewrite (rank_loads_perm (length sizes) _ HR), HU. exact (all_units_loads items ord HP).
Qed.
Print Assumptions C06_assigned_exactly_once.

(* LOAD ACCOUNTING.  The load the partitioner tracks for rank r ends at its starting load (its non-replicated
   bytes) plus the sizes of the replicated units it was given. *)
Theorem C06_final_load : forall (sizes : list Z) (items : list item) (ord : list load) (r : nat),
  sizes <> [] ->
  nth r (fst (partition sizes items ord)) 0 =
  nth r sizes 0 + sumZ (map u_size (rank_units (snd (partition sizes items ord)) r)).
Proof. intros sizes items ord r H. exact (partition_final_load sizes items ord r H). Qed.
Print Assumptions C06_final_load.

(* BALANCE.  For every W >= 1, all starting loads, all sizes >= 0, every visit order: a rank r that received
   replicated work (last_size = Some s, s the size of the LAST unit it received, which is one of its units) ends at
   most s above EVERY rank q, in particular above the least-loaded one.  (Invariant of both greedy loops:
   load(r) - last(r) <= min load, and min load never decreases.) *)
Theorem C06_balance : forall (sizes : list Z) (items : list item) (ord : list load),
  sizes <> [] -> items_nonneg items -> Permutation ord (partitionables items) ->
  let final := fst (partition sizes items ord) in
  let asg := snd (partition sizes items ord) in
  forall r s, last_size asg r = Some s ->
  (exists u, In u (rank_units asg r) /\ u_size u = s) /\
  forall q, (q < length sizes)%nat -> nth r final 0 <= nth q final 0 + s.
Proof.
  intros sizes items ord Hne Hit HP final asg r s Hl. split.
  - exact (last_size_in asg r s Hl).
  - exact (partition_balance sizes items ord Hne Hit HP r s Hl).
Qed.
Print Assumptions C06_balance.

(* a rank received replicated work exactly when last_size is defined for it *)
Theorem C06_received_work_iff : forall (asg : list (nat * wunit)) (r : nat),
  (exists s, last_size asg r = Some s) <-> rank_units asg r <> [].
Proof. exact last_size_some_iff. Qed.
Print Assumptions C06_received_work_iff.

(* Non-vacuity: W = 3, starting loads [5;0;2]; a whole-path unit of size 4 (path 0), a chunked path 1 with chunks
   of 4, 1 and 7 bytes visited in the order 7, 4, 1. *)
Example C06_example_items : list item :=
  [(0, false, [(0, 0, 3); (0, 1, 1)]); (1, true, [(1, 0, 4); (1, 1, 1); (1, 2, 7)])].
Example C06_example_run :
  let res := partition [5; 0; 2] C06_example_items [(1, 2, 7); (1, 0, 4); (1, 1, 1)] in
  fst res = [6; 8; 9] /\
  partition_result 3 (snd res) = [[(1, 1, 1)]; [(0, 0, 3); (0, 1, 1); (1, 0, 4)]; [(1, 2, 7)]] /\
  map (last_size (snd res)) [0%nat; 1%nat; 2%nat] = [Some 1; Some 4; Some 7].
Proof. vm_compute. repeat split; reflexivity. Qed.
Example C06_example_hyps :
  items_nonneg C06_example_items /\ Permutation [(1, 2, 7); (1, 0, 4); (1, 1, 1)] (partitionables C06_example_items).
Proof.
  split.
  - repeat constructor; cbn; lia.
  - vm_compute. apply perm_trans with [(1, 0, 4); (1, 2, 7); (1, 1, 1)]; [apply perm_swap|].
    apply perm_skip. apply perm_swap.
Qed.
