(* C02 - Metadata is committed last: a crash leaves no snapshot or a complete one.   Property theorems only.
   The program every rank runs (gen_take_tail) is regenerated from Snapshot.take on every run. *)
From TS Require Import model.Base gen.CommitGen model.Commit proofs.CommitProofs proofs.CommitInst.
From Coq Require Import Arith.
Local Close Scope Z_scope.
Local Open Scope nat_scope.

(* Soundness of the ordering checker, for EVERY program it accepts: any number of ranks (length ns), any number
   of payload writes per rank (ns), any interleaving of the ranks' actions including failures.  Every reachable
   state is a crash cut ("all processes killed here"); payload and metadata writes are non-atomic
   (absent -> partial -> complete). *)
Theorem C02_checker_sound : forall prog, well_ordered prog = true ->
  forall (ns : list nat) (evs : list (nat * action)),
    let g := run prog ns evs in
    (meta_started g = true -> all_payload_complete g = true) /\
    (forall x, In x (ranks g) -> returned x = true -> meta_complete g = true).
Proof.
  intros prog Hwo ns evs g. destruct (well_ordered_positions prog Hwo) as (c & b1 & m & b2 & Hpos). split.
  - exact (meta_started_payload_complete prog c b1 m b2 Hpos ns evs).
  - intros x Hx Hr. exact (returned_meta_complete prog c b1 m b2 Hpos ns evs x Hx Hr (returned_at_end prog ns evs x Hx Hr)).
Qed.
Print Assumptions C02_checker_sound.

(* Synchronous take as it is in the source now: the metadata file exists in storage in any form (partial or
   complete) only after every payload write of every rank has completed. *)
Theorem C02_sync_metadata_last : forall (ns : list nat) (evs : list (nat * action)),
  let g := run gen_take_tail ns evs in meta_started g = true -> all_payload_complete g = true.
Proof. intros ns evs. exact (proj1 (C02_checker_sound gen_take_tail take_tail_well_ordered ns evs)). Qed.
Print Assumptions C02_sync_metadata_last.

(* Crash dichotomy at every instant: no metadata, or a torn metadata file (a strict prefix of the document:
   rejected on read, C14_strict_prefix_rejected), or complete metadata with every payload byte written. *)
Theorem C02_sync_crash_cut_dichotomy : forall (ns : list nat) (evs : list (nat * action)),
  let g := run gen_take_tail ns evs in
  meta g = MAbsent \/ (meta g = MPartial /\ all_payload_complete g = true) \/
  (meta g = MComplete /\ all_payload_complete g = true).
Proof.
  intros ns evs g. pose proof (C02_sync_metadata_last ns evs) as H. fold g in H. unfold meta_started in H.
  destruct (meta g); [left; reflexivity | right; left; split; [reflexivity | apply H; reflexivity]
                      | right; right; split; [reflexivity | apply H; reflexivity]].
Qed.
Print Assumptions C02_sync_crash_cut_dichotomy.

(* When take returns normally on a rank the snapshot is committed (metadata completely written). *)
Theorem C02_sync_return_implies_committed : forall (ns : list nat) (evs : list (nat * action)) x,
  let g := run gen_take_tail ns evs in In x (ranks g) -> returned x = true -> meta_complete g = true.
Proof. intros ns evs x. exact (proj2 (C02_checker_sound gen_take_tail take_tail_well_ordered ns evs) x). Qed.
Print Assumptions C02_sync_return_implies_committed.

From TS Require Import model.Barrier proofs.BarrierProofs proofs.BarrierInst.

(* ASYNCHRONOUS take (background completion through the store barrier, model/Barrier.v; the barrier protocol is
   C13's subject and its skeleton is re-extracted from the source on every run): for every world size, every fault
   plan, every interleaving of the ranks' background threads and every history of snapshots with distinct barrier
   prefixes - with arbitrarily many store.wait timeouts and any set of ranks absent from the protocol (both are part
   of the barrier model) - the metadata of a snapshot is written only after every rank's payload I/O completed
   successfully ... *)
Theorem C02_async_metadata_last : forall st0 h sch i x,
  fresh st0 h -> distinct_prefixes h ->
  nth_error (g_insts (grun (ginit st0 h) sch)) i = Some x ->
  i_meta x = true ->
  forall r, (r < i_W x)%nat -> i_iodone x r = true /\ iofails x r = false.
Proof. exact commit_after_all_arrive. Qed.
Print Assumptions C02_async_metadata_last.

(* ... and a rank's wait() returns normally only after the metadata has been written. *)
Theorem C02_async_return_implies_committed : forall st0 h sch i x,
  fresh st0 h -> distinct_prefixes h ->
  nth_error (g_insts (grun (ginit st0 h) sch)) i = Some x ->
  forall r, (r < i_W x)%nat -> i_pcs x r = PDone -> i_meta x = true.
Proof. exact depart_after_commit. Qed.
Print Assumptions C02_async_return_implies_committed.

(* Non-vacuity: 2 ranks with 2 and 1 payload writes; a full run reaches "both returned, metadata complete";
   cutting the same run after 9 events gives "no metadata yet". *)
Example C02_example_run :
  let evs := [(0, AWBegin); (1, AWBegin); (0, AWBegin); (0, AWEnd); (1, AWEnd); (1, AAdvance); (1, AArrive);
              (0, AWEnd); (0, AAdvance); (0, AArrive); (1, APass); (0, APass); (1, ASkipMeta); (1, AArrive);
              (0, AMetaBegin); (0, AMetaEnd); (0, AArrive); (0, APass); (1, APass); (0, AReturn); (1, AReturn)] in
  let g := run gen_take_tail [2; 1] evs in
  map (fun x => returned x) (ranks g) = [true; true] /\ meta_complete g = true /\
  meta_started (run gen_take_tail [2; 1] (firstn 9 evs)) = false /\
  (* rank 1 cannot pass the first barrier before rank 0 arrived: the event is not enabled *)
  act gen_take_tail (run gen_take_tail [2; 1] (firstn 7 evs)) 1 APass = None.
Proof. vm_compute. repeat split; reflexivity. Qed.
