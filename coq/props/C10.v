(* C10 - I/O pipelines respect the memory budget and the concurrency cap.
   Property theorems only.  The admission guards and refund expressions are those generated from
   scheduler.py on this run (coq/gen/SchedGen.v); see proofs/SchedInst.v for the instantiation lemmas. *)
From TS Require Import model.Base gen.SchedGen model.Sched proofs.SchedInst proofs.SchedProofs proofs.SchedLive proofs.SchedRead.
From TS Require Import model.Dispatch gen.DispatchGen proofs.DispatchInst.

(* SAVE.  For every request list whose buffers are no larger than declared (0 <= bsz <= cost), every budget
   B >= 0, every concurrency cap K >= 0, every initial visit order and EVERY sequence of completion events
   with EVERY visit order of the dispatch loops (Python set iteration): in the reached state
   - the remaining budget is exactly B minus the bytes accounted to in-flight requests (declared cost while
     staging, buffer size once the buffer exists until it has been written),
   - those bytes do not exceed B, or at most one request is in flight (the oversized one),
   - at most K storage writes are in progress. *)
Theorem C10_write_budget_and_cap : forall (rq : reqs) (B K : Z) (v0 : list Z) (evs : list wevent),
  wf_reqs rq -> 0 <= B -> 0 <= K ->
  let s := wrun rq K B v0 evs in
  rem s = B - accounted rq s /\ (accounted rq s <= B \/ inflight s <= 1) /\ zlen (io s) <= K.
Proof. exact write_budget_respected. Qed.
Print Assumptions C10_write_budget_and_cap.

(* all budget taken has been returned when the pipeline finishes *)
Theorem C10_write_budget_returned : forall (rq : reqs) (B K : Z) (v0 : list Z) (evs : list wevent),
  wf_reqs rq -> 0 <= B -> 0 <= K -> wfinal (wrun rq K B v0 evs) = true -> rem (wrun rq K B v0 evs) = B.
Proof. exact write_budget_returned. Qed.
Print Assumptions C10_write_budget_returned.

(* PendingIOWork.complete (after execute_write_reqs has returned) performs the same transition as the main
   loop, so the two theorems above cover the background phase of async_take as well *)
Theorem C10_complete_phase_is_same_transition : forall rq K s i vio vst,
  rfs s = [] -> wstep2 rq K s (IoDone i vio vst) = wstep rq K s (IoDone i vio vst).
Proof. intros rq K s i vio vst. exact (wstep2_eq_io rq K s i vio vst after_completion_order). Qed.
Print Assumptions C10_complete_phase_is_same_transition.

(* LOAD.  Same statement for execute_read_reqs, for every interleaving of dispatch passes, read completions
   and consume completions: bytes held (declared cost while the read is in progress, buffer size while it is
   being consumed) stay within B unless a single request is in flight; at most K reads in progress. *)
Theorem C10_read_budget_and_cap : forall (rq : reqs) (B K : Z) (evs : list revent),
  wf_reqs rq -> 0 <= B -> 0 <= K ->
  let s := rrun rq K B evs in
  rrem s = B - raccounted rq s /\ (rheld rq s <= B \/ rinflight s <= 1) /\ zlen (rio s) <= K.
Proof. exact read_budget_respected. Qed.
Print Assumptions C10_read_budget_and_cap.

Theorem C10_read_budget_returned : forall (rq : reqs) (B K : Z) (evs : list revent),
  costs_nonneg rq -> 0 <= B -> 0 <= K -> rfinal (rrun rq K B evs) = true -> rrem (rrun rq K B evs) = B.
Proof. exact read_budget_returned. Qed.
Print Assumptions C10_read_budget_returned.

(* Automatic budgets: with a6 = int(available * multiplier) as computed at run time, n ranks on one host that
   observe the same a6 get budgets that sum to at most a6, each at most the fixed cap (translated on this run),
   for every a6 >= 0 and n >= 1.  (That all ranks of a host sample the same `available` is an assumption.) *)
Theorem C10_auto_budget : forall a6 n,
  0 <= a6 -> 1 <= n ->
  n * gen_auto_budget a6 n gen_budget_cap <= a6 /\ gen_auto_budget a6 n gen_budget_cap <= gen_budget_cap /\ 0 <= gen_auto_budget a6 n gen_budget_cap.
Proof. exact auto_budget_sum_a6. Qed.
Print Assumptions C10_auto_budget.

(* Idealised: if the product available * multiplier is taken exactly (multiplier = exact binary value of the
   float literal, <= 1) then a6 <= available, so the budgets of a host never exceed its available memory. *)
Theorem C10_auto_budget_exact_multiplier : forall available n,
  0 <= available -> 1 <= n ->
  n * auto_budget available n <= available_budget available /\
  available_budget available <= available /\
  auto_budget available n <= gen_budget_cap.
Proof. exact auto_budget_sum. Qed.
Print Assumptions C10_auto_budget_exact_multiplier.

Theorem C10_override_honoured : forall v, gen_override_budget v = v.
Proof. exact override_verbatim. Qed.
Print Assumptions C10_override_honoured.

(* The hypothesis wf_reqs (buffer no larger than declared) is forced: with an under-declared cost two
   requests are in flight while the accounted bytes exceed the budget.  (ObjectBufferStager declares
   sys.getsizeof(obj): recorded as a known finding and replayed on the real stagers by the harness.) *)
Theorem C10_budget_refuted_when_underdeclared :
  exists rq B K v0 evs, let s := wrun rq K B v0 evs in
    B < accounted rq s /\ 1 < inflight s.
Proof.
  exists [(1, 8); (1, 8)], 10, 2, [0; 1], [StageDone 0 [0] []; StageDone 1 [1] []].
  vm_compute. split; reflexivity.
Qed.
Print Assumptions C10_budget_refuted_when_underdeclared.

(* Non-vacuity: costs below, equal to and above the budget; the oversized request runs alone. *)
Example C10_example_run :
  let rq := [(6, 6); (5, 5); (12, 12)] in
  wf_reqs rq /\
  map (fun evs => let s := wrun rq 2 10 [0; 1; 2] evs in (stg s, rfi s, io s, rem s))
      [ [];
        [StageDone 0 [0] [1; 2]];
        [StageDone 0 [0] [1; 2]; IoDone 0 [] [1; 2]];
        [StageDone 0 [0] [1; 2]; IoDone 0 [] [2; 1]] ]
  = [ ([0], [], [], 4); ([], [], [0], 4); ([1], [], [], 5); ([2], [], [], -2) ].
Proof.
  cbv zeta. split; [|vm_compute; reflexivity].
  unfold wf_reqs. repeat apply Forall_cons; try apply Forall_nil; cbn; lia.
Qed.

(* The budget B of the theorems above is the per-rank budget: tied to the source, memory_budget_bytes in snapshot.py is
   assigned from get_process_memory_budget_bytes only (take, restore; in _get_state_dict_for_manifest only when the caller
   gave none) and every hop down to sync_execute_write_reqs / sync_execute_read_reqs passes it on unchanged.  g_budget_hops
   is regenerated on every run by translator/gen_dispatch.py. *)
Theorem C10_generated_budget_reaches_schedulers : forallb (fun b : bool => b) g_budget_hops = true.
Proof. exact budget_reaches_schedulers. Qed.
Print Assumptions C10_generated_budget_reaches_schedulers.
