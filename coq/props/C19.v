(* C19 - take has no side effects on the RNG; RNG resumes identically after restore.   Property theorems only.
   The statement order of take / async_take / _take_impl / restore / _load_stateful is regenerated from snapshot.py
   on every run (gen/RngGen.v).  G (the global RNG state) is abstract and every stateful's effect on it is an
   arbitrary function: the theorems hold for every generator, every number of draws, every stateful. *)
From TS Require Import model.Base model.Rng gen.RngGen proofs.RngProofs proofs.RngInst.

(* Soundness of the ordering checker for EVERY skeleton it accepts (take side and restore side). *)
Theorem C19_checker_sound : forall (G : Type) (sd ld : key -> G -> G) gather havoc (stored : G) skel,
  (rng_ordered_take skel = true ->
     forall a g0,
       (count_rng a = 1%nat -> g (exec G sd ld gather havoc stored skel a g0) = g0 /\
                               cap (exec G sd ld gather havoc stored skel a g0) = Some g0) /\
       (count_rng a = 0%nat -> g (exec G sd ld gather havoc stored skel a g0) = own_draws G sd gather a g0)) /\
  (rng_ordered_restore skel = true ->
     forall a g1, count_rng a = 1%nat -> g (exec G sd ld gather havoc stored skel a g1) = stored).
Proof.
  intros G sd ld gather havoc stored skel. split.
  - intros H a g0. split; intros Hc.
    + destruct (take_with_rngstate G sd ld gather havoc stored skel H a g0 Hc) as (A & B & _). split; assumption.
    + exact (proj1 (take_without_rngstate G sd ld gather havoc stored skel H a g0 Hc)).
  - intros H a g1 Hc. exact (proj1 (restore_with_rngstate G sd ld gather havoc stored skel H a g1 Hc)).
Qed.
Print Assumptions C19_checker_sound.

(* take and async_take as they are in the source now, with an RNGState at ANY position of the app state
   (a : the app_state dict in insertion order, exactly one entry flagged as RNGState), any number of other statefuls,
   ARBITRARY effects sd k of their state_dict() on the RNG, any global key list (gather: any order, keys of other
   ranks included): the global RNG state after take is the state before take, the value saved in the snapshot is
   that state, and take does not raise. *)
Theorem C19_take_preserves_rng_with_rngstate :
  forall (G : Type) (sd ld : key -> G -> G) gather havoc (dummy : G) (a : list (key * bool)) (g0 : G),
    count_rng a = 1%nat ->
    forall skel, skel = gen_take_skel \/ skel = gen_async_take_skel ->
      let s := exec G sd ld gather havoc dummy skel a g0 in
      g s = g0 /\ cap s = Some g0 /\ failed s = false.
Proof.
  intros G sd ld gather havoc dummy a g0 Hc skel [-> | ->].
  - exact (take_with_rngstate G sd ld gather havoc dummy _ take_skel_ordered_take a g0 Hc).
  - exact (take_with_rngstate G sd ld gather havoc dummy _ async_take_skel_ordered_take a g0 Hc).
Qed.
Print Assumptions C19_take_preserves_rng_with_rngstate.

(* Without an RNGState: the RNG state after take is the composition of the application's OWN state_dict draws, for
   the keys this rank has, in global key order, applied to the state before - and nothing else. *)
Theorem C19_take_rng_without_rngstate :
  forall (G : Type) (sd ld : key -> G -> G) gather havoc (dummy : G) (a : list (key * bool)) (g0 : G),
    count_rng a = 0%nat ->
    forall skel, skel = gen_take_skel \/ skel = gen_async_take_skel ->
      let s := exec G sd ld gather havoc dummy skel a g0 in
      g s = fold_left (fun x k => if has k a then sd k x else x) (gather (map fst a)) g0 /\ cap s = None /\ failed s = false.
Proof.
  intros G sd ld gather havoc dummy a g0 Hc skel [-> | ->].
  - exact (take_without_rngstate G sd ld gather havoc dummy _ take_skel_ordered_take a g0 Hc).
  - exact (take_without_rngstate G sd ld gather havoc dummy _ async_take_skel_ordered_take a g0 Hc).
Qed.
Print Assumptions C19_take_rng_without_rngstate.

(* take -> (anything: g1 is the arbitrary RNG state when restore is called) -> restore: the RNG state immediately
   after restore equals the RNG state immediately after the take that produced the snapshot, for arbitrary
   state_dict / load_state_dict effects of the other statefuls at take time (sd, ld) and at restore time (sd', ld'),
   different key sets and world sizes (gather, gather') included.  v is the value saved by take. *)
Theorem C19_restore_resumes :
  forall (G : Type) (sd ld sd' ld' : key -> G -> G) gather gather' havoc havoc' (a_t a_r : list (key * bool))
         (g0 g1 dummy : G),
    count_rng a_t = 1%nat -> count_rng a_r = 1%nat ->
    forall skel, skel = gen_take_skel \/ skel = gen_async_take_skel ->
      let t := exec G sd ld gather havoc dummy skel a_t g0 in
      forall v, cap t = Some v ->
        g (exec G sd' ld' gather' havoc' v gen_restore_skel a_r g1) = g t.
Proof.
  intros G sd ld sd' ld' gather gather' havoc havoc' a_t a_r g0 g1 dummy H1 H2 skel [-> | ->].
  - exact (restore_resumes G _ _ take_skel_ordered_take restore_skel_ordered_restore sd ld sd' ld' gather gather' havoc havoc'
             a_t a_r g0 g1 dummy H1 H2).
  - exact (restore_resumes G _ _ async_take_skel_ordered_take restore_skel_ordered_restore sd ld sd' ld' gather gather' havoc havoc'
             a_t a_r g0 g1 dummy H1 H2).
Qed.
Print Assumptions C19_restore_resumes.

(* Per-run obligations over the generated terms: the skeletons are accepted by the checker; no function body reachable
   from take / async_take / the background completion / restore contains a torch RNG call (so the statements classified
   RLocal are inert, as the interpreter assumes); _pop_rng_state works on a copy of the caller's dict. *)
Theorem C19_generated_skeletons_ordered :
  rng_ordered gen_take_skel = true /\ rng_ordered gen_async_take_skel = true /\ rng_ordered gen_restore_skel = true.
Proof. exact (conj take_skel_ordered (conj async_take_skel_ordered restore_skel_ordered)). Qed.
Print Assumptions C19_generated_skeletons_ordered.

Theorem C19_no_torch_rng_reachable :
  gen_take_draws_torch_rng = false /\ gen_restore_draws_torch_rng = false /\
  gen_take_copies_app_state = true /\ gen_restore_copies_app_state = true.
Proof. exact (conj take_draws_no_torch_rng (conj restore_draws_no_torch_rng (conj take_copies_app_state restore_copies_app_state))). Qed.
Print Assumptions C19_no_torch_rng_reachable.

(* ---------------------------------------------------------------- non-vacuity and refuted variants *)
Definition ex_sd (k : key) (x : Z) : Z := x + 10 * (k + 1).     (* stateful k draws 10(k+1) numbers in state_dict *)
Definition ex_ld (k : key) (x : Z) : Z := x + 1000.
Definition ex_gather (l : list key) : list key := [0; 1; 2; 3; 7].   (* key 7 belongs to another rank *)

(* RNGState in the middle of the dict, two drawing statefuls: preserved; without it: 10 + 30 + 40 draws *)
Example C19_example_take :
  g (exec Z ex_sd ex_ld ex_gather (fun _ => -1) 0 gen_take_skel [(0, false); (1, true); (2, false)] 5) = 5 /\
  cap (exec Z ex_sd ex_ld ex_gather (fun _ => -1) 0 gen_take_skel [(0, false); (1, true); (2, false)] 5) = Some 5 /\
  g (exec Z ex_sd ex_ld ex_gather (fun _ => -1) 0 gen_async_take_skel [(0, false); (2, false); (3, false)] 5) = 5 + 10 + 30 + 40 /\
  g (exec Z ex_sd ex_ld ex_gather (fun _ => -1) 5 gen_restore_skel [(2, false); (0, false); (9, true)] 777) = 5 /\
  (* restore without an RNGState: the draws of state_dict() and load_state_dict() of both statefuls stay *)
  g (exec Z ex_sd ex_ld ex_gather (fun _ => -1) 5 gen_restore_skel [(2, false); (0, false)] 777) = 777 + 10 + 1000 + 30 + 1000.
Proof. vm_compute. repeat split; reflexivity. Qed.

(* A take that re-applies the RNG state BEFORE the other state_dict() calls violates the statement as soon as one
   stateful draws: rejected by the checker, and the interpreter shows the drift. *)
Definition reapply_early : list rstmt :=
  [RLocal; RPopRng; RCaptureRng; RGatherKeys; RReapplyRng; RLoopKeys [BStateDict; BBarrier]; RLocal].
Example C19_reapply_before_loop_refuted :
  rng_ordered reapply_early = false /\
  exists a g0, count_rng a = 1%nat /\ g (exec Z ex_sd ex_ld ex_gather (fun _ => -1) 0 reapply_early a g0) <> g0.
Proof.
  split; [vm_compute; reflexivity |]. exists [(0, false); (1, true)], 5. split; [reflexivity |]. vm_compute. discriminate.
Qed.

(* A take that never re-applies, and a restore that loads the RNG state first. *)
Definition no_reapply : list rstmt := [RLocal; RPopRng; RCaptureRng; RGatherKeys; RLoopKeys [BStateDict; BBarrier]; RLocal].
Definition rng_first : list rstmt :=
  [RPopRng; RGatherKeys; RBudget; RLoadRng; RLoopKeys [BLocal; BStateDict; BLocal; BLoadStateDict; BBarrier]].
Example C19_no_reapply_refuted :
  rng_ordered no_reapply = false /\
  g (exec Z ex_sd ex_ld ex_gather (fun _ => -1) 0 no_reapply [(0, false); (1, true)] 5) <> 5.
Proof. split; [vm_compute; reflexivity | vm_compute; discriminate]. Qed.
Example C19_restore_rng_first_refuted :
  rng_ordered rng_first = false /\
  g (exec Z ex_sd ex_ld ex_gather (fun _ => -1) 5 rng_first [(0, false); (1, true)] 777) <> 5.
Proof. split; [vm_compute; reflexivity | vm_compute; discriminate]. Qed.
(* a torch RNG call after the re-apply is rejected as well *)
Example C19_rng_call_in_rest_rejected :
  rng_ordered [RPopRng; RCaptureRng; RGatherKeys; RLoopKeys [BStateDict; BBarrier]; RReapplyRng; RTorchRng] = false /\
  rng_ordered [RPopRng; RCaptureRng; RGatherKeys; RLoopKeys [BStateDict; BBarrier]; RReapplyRng; RAppCall] = false /\
  rng_ordered [RPopRng; RCaptureRng; RGatherKeys; RLoopKeys [BStateDict; BTorchRng; BBarrier]; RReapplyRng] = false.
Proof. vm_compute. repeat split; reflexivity. Qed.
