(* C01 - Take then restore reproduces the application state exactly.  Property theorems only.
   The end-to-end statement is a composition; the components are proved under their own properties and are
   re-exported here where they enter the composition:
     containers, keys, key order ............ C15_inflate_flatten (+ _via_metadata)
     metadata document ........................ C14_metadata_roundtrip
     tensor bits <-> bytes, every layout ...... C17_roundtrip, C17_serialized_length
     chunk / slab / merged read / tile ........ C16_* and the data-path theorems below
     every request written / read once ........ C11_write_exactly_once, C11_read_exactly_once
     manifest view at the same world size ..... C07_replicated_visible_everywhere, C07_private_only_to_owner
     storage locations distinct ............... C05_location_injective (hypotheses no_suffix_clash, no_empty_component) *)
From TS Require Import model.Base model.Chunk model.Batch model.Pipeline proofs.ChunkProofs proofs.BatchProofs proofs.PipelineProofs.
From Coq Require Import Permutation.
From TS Require Import model.Dispatch gen.DispatchGen model.DispatchGenObs proofs.DispatchInst gen.ChunkGen proofs.ChunkGenProofs.

(* Chunking is invisible at the byte level: for every shape with positive extents, element size and chunk knob
   >= 1, the pieces that prepare_write stages (one piece, or the dim-0 chunks when the tensor exceeds the knob)
   concatenate to exactly the tensor's row-major bytes. *)
Theorem C01_pieces_concat : forall shape esize csz (b : bytes),
  1 <= csz -> 0 < esize -> Forall (fun s => 0 < s) shape -> blen b = esize * prodZ shape ->
  exists ps, pieces shape esize csz b = Some ps /\ concat ps = b.
Proof. exact pieces_concat. Qed.
Print Assumptions C01_pieces_concat.

(* The tensor data path end to end, for EVERY slab threshold T >= 1, every set of write requests with distinct
   locations (batchable or not, any sizes, any order), every completion order of slab staging (inside
   slab_stored), every order of the read requests: whatever is reassembled for a leaf from the deliveries of
   its pieces' consumers equals the leaf's original bytes.  Batching on = batchable flags set; off = cleared. *)
Theorem C01_tensor_data_path : forall T (ws : list went) slabs pass reloc store,
  1 <= T -> NoDup (map e_path ws) ->
  batch_write T (map wreq_of ws) = (slabs, pass, reloc) ->
  (forall e, In e ws -> In (wreq_of e) pass -> lookup store (e_path e) = Some (e_buf e)) ->
  (forall k ms, In (k, ms) slabs -> slab_stored ws store k ms) ->
  forall rreqs ids ps (b : bytes),
    Permutation rreqs (map (fun e => entry_read reloc (e_path e)) ws) ->
    Forall2 (fun id p => exists e, In e ws /\ e_path e = id /\ e_buf e = p) ids ps ->
    concat ps = b ->
    reassemble ids (exec_plan store (batch_read rreqs)) = b.
Proof. intros T ws slabs pass reloc store HT Hnd Hbw Hp Hs rreqs ids ps b. exact (data_path T ws slabs pass reloc store HT Hnd Hbw Hp Hs rreqs ids ps b). Qed.
Print Assumptions C01_tensor_data_path.

(* take + restore of one tensor with every knob at once: chunk knob csz >= 1, slab threshold T >= 1 *)
Theorem C01_tensor_roundtrip_all_knobs : forall T csz shape esize (b : bytes) (ws : list went) slabs pass reloc store ids,
  1 <= T -> 1 <= csz -> 0 < esize -> Forall (fun s => 0 < s) shape -> blen b = esize * prodZ shape ->
  NoDup (map e_path ws) -> batch_write T (map wreq_of ws) = (slabs, pass, reloc) ->
  (forall e, In e ws -> In (wreq_of e) pass -> lookup store (e_path e) = Some (e_buf e)) ->
  (forall k ms, In (k, ms) slabs -> slab_stored ws store k ms) ->
  (forall ps, pieces shape esize csz b = Some ps ->
     Forall2 (fun id p => exists e, In e ws /\ e_path e = id /\ e_buf e = p) ids ps) ->
  forall rreqs, Permutation rreqs (map (fun e => entry_read reloc (e_path e)) ws) ->
    reassemble ids (exec_plan store (batch_read rreqs)) = b.
Proof.
  intros T csz shape esize b ws slabs pass reloc store ids HT Hc He Hpos Hlen Hnd Hbw Hp Hs Hpieces rreqs Hperm.
  destruct (pieces_concat shape esize csz b Hc He Hpos Hlen) as (ps & Hps & Hcat).
  exact (data_path T ws slabs pass reloc store HT Hnd Hbw Hp Hs rreqs ids ps b Hperm (Hpieces ps Hps) Hcat).
Qed.
Print Assumptions C01_tensor_roundtrip_all_knobs.

(* Non-vacuity: a 5x2 int16 tensor (20 bytes), chunk knob 8 -> three pieces of 8, 8, 4 bytes *)
Example C01_example_pieces :
  pieces [5; 2] 2 8 (map Z.of_nat (seq 0 20)) =
  Some [map Z.of_nat (seq 0 8); map Z.of_nat (seq 8 8); map Z.of_nat (seq 16 4)].
Proof. vm_compute. reflexivity. Qed.

(* ------------------------------------------------------------------ the routing code, as it is in the source now *)
(* gen/DispatchGen.v is regenerated on every run from io_preparer.py / manifest.py by translator/gen_dispatch.py.
   Every class of object (inline primitive, ShardedTensor, DTensor, plain tensor, anything else - with the isinstance
   flags Python gives them: the two distributed tensor classes ARE torch.Tensor subclasses) is written by the preparer
   the composition above assumes (a plain tensor by the chunking preparer exactly when its byte size exceeds the knob),
   the entry that preparer produces is read back by the inverse preparer, and the byte limit of a budgeted read reaches
   exactly the two preparers that can tile. *)
Theorem C01_generated_routing : forall (o : oclass) (nbytes knob : Z),
  fst (kind_of_oclass o nbytes knob) = wanted_wkind o nbytes knob /\
  g_read_kind (entry_class_of (fst (kind_of_oclass o nbytes knob)))
    = Some (reader_of (wanted_wkind o nbytes knob), limit_reaches (wanted_wkind o nbytes knob)) /\
  snd (kind_of_oclass o nbytes knob) = match o with OShardedTensor | ODTensor => false | _ => true end.
Proof.
  intros o nbytes knob. split; [exact (write_routing o nbytes knob)|].
  split; [exact (routing_roundtrip o nbytes knob) | exact (write_sets_replicated o nbytes knob)].
Qed.
Print Assumptions C01_generated_routing.

(* Entries that are not objects (containers, the abstract base) are refused by prepare_read, and nothing else is *)
Theorem C01_generated_read_refuses_only_containers : forall c : eclass,
  g_read_kind c = None <-> In c [EEntry; EList; EDict; EOrderedDict].
Proof. exact read_routing_none. Qed.
Print Assumptions C01_generated_read_refuses_only_containers.

(* the size arithmetic of chunking / slabs / merged reads the data-path theorems rest on is the source's *)
Theorem C01_generated_arithmetic_agrees :
  (forall shape dim esize csz, chunk_tensor_g shape dim esize csz = chunk_tensor shape dim esize csz)
  /\ (forall T st p is_tbs batchable numel esize,
        bw_step_g T st (p, is_tbs, batchable, numel, esize) = bw_step T st (p, is_tbs && batchable, numel * esize))
  /\ (forall rs loc, merge_location_g rs loc = merge_location rs loc).
Proof.
  split; [exact chunk_tensor_g_eq|]. split; [exact bw_step_g_eq | exact merge_location_g_eq].
Qed.
Print Assumptions C01_generated_arithmetic_agrees.

Example C01_example_routing :
  kind_of_oclass OPlainTensor 33 32 = (WChunked, true) /\ kind_of_oclass OPlainTensor 32 32 = (WTensor, true) /\
  kind_of_oclass OShardedTensor 33 32 = (WSharded, false) /\ g_read_kind EChunked = Some (RChunked, true) /\
  g_read_kind EList = None.
Proof. vm_compute. repeat split. Qed.
