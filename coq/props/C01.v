(* C01 - Take then restore reproduces the application state exactly.  Property theorems only.
   The end-to-end statement is a composition; the components are proved under their own properties and are
   re-exported here where they enter the composition:
     containers, keys, key order ............ C15_inflate_flatten (+ _via_metadata)
     metadata document ........................ C14_metadata_roundtrip
     tensor bits <-> bytes, every layout ...... C17_roundtrip, C17_serialized_length
     chunk / slab / merged read / tile ........ C16_* and the data-path theorems below
     every request written / read once ........ C11_write_exactly_once, C11_read_exactly_once
     manifest view at the same world size ..... C07_replicated_visible_everywhere, C07_private_only_to_owner
     storage locations distinct ............... C05_location_injective (hypotheses no_suffix_clash, no_empty_component) *)
From TS Require Import model.Base model.Chunk model.Batch model.Pipeline proofs.ChunkProofs proofs.BatchProofs proofs.PipelineProofs.
From Coq Require Import Permutation.
From TS Require Import model.Dispatch gen.DispatchGen model.DispatchGenObs proofs.DispatchInst gen.ChunkGen proofs.ChunkGenProofs.

(* Chunking is invisible at the byte level: for every shape with positive extents, element size and chunk knob
   >= 1, the pieces that prepare_write stages (one piece, or the dim-0 chunks when the tensor exceeds the knob)
   concatenate to exactly the tensor's row-major bytes. *)
Theorem C01_pieces_concat : forall shape esize csz (b : bytes),
  1 <= csz -> 0 < esize -> Forall (fun s => 0 < s) shape -> blen b = esize * prodZ shape ->
  exists ps, pieces shape esize csz b = Some ps /\ concat ps = b.
Proof. exact pieces_concat. Qed.
Print Assumptions C01_pieces_concat.

(* The tensor data path end to end, for EVERY slab threshold T >= 1, every set of write requests with distinct
   locations (batchable or not, any sizes, any order), every completion order of slab staging (inside
   slab_stored), every order of the read requests: whatever is reassembled for a leaf from the deliveries of
   its pieces' consumers equals the leaf's original bytes.  Batching on = batchable flags set; off = cleared. *)
Theorem C01_tensor_data_path : forall T (ws : list went) slabs pass reloc store,
  1 <= T -> NoDup (map e_path ws) ->
  batch_write T (map wreq_of ws) = (slabs, pass, reloc) ->
  (forall e, In e ws -> In (wreq_of e) pass -> lookup store (e_path e) = Some (e_buf e)) ->
  (forall k ms, In (k, ms) slabs -> slab_stored ws store k ms) ->
  forall rreqs ids ps (b : bytes),
    Permutation rreqs (map (fun e => entry_read reloc (e_path e)) ws) ->
    Forall2 (fun id p => exists e, In e ws /\ e_path e = id /\ e_buf e = p) ids ps ->
    concat ps = b ->
    reassemble ids (exec_plan store (batch_read rreqs)) = b.
Proof. intros T ws slabs pass reloc store HT Hnd Hbw Hp Hs rreqs ids ps b. exact (data_path T ws slabs pass reloc store HT Hnd Hbw Hp Hs rreqs ids ps b). Qed.
Print Assumptions C01_tensor_data_path.

(* take + restore of one tensor with every knob at once: chunk knob csz >= 1, slab threshold T >= 1 *)
Theorem C01_tensor_roundtrip_all_knobs : forall T csz shape esize (b : bytes) (ws : list went) slabs pass reloc store ids,
  1 <= T -> 1 <= csz -> 0 < esize -> Forall (fun s => 0 < s) shape -> blen b = esize * prodZ shape ->
  NoDup (map e_path ws) -> batch_write T (map wreq_of ws) = (slabs, pass, reloc) ->
  (forall e, In e ws -> In (wreq_of e) pass -> lookup store (e_path e) = Some (e_buf e)) ->
  (forall k ms, In (k, ms) slabs -> slab_stored ws store k ms) ->
  (forall ps, pieces shape esize csz b = Some ps ->
     Forall2 (fun id p => exists e, In e ws /\ e_path e = id /\ e_buf e = p) ids ps) ->
  forall rreqs, Permutation rreqs (map (fun e => entry_read reloc (e_path e)) ws) ->
    reassemble ids (exec_plan store (batch_read rreqs)) = b.
Proof.
  intros T csz shape esize b ws slabs pass reloc store ids HT Hc He Hpos Hlen Hnd Hbw Hp Hs Hpieces rreqs Hperm.
  destruct (pieces_concat shape esize csz b Hc He Hpos Hlen) as (ps & Hps & Hcat).
  exact (data_path T ws slabs pass reloc store HT Hnd Hbw Hp Hs rreqs ids ps b Hperm (Hpieces ps Hps) Hcat).
Qed.
Print Assumptions C01_tensor_roundtrip_all_knobs.

(* Non-vacuity: a 5x2 int16 tensor (20 bytes), chunk knob 8 -> three pieces of 8, 8, 4 bytes *)
Example C01_example_pieces :
  pieces [5; 2] 2 8 (map Z.of_nat (seq 0 20)) =
  Some [map Z.of_nat (seq 0 8); map Z.of_nat (seq 8 8); map Z.of_nat (seq 16 4)].
Proof. vm_compute. reflexivity. Qed.

(* ------------------------------------------------------------------ the routing code, as it is in the source now *)
(* gen/DispatchGen.v is regenerated on every run from io_preparer.py / manifest.py by translator/gen_dispatch.py.
   Every class of object (inline primitive, ShardedTensor, DTensor, plain tensor, anything else - with the isinstance
   flags Python gives them: the two distributed tensor classes ARE torch.Tensor subclasses) is written by the preparer
   the composition above assumes (a plain tensor by the chunking preparer exactly when its byte size exceeds the knob),
   the entry that preparer produces is read back by the inverse preparer, and the byte limit of a budgeted read reaches
   exactly the two preparers that can tile. *)
Theorem C01_generated_routing : forall (o : oclass) (nbytes knob : Z),
  fst (kind_of_oclass o nbytes knob) = wanted_wkind o nbytes knob /\
  g_read_kind (entry_class_of (fst (kind_of_oclass o nbytes knob)))
    = Some (reader_of (wanted_wkind o nbytes knob), limit_reaches (wanted_wkind o nbytes knob)) /\
  snd (kind_of_oclass o nbytes knob) = match o with OShardedTensor | ODTensor => false | _ => true end.
Proof.
  intros o nbytes knob. split; [exact (write_routing o nbytes knob)|].
  split; [exact (routing_roundtrip o nbytes knob) | exact (write_sets_replicated o nbytes knob)].
Qed.
Print Assumptions C01_generated_routing.

(* Entries that are not objects (containers, the abstract base) are refused by prepare_read, and nothing else is *)
Theorem C01_generated_read_refuses_only_containers : forall c : eclass,
  g_read_kind c = None <-> In c [EEntry; EList; EDict; EOrderedDict].
Proof. exact read_routing_none. Qed.
Print Assumptions C01_generated_read_refuses_only_containers.

(* the size arithmetic of chunking / slabs / merged reads the data-path theorems rest on is the source's *)
Theorem C01_generated_arithmetic_agrees :
  (forall shape dim esize csz, chunk_tensor_g shape dim esize csz = chunk_tensor shape dim esize csz)
  /\ (forall T st p is_tbs batchable numel esize,
        bw_step_g T st (p, is_tbs, batchable, numel, esize) = bw_step T st (p, is_tbs && batchable, numel * esize))
  /\ (forall rs loc, merge_location_g rs loc = merge_location rs loc).
Proof.
  split; [exact chunk_tensor_g_eq|]. split; [exact bw_step_g_eq | exact merge_location_g_eq].
Qed.
Print Assumptions C01_generated_arithmetic_agrees.

Example C01_example_routing :
  kind_of_oclass OPlainTensor 33 32 = (WChunked, true) /\ kind_of_oclass OPlainTensor 32 32 = (WTensor, true) /\
  kind_of_oclass OShardedTensor 33 32 = (WSharded, false) /\ g_read_kind EChunked = Some (RChunked, true) /\
  g_read_kind EList = None.
Proof. vm_compute. repeat split. Qed.

(* ==== the glue of snapshot.py, as it is in the source now ============================================================
   gen/GlueGen.v is rewritten on every run from /repo's snapshot.py by translator/gen_glue.py: Snapshot._take_impl,
   _pop_rng_state, _gather_keys, _gather_manifest, restore, _load_stateful, _get_state_dict_for_manifest and read_object
   translated statement by statement over the vocabulary of model/Glue.v.  Leaves are opaque values; containers, keys, key
   order and logical paths are those of the flatten / inflate generated from flatten.py (C15_generated_inflate_flatten),
   storage locations those of the generated get_storage_path (gen/DispatchGen.v).  The components whose internals are
   other properties' subjects enter through the laws below, each named after the theorems that establish it for the
   component's own model; model/GlueGenObs.v [world1] is a one-rank world that satisfies all of them (the _one_rank
   theorems carry no law as a hypothesis). *)
From TS Require Import model.Flatten model.FlattenPy model.StoragePath model.FlattenGenObs model.Glue gen.GlueGen model.GlueGenObs
  proofs.FlattenProofs proofs.GlueInst.

Definition glue_laws (W : world) : Prop :=
  (* C12 / collectives: all_gather_object returns, among the others', what this rank contributed *)
  (forall (A : Type) (x : A), In x (w_all_gather W A x)) /\
  (* C06_* (partitioner): on this rank the partitioner keeps the rank's entries and write requests *)
  (forall es ws, NoDup (map fst es) -> map fst ws = map fst es ->
     exists es' ws', w_partition W es ws = Some (es', ws') /\ Permutation es' es /\ Permutation ws' ws) /\
  (* C17_roundtrip, C16 chunking, C11_write_exactly_once: an object written at a location of its own is read back from it *)
  (forall st loc o r, NoDup (map fst st) -> In (loc, o) st -> w_read W st (LObj loc None r) = Some o) /\
  (* C01_tensor_data_path, C01_tensor_roundtrip_all_knobs: after slab batching every relocated entry still reads back its object *)
  (forall es wrs, NoDup (map wr_path wrs) ->
     Forall2 (stored_as W wrs (snd (w_batch_write W es wrs))) es (fst (w_batch_write W es wrs))) /\
  (* C06 consolidate_replicated_entries succeeds on manifests with distinct paths *)
  (forall m, NoDup (map fst m) -> exists ms, w_consolidate W (w_all_gather W _ m) = Some ms) /\
  (* C07_replicated_visible_everywhere, C07_private_only_to_owner, C14_metadata_roundtrip: at the same world size the rank's
     view of the global manifest built by _gather_manifest is the rank's own manifest; nothing is sharded *)
  (forall m ms, NoDup (map fst m) -> (forall p, In p (map fst m) -> starts_slash p = false) ->
     w_consolidate W (w_all_gather W _ m) = Some ms ->
     let v := w_manifest_for_rank W (mkMeta (w_world_size W) (global_of ms)) (w_rank W) in
     NoDup (map fst (fst v)) /\ (forall p e, In (p, e) (fst v) <-> In (p, e) m) /\ snd v = []) /\
  (* C16 merged reads: batching read requests does not change which requests are served *)
  (forall rs r, In r (w_batch_read W rs) <-> In r rs) /\
  (* C07 / C08: the elasticity rewrite only touches sharded entries *)
  (forall m rq, w_elasticity W m [] rq = m).

(* (a) TAKE THEN RESTORE, same world size, seen from one rank.  For every application state A = {key -> stateful} with
   distinct non-empty keys (an empty key is C05's known finding) whose state dicts have dicts with distinct keys (wf_app), at
   most one RNGState among them (more than one: _pop_rng_state raises), storage locations of distinct leaves distinct (C05),
   every replication glob list, sync or async, batching on or off (inside W), and for EVERY set T of restore targets whose
   keys are among A's (any subset, any current contents of the targets, at most one RNGState): take succeeds, restore
   succeeds, and the load_state_dict calls restore makes are exactly [all_expected_loads]: in the order of the sorted keys,
   the RNGState last, each requested stateful receives the object its counterpart's state_dict() returned at take time - same
   container types, keys with their types, key order, leaves (with strict= only for nn.Modules).  Also: the only
   load_state_dict take itself makes re-applies the RNG state it read first; take calls prepare_write once per leaf with obj /
   logical_path / rank / replicated = (path in the replicated paths) / is_async_snapshot = the caller's flag; restore hands
   every prepare_read the tensor found at the same logical path in the target's own state dict as in-place destination. *)
Theorem C01_generated_take_restore : forall (W : world) A repl is_async custom path T strict,
  glue_laws W ->
  NoDup (map fst A) -> rng_at_most_one A -> wf_app A -> nonempty_keys A -> locations_distinct W A ->
  NoDup (map fst T) -> rng_at_most_one T -> (forall k t, In (k, t) T -> exists a, In (k, a) A) ->
  exists st md x1 gkA gk x2,
    NoDup gkA /\ (forall k, In k (map fst A) -> In k gkA) /\
    take_impl_gen W path A repl [] is_async custom fx0 = Some ((st, md), x1) /\
    fx_loads x1 = rng_loads A /\
    fx_writes x1 = map (wcall_of W (w_calc_replicated W (concat (map (blkF A) gkA)) repl) is_async custom) (concat (map (blkF A) gkA)) /\
    gather_keys_gen W (sdict_keys (non_rng T)) = Some gk /\ NoDup gk /\ (forall k, In k (map fst (non_rng T)) -> In k gk) /\
    restore_gen W (mkSnap md st) T strict fx0 = Some x2 /\
    fx_loads x2 = all_expected_loads A T strict gk /\
    fx_preps x2 = all_expected_preps W T (fst (w_manifest_for_rank W md (w_rank W))) gk.
Proof.
  intros W A repl is_async custom path T strict (L1 & L2 & L3 & L4 & L5 & L6 & L7 & L8).
  exact (take_restore W L1 L2 L3 L4 L5 L6 L7 L8 A repl is_async custom path T strict).
Qed.
Print Assumptions C01_generated_take_restore.

(* ... in the one-rank world, where every law is proved *)
Theorem C01_generated_take_restore_one_rank : forall nobatch table A repl is_async custom path T strict,
  let W := world1 nobatch table in
  NoDup (map fst A) -> rng_at_most_one A -> wf_app A -> nonempty_keys A ->
  NoDup (map fst T) -> rng_at_most_one T -> (forall k t, In (k, t) T -> exists a, In (k, a) A) ->
  exists st md x1 gkA gk x2,
    NoDup gkA /\ (forall k, In k (map fst A) -> In k gkA) /\
    take_impl_gen W path A repl [] is_async custom fx0 = Some ((st, md), x1) /\
    fx_loads x1 = rng_loads A /\
    fx_writes x1 = map (wcall_of W (w_calc_replicated W (concat (map (blkF A) gkA)) repl) is_async custom) (concat (map (blkF A) gkA)) /\
    gather_keys_gen W (sdict_keys (non_rng T)) = Some gk /\ NoDup gk /\ (forall k, In k (map fst (non_rng T)) -> In k gk) /\
    restore_gen W (mkSnap md st) T strict fx0 = Some x2 /\
    fx_loads x2 = all_expected_loads A T strict gk /\
    fx_preps x2 = all_expected_preps W T (fst (w_manifest_for_rank W md (w_rank W))) gk.
Proof. exact take_restore_one_rank. Qed.
Print Assumptions C01_generated_take_restore_one_rank.

(* what [all_expected_loads] says: the loads are exactly one per requested stateful (RNGState included), with the saved state dict *)
Theorem C01_generated_loads_are_the_saved_state_dicts : forall A T strict gk ev,
  NoDup (map fst A) -> NoDup (map fst T) -> rng_at_most_one T ->
  (forall k, In k (map fst (non_rng T)) -> In k gk) -> (forall k t, In (k, t) T -> exists a, In (k, a) A) ->
  (In ev (all_expected_loads A T strict gk) <->
   exists k t a, In (k, t) T /\ In (k, a) A /\ ev = mkLoad (sf_id t) (sf_state a) (strict_of t strict)).
Proof. exact all_expected_loads_in. Qed.
Print Assumptions C01_generated_loads_are_the_saved_state_dicts.

(* the translated _pop_rng_state: with at most one RNGState it returns that item and the application state without it *)
Theorem C01_generated_pop_rng_state : forall W A, NoDup (map fst A) -> rng_at_most_one A ->
  pop_rng_state_gen W A = Some (rng_item A, non_rng A).
Proof. exact pop_rng_state_spec. Qed.
Print Assumptions C01_generated_pop_rng_state.

(* (b) THE MANIFEST take wrote, as the rank sees it through get_manifest_for_rank: distinct paths; exactly the container
   entries flatten produced for every stateful; every leaf of every stateful has an entry (exactly one: paths are distinct)
   through which the leaf is read back from the snapshot's storage, and there is no other entry. *)
Theorem C01_generated_manifest_lists_every_leaf_once : forall (W : world) A repl is_async custom path,
  glue_laws W -> NoDup (map fst A) -> rng_at_most_one A -> nonempty_keys A -> locations_distinct W A ->
  exists st md x1,
    take_impl_gen W path A repl [] is_async custom fx0 = Some ((st, md), x1) /\
    let v := fst (w_manifest_for_rank W md (w_rank W)) in
    NoDup (map fst v) /\
    (forall p e, In (p, MCont e) v <-> exists k a, In (k, a) A /\ In (p, e) (fst (flatten_s (sf_state a) k))) /\
    (forall k a p o, In (k, a) A -> In (p, o) (snd (flatten_s (sf_state a) k)) -> exists l, In (p, MLeaf l) v) /\
    (forall p l, In (p, MLeaf l) v -> exists k a o, In (k, a) A /\ In (p, o) (snd (flatten_s (sf_state a) k)) /\ leaf_serves W st l o) /\
    exists M1 ms, w_consolidate W (w_all_gather W _ M1) = Some ms /\ md_manifest md = global_of ms /\ NoDup (map fst M1) /\
                  (forall p, In p (map fst M1) -> starts_slash p = false) /\ (forall p e, In (p, e) v <-> In (p, e) M1).
Proof.
  intros W A repl is_async custom path (L1 & L2 & L3 & L4 & L5 & L6 & L7 & L8).
  exact (take_manifest W L1 L2 L3 L4 L5 L6 A repl is_async custom path).
Qed.
Print Assumptions C01_generated_manifest_lists_every_leaf_once.

(* ... and in the one-rank world the global manifest itself (SnapshotMetadata.manifest): pairwise distinct paths, each entry
   under "<rank>/<logical path>" (the generated os.path.join(str(rank), logical_path), C05) of exactly one entry of the view *)
Theorem C01_generated_manifest_one_rank : forall nobatch table A repl is_async custom path,
  let W := world1 nobatch table in
  NoDup (map fst A) -> rng_at_most_one A -> nonempty_keys A ->
  exists st md x1,
    take_impl_gen W path A repl [] is_async custom fx0 = Some ((st, md), x1) /\
    let v := view1 md 0 in
    NoDup (map fst (md_manifest md)) /\
    (forall q e, In (q, e) (md_manifest md) <-> exists p, q = g_manifest_path 0 p /\ In (p, e) v) /\
    NoDup (map fst v) /\
    (forall p e, In (p, MCont e) v <-> exists k a, In (k, a) A /\ In (p, e) (fst (flatten_s (sf_state a) k))) /\
    (forall k a p o, In (k, a) A -> In (p, o) (snd (flatten_s (sf_state a) k)) -> exists l, In (p, MLeaf l) v) /\
    (forall p l, In (p, MLeaf l) v -> exists k a o, In (k, a) A /\ In (p, o) (snd (flatten_s (sf_state a) k)) /\ leaf_serves W st l o).
Proof. exact take_manifest_one_rank. Qed.
Print Assumptions C01_generated_manifest_one_rank.

(* (c) READ_OBJECT("<rank>/<logical path>") returns the leaf stored for that path (with or without obj_out, with or without
   a memory budget, batching on or off), and raises for a path that is not in the rank's view of the manifest. *)
Theorem C01_generated_read_object : forall (W : world) A repl is_async custom path out mb,
  glue_laws W -> NoDup (map fst A) -> rng_at_most_one A -> nonempty_keys A -> locations_distinct W A ->
  exists st md x1,
    take_impl_gen W path A repl [] is_async custom fx0 = Some ((st, md), x1) /\
    (forall k a p o, In (k, a) A -> In (p, o) (snd (flatten_s (sf_state a) k)) ->
       exists x', read_object_gen W (mkSnap md st) (str_of_Z (w_rank W) ++ 47 :: p) out mb fx0 = Some (o, x')) /\
    (forall p, ~ In p (map fst (fst (w_manifest_for_rank W md (w_rank W)))) ->
       read_object_gen W (mkSnap md st) (str_of_Z (w_rank W) ++ 47 :: p) out mb fx0 = None).
Proof.
  intros W A repl is_async custom path out mb (L1 & L2 & L3 & L4 & L5 & L6 & L7 & L8).
  exact (take_read_object W L1 L2 L3 L4 L5 L6 L7 A repl is_async custom path out mb).
Qed.
Print Assumptions C01_generated_read_object.

Theorem C01_generated_read_object_one_rank : forall nobatch table A repl is_async custom path out mb,
  let W := world1 nobatch table in
  NoDup (map fst A) -> rng_at_most_one A -> nonempty_keys A ->
  exists st md x1,
    take_impl_gen W path A repl [] is_async custom fx0 = Some ((st, md), x1) /\
    (forall k a p o, In (k, a) A -> In (p, o) (snd (flatten_s (sf_state a) k)) ->
       exists x', read_object_gen W (mkSnap md st) (str_of_Z 0 ++ 47 :: p) out mb fx0 = Some (o, x')) /\
    (forall p, ~ In p (map fst (view1 md 0)) -> read_object_gen W (mkSnap md st) (str_of_Z 0 ++ 47 :: p) out mb fx0 = None).
Proof. exact take_read_object_one_rank. Qed.
Print Assumptions C01_generated_read_object_one_rank.

(* the generated glue runs: two statefuls whose keys are string prefixes of each other ("a", "ab"), one key that needs
   escaping ("x/y"), an RNGState under "rng", everything replicated; restore of a subset with in-place targets *)
Definition ex_glue_app : list sf_in :=
  [([97], (1, false, ODict false [(KStr [119], Leaf 3); (KInt 1, OList [Leaf 4; Leaf 5])]));
   ([97; 98], (2, false, ODict true [(KStr [119], Leaf 6)]));
   ([120; 47; 121], (3, false, ODict false [(KStr [107; 47; 115], Leaf 9)]));
   ([114; 110; 103], (4, true, ODict false [(KStr [115], Leaf 12)]))].
Definition ex_glue_in : take_in := (ex_glue_app, [[42; 42]], [([97; 47; 119], [42; 42])], false).
Example C01_example_generated_glue :
  obs_take_restore (ex_glue_in, [([97], (7, false, ODict false [(KStr [119], Leaf 30)])); ([114; 110; 103], (8, true, ODict false []))], true)
  = VL [VL [VL [VL [VZ 7; obs_obj (ODict false [(KStr [119], Leaf 3); (KInt 1, OList [Leaf 4; Leaf 5])]); VL []];
                VL [VZ 8; obs_obj (ODict false [(KStr [115], Leaf 12)]); VL []]];
            VL [VL [vlistZ [97; 47; 49; 47; 49]; VL []]; VL [vlistZ [97; 47; 49; 47; 49]; VL []];
                VL [vlistZ [97; 47; 119]; VL [VL [VZ 0; VZ 30]]]; VL [vlistZ [97; 47; 119]; VL []];
                VL [vlistZ [97; 98; 47; 119]; VL []]; VL [vlistZ [97; 98; 47; 119]; VL []];
                VL [vlistZ [114; 110; 103; 47; 115]; VL []]; VL [vlistZ [114; 110; 103; 47; 115]; VL []];
                VL [vlistZ [120; 37; 50; 70; 121; 47; 107; 37; 50; 70; 115]; VL []];
                VL [vlistZ [120; 37; 50; 70; 121; 47; 107; 37; 50; 70; 115]; VL []]]]]
  /\ obs_read_object (ex_glue_in, [48; 47; 97; 47; 49; 47; 49]) = VL [obs_obj (Leaf 5)]
  /\ obs_read_object (ex_glue_in, [48; 47; 97; 47; 49]) = VL [].
Proof. vm_compute. repeat split. Qed.
