(* C09 - async_take captures the state at call time and equals a synchronous take.   Property theorems only.
   The copy decision is `should_copy_cpu_tensor`, translated from TensorBufferStager._should_copy_cpu_tensor on every
   run (typed translation: a str compared with an Enum member is false); the hand-off condition of
   execute_write_reqs is `gen_write_phase1_continue`, translated from scheduler.py. *)
From TS Require Import model.Base model.Dtype gen.DtypeGen gen.SchedGen model.AsyncCapture proofs.AsyncCaptureProofs.
From TS Require Import model.Dispatch gen.DispatchGen proofs.DispatchInst.

(* The model's assumption "everything is staged before take/async_take returns", tied to the source: execute_write_reqs
   leaves its loop only when gen_write_phase1_continue is false, i.e. when no request is waiting for staging and no
   staging task is running (that the loop does terminate and loses no request is C11_write_progress). *)
Theorem C09_all_staged_at_return : forall n_ready_for_staging n_staging,
  0 <= n_ready_for_staging -> 0 <= n_staging ->
  gen_write_phase1_continue n_ready_for_staging n_staging = false ->
  n_ready_for_staging = 0 /\ n_staging = 0.
Proof. exact phase1_exit. Qed.
Print Assumptions C09_all_staged_at_return.

(* For every memory, every list of write requests of every stager kind (buffer-protocol tensors of any layout, torch_save
   tensors, objects, batched slabs) and every serialisation function: every buffer handed to the background writer by
   async_take is a copy; none aliases a live cell. *)
Theorem C09_no_alias_after_return : forall (ser : bytes -> bytes) (m : mem) (ls : list leaf),
  Forall (fun s => is_copy s = true) (stage_all should_copy_cpu_tensor ser true m ls).
Proof. exact no_alias_after_return. Qed.
Print Assumptions C09_no_alias_after_return.

(* For EVERY interleaving of in-place mutations (of any cell, with any bytes) and background writes after async_take
   returned: the i-th buffer is written with exactly the bytes it denotes in the memory m at return time. *)
Theorem C09_written_bytes_independent_of_mutations :
  forall (ser : bytes -> bytes) (m : mem) (ls : list leaf) (steps : list step),
    async_run ser m ls steps =
    map (fun i => (i, resolve m (nth i (stage_all should_copy_cpu_tensor ser true m ls) (Copy [])))) (writes steps).
Proof. exact written_bytes_independent_of_mutations. Qed.
Print Assumptions C09_written_bytes_independent_of_mutations.

(* The async run, under every interleaving, writes for each request the bytes a synchronous take of the same state
   writes (sync: staged with is_async = false and written before take returns), and the manifest entries are the
   same: the async flag reaches only the copy decision. *)
Theorem C09_async_equiv_sync :
  forall (ser : bytes -> bytes) (m : mem) (ls : list leaf) (steps : list step),
    async_run ser m ls steps = map (fun i => (i, nth i (sync_bytes ser m ls) [])) (writes steps) /\
    map (entry_of true) ls = map (entry_of false) ls.
Proof. intros ser m ls steps. split; [apply async_equiv_sync | apply entries_ignore_async]. Qed.
Print Assumptions C09_async_equiv_sync.

(* With the legacy decision (str compared with an Enum member: always False) a contiguous CPU tensor is aliased, and
   one mutation after return changes the bytes that get written. *)
Theorem C09_alias_refuted : exists (m : mem) (ls : list leaf) (steps : list step),
  let staged := stage_all legacy_decide ser_id true m ls in
  Exists (fun s => is_copy s = false) staged /\
  run staged m steps <> map (fun i => (i, resolve m (nth i staged (Copy [])))) (writes steps).
Proof.
  exists wit_mem, [LBuf wit_tensor], wit_steps. cbv zeta. split.
  - constructor. reflexivity.
  - destruct legacy_run_differs as [A B]. rewrite A, B. discriminate.
Qed.
Print Assumptions C09_alias_refuted.

(* ---------------------------------------------------------------- non-vacuity *)
Definition ex_mem : mem := [(1, [1; 2; 3; 4; 5; 6]); (2, [9; 8; 7; 6]); (3, [50; 51])].
Definition ex_leaves : list leaf :=
  [ LBuf {| t_cell := 1; t_view := [2; 3; 4]; t_contig := true; t_whole := false |};      (* contiguous slice of a larger storage *)
    LBuf {| t_cell := 2; t_view := [0; 2; 1; 3]; t_contig := false; t_whole := true |};    (* transposed *)
    LSlab [ {| t_cell := 1; t_view := [0; 1]; t_contig := true; t_whole := false |};
            {| t_cell := 2; t_view := [0; 1; 2; 3]; t_contig := true; t_whole := true |} ];
    LSave {| t_cell := 2; t_view := [0; 1]; t_contig := true; t_whole := false |};
    LObj 3 ].
Definition ex_steps : list step :=
  [Wr 0; Mut 1 [0; 0; 0; 0; 0; 0]; Wr 2; Mut 2 [0; 0; 0; 0]; Wr 1; Mut 3 []; Wr 4; Wr 3; Wr 0].

(* a run with mutations between the writes: every write carries the bytes of the state at return time; the same
   requests staged with the sync flag alias the contiguous tensor, the async ones do not *)
Example C09_example_run :
  async_run ser_id ex_mem ex_leaves ex_steps =
    [(0%nat, [3; 4; 5]); (2%nat, [1; 2; 9; 8; 7; 6]); (1%nat, [9; 7; 8; 6]); (4%nat, [50; 51]); (3%nat, [9; 8]); (0%nat, [3; 4; 5])] /\
  map is_copy (stage_all should_copy_cpu_tensor ser_id true ex_mem ex_leaves) = [true; true; true; true; true] /\
  map is_copy (stage_all should_copy_cpu_tensor ser_id false ex_mem ex_leaves) = [false; true; true; true; true] /\
  (* the same steps on the legacy staging: the first write is fine, the re-write of buffer 0 after the mutation is not *)
  run (stage_all legacy_decide ser_id true ex_mem ex_leaves) ex_mem ex_steps <> async_run ser_id ex_mem ex_leaves ex_steps.
Proof. vm_compute. repeat split; try reflexivity. discriminate. Qed.

(* The theorems above stage with is_async_snapshot = true.  Tied to the source: the flag is the constant True in
   Snapshot.async_take (False in take) and every hop down to TensorBufferStager (_take_impl -> io_preparer.prepare_write ->
   the chunked / sharded / DTensor preparers -> TensorIOPreparer.prepare_write -> TensorBufferStager.__init__) passes its
   own, never rebound, parameter on.  g_async_flag_hops is regenerated on every run by translator/gen_dispatch.py (the hops
   inside io_preparer.prepare_write are checked by the same translator, which fails closed). *)
Theorem C09_generated_async_flag_reaches_every_stager :
  forallb (fun b : bool => b) g_async_flag_hops = true.
Proof. exact async_flag_reaches_stager. Qed.
Print Assumptions C09_generated_async_flag_reaches_every_stager.
