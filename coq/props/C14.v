(* C14 - Snapshot metadata serialization is lossless for every manifest; every strict prefix is rejected.
   Property theorems only; each closed by [exact] of a lemma from proofs/CodecProofs.v, JsonProofs.v,
   ManifestCodecProofs.v; the C14_generated_* theorems at the end restate the entry / metadata theorems over the
   terms regenerated from torchsnapshot/manifest.py on every run (proofs/ManifestInst.v).

   Vocabulary (all executable, in coq/model):
     str_ok s     every code point of s is in 0..0x10FFFF (surrogates allowed) and no high surrogate is
                  immediately followed by a low surrogate
     wf_j v       every string and key of the JSON value v is str_ok; keys of one object are pairwise distinct
     md_ok md     every string occurring in the metadata (version, logical paths, dict keys, string primitives,
                  locations, serializers, dtypes, obj_types, readable) is str_ok; manifest paths are distinct
     sprefix p s  p is a strict prefix of s
     drop_readable  sets PrimitiveEntry.readable to None (what the reader does on purpose) *)
From TS Require Import model.Base model.Codec model.Json model.ManifestCodec.
From TS Require Import proofs.CodecProofs proofs.JsonProofs proofs.ManifestCodecProofs.
From TS Require Import model.PyManifest gen.ManifestGen model.ManifestGenObs proofs.ManifestInst.

(* ------------------------------------------------------------------ layer 1: primitive codecs *)
(* Python str(int) followed by int(str) is the identity, for every integer of any magnitude. *)
Theorem C14_int_of_str_of_int : forall z : Z, int_of_str (str_of_int z) = Some z.
Proof. exact int_of_str_of_int. Qed.
Print Assumptions C14_int_of_str_of_int.

(* base64 decode after encode is the identity on every byte list (all lengths, all three padding cases). *)
Theorem C14_b64decode_encode : forall bs : list Z, bytes_ok bs -> b64decode (b64encode bs) = Some bs.
Proof. exact b64decode_encode. Qed.
Print Assumptions C14_b64decode_encode.

(* PrimitiveEntry.get_value inverts _serialize for every int, str, bool, bytes value and every 8-byte float
   pattern (NaN payloads, signed zero, subnormals, infinities are all just 8 bytes here). *)
Theorem C14_get_value_serialize : forall v : pvalue, pvalue_ok v -> get_value (kind_of v) (serialize v) = Some v.
Proof. exact get_value_serialize. Qed.
Print Assumptions C14_get_value_serialize.

(* ------------------------------------------------------------------ layer 2: string escaping *)
(* json.loads of json.dumps(s, ensure_ascii=True) is s, for every string over the full code-point range:
   non-BMP characters, control characters, line separators, quotes, backslashes, lone surrogates. *)
Theorem C14_unescape_escape : forall s : pystr, str_ok s = true -> unescape (escape s) = Some s.
Proof. exact unescape_escape. Qed.
Print Assumptions C14_unescape_escape.

(* The hypothesis of the previous theorem is forced: a high surrogate code point immediately followed by a low
   surrogate code point (two code points, each in range) is read back as ONE code point.  Replayed on the real
   json module on every run (known finding C14:json-merges-adjacent-hi-lo-surrogate-code-points). *)
Theorem C14_unescape_escape_needs_hyp :
  exists s : pystr, forallb cp_ok s = true /\ no_adj_hi_lo s = false /\
                    unescape (escape s) = Some [65536] /\ length s = 2%nat.
Proof. exact unescape_escape_needs_hyp. Qed.
Print Assumptions C14_unescape_escape_needs_hyp.

(* ... and two different strings then have the same escaped text (two manifest paths collide). *)
Theorem C14_escape_collision_refuted : exists a b : pystr, a <> b /\ escape a = escape b.
Proof. exact escape_not_injective_without_hyp. Qed.
Print Assumptions C14_escape_collision_refuted.

(* ------------------------------------------------------------------ layer 3: entries *)
(* from_yaml_obj inverts dataclasses.asdict for every entry of every kind (list, dict, OrderedDict with int /
   str / bool keys of any magnitude, the five primitive kinds, Tensor with or without byte_range, ShardedTensor,
   ChunkedTensor, DTensor with arbitrarily nested mesh, object), up to `readable`. *)
Theorem C14_entry_of_yaml_of_entry : forall e : entry, entry_of_yaml (yaml_of_entry e) = Some (drop_readable e).
Proof. exact entry_of_yaml_of_entry. Qed.
Print Assumptions C14_entry_of_yaml_of_entry.

(* get_value() of the entry read back equals get_value() of the entry written ... *)
Theorem C14_get_value_preserved : forall e e' : entry,
  entry_of_yaml (yaml_of_entry e) = Some e' -> entry_get_value e' = entry_get_value e.
Proof. exact get_value_preserved. Qed.
Print Assumptions C14_get_value_preserved.

(* ... and for an entry made by PrimitiveEntry.from_object it is the original value, bit for bit. *)
Theorem C14_from_object_get_value : forall (v : pvalue) (repr : pystr) (e' : entry), pvalue_ok v ->
  entry_of_yaml (yaml_of_entry (from_object v repr)) = Some e' -> entry_get_value e' = Some v.
Proof. exact from_object_get_value. Qed.
Print Assumptions C14_from_object_get_value.

(* ------------------------------------------------------------------ layer 4: documents *)
(* json.loads (json.dumps (v, indent=2)) = v for every well-formed JSON value (any nesting, any size). *)
Theorem C14_parse_print : forall v : jvalue, wf_j v = true -> parse (print v) = Some v.
Proof. exact parse_print. Qed.
Print Assumptions C14_parse_print.

(* ------------------------------------------------------------------ layer 5: truncation *)
(* No strict prefix of a printed object, array, string or literal is accepted by the parser - with ANY amount
   of fuel, so the rejection is never an artefact of the fuel bound.  (Numbers are excluded: "12" is a strict
   prefix of "123"; a metadata document is an object.) *)
Theorem C14_strict_prefix_rejected : forall (v : jvalue) (p : list Z) (fuel : nat),
  wf_j v = true -> (forall z, v <> JInt z) -> sprefix p (print v) -> parse_fuel fuel p = None.
Proof. exact strict_prefix_rejected_fuel. Qed.
Print Assumptions C14_strict_prefix_rejected.

(* ------------------------------------------------------------------ layer 6: SnapshotMetadata *)
(* from_yaml (to_yaml md) = md up to `readable`, for every well-formed metadata, whatever the legacy YAML
   fallback does (the json.loads branch always succeeds on what to_yaml wrote). *)
Theorem C14_metadata_roundtrip : forall (yaml_oracle : list Z -> option metadata) (md : metadata),
  md_ok md = true -> from_yaml yaml_oracle (to_yaml md) = Some (drop_readable_md md).
Proof. exact metadata_roundtrip. Qed.
Print Assumptions C14_metadata_roundtrip.

(* Every strict prefix of a serialized metadata document is rejected by from_yaml, provided the YAML fallback
   rejects it (hypothesis yaml_rejects: the fallback is libyaml, not modelled; the harness tests the real
   from_yaml on every sampled prefix). *)
Theorem C14_from_yaml_rejects_strict_prefix : forall (yaml_oracle : list Z -> option metadata),
  (forall md p, md_ok md = true -> sprefix p (to_yaml md) -> yaml_oracle p = None) ->
  forall md p, md_ok md = true -> sprefix p (to_yaml md) -> from_yaml yaml_oracle p = None.
Proof. exact from_yaml_rejects_strict_prefix. Qed.
Print Assumptions C14_from_yaml_rejects_strict_prefix.

(* No two manifests (well formed, different up to `readable`) share a document. *)
Theorem C14_to_yaml_injective : forall md1 md2 : metadata, md_ok md1 = true -> md_ok md2 = true ->
  to_yaml md1 = to_yaml md2 -> drop_readable_md md1 = drop_readable_md md2.
Proof. exact to_yaml_injective. Qed.
Print Assumptions C14_to_yaml_injective.

(* ------------------------------------------------------------------ non-vacuity *)
Definition ex_md : metadata :=
  mkMd [48; 46; 49] 2
    [([48; 47; 55296; 34; 92; 10; 8232; 65279; 1114111],
      EDict [KStr [120; 57343; 55296]; KInt (-10000000000000000000000000000000000000000); KBool true]);
     ([48; 47; 120], EPrim PFloat (b64encode [1; 0; 0; 0; 0; 0; 240; 127]) false (Some [110; 97; 110]));
     ([48; 47; 116], ETensor (mkTensor [119] [98] [102] [2; 3] true (Some [0; 24])));
     ([48; 47; 100], EDTensor [mkShard [0] [2] (mkTensor [] [] [] [] false None)] (MList [MList [MInt 0]; MInt 1]) [[-1]])].

Example C14_example_md_ok : md_ok ex_md = true.
Proof. vm_compute. reflexivity. Qed.

Example C14_example_roundtrip :
  from_yaml (fun _ => None) (to_yaml ex_md) = Some (drop_readable_md ex_md) /\ Nat.ltb 400 (length (to_yaml ex_md)) = true.
Proof. vm_compute. split; reflexivity. Qed.

Definition ex_small : metadata :=
  mkMd [48] 1 [([48; 47; 55296; 34], EDict [KStr [92; 1114111]; KInt (-7); KBool true])].

Example C14_example_prefixes :
  md_ok ex_small = true /\
  forallb (fun k => match parse (firstn k (to_yaml ex_small)) with None => true | Some _ => false end)
          (seq 0 (length (to_yaml ex_small))) = true.
Proof. vm_compute. split; reflexivity. Qed.

Example C14_example_float_bits :
  entry_get_value (EPrim PFloat (b64encode [1; 0; 0; 0; 0; 0; 240; 127]) false None)
  = Some (VFloat [1; 0; 0; 0; 0; 0; 240; 127]).
Proof. vm_compute. reflexivity. Qed.

Example C14_example_sprefix : sprefix [123; 10] (print (JObj [([97], JNull)])).
Proof. eexists. split; [|vm_compute; reflexivity]. discriminate. Qed.

(* ================================================================== the same statements about the code as it is now
   gen/ManifestGen.v is regenerated on every run from torchsnapshot/manifest.py by translator/gen_manifest.py: the
   class table (every Entry dataclass: base class, fields in source order, __init__ parameters with defaults, the
   `type` tag written by super().__init__, the from_yaml_obj bodies), the if/elif dispatch chain and loader order of
   SnapshotMetadata.from_yaml, the keyword arguments of the json.dumps call of SnapshotMetadata.to_yaml, and the
   expression forms of PrimitiveEntry.get_value / _serialize / from_object.  model/PyManifest.v interprets them
   (constructor call, dataclasses.asdict, from_yaml_obj statements, json.dumps options); g_to_yaml / g_from_yaml /
   g_entry_json / g_entry_of_json (model/ManifestGenObs.v) are the generated writer and reader.  `Some` = returns,
   `None` = raises. *)

(* The text the generated to_yaml writes is exactly the text of the model the theorems above speak about: in
   particular the json.dumps call has ensure_ascii=True, indent=2, sort_keys=False, default separators, and
   asdict emits for every entry class the fields and the `type` tag of the hand-written model. *)
Theorem C14_generated_to_yaml_is_model : forall md : metadata, g_to_yaml md = Some (to_yaml md).
Proof. exact g_to_yaml_eq. Qed.
Print Assumptions C14_generated_to_yaml_is_model.

(* For every entry of every kind: the constructor of its class runs, asdict of the object succeeds, and the
   dispatch of SnapshotMetadata.from_yaml followed by the class's from_yaml_obj rebuilds the entry (up to
   `readable`). *)
Theorem C14_generated_entry_of_yaml_of_entry : forall e : entry, exists j : jvalue,
  g_entry_json e = Some j /\ g_entry_of_json j = Some (drop_readable e).
Proof. exact g_entry_roundtrip. Qed.
Print Assumptions C14_generated_entry_of_yaml_of_entry.

(* from_yaml (to_yaml md) = md up to `readable` for the generated writer and reader, whatever the YAML fallback does. *)
Theorem C14_generated_metadata_roundtrip : forall (yaml_rest : list Z -> option metadata) (md : metadata),
  md_ok md = true ->
  exists doc, g_to_yaml md = Some doc /\ g_from_yaml yaml_rest doc = Some (drop_readable_md md).
Proof. exact g_metadata_roundtrip. Qed.
Print Assumptions C14_generated_metadata_roundtrip.

(* No two manifests (well formed, different up to `readable`) are written as the same document. *)
Theorem C14_generated_to_yaml_injective : forall (md1 md2 : metadata) (doc : list Z),
  md_ok md1 = true -> md_ok md2 = true -> g_to_yaml md1 = Some doc -> g_to_yaml md2 = Some doc ->
  drop_readable_md md1 = drop_readable_md md2.
Proof. exact g_to_yaml_injective. Qed.
Print Assumptions C14_generated_to_yaml_injective.

(* Every strict prefix of a document written by the generated to_yaml is rejected by the generated from_yaml
   (json.loads is tried first and raises; then the YAML fallback, assumed to reject it: hypothesis yaml_rejects).
   Stated for the dynamically typed reader - the SnapshotMetadata object Python would build, no typed view
   involved - and for its typed view. *)
Theorem C14_generated_from_yaml_rejects_strict_prefix : forall (yaml_rest : list Z -> option pv),
  (forall md p doc, md_ok md = true -> g_to_yaml md = Some doc -> sprefix p doc -> yaml_rest p = None) ->
  forall md p doc, md_ok md = true -> g_to_yaml md = Some doc -> sprefix p doc -> g_from_yaml_dyn yaml_rest p = None.
Proof. exact g_from_yaml_dyn_rejects_strict_prefix. Qed.
Print Assumptions C14_generated_from_yaml_rejects_strict_prefix.

Theorem C14_generated_from_yaml_rejects_strict_prefix_typed : forall (yaml_rest : list Z -> option metadata),
  (forall md p doc, md_ok md = true -> g_to_yaml md = Some doc -> sprefix p doc -> yaml_rest p = None) ->
  forall md p doc, md_ok md = true -> g_to_yaml md = Some doc -> sprefix p doc -> g_from_yaml yaml_rest p = None.
Proof. exact g_from_yaml_rejects_strict_prefix. Qed.
Print Assumptions C14_generated_from_yaml_rejects_strict_prefix_typed.

(* value -> generated from_object -> asdict -> dispatch + from_yaml_obj -> generated get_value is the identity,
   bit for bit, for every int, str, bool, bytes value and every 8-byte float pattern. *)
Theorem C14_generated_from_object_get_value : forall (v : pvalue) (repr : pystr), pvalue_ok v ->
  exists (e : entry) (j : jvalue) (e' : entry),
    g_from_object v repr = Some e /\ g_entry_json e = Some j /\ g_entry_of_json j = Some e' /\
    g_entry_get_value e' = Some v.
Proof. exact g_from_object_get_value. Qed.
Print Assumptions C14_generated_from_object_get_value.

(* The generated get_value chain is the model's get_value on the five PrimitiveType names and raises on every other name. *)
Theorem C14_generated_get_value_is_model : forall (sv : pystr),
  (forall k : pkind, g_get_value (kind_name k) sv = get_value k sv) /\
  (forall ty : pystr, kind_of_name ty = None -> g_get_value ty sv = None).
Proof. intros sv. split; [intros k; apply g_get_value_eq | intros ty; apply g_get_value_unsupported]. Qed.
Print Assumptions C14_generated_get_value_is_model.

(* the generated terms on a concrete manifest: surrogates, a 41-digit int key, a signalling NaN, tensor, sharded,
   chunked, DTensor with nested mesh, object; byte for byte the model's text, read back up to `readable` *)
Definition ex_md_gen : metadata :=
  mkMd [48; 46; 49] 2
    (md_manifest ex_md ++
     [([48; 47; 115], ESharded [mkShard [0; 0] [2; 3] (mkTensor [48; 47; 115; 95; 48] [98] [102] [2; 3] false (Some [0; 24]));
                               mkShard [2; 0] [2; 3] (mkTensor [48; 47; 115; 95; 50] [98] [102] [2; 3] false None)]);
      ([48; 47; 99], EChunked [102] [4; 3] [mkShard [0; 0] [4; 3] (mkTensor [119] [98] [102] [4; 3] true (Some [8; 56]))] true);
      ([48; 47; 111], EObject [48; 47; 111] [116] [111; 98; 106] false);
      ([48; 47; 108], EList); ([48; 47; 107], EOrderedDict [KStr []; KInt 0; KBool false]);
      ([48; 47; 98], EPrim PBytes (b64encode [0; 255; 16]) true None)]).

Example C14_example_generated :
  md_ok ex_md_gen = true /\
  g_to_yaml ex_md_gen = Some (to_yaml ex_md_gen) /\
  match g_to_yaml ex_md_gen with
  | Some doc => g_from_yaml (fun _ => None) doc = Some (drop_readable_md ex_md_gen) /\ Nat.ltb 1500 (length doc) = true /\
                forallb (fun k => match g_from_yaml_dyn (fun _ => None) (firstn k doc) with None => true | Some _ => false end)
                        [0; 1; 2; 17; 100; 700; 1499; Nat.pred (length doc)]%nat = true
  | None => False
  end /\
  g_from_object (VFloat [1; 0; 0; 0; 0; 0; 240; 127]) [110; 97; 110]
  = Some (EPrim PFloat (b64encode [1; 0; 0; 0; 0; 0; 240; 127]) false (Some [110; 97; 110])) /\
  g_get_value [102; 108; 111; 97; 116] (b64encode [1; 0; 0; 0; 0; 0; 240; 127]) = Some (VFloat [1; 0; 0; 0; 0; 0; 240; 127]) /\
  g_get_value [98; 111; 111; 108] [116; 114; 117; 101] = None /\
  g_byte_range_tuple (Some [8; 56]) = Some (Some (8, 56)).
Proof. vm_compute. repeat split. Qed.
