(* C14 - Snapshot metadata serialization is lossless for every manifest; strict prefixes are rejected.
   Property theorems only; each closed by [exact] of a lemma from proofs/*.v. *)
From TS Require Import model.Base model.Codec model.Json model.ManifestCodec.
From TS Require Import proofs.CodecProofs.

(* Layer 1a: Python str(int) followed by int(str) is the identity, for every integer of any magnitude. *)
Theorem C14_int_of_str_of_int : forall z : Z, int_of_str (str_of_int z) = Some z.
Proof. exact int_of_str_of_int. Qed.
Print Assumptions C14_int_of_str_of_int.

(* Layer 1b: base64 decode after encode is the identity on every byte list (all lengths, all padding cases). *)
Theorem C14_b64decode_encode : forall bs : list Z, bytes_ok bs -> b64decode (b64encode bs) = Some bs.
Proof. exact b64decode_encode. Qed.
Print Assumptions C14_b64decode_encode.

(* Layer 1c: PrimitiveEntry.get_value inverts _serialize for every int, str, bool, bytes and every 8-byte float
   pattern (NaN payloads, signed zero, subnormals, infinities are all just 8 bytes here). *)
Theorem C14_get_value_serialize : forall v : pvalue, pvalue_ok v -> get_value (kind_of v) (serialize v) = Some v.
Proof. exact get_value_serialize. Qed.
Print Assumptions C14_get_value_serialize.
