(* C11 - Pipelines always finish and perform every request exactly once.  Property theorems only. *)
From TS Require Import model.Base gen.SchedGen model.Sched proofs.SchedInst proofs.SchedProofs proofs.SchedLive proofs.SchedRead.

(* SAVE, exactly once: whenever the pipeline has finished, every request id 0..n-1 was handed to
   stage_buffer exactly once, to storage.write exactly once and completed exactly once, and no other id was
   (cnt i (ids_from n) is 1 for 0 <= i < n and 0 otherwise).  For every budget, cap, visit order and event
   sequence. *)
Theorem C11_write_exactly_once : forall (rq : reqs) (K B : Z) (v0 : list Z) (evs : list wevent) (i : Z),
  wfinal (wrun rq K B v0 evs) = true ->
  let s := wrun rq K B v0 evs in
  cnt i (lstage s) = cnt i (ids_from (length rq)) /\
  cnt i (lwrite s) = cnt i (ids_from (length rq)) /\
  cnt i (dn s) = cnt i (ids_from (length rq)).
Proof. exact write_exactly_once. Qed.
Print Assumptions C11_write_exactly_once.

(* ... and never more than once in any reachable state, finished or not, failed or not *)
Theorem C11_write_at_most_once : forall (rq : reqs) (K B : Z) (v0 : list Z) (evs : list wevent) (i : Z),
  let s := wrun rq K B v0 evs in cnt i (lstage s) <= 1 /\ cnt i (lwrite s) <= 1.
Proof. exact write_at_most_once. Qed.
Print Assumptions C11_write_at_most_once.

(* SAVE, no hang: with K >= 1, in every state reached by completions of in-flight operations (dispatch
   loops visiting their whole set, in any order) that is not final, some staging or write operation is in
   flight - asyncio.wait is never called on an empty set and there is always an operation whose completion
   moves the pipeline on. *)
Theorem C11_write_progress : forall (rq : reqs) (K B : Z) (v0 : list Z) (evs : list wevent),
  1 <= K -> covers v0 (ids_from (length rq)) -> wvalid_evs rq K (winit rq B v0) evs ->
  let s := wrun rq K B v0 evs in wfinal s = false -> stg s <> [] \/ io s <> [].
Proof. exact write_progress. Qed.
Print Assumptions C11_write_progress.

(* SAVE, termination: each completion lowers the measure 2|rfs|+2|stg|+|rfi|+|io| by one, so the pipeline is
   finished after exactly 2n completions (n stagings + n writes), not earlier, and admits no more.
   Fairness of the environment (a started operation eventually completes or fails) is the only assumption. *)
Theorem C11_write_terminates : forall (rq : reqs) (K B : Z) (v0 : list Z) (evs : list wevent),
  covers v0 (ids_from (length rq)) -> wvalid_evs rq K (winit rq B v0) evs ->
  (wfinal (wrun rq K B v0 evs) = true <-> length evs = (2 * length rq)%nat) /\ (length evs <= 2 * length rq)%nat.
Proof. exact write_terminates. Qed.
Print Assumptions C11_write_terminates.

(* SAVE, failures: a failing staging or write operation puts the pipeline in the Raised state, which no later
   event leaves: it never reports success after a failure. *)
Theorem C11_write_failure_raises : forall (rq : reqs) (K : Z) (s : wstate) (e : wevent) (evs : list wevent),
  wst s = Running -> wvalid s e -> is_failure e = true ->
  wst (fold_left (wstep rq K) evs (wstep rq K s e)) = Raised.
Proof. exact failure_never_success. Qed.
Print Assumptions C11_write_failure_raises.

(* LOAD: the same five statements for execute_read_reqs *)
Theorem C11_read_exactly_once : forall (rq : reqs) (K B : Z) (evs : list revent) (i : Z),
  rfinal (rrun rq K B evs) = true ->
  let s := rrun rq K B evs in
  cnt i (lread s) = cnt i (ids_from (length rq)) /\ cnt i (lcons s) = cnt i (ids_from (length rq)) /\
  cnt i (rdn s) = cnt i (ids_from (length rq)).
Proof. exact read_exactly_once. Qed.
Print Assumptions C11_read_exactly_once.

Theorem C11_read_at_most_once : forall (rq : reqs) (K B : Z) (evs : list revent) (i : Z),
  let s := rrun rq K B evs in cnt i (lread s) <= 1 /\ cnt i (lcons s) <= 1.
Proof. exact read_at_most_once. Qed.
Print Assumptions C11_read_at_most_once.

Theorem C11_read_progress : forall (rq : reqs) (K B : Z) (evs : list revent) (v : list Z),
  1 <= K -> let s := rrun rq K B evs in covers v (pend s) ->
  let s' := rdispatch rq K v s in rfinal s' = false -> rio s' <> [] \/ cons s' <> [].
Proof. exact read_progress. Qed.
Print Assumptions C11_read_progress.

Theorem C11_read_terminates : forall (rq : reqs) (K B : Z) (evs : list revent),
  rvalid_evs rq K (rinit rq B) evs ->
  (rfinal (rrun rq K B evs) = true <-> completions evs = 2 * Z.of_nat (length rq)) /\
  completions evs <= 2 * Z.of_nat (length rq).
Proof. exact read_terminates. Qed.
Print Assumptions C11_read_terminates.

Theorem C11_read_failure_raises : forall (rq : reqs) (K : Z) (s : rstate) (e : revent) (evs : list revent),
  rst s = Running -> rvalid s e -> r_is_failure e = true ->
  rst (fold_left (rstep rq K) evs (rstep rq K s e)) = Raised.
Proof. exact r_failure_never_success. Qed.
Print Assumptions C11_read_failure_raises.

(* Non-vacuity: a complete valid run of three requests with K = 1 and a budget of one byte *)
Example C11_example_run :
  let rq := [(4, 4); (0, 0); (9, 3)] in
  let evs := [StageDone 0 [0] [1; 2]; IoDone 0 [] [1; 2]; StageDone 1 [1] [2]; IoDone 1 [] [2];
              StageDone 2 [2] []; IoDone 2 [] []] in
  covers [0; 1; 2] (ids_from (length rq)) /\ wvalid_evs rq 1 (winit rq 1 [0; 1; 2]) evs /\
  wfinal (wrun rq 1 1 [0; 1; 2] evs) = true /\ lwrite (wrun rq 1 1 [0; 1; 2] evs) = [0; 1; 2].
Proof.
  cbv zeta. split; [intros p Hp; exact Hp|]. split; [|split; vm_compute; reflexivity].
  vm_compute. repeat split; intros p Hp; repeat (destruct Hp as [Hp|Hp]; [subst; cbn; tauto|]); try contradiction.
Qed.
