(* C07 - Who can load what: replicated everywhere, sharded reshards, private stays put.
   Property theorems only; each closed by [exact] of a lemma from proofs/ManifestOpsProofs.v.
   Model: model/ManifestOps.v (what is not modelled - DTensor entries, the root-only knob, negative ranks - is
   listed in its header).  [wf_global W g] is the boolean check [wf_globalb W g = true]: what
   Snapshot._gather_manifest + consolidate_replicated_entries establish over flatten's output (rank prefixes in
   0..W-1, W >= 1, paths unique per rank, dict keys distinct under Python equality and under str(), every non-root
   entry's parent container is in the same rank's manifest and lists its key, replicated leaves only under rank 0
   and at paths no other rank uses, app_state keys non-empty, one id per private leaf).  The harness evaluates it
   on every real gathered manifest of a run. *)
From TS Require Import model.Base model.Flatten model.ManifestOps proofs.FlattenProofs proofs.ManifestOpsProofs
  gen.ManifestOpsGen proofs.ManifestOpsInst
  model.ManifestPy model.ManifestOpsGenObs proofs.ManifestPySim proofs.ManifestOpsGenInst.
From Coq Require Import Permutation.

(* get_manifest_for_rank never raises on a well-formed manifest, for any rank index (existing or new). *)
Theorem C07_view_defined : forall W g, wf_global W g ->
  forall r', exists m, get_manifest_for_rank W g r' = Some m.
Proof. exact get_defined. Qed.
Print Assumptions C07_view_defined.

(* Every replicated leaf is in the local manifest of EVERY rank index r' >= 0 - r' < W and r' >= W alike -
   with exactly its saved entry (same id = same location, dtype, shape, byte range ...). *)
Theorem C07_replicated_visible_everywhere : forall W g, wf_global W g ->
  forall r p i, In (r, p, MRepl i) g ->
  forall r', 0 <= r' -> exists m, get_manifest_for_rank W g r' = Some m /\ mget m p = Some (MRepl i).
Proof. exact replicated_visible_everywhere. Qed.
Print Assumptions C07_replicated_visible_everywhere.

(* A private (non-replicated, non-sharded) leaf saved by rank r: rank index r finds it under its path, and it
   occurs NOWHERE in the local manifest of any other rank index - not for another existing rank, never for
   r' >= W. *)
Theorem C07_private_only_to_owner : forall W g, wf_global W g ->
  forall r p i, In (r, p, MPriv i) g ->
  forall r' m, 0 <= r' -> get_manifest_for_rank W g r' = Some m ->
    (r' = r -> mget m p = Some (MPriv i)) /\
    (forall p', mget m p' = Some (MPriv i) -> r' = r /\ p' = p).
Proof. exact private_only_to_owner. Qed.
Print Assumptions C07_private_only_to_owner.

(* A sharded entry visible in a local manifest is the merged entry: its shard list is a permutation of the
   shards of ALL ranks at that path and is ordered by offsets (no adjacent pair strictly decreasing in Python's
   list order); it is visible (before elasticity) exactly where the rank itself saved shards. *)
Theorem C07_sharded_merged : forall W g, wf_global W g ->
  forall r' m p s, 0 <= r' -> get_manifest_for_rank W g r' = Some m -> mget m p = Some (MShard s) ->
    s = merged_shards W g p /\ Permutation s (all_shards W g p) /\ sorted_shards s /\
    r' < W /\ exists s0, In (r', p, MShard s0) g.
Proof. exact sharded_visible_is_merged. Qed.
Print Assumptions C07_sharded_merged.

(* After handle_sharded_tensor_elasticity (when it does not raise: the parent container of a requested, missing
   entry must be in the view) a sharded path p (some rank saved shards there; this rank's view holds nothing else
   at p) is present iff requested, with the merged entry - whichever rank asks, r' >= W included.  When the entry
   had to be added under a dict parent, the parent's key list now holds a key k with str(k) = the unquoted path
   component: the rule by which inflate finds the value.  (k is always a str: an int/bool key comes back as its
   str() - known finding "C07:elasticity-add:nonstr-key-retyped"; the key is appended at the END of the list.) *)
Theorem C07_sharded_present_iff_requested : forall W g, wf_global W g ->
  forall r' reqs m m' p, 0 <= r' ->
    get_manifest_for_rank W g r' = Some m -> elasticity W g m reqs = Some m' ->
    merged_has W g p = true -> (forall e, mget m p = Some e -> is_sharded e = true) ->
    (In p reqs -> mget m' p = Some (MShard (merged_shards W g p))) /\
    (~ In p reqs -> mget m' p = None) /\
    (In p reqs -> mget m p = None -> forall ord ks, mget m (parent_of p) = Some (MCont (EDict ord ks)) ->
       exists ks', mget m' (parent_of p) = Some (MCont (EDict ord ks')) /\
                   In (KStr (decode (last p []))) ks' /\ key_str (KStr (decode (last p []))) = decode (last p [])).
Proof. exact sharded_present_iff_requested. Qed.
Print Assumptions C07_sharded_present_iff_requested.

(* Elasticity leaves every non-sharded leaf alone, keeps list containers, and only APPENDS to dict key lists
   (kind and the order of the existing keys preserved). *)
Theorem C07_elasticity_keeps_the_rest : forall W g m, NoDup (map fst m) ->
  forall reqs m', elasticity W g m reqs = Some m' ->
  forall q, match mget m q with
            | Some (MCont (EDict ord ks)) => exists extra, mget m' q = Some (MCont (EDict ord (ks ++ extra)))
            | Some (MShard s) => mget m' q = if path_memb q reqs && merged_has W g q then Some (MShard s) else None
            | Some e => mget m' q = Some e
            | None => mget m' q = if path_memb q reqs && merged_has W g q
                                  then Some (MShard (merged_shards W g q)) else None
            end.
Proof. intros W g m N reqs m' E. exact (proj1 (proj2 (elasticity_lookup W g m N reqs m' E))). Qed.
Print Assumptions C07_elasticity_keeps_the_rest.

(* Containers.  For r' < W every container entry of rank r' (kind, keys, key order) is unchanged.  For r' >= W
   the containers are rank 0's: lists as they are; a dict keeps its kind and exactly those keys, in their original
   relative order, whose child was not withheld - the withheld children being the non-container, non-replicated
   entries (private AND sharded leaves) directly below it.  In particular a container that held only private
   leaves is still there and arrives EMPTY (containers are structure, not saved objects). *)
Theorem C07_containers_preserved : forall W g, wf_global W g ->
  (forall r' p c, In (r', p, MCont c) g -> mget (manifest_for_existing_rank W g r') p = Some (MCont c)) /\
  (forall r' m p c, W <= r' -> get_manifest_for_rank W g r' = Some m -> In (0, p, MCont c) g ->
     mget m p = Some (MCont (match c with
                             | EList => EList
                             | EDict ord ks =>
                                 EDict ord (filter (fun k => negb (str_memb (key_str k)
                                                       (map decode (withheld_tokens (rank_manifest g 0) p)))) ks)
                             end)) /\
     (forall t, In t (withheld_tokens (rank_manifest g 0) p) <->
                exists e, In (0, p ++ [t], e) g /\ keep_for_new_rank e = false)).
Proof.
  intros W g WF. split.
  - exact (containers_existing W g WF).
  - exact (containers_new_rank W g WF).
Qed.
Print Assumptions C07_containers_preserved.

(* _remove_entry deletes the right key.  With the typed keys of model/Flatten.v (KStr / KInt / KBool), pairwise
   distinct str() (what _should_flatten_dict guarantees) and pairwise distinct under Python equality (a dict):
   for the path component flatten() produced for key k - encode (str k), whatever k is: a str containing '/' or
   '%', "." / "..", an int, a bool - exactly k is removed and every other key stays in place. *)
Theorem C07_remove_entry_key_match : forall ks k, In k ks -> NoDup (map key_str ks) -> keys_py_distinctb ks = true ->
  exists l1 l2, ks = l1 ++ k :: l2 /\ remove_key ks (decode (key_token k)) = l1 ++ l2 /\ ~ In k (l1 ++ l2).
Proof. exact remove_key_of_flatten_token. Qed.
Print Assumptions C07_remove_entry_key_match.

(* ---- the decision fragments translated from the current source are the modelled ones -------------------------- *)
(* `if rank < metadata.world_size` of get_manifest_for_rank *)
Theorem C07_rank_test_gen_is_model : forall W r, is_existing_rank_gen W r = is_existing_rank W r.
Proof. exact is_existing_rank_gen_is_model. Qed.
Print Assumptions C07_rank_test_gen_is_model.

(* `if is_container_entry(entry) or is_fully_replicated_entry(entry): continue` of _get_manifest_for_new_rank *)
Theorem C07_keep_condition_gen_is_model : forall e,
  keep_for_new_rank_gen (is_container e) (is_replicated e) = keep_for_new_rank e.
Proof. exact keep_for_new_rank_gen_is_model. Qed.
Print Assumptions C07_keep_condition_gen_is_model.

(* the key _remove_entry compares with str(k), and the key handle_sharded_tensor_elasticity appends: unquote(key) *)
Theorem C07_key_expressions_gen_are_model :
  (forall ks tok, rk_current ks tok = Some (remove_key ks (removed_key_gen tok))) /\
  (forall W g m p ord ks, mget m p = None ->
     mget (mset m p (MShard (merged_shards W g p))) (norm_path (removelast p)) = Some (MCont (EDict ord ks)) ->
     elastic_add W g (Some m) p =
     Some (mset (mset m p (MShard (merged_shards W g p))) (norm_path (removelast p))
                (MCont (EDict ord (ks ++ [KStr (elastic_key_gen (last p []))]))))).
Proof. split; [exact removed_key_gen_is_model | exact elastic_key_gen_is_model]. Qed.
Print Assumptions C07_key_expressions_gen_are_model.

(* ---- the functions regenerated STATEMENT BY STATEMENT from the current source --------------------------------- *)
(* gen/ManifestOpsGen.v holds, rewritten on every run by translator/gen_manifest_ops.py, the whole of manifest_ops.py
   (get_manifest_for_rank, _get_rank_to_manifest incl. copy.deepcopy, _get_manifest_for_existing_rank,
   _get_manifest_for_new_rank, _remove_entry, _get_merged_sharded_tensor_entries, _get_merged_dtensor_entries,
   handle_sharded_tensor_elasticity) and the predicates of manifest_utils.py, over the Python-object vocabulary of
   model/ManifestPy.v: global paths are strings, dicts are insertion-ordered association lists of entry ADDRESSES,
   entry objects live in a heap ([M A] = heap -> option A * heap; None = an exception).
   [meta_ok md h]: the entries of the metadata object are pairwise distinct objects of the heap h, of classes the hand
   model knows (no DTensorEntry).  [absG h md] reads the metadata as the hand model's gathered manifest (rank prefix
   parsed as int() does, the logical path split at "/").  [gen_view] / [gen_load_view] run the generated
   get_manifest_for_rank (then handle_sharded_tensor_elasticity, knob off) and read the result through the same
   abstraction. *)

(* Computing any sequence of views - get_manifest_for_rank for any rank index, each followed by
   handle_sharded_tensor_elasticity with any requests, either knob setting, whether or not a call raises - from ONE
   metadata object leaves every entry object of that metadata as it was.  No well-formedness is assumed.  (What makes
   this true is copy.deepcopy in _get_rank_to_manifest: the proof walks the generated statements and needs every heap
   write to go through a value obtained from the deep copy or from a constructor.) *)
Theorem C07_generated_views_do_not_mutate_metadata : forall knob md h qs,
  (forall k a, In (k, a) (pm_manifest md) -> (a < length h)%nat) ->
  meta_items md (snd (run_queries knob md qs h)) = meta_items md h.
Proof. exact generated_views_do_not_mutate_metadata. Qed.
Print Assumptions C07_generated_views_do_not_mutate_metadata.

(* On well-formed metadata the generated functions compute exactly the hand model: the view of every rank index,
   and the view after elasticity for every request list (requests are strings; the model sees them split at "/"). *)
Theorem C07_generated_view_is_model : forall md h r, meta_ok md h ->
  wf_global (pm_world_size md) (absG h md) -> 0 <= r ->
  gen_view md h r = get_manifest_for_rank (pm_world_size md) (absG h md) r.
Proof. exact generated_view_is_model. Qed.
Print Assumptions C07_generated_view_is_model.

Theorem C07_generated_load_view_is_model : forall md h r reqs, meta_ok md h ->
  wf_global (pm_world_size md) (absG h md) -> 0 <= r ->
  gen_load_view md h r reqs = load_view (pm_world_size md) (absG h md) r (map split reqs).
Proof. exact generated_load_view_is_model. Qed.
Print Assumptions C07_generated_load_view_is_model.

(* ... hence the property theorems above hold of the generated functions *)
Theorem C07_generated_view_defined : forall md h, meta_ok md h -> wf_global (pm_world_size md) (absG h md) ->
  forall r', 0 <= r' -> exists m, gen_view md h r' = Some m.
Proof.
  intros md h MO WF r' Hr. rewrite (generated_view_is_model md h r' MO WF Hr). exact (get_defined _ _ WF r').
Qed.
Print Assumptions C07_generated_view_defined.

Theorem C07_generated_replicated_visible_everywhere : forall md h, meta_ok md h ->
  wf_global (pm_world_size md) (absG h md) ->
  forall r p i, In (r, p, MRepl i) (absG h md) ->
  forall r', 0 <= r' -> exists m, gen_view md h r' = Some m /\ mget m p = Some (MRepl i).
Proof.
  intros md h MO WF r p i Hin r' Hr. rewrite (generated_view_is_model md h r' MO WF Hr).
  exact (replicated_visible_everywhere _ _ WF r p i Hin r' Hr).
Qed.
Print Assumptions C07_generated_replicated_visible_everywhere.

Theorem C07_generated_private_only_to_owner : forall md h, meta_ok md h ->
  wf_global (pm_world_size md) (absG h md) ->
  forall r p i, In (r, p, MPriv i) (absG h md) ->
  forall r' m, 0 <= r' -> gen_view md h r' = Some m ->
    (r' = r -> mget m p = Some (MPriv i)) /\
    (forall p', mget m p' = Some (MPriv i) -> r' = r /\ p' = p).
Proof.
  intros md h MO WF r p i Hin r' m Hr E. rewrite (generated_view_is_model md h r' MO WF Hr) in E.
  exact (private_only_to_owner _ _ WF r p i Hin r' m Hr E).
Qed.
Print Assumptions C07_generated_private_only_to_owner.

Theorem C07_generated_sharded_merged : forall md h, meta_ok md h ->
  wf_global (pm_world_size md) (absG h md) ->
  forall r' m p s, 0 <= r' -> gen_view md h r' = Some m -> mget m p = Some (MShard s) ->
    s = merged_shards (pm_world_size md) (absG h md) p /\
    Permutation s (all_shards (pm_world_size md) (absG h md) p) /\ sorted_shards s /\
    r' < pm_world_size md /\ exists s0, In (r', p, MShard s0) (absG h md).
Proof.
  intros md h MO WF r' m p s Hr E. rewrite (generated_view_is_model md h r' MO WF Hr) in E.
  exact (sharded_visible_is_merged _ _ WF r' m p s Hr E).
Qed.
Print Assumptions C07_generated_sharded_merged.

Theorem C07_generated_sharded_present_iff_requested : forall md h, meta_ok md h ->
  wf_global (pm_world_size md) (absG h md) ->
  forall r' reqs m m' p, 0 <= r' ->
    gen_view md h r' = Some m -> gen_load_view md h r' reqs = Some m' ->
    merged_has (pm_world_size md) (absG h md) p = true -> (forall e, mget m p = Some e -> is_sharded e = true) ->
    (In p (map split reqs) -> mget m' p = Some (MShard (merged_shards (pm_world_size md) (absG h md) p))) /\
    (~ In p (map split reqs) -> mget m' p = None).
Proof.
  intros md h MO WF r' reqs m m' p Hr E1 E2 HM HS.
  rewrite (generated_view_is_model md h r' MO WF Hr) in E1.
  rewrite (generated_load_view_is_model md h r' reqs MO WF Hr) in E2. unfold load_view in E2. rewrite E1 in E2.
  destruct (sharded_present_iff_requested _ _ WF r' (map split reqs) m m' p Hr E1 E2 HM HS) as (A & B & _). split; assumption.
Qed.
Print Assumptions C07_generated_sharded_present_iff_requested.

Theorem C07_generated_containers_preserved : forall md h, meta_ok md h ->
  wf_global (pm_world_size md) (absG h md) ->
  (forall r' p c, 0 <= r' < pm_world_size md -> In (r', p, MCont c) (absG h md) ->
     exists m, gen_view md h r' = Some m /\ mget m p = Some (MCont c)) /\
  (forall r' m p c, pm_world_size md <= r' -> 0 <= r' -> gen_view md h r' = Some m -> In (0, p, MCont c) (absG h md) ->
     mget m p = Some (MCont (match c with
                             | EList => EList
                             | EDict ord ks =>
                                 EDict ord (filter (fun k => negb (str_memb (key_str k)
                                     (map decode (withheld_tokens (rank_manifest (absG h md) 0) p)))) ks)
                             end))).
Proof.
  intros md h MO WF. split.
  - intros r' p c Hr Hin. exists (manifest_for_existing_rank (pm_world_size md) (absG h md) r'). split.
    + rewrite (generated_view_is_model md h r' MO WF (proj1 Hr)). unfold get_manifest_for_rank, is_existing_rank.
      destruct (r' <? pm_world_size md) eqn:E; [reflexivity | lia].
    + exact (containers_existing _ _ WF r' p c Hin).
  - intros r' m p c Hw Hr E Hin. rewrite (generated_view_is_model md h r' MO WF Hr) in E.
    exact (proj1 (containers_new_rank _ _ WF r' m p c Hw E Hin)).
Qed.
Print Assumptions C07_generated_containers_preserved.

(* the generated terms on the W = 2 snapshot of the examples below, written as the metadata object the code sees:
   global path strings "<rank>/<logical path>" and one entry object per item *)
Definition C07_conc_entry (e : mentry) : pentry :=
  match e with
  | MCont EList => mkE Dispatch.EList [] false [] [] ([], []) 0
  | MCont (EDict false ks) => mkE Dispatch.EDict ks false [] [] ([], []) 0
  | MCont (EDict true ks) => mkE Dispatch.EOrderedDict ks false [] [] ([], []) 0
  | MRepl i => mkE Dispatch.ETensor [] true [] [] ([], []) i
  | MPriv i => mkE Dispatch.EObject [] false [] [] ([], []) i
  | MShard s => mkE Dispatch.ESharded [] false s [] ([], []) 0
  end.
Definition C07_conc (g : gman) : list (pystr * pentry) :=
  map (fun x => (str_of_Z (grank x) ++ 47 :: join (gpath x), C07_conc_entry (gentry x))) g.

(* ---- the code before the fix commits, refuted ------------------------------------------------------------------ *)
Definition C07_m : token := [109].
Definition C07_ab : pystr := [97; 47; 98].                 (* "a/b" *)
Definition C07_ab_enc : token := [97; 37; 50; 70; 98].     (* "a%2Fb" = _encode("a/b") *)
Definition C07_True : token := [84; 114; 117; 101].        (* "True" = str(True) *)

(* Before commit 489d382 _remove_entry compared the ENCODED component with the raw keys and fell back to int():
   ValueError for a key containing '/' (or '%'), and for a bool key; a snapshot {"m": {"a/b": private}} saved
   with one rank could not be opened by rank index 1 at all, while the current code withholds the leaf. *)
Theorem C07_remove_entry_legacy_refuted :
  (exists ks k, In k ks /\ NoDup (map key_str ks) /\ keys_py_distinctb ks = true /\
                remove_key_legacy ks (key_token k) = None) /\
  remove_key_legacy [KBool true; KStr [114]] (key_token (KBool true)) = None /\
  (exists W g, wf_global W g /\ get_manifest_for_rank_legacy W g W = None /\
               get_manifest_for_rank W g W = Some [([C07_m], MCont (EDict false []))]).
Proof.
  split; [|split].
  - exists [KStr C07_ab; KStr [114]], (KStr C07_ab). split; [left; reflexivity|].
    split; [repeat constructor; cbn; intuition discriminate|]. split; vm_compute; reflexivity.
  - vm_compute. reflexivity.
  - exists 1, [(0, [C07_m], MCont (EDict false [KStr C07_ab])); (0, [C07_m; C07_ab_enc], MPriv 1)].
    split; [|split]; vm_compute; reflexivity.
Qed.
Print Assumptions C07_remove_entry_legacy_refuted.

(* Before commit bb9e810 handle_sharded_tensor_elasticity appended the ENCODED component to the parent's keys and
   assumed the parent has keys: a new rank requesting the sharded tensor saved under "a/b" got a key list in which
   no key has str(k) = "a/b" (inflate then drops the tensor), and requesting one that sits in a list raised;
   the current code delivers both. *)
Definition C07_l : token := [108].
Definition C07_g1 : gman :=
  [ (0, [C07_m], MCont (EDict false [KStr C07_ab; KStr C07_l]));
    (0, [C07_m; C07_l], MCont EList);
    (0, [C07_m; C07_ab_enc], MShard [([0], 1)]);
    (0, [C07_m; C07_l; [48]], MShard [([0], 2)]) ].

Theorem C07_elasticity_legacy_refuted :
  wf_global 1 C07_g1 /\
  (exists m', load_view_legacy 1 C07_g1 1 [[C07_m; C07_ab_enc]] = Some m' /\
              exists ord ks, mget m' [C07_m] = Some (MCont (EDict ord ks)) /\
                             forall k, In k ks -> key_str k <> decode C07_ab_enc) /\
  load_view_legacy 1 C07_g1 1 [[C07_m; C07_l; [48]]] = None /\
  load_view 1 C07_g1 1 [[C07_m; C07_ab_enc]; [C07_m; C07_l; [48]]] =
    Some [([C07_m], MCont (EDict false [KStr C07_l; KStr C07_ab])); ([C07_m; C07_l], MCont EList);
          ([C07_m; C07_ab_enc], MShard [([0], 1)]); ([C07_m; C07_l; [48]], MShard [([0], 2)])].
Proof.
  split; [vm_compute; reflexivity|]. split; [|split; vm_compute; reflexivity].
  eexists. split; [vm_compute; reflexivity|]. exists false, [KStr C07_l; KStr C07_ab_enc].
  split; [vm_compute; reflexivity|]. intros k [<-|[<-|[]]]; vm_compute; discriminate.
Qed.
Print Assumptions C07_elasticity_legacy_refuted.

(* ---- non-vacuity: a W = 2 snapshot with replicated, private, sharded leaves and nested containers ------------- *)
(* rank 0: {"m": {"r": R1, "p": P10, "a/b": P13, "n": OrderedDict{True: P11, 3: P12}, "s": S[2,0], "l": [P14, R2]}}
   rank 1: {"m": {"r": R1, "p": P20, "n": OrderedDict{True: P21}, "s": S[1], "l": [P24, R2], "x": P22}}          *)
Definition C07_r : token := [114].   Definition C07_p : token := [112].   Definition C07_n : token := [110].
Definition C07_s : token := [115].   Definition C07_x : token := [120].
Definition C07_g : gman :=
  [ (0, [C07_m], MCont (EDict false [KStr C07_r; KStr C07_p; KStr C07_ab; KStr C07_n; KStr C07_s; KStr C07_l]));
    (0, [C07_m; C07_n], MCont (EDict true [KBool true; KInt 3]));
    (0, [C07_m; C07_l], MCont EList);
    (0, [C07_m; C07_n; C07_True], MPriv 11);
    (0, [C07_m; C07_n; [51]], MPriv 12);
    (0, [C07_m; C07_p], MPriv 10);
    (0, [C07_m; C07_ab_enc], MPriv 13);
    (0, [C07_m; C07_l; [48]], MPriv 14);
    (0, [C07_m; C07_s], MShard [([2], 100); ([0], 101)]);
    (0, [C07_m; C07_r], MRepl 1);
    (0, [C07_m; C07_l; [49]], MRepl 2);
    (1, [C07_m], MCont (EDict false [KStr C07_r; KStr C07_p; KStr C07_n; KStr C07_s; KStr C07_l; KStr C07_x]));
    (1, [C07_m; C07_n], MCont (EDict true [KBool true]));
    (1, [C07_m; C07_l], MCont EList);
    (1, [C07_m; C07_n; C07_True], MPriv 21);
    (1, [C07_m; C07_p], MPriv 20);
    (1, [C07_m; C07_l; [48]], MPriv 24);
    (1, [C07_m; C07_s], MShard [([1], 102)]);
    (1, [C07_m; C07_x], MPriv 22) ].

Example C07_example_wf : wf_global 2 C07_g.
Proof. vm_compute. reflexivity. Qed.

Example C07_example_rank0 :
  get_manifest_for_rank 2 C07_g 0 =
  Some [([C07_m], MCont (EDict false [KStr C07_r; KStr C07_p; KStr C07_ab; KStr C07_n; KStr C07_s; KStr C07_l]));
        ([C07_m; C07_n], MCont (EDict true [KBool true; KInt 3])); ([C07_m; C07_l], MCont EList);
        ([C07_m; C07_n; C07_True], MPriv 11); ([C07_m; C07_n; [51]], MPriv 12); ([C07_m; C07_p], MPriv 10);
        ([C07_m; C07_ab_enc], MPriv 13); ([C07_m; C07_l; [48]], MPriv 14);
        ([C07_m; C07_s], MShard [([0], 101); ([1], 102); ([2], 100)]);
        ([C07_m; C07_r], MRepl 1); ([C07_m; C07_l; [49]], MRepl 2)].
Proof. vm_compute. reflexivity. Qed.

Example C07_example_rank1 :
  get_manifest_for_rank 2 C07_g 1 =
  Some [([C07_m], MCont (EDict false [KStr C07_r; KStr C07_p; KStr C07_n; KStr C07_s; KStr C07_l; KStr C07_x]));
        ([C07_m; C07_n], MCont (EDict true [KBool true])); ([C07_m; C07_l], MCont EList);
        ([C07_m; C07_n; C07_True], MPriv 21); ([C07_m; C07_p], MPriv 20); ([C07_m; C07_l; [48]], MPriv 24);
        ([C07_m; C07_s], MShard [([0], 101); ([1], 102); ([2], 100)]); ([C07_m; C07_x], MPriv 22);
        ([C07_m; C07_r], MRepl 1); ([C07_m; C07_l; [49]], MRepl 2)].
Proof. vm_compute. reflexivity. Qed.

(* a new rank: replicated leaves only; "n" held only private leaves and arrives empty; "a/b", "p", "s" are gone
   from "m"'s keys, the others keep their order; the list entry is untouched *)
Example C07_example_rank2 :
  get_manifest_for_rank 2 C07_g 2 =
  Some [([C07_m], MCont (EDict false [KStr C07_r; KStr C07_n; KStr C07_l]));
        ([C07_m; C07_n], MCont (EDict true [])); ([C07_m; C07_l], MCont EList);
        ([C07_m; C07_r], MRepl 1); ([C07_m; C07_l; [49]], MRepl 2)].
Proof. vm_compute. reflexivity. Qed.

(* the new rank requests the sharded tensor: merged shards of both ranks, key "s" appended to "m" *)
Example C07_example_rank2_requests_sharded :
  load_view 2 C07_g 2 [[C07_m; C07_s]] =
  Some [([C07_m], MCont (EDict false [KStr C07_r; KStr C07_n; KStr C07_l; KStr C07_s]));
        ([C07_m; C07_n], MCont (EDict true [])); ([C07_m; C07_l], MCont EList);
        ([C07_m; C07_r], MRepl 1); ([C07_m; C07_l; [49]], MRepl 2);
        ([C07_m; C07_s], MShard [([0], 101); ([1], 102); ([2], 100)])].
Proof. vm_compute. reflexivity. Qed.

(* rank 1 does not request the sharded tensor it saved: the entry is dropped *)
Example C07_example_rank1_drops_sharded :
  option_map (fun m => mget m [C07_m; C07_s]) (load_view 2 C07_g 1 []) = Some None.
Proof. vm_compute. reflexivity. Qed.

Example C07_example_legacy_new_rank_raises : get_manifest_for_rank_legacy 2 C07_g 2 = None.
Proof. vm_compute. reflexivity. Qed.

(* the generated functions on the same snapshot: the metadata object abstracts to C07_g, is well formed, the generated
   views equal the model's (existing ranks, a new rank, a new rank requesting the sharded tensor), and after a
   sequence of views - new rank first, with elasticity - the metadata object still holds exactly its items *)
Example C07_generated_example :
  let md := fst (load_meta 2 (C07_conc C07_g)) in
  let h := snd (load_meta 2 (C07_conc C07_g)) in
  absG h md = C07_g /\
  gen_view md h 0 = get_manifest_for_rank 2 C07_g 0 /\
  gen_view md h 1 = get_manifest_for_rank 2 C07_g 1 /\
  gen_view md h 2 = get_manifest_for_rank 2 C07_g 2 /\
  gen_load_view md h 2 [join [C07_m; C07_s]] = load_view 2 C07_g 2 [[C07_m; C07_s]] /\
  gen_load_view md h 1 [] = load_view 2 C07_g 1 [] /\
  meta_items md (snd (run_queries false md [(2, [join [C07_m; C07_s]]); (3, []); (0, []); (1, [])] h)) = C07_conc C07_g.
Proof. vm_compute. split; [reflexivity|]. split; [reflexivity|]. split; [reflexivity|]. split; [reflexivity|].
  split; [reflexivity|]. split; reflexivity. Qed.
