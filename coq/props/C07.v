(* C07 - placeholder while the proofs are being written *)
From TS Require Import model.Base model.Flatten model.ManifestOps.
