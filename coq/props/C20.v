(* C20 - Filesystem plugin and memoryview stream preserve bytes exactly.
   Property theorems only; each closed by [exact] of a lemma from proofs/FsStreamProofs.v. *)
From TS Require Import model.Base model.FsStream proofs.FsStreamProofs gen.StreamGen model.StreamGenObs proofs.StreamInst.
From Coq Require Import Permutation.

(* A ranged read [a, b) of a file holding [d] returns exactly bytes a..b-1: right length, right content,
   for every byte string and every 0 <= a <= b <= len. *)
Theorem C20_ranged_read_exact : forall (d : bytes) (a b : Z),
  0 <= a <= b -> b <= zlen d ->
  zlen (file_read_range d a b) = b - a /\
  forall i dflt, 0 <= i < b - a ->
    nth (Z.to_nat i) (file_read_range d a b) dflt = nth (Z.to_nat (a + i)) d dflt.
Proof.
  intros d a b Hab Hb. split.
  - exact (file_read_range_length d a b Hab Hb).
  - intros i dflt Hi. exact (file_read_range_nth d a b i dflt Hab Hi).
Qed.
Print Assumptions C20_ranged_read_exact.

(* Writes to pairwise distinct paths completing in ANY order (ws' is any permutation of ws), on top of any
   prior store content: a whole-file read of each path returns exactly the bytes written to it. *)
Theorem C20_write_then_read_any_order : forall (s : fs) (ws ws' : list (path * bytes)) p d,
  NoDup (map fst ws) -> Permutation ws ws' -> In (p, d) ws ->
  fs_read (apply_writes s ws') p None = Some d.
Proof. intros s ws ws' p d. exact (concurrent_writes ws ws' s p d). Qed.
Print Assumptions C20_write_then_read_any_order.

(* Reading a path that was never written is an error, with or without a byte range. *)
Theorem C20_missing_path_is_error : forall (ws : list (path * bytes)) p r,
  ~ In p (map fst ws) -> fs_read (apply_writes [] ws) p r = None.
Proof. intros ws p r H. exact (read_missing ws [] p H eq_refl r). Qed.
Print Assumptions C20_missing_path_is_error.

(* The read-only stream over a memoryview is observationally equal to an in-memory byte stream for every
   buffer and every sequence of read(n) / read(None) / seek(pos, whence) / tell / close calls
   (negative sizes, seeks past the end, bad whence values and use-after-close included). *)
Theorem C20_stream_refines_bytesio : forall (d : bytes) (ops : list sop),
  run_mvs d ops = run_bio d ops.
Proof. exact stream_refines. Qed.
Print Assumptions C20_stream_refines_bytesio.

(* Non-vacuity: concrete instances of the hypotheses / a non-trivial run. *)
Example C20_example_range :
  file_read_range [10; 11; 12; 13; 14] 1 4 = [11; 12; 13].
Proof. vm_compute. reflexivity. Qed.

Example C20_example_stream :
  run_mvs [1; 2; 3; 4] [SRead (Some 3); SSeek (-2) 2; STell; SRead None; SSeek 9 0; SRead (Some 1); SSeek 0 7; SClose; STell]
  = [OBytes [1; 2; 3]; OInt 2; OInt 2; OBytes [3; 4]; OInt 9; OBytes []; OValueError; ONone; OValueError].
Proof. vm_compute. reflexivity. Qed.

(* ---- the same statements about the code as it is now: gen/StreamGen.v is regenerated on every run from
   memoryview_stream.py and storage_plugins/fs.py by translator/gen_stream.py ---- *)

(* The statement-by-statement translation of MemoryviewStream.read/seek/tell (with io.IOBase.close) is
   observationally equal to the in-memory byte stream for every buffer and every operation sequence. *)
Theorem C20_generated_stream_refines_bytesio : forall (d : bytes) (ops : list sop),
  run_gen d ops = run_bio d ops.
Proof. exact generated_stream_refines. Qed.
Print Assumptions C20_generated_stream_refines_bytesio.

(* The translated file program of FSStoragePlugin.read (open 'rb'; whole read, or seek(a); read(b - a)) over a
   POSIX file handle returns the whole content, resp. exactly bytes a..b-1, for every content and range. *)
Theorem C20_generated_read_exact : forall (d : bytes) (a b : Z),
  g_fs_read d None = d /\
  (0 <= a <= b -> b <= zlen d ->
   zlen (g_fs_read d (Some (a, b))) = b - a /\
   forall i dflt, 0 <= i < b - a ->
     nth (Z.to_nat i) (g_fs_read d (Some (a, b))) dflt = nth (Z.to_nat (a + i)) d dflt).
Proof.
  intros d a b. split; [exact (g_fs_read_whole d)|].
  intros Hab Hb. rewrite (g_fs_read_range d a b Hab). split.
  - exact (file_read_range_length d a b Hab Hb).
  - intros i dflt Hi. exact (file_read_range_nth d a b i dflt Hab Hi).
Qed.
Print Assumptions C20_generated_read_exact.

(* The translated file program of FSStoragePlugin.write (truncating open; one write of the whole buffer) leaves
   exactly the buffer as the file's content whatever the path held before, and reading it back returns it. *)
Theorem C20_generated_write_then_read : forall (old : option bytes) (buf : bytes),
  g_fs_write old buf = buf /\ g_fs_read (g_fs_write old buf) None = buf.
Proof.
  intros old buf. rewrite (g_fs_write_content old buf). split; [reflexivity | exact (g_fs_read_whole buf)].
Qed.
Print Assumptions C20_generated_write_then_read.

Example C20_example_generated :
  run_gen [1; 2; 3; 4] [SRead (Some 3); SSeek (-2) 2; STell; SRead None; SSeek 9 0; SRead (Some 1); SSeek 0 7; SClose; STell]
  = [OBytes [1; 2; 3]; OInt 2; OInt 2; OBytes [3; 4]; OInt 9; OBytes []; OValueError; ONone; OValueError]
  /\ g_fs_read [10; 11; 12; 13; 14] (Some (1, 4)) = [11; 12; 13]
  /\ g_fs_write (Some [9; 9; 9; 9]) [5; 6] = [5; 6].
Proof. vm_compute. repeat split. Qed.
