(* C20 - Filesystem plugin and memoryview stream preserve bytes exactly.
   Property theorems only; each closed by [exact] of a lemma from proofs/FsStreamProofs.v. *)
From TS Require Import model.Base model.FsStream proofs.FsStreamProofs.
From Coq Require Import Permutation.

(* A ranged read [a, b) of a file holding [d] returns exactly bytes a..b-1: right length, right content,
   for every byte string and every 0 <= a <= b <= len. *)
Theorem C20_ranged_read_exact : forall (d : bytes) (a b : Z),
  0 <= a <= b -> b <= zlen d ->
  zlen (file_read_range d a b) = b - a /\
  forall i dflt, 0 <= i < b - a ->
    nth (Z.to_nat i) (file_read_range d a b) dflt = nth (Z.to_nat (a + i)) d dflt.
Proof.
  intros d a b Hab Hb. split.
  - exact (file_read_range_length d a b Hab Hb).
  - intros i dflt Hi. exact (file_read_range_nth d a b i dflt Hab Hi).
Qed.
Print Assumptions C20_ranged_read_exact.

(* Writes to pairwise distinct paths completing in ANY order (ws' is any permutation of ws), on top of any
   prior store content: a whole-file read of each path returns exactly the bytes written to it. *)
Theorem C20_write_then_read_any_order : forall (s : fs) (ws ws' : list (path * bytes)) p d,
  NoDup (map fst ws) -> Permutation ws ws' -> In (p, d) ws ->
  fs_read (apply_writes s ws') p None = Some d.
Proof. intros s ws ws' p d. exact (concurrent_writes ws ws' s p d). Qed.
Print Assumptions C20_write_then_read_any_order.

(* Reading a path that was never written is an error, with or without a byte range. *)
Theorem C20_missing_path_is_error : forall (ws : list (path * bytes)) p r,
  ~ In p (map fst ws) -> fs_read (apply_writes [] ws) p r = None.
Proof. intros ws p r H. exact (read_missing ws [] p H eq_refl r). Qed.
Print Assumptions C20_missing_path_is_error.

(* The read-only stream over a memoryview is observationally equal to an in-memory byte stream for every
   buffer and every sequence of read(n) / read(None) / seek(pos, whence) / tell / close calls
   (negative sizes, seeks past the end, bad whence values and use-after-close included). *)
Theorem C20_stream_refines_bytesio : forall (d : bytes) (ops : list sop),
  run_mvs d ops = run_bio d ops.
Proof. exact stream_refines. Qed.
Print Assumptions C20_stream_refines_bytesio.

(* Non-vacuity: concrete instances of the hypotheses / a non-trivial run. *)
Example C20_example_range :
  file_read_range [10; 11; 12; 13; 14] 1 4 = [11; 12; 13].
Proof. vm_compute. reflexivity. Qed.

Example C20_example_stream :
  run_mvs [1; 2; 3; 4] [SRead (Some 3); SSeek (-2) 2; STell; SRead None; SSeek 9 0; SRead (Some 1); SSeek 0 7; SClose; STell]
  = [OBytes [1; 2; 3]; OInt 2; OInt 2; OBytes [3; 4]; OInt 9; OBytes []; OValueError; ONone; OValueError].
Proof. vm_compute. reflexivity. Qed.
