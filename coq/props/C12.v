(* C12 - All ranks issue the same collective sequence whatever their local state.  Property theorems only.
   gen_take_skel / gen_async_take_skel / gen_restore_skel are regenerated from torchsnapshot/*.py on every run:
   every function from which a PGWrapper collective is reachable is inlined, every branch and loop on the way is
   classified Uniform (job-wide knob, the gathered global key list) or Local (everything else). *)
From TS Require Import model.Base model.Collectives gen.CollGen proofs.CollectivesProofs proofs.CollectivesInst.
Local Close Scope Z_scope.
Local Open Scope nat_scope.

(* Soundness of the decidable condition, for every skeleton: the collective sequence depends only on the shared
   environment g - for ALL values of the rank-local conditions and loop counts (l1, l2 arbitrary), which may
   differ in every loop iteration. *)
Theorem C12_uniform_sound : forall s, uniform s = true -> forall g l1 l2, trace s g l1 = trace s g l2.
Proof. exact uniform_sound. Qed.
Print Assumptions C12_uniform_sound.

Theorem C12_take_same_sequence : forall g l1 l2, trace gen_take_skel g l1 = trace gen_take_skel g l2.
Proof. exact (uniform_sound gen_take_skel take_skel_uniform). Qed.
Print Assumptions C12_take_same_sequence.

Theorem C12_async_take_same_sequence : forall g l1 l2, trace gen_async_take_skel g l1 = trace gen_async_take_skel g l2.
Proof. exact (uniform_sound gen_async_take_skel async_take_skel_uniform). Qed.
Print Assumptions C12_async_take_same_sequence.

Theorem C12_restore_same_sequence : forall g l1 l2, trace gen_restore_skel g l1 = trace gen_restore_skel g l2.
Proof. exact (uniform_sound gen_restore_skel restore_skel_uniform). Qed.
Print Assumptions C12_restore_same_sequence.

(* the background completion of async_take and PendingSnapshot.wait issue no collective at all *)
Theorem C12_background_issues_no_collective :
  gen_background_completion_coll_free = true /\ gen_wait_coll_free = true.
Proof. exact background_completion_has_no_collectives. Qed.
Print Assumptions C12_background_issues_no_collective.

(* What the restore fix repaired: with the memory-budget collective reachable only after the rank-local early
   return of _load_stateful, the skeleton is rejected and two ranks with different key sets really issue
   different sequences (rank A has the key: all_gather then barrier; rank B does not: barrier). *)
Definition legacy_restore_skel : skel :=
  Seq (Coll 2) (LoopU 10 (Seq (Scope (Seq (IfL 8 Ret Skip) (Scope (Seq (IfU 7 Ret Skip) (Coll 2))))) (Coll 0))).
Theorem C12_legacy_restore_refuted :
  uniform legacy_restore_skel = false /\
  exists g l1 l2, trace legacy_restore_skel g l1 <> trace legacy_restore_skel g l2.
Proof.
  split; [vm_compute; reflexivity|].
  exists (fun c _ => if Nat.eqb c 10 then 1 else 0), (fun _ _ => 0), (fun _ _ => 1).
  vm_compute. discriminate.
Qed.
Print Assumptions C12_legacy_restore_refuted.

(* Non-vacuity: the take skeleton really issues collectives, and the loop count matters *)
Example C12_example_traces :
  trace gen_restore_skel (fun c _ => if Nat.eqb c 10 then 2 else 1) (fun _ _ => 0) = [2; 0; 0] /\
  trace gen_restore_skel (fun c _ => if Nat.eqb c 10 then 2 else 0) (fun _ _ => 1) = [2; 2; 0; 0] /\
  length (trace gen_take_skel (fun c _ => 1) (fun _ _ => 0)) = 11.
Proof. vm_compute. repeat split; reflexivity. Qed.
