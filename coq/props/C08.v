(* C08 - Resharding: any saved sharding loads correctly into any target sharding.
   Property theorems only; each closed by [exact] of a lemma from proofs/ReshardProofs.v.
   All statements hold for ANY number of dimensions n and ANY boxes (not only grids); [wfb n b] says that
   the offsets and sizes of b both have n entries. *)
From TS Require Import model.Base model.Reshard proofs.ReshardProofs.
From TS Require Import gen.ChunkGen gen.ReshardGen model.ReshardGenObs proofs.ReshardInst.
From Coq Require Import Permutation.

(* _shards_get_overlap_region_wrt_saved_tensor is exactly the intersection of the two boxes:
   (1) for every c inside the length box, saved-offset + c (in the saved shard) and current-offset + c (in
       the current shard) name the SAME global coordinate, which lies inside both boxes (so both narrows
       are in bounds);
   (2) every global coordinate lying in both boxes is hit by exactly one c of the length box.
   No overlap hypothesis is needed: for boxes that do not intersect the length box is empty. *)
Theorem C08_region_correct : forall (n : nat) (saved cur : box), wfb n saved -> wfb n cur ->
  let R := overlap_region saved cur in
  (forall c, in_range (zeros (r_len R)) (r_len R) c = true ->
     vadd (boff saved) (vadd (r_src R) c) = vadd (boff cur) (vadd (r_dst R) c) /\
     in_box saved (vadd (boff saved) (vadd (r_src R) c)) = true /\
     in_box cur (vadd (boff cur) (vadd (r_dst R) c)) = true /\
     in_local saved (vadd (r_src R) c) = true /\
     in_local cur (vadd (r_dst R) c) = true) /\
  (forall g, in_box saved g = true -> in_box cur g = true ->
     exists c, in_range (zeros (r_len R)) (r_len R) c = true /\
               vadd (boff saved) (vadd (r_src R) c) = g /\
               vadd (boff cur) (vadd (r_dst R) c) = g /\
               forall c', in_range (zeros (r_len R)) (r_len R) c' = true ->
                          (vadd (boff saved) (vadd (r_src R) c') = g \/ vadd (boff cur) (vadd (r_dst R) c') = g) ->
                          c' = c).
Proof.
  intros n saved cur Ws Wc R. split.
  - intros c Hc. exact (region_forward n saved cur Ws Wc c Hc).
  - intros g G1 G2. exact (region_backward n saved cur Ws Wc g G1 G2).
Qed.
Print Assumptions C08_region_correct.

(* torch's _check_shard_metadata_pair_overlap (the guard before every copy) is exact: boxes it rejects share no
   coordinate (skipping them loses nothing) and, for positive sizes, boxes it accepts do share one. *)
Theorem C08_overlap_test_exact : forall (n : nat) (b1 b2 : box), wfb n b1 -> wfb n b2 ->
  (overlaps b1 b2 = false -> forall g, ~ (in_box b1 g = true /\ in_box b2 g = true)) /\
  ((forall i, (i < n)%nat -> 0 < nth i (bsz b1) 0) -> (forall i, (i < n)%nat -> 0 < nth i (bsz b2) 0) ->
   overlaps b1 b2 = true -> exists g, in_box b1 g = true /\ in_box b2 g = true).
Proof.
  intros n b1 b2 W1 W2. split.
  - intros Ov g [G1 G2]. exact (overlaps_false_disjoint n b1 b2 g W1 W2 Ov G1 G2).
  - exact (overlaps_true_intersect n b1 b2 W1 W2).
Qed.
Print Assumptions C08_overlap_test_exact.

(* Saved shards pairwise disjoint, each holding the global tensor G restricted to its box; a destination shard d
   with ARBITRARY initial contents.  After the load, at every local coordinate c of d (global g = off_d + c):
   - if some saved shard s contains g: the value is G g, it was taken from s at g - off_s, and s is the ONLY saved
     shard containing g (uniqueness of the source follows from pairwise disjointness);
   - if no saved shard contains g: the value is the initial one (untouched).
   Any element type E (all dtypes at once), any number of dimensions, any boxes. *)
Theorem C08_reshard_correct : forall (E : Type) (n : nat) (G : coord -> E) (shards : list (sshard E)) (d : dshard E),
  (forall s, In s shards -> wfb n (s_box s)) -> wfb n (d_box d) ->
  shards_disjoint shards ->
  (forall s, In s shards -> forall c, in_local (s_box s) c = true -> s_data s c = G (vadd (boff (s_box s)) c)) ->
  forall c, in_local (d_box d) c = true ->
    let g := vadd (boff (d_box d)) c in
    (forall s, In s shards -> in_box (s_box s) g = true ->
       load_dst shards d c = G g /\
       load_dst shards d c = s_data s (vsub g (boff (s_box s))) /\
       (forall s', In s' shards -> in_box (s_box s') g = true -> s' = s)) /\
    ((forall s, In s shards -> in_box (s_box s) g = false) -> load_dst shards d c = d_data d c).
Proof. intros E n G shards d. exact (reshard_correct n G shards d). Qed.
Print Assumptions C08_reshard_correct.

(* Dense destination = one box at the origin, of ANY shape (same as or different from the saved global shape). *)
Theorem C08_reshard_dense : forall (E : Type) (n : nat) (G : coord -> E) (shards : list (sshard E))
                                   (shape : list Z) (I : tensor E),
  (forall s, In s shards -> wfb n (s_box s)) -> length shape = n ->
  shards_disjoint shards ->
  (forall s, In s shards -> forall c, in_local (s_box s) c = true -> s_data s c = G (vadd (boff (s_box s)) c)) ->
  forall c, in_local (dense_box shape) c = true ->
    ((exists s, In s shards /\ in_box (s_box s) c = true) -> load_dst shards (mkD (dense_box shape) I) c = G c) /\
    ((forall s, In s shards -> in_box (s_box s) c = false) -> load_dst shards (mkD (dense_box shape) I) c = I c).
Proof. intros E n G shards shape I. exact (reshard_dense n G shards shape I). Qed.
Print Assumptions C08_reshard_dense.

(* prepare_read, given distinct (location, byte_range) per saved shard, and for ANY three key expressions (insertion
   into the dictionary, membership test, lookup) that are one injective function of (location, byte_range): the
   read plan is in entry order without repetition (strictly increasing indices); it lists exactly the saved shards
   that overlap some destination shard; and the consumer of each request carries exactly that shard's own regions,
   in destination order.  [key_pair] (the tuple (location, byte_range_tuple)) is such a function. *)
Theorem C08_each_needed_shard_read_once : forall (E : Type) (kins kmem kget : keyfn),
  (forall l b l' b', kins l b = kins l' b' -> l = l' /\ b = b') ->
  (forall l b, kmem l b = kins l b) -> (forall l b, kget l b = kins l b) ->
  forall (shards : list (sshard E)) (dboxes : list box),
  NoDup (map s_key shards) ->
  Sorted.StronglySorted Z.lt (read_plan kins kmem kget shards dboxes) /\
  (forall j, In j (read_plan kins kmem kget shards dboxes) <->
     exists s, 0 <= j /\ nth_error shards (Z.to_nat j) = Some s /\
               exists db, In db dboxes /\ overlaps db (s_box s) = true) /\
  (forall j s rs, In (j, s, rs) (read_reqs_full kins kmem kget shards dboxes) ->
     nth_error shards (Z.to_nat j) = Some s /\ rs = own_regions (s_box s) dboxes).
Proof. intros E kins kmem kget Kinj Kmem Kget shards dboxes. exact (read_plan_once kins kmem kget Kinj Kmem Kget shards dboxes). Qed.
Print Assumptions C08_each_needed_shard_read_once.

(* The execution as coded (regions grouped per dictionary key, one consumer per read request applying its region
   list to the destination tensors) computes exactly [load] (every overlapping pair copied once). *)
Theorem C08_grouped_execution_is_load : forall (E : Type) (kins kmem kget : keyfn),
  (forall l b l' b', kins l b = kins l' b' -> l = l' /\ b = b') ->
  (forall l b, kmem l b = kins l b) -> (forall l b, kget l b = kins l b) ->
  forall (shards : list (sshard E)) (dsts : list (dshard E)),
  NoDup (map s_key shards) -> load_grouped kins kmem kget shards dsts = load shards dsts.
Proof. intros E kins kmem kget Kinj Kmem Kget shards dsts. exact (load_grouped_eq_load kins kmem kget Kinj Kmem Kget shards dsts). Qed.
Print Assumptions C08_grouped_execution_is_load.

(* the pair (location, byte_range_tuple) is an admissible key; the location alone is not (two pieces of one slab) *)
Example C08_key_pair_injective : forall l b l' b', key_pair l b = key_pair l' b' -> l = l' /\ b = b'.
Proof. intros l b l' b' H. injection H; auto. Qed.

(* subdivide_shard along any dim with any chunk length >= 1 (hence any max-shard-size threshold and element size):
   the pieces are well-formed, pairwise disjoint, and their union is exactly the shard; each piece (a narrowed
   view) holds the shard's elements at the shifted coordinates. *)
Theorem C08_subdivide_preserves_disjoint_cover : forall (n : nat) (b : box) (dim : nat) (esize maxb : Z),
  wfb n b -> (dim < n)%nat ->
  let ps := map snd (subdivide b dim esize maxb) in
  ForallOrdPairs box_disjoint ps /\
  (forall p, In p ps -> wfb n p) /\
  (forall g, in_box b g = true <-> exists p, In p ps /\ in_box p g = true).
Proof.
  intros n b dim esize maxb W Hd.
  exact (subdivide_disjoint_cover n b dim (chunk_length b dim esize maxb) W Hd (chunk_length_pos b dim esize maxb)).
Qed.
Print Assumptions C08_subdivide_preserves_disjoint_cover.

Theorem C08_subdivided_piece_holds_restriction : forall (E : Type) (n : nat) (G : coord -> E) (t : tensor E)
                                                        (b : box) (dim : nat) (cl i : Z) (c : coord),
  wfb n b -> (dim < n)%nat -> length c = n ->
  (forall x, length x = n -> t x = G (vadd (boff b) x)) ->
  narrow t dim (i * cl) c = G (vadd (boff (piece cl b dim i)) c).
Proof. intros E n G t b dim cl i c. exact (write_piece_holds n G t b dim cl i c). Qed.
Print Assumptions C08_subdivided_piece_holds_restriction.

(* The result of the load does not depend on the order of the saved shard list (nor, therefore, on the order in
   which the read requests complete) when the saved shards are pairwise disjoint - for arbitrary saved contents.
   In particular sorting by offsets in _get_merged_sharded_tensor_entries (any placement of shards on ranks) is
   immaterial. *)
Theorem C08_merge_is_order_independent : forall (E : Type) (n : nat) (shards shards' : list (sshard E)) (d : dshard E),
  (forall s, In s shards -> wfb n (s_box s)) -> wfb n (d_box d) ->
  shards_disjoint shards -> Permutation shards shards' ->
  forall x, load_dst shards d x = load_dst shards' d x.
Proof. intros E n shards shards' d. exact (load_order_independent n shards shards' d). Qed.
Print Assumptions C08_merge_is_order_independent.

Theorem C08_merged_entry_is_permutation : forall (E : Type) (ranks : list (list (sshard E))),
  Permutation (concat ranks) (merge_shards ranks).
Proof. intros E ranks. exact (merge_shards_perm ranks). Qed.
Print Assumptions C08_merged_entry_is_permutation.

(* _get_global_shape = per-dim max(0, max over the shards of offset + size). *)
Theorem C08_global_shape_is_corner : forall (n : nat) (bs : list box),
  bs <> [] -> (forall b, In b bs -> wfb n b) ->
  exists gs, global_shape bs = Some gs /\ length gs = n /\
    forall i, (i < n)%nat ->
      0 <= nth i gs 0 /\
      (forall b, In b bs -> nth i (boff b) 0 + nth i (bsz b) 0 <= nth i gs 0) /\
      (nth i gs 0 = 0 \/ exists b, In b bs /\ nth i gs 0 = nth i (boff b) 0 + nth i (bsz b) 0).
Proof. exact global_shape_is_corner. Qed.
Print Assumptions C08_global_shape_is_corner.

(* ShardedTensorEntry.get_tensor_shape (used for obj_out=None) scans for a dominating corner.  For shards that lie
   inside [0, shape) and cover its last element - in particular for every partition of [0, shape), in any order -
   both implementations return shape. *)
Theorem C08_shapes_agree_on_partitions : forall (n : nat) (bs : list box) (shape : list Z),
  length shape = n -> (forall i, 0 <= nth i shape 0) -> (forall b, In b bs -> wfb n b) ->
  (forall b, In b bs -> forall i, (i < n)%nat -> nth i (boff b) 0 + nth i (bsz b) 0 <= nth i shape 0) ->
  (exists b, In b bs /\ in_box b (map (fun e => e - 1) shape) = true) ->
  tensor_shape bs = Some shape /\ global_shape bs = Some shape.
Proof.
  intros n bs shape Ls Pos W Inside Cov.
  destruct (partition_corner n bs shape Ls W Inside Cov) as (bstar & Hin & Ec & D).
  rewrite <- Ec. apply (shapes_agree n bs bstar Hin D). rewrite Ec. exact Pos.
Qed.
Print Assumptions C08_shapes_agree_on_partitions.

(* get_tensor_shape is NOT the corner in general (no dominating shard: e.g. a per-rank, incomplete shard list). *)
Example C08_tensor_shape_needs_domination :
  tensor_shape [mkBox [0; 0] [2; 1]; mkBox [0; 1] [1; 2]] = Some [2; 1] /\
  global_shape [mkBox [0; 0] [2; 1]; mkBox [0; 1] [1; 2]] = Some [2; 3].
Proof. vm_compute. split; reflexivity. Qed.

(* ---------------------------------------------------------------- non-vacuity *)
(* a 5x7 tensor saved as an uneven 2x3 grid (rows 2+3, columns 3+1+3): the hypotheses of C08_reshard_correct hold *)
Example C08_example_hypotheses :
  (forall s, In s ex_saved -> wfb 2 (s_box s)) /\ shards_disjoint ex_saved /\ NoDup (map s_key ex_saved) /\
  (forall s, In s ex_saved -> forall c, in_local (s_box s) c = true -> s_data s c = ex_G (vadd (boff (s_box s)) c)).
Proof.
  assert (forall b, In b (map s_box ex_saved) -> wfb 2 b) as W
    by (apply wfb_b_sound; vm_compute; reflexivity).
  split; [intros s Hs; apply W; apply in_map; exact Hs|]. split; [|split].
  - apply shards_disjoint_of_boxes. apply (disjointb_sound 2); [exact W|vm_compute; reflexivity].
  - vm_compute. repeat constructor; cbn; intuition discriminate.
  - intros s Hs c _. vm_compute in Hs. repeat (destruct Hs as [<-|Hs]; [reflexivity|]). destruct Hs.
Qed.

(* ... loaded into a 3x2 grid (rows 1+3+1, columns 5+2): every destination shard ends up holding G restricted *)
Example C08_example_grid :
  map (fun dt => rs_to_list (bsz (d_box (fst dt))) (snd dt)) (combine ex_dsts (load ex_saved ex_dsts)) =
  map (fun b => map (fun c => ex_G (vadd (boff b) c)) (coords (bsz b))) ex_dst_boxes.
Proof. vm_compute. reflexivity. Qed.

(* ... and into a dense 4x9 tensor: G on the 4x7 overlap, the initial contents on columns 7 and 8 *)
Example C08_example_dense :
  rs_to_list [4; 9] (load_dst ex_saved ex_dense) =
  map (fun c => if nth 1 c 0 <? 7 then ex_G c else ex_I c) (coords [4; 9]).
Proof. vm_compute. reflexivity. Qed.

(* the grouped execution and the read plan on the same example: all six saved shards are needed by the 3x2 grid;
   a dense 1x3 destination needs only the first *)
Example C08_example_plan :
  read_plan key_pair key_pair key_pair ex_saved ex_dst_boxes = [0; 1; 2; 3; 4; 5] /\
  read_plan key_pair key_pair key_pair ex_saved [dense_box [1; 3]] = [0] /\
  map (fun dt => rs_to_list (bsz (d_box (fst dt))) (snd dt))
      (combine ex_dsts (load_grouped key_pair key_pair key_pair ex_saved ex_dsts)) =
  map (fun dt => rs_to_list (bsz (d_box (fst dt))) (snd dt)) (combine ex_dsts (load ex_saved ex_dsts)).
Proof. vm_compute. repeat split; reflexivity. Qed.

(* subdivision of the 3x3 saved shard at (2,4) with 4-byte elements and a 20-byte threshold: rows of 12 bytes, one per piece *)
Example C08_example_subdivide :
  map snd (subdivide (mkBox [2; 4] [3; 3]) 0 4 20) =
  [mkBox [2; 4] [1; 3]; mkBox [3; 4] [1; 3]; mkBox [4; 4] [1; 3]].
Proof. vm_compute. reflexivity. Qed.

(* ================================================================================================================
   The same statements about the code as it is NOW.  gen/ReshardGen.v is regenerated on every run from
   io_preparers/sharded_tensor.py and manifest.py by translator/gen_reshard.py (statement by statement: the loop of
   _shards_get_overlap_region_wrt_saved_tensor, get_views, the copy of consume_buffer, the two loops of prepare_read
   with their three dictionary-key expressions and the ReadReq fields, _get_global_shape, _validate_shape,
   get_tensor_shape); gen/ChunkGen.v (translator/gen_chunk.py) holds the arithmetic of subdivide_shard.
   proofs/ReshardInst.v shows that these terms equal the hand-written model the theorems above are about.
   ================================================================================================================ *)

(* The generated region loop yields, for every dimension i in order, the tuple (i, saved offset, current offset,
   length) of the exact intersection: C08_region_correct holds for its last three components. *)
Theorem C08_generated_region_correct : forall (n : nat) (saved cur : box), wfb n saved -> wfb n cur ->
  let R := drop_dims (g_overlap_region saved cur) in
  dims_of (g_overlap_region saved cur) = map fst (indexed R) /\ length R = n /\
  (forall c, in_range (zeros (r_len R)) (r_len R) c = true ->
     vadd (boff saved) (vadd (r_src R) c) = vadd (boff cur) (vadd (r_dst R) c) /\
     in_box saved (vadd (boff saved) (vadd (r_src R) c)) = true /\
     in_box cur (vadd (boff cur) (vadd (r_dst R) c)) = true /\
     in_local saved (vadd (r_src R) c) = true /\
     in_local cur (vadd (r_dst R) c) = true) /\
  (forall g, in_box saved g = true -> in_box cur g = true ->
     exists c, in_range (zeros (r_len R)) (r_len R) c = true /\
               vadd (boff saved) (vadd (r_src R) c) = g /\
               vadd (boff cur) (vadd (r_dst R) c) = g /\
               forall c', in_range (zeros (r_len R)) (r_len R) c' = true ->
                          (vadd (boff saved) (vadd (r_src R) c') = g \/ vadd (boff cur) (vadd (r_dst R) c') = g) ->
                          c' = c).
Proof.
  intros n saved cur Ws Wc. rewrite g_overlap_region_eq. destruct (with_dims_drop (overlap_region saved cur)) as [-> ->].
  split; [reflexivity|]. split; [exact (region_length n saved cur Ws Wc)|]. exact (C08_region_correct n saved cur Ws Wc).
Qed.
Print Assumptions C08_generated_region_correct.

(* The generated get_views + copy of one consumer step, applied to the generated region of a saved box and a
   destination box, assigns to the destination exactly the elements of the intersection, each from the saved
   tensor's element at the same global coordinate, and nothing else (it is the hand model's load_step). *)
Theorem C08_generated_consumer_step : forall (E : Type) (n : nat) (s : sshard E) (db : box) (t : tensor E) (x : coord),
  wfb n (s_box s) -> wfb n db -> overlaps db (s_box s) = true ->
  g_consume_one (g_overlap_region (s_box s) db) (bsz (s_box s)) (bsz db) (s_data s) t x =
  if in_local db x && in_box (s_box s) (vadd (boff db) x)
  then s_data s (vsub (vadd (boff db) x) (boff (s_box s))) else t x.
Proof.
  intros E n s db t x Ws Wd Ov. rewrite g_overlap_region_eq.
  rewrite g_consume_one_eq by (pose proof (region_length n (s_box s) db Ws Wd); destruct Ws, Wd; lia).
  pose proof (load_step_spec n db s t x Wd Ws) as H. unfold load_step, writes in H. rewrite Ov in H. exact H.
Qed.
Print Assumptions C08_generated_consumer_step.

(* C08_reshard_correct for the generated prepare_read executed with the generated consumers: saved shards pairwise
   disjoint with distinct (location, byte_range), each holding G restricted; ANY destination shards (a dense
   tensor is one box at the origin) with arbitrary initial contents.  prepare_read does not raise, and afterwards
   every destination element covered by a saved shard holds G there, taken from the only saved shard containing
   it, and every other element is untouched. *)
Theorem C08_generated_reshard_correct : forall (E : Type) (n : nat) (G : coord -> E) (shards : list (sshard E))
                                               (out_shape : list Z) (dsts : list (dshard E)),
  shards <> [] -> (forall s, In s shards -> wfb n (s_box s)) -> (forall d, In d dsts -> wfb n (d_box d)) ->
  NoDup (map s_key shards) -> shards_disjoint shards ->
  (forall s, In s shards -> forall c, in_local (s_box s) c = true -> s_data s c = G (vadd (boff (s_box s)) c)) ->
  exists ts, load_gen shards out_shape dsts = Some ts /\ length ts = length dsts /\
    forall k d t, nth_error dsts k = Some d -> nth_error ts k = Some t ->
    forall c, in_local (d_box d) c = true ->
      let g := vadd (boff (d_box d)) c in
      (forall s, In s shards -> in_box (s_box s) g = true ->
         t c = G g /\ t c = s_data s (vsub g (boff (s_box s))) /\
         (forall s', In s' shards -> in_box (s_box s') g = true -> s' = s)) /\
      ((forall s, In s shards -> in_box (s_box s) g = false) -> t c = d_data d c).
Proof. intros E n G shards out_shape dsts. exact (generated_reshard_correct n G shards out_shape dsts). Qed.
Print Assumptions C08_generated_reshard_correct.

(* The three key expressions of the generated prepare_read are one injective function of (location, byte_range),
   hence (C08_each_needed_shard_read_once) the generated plan reads exactly the needed saved shards, once each,
   in entry order; each request names the path and byte range of the shard whose entry its consumer holds. *)
Theorem C08_generated_each_needed_shard_read_once : forall (E : Type) (shards : list (sshard E)) (out_shape : list Z)
                                                           (dboxes : list box),
  shards <> [] -> NoDup (map s_key shards) ->
  exists reqs plan, g_prepare_read shards out_shape dboxes = Some reqs /\
    read_plan_gen shards out_shape dboxes = Some plan /\ plan = map (fun q : greq E => fst (fst (snd q))) reqs /\
    Sorted.StronglySorted Z.lt plan /\
    (forall j, In j plan <->
       exists s, 0 <= j /\ nth_error shards (Z.to_nat j) = Some s /\
                 exists db, In db dboxes /\ overlaps db (s_box s) = true) /\
    (forall path br j s rs, In (path, br, (j, s, rs)) reqs ->
       nth_error shards (Z.to_nat j) = Some s /\ path = s_loc s /\ br = s_br s /\
       rs = map lift_reg (own_regions (s_box s) dboxes)).
Proof.
  intros E shards out_shape dboxes Ne ND.
  pose proof (read_plan_gen_eq shards out_shape dboxes Ne) as Hp.
  destruct (read_plan_once g_key_insert g_key_member g_key_lookup g_key_insert_inj g_key_member_eq g_key_lookup_eq
              shards dboxes ND) as (S1 & S2 & S3).
  unfold read_plan_gen in Hp. destruct (g_prepare_read shards out_shape dboxes) as [reqs|] eqn:Eq; [|discriminate].
  exists reqs, (map (fun q : greq E => fst (fst (snd q))) reqs).
  split; [reflexivity|]. split; [unfold read_plan_gen; rewrite Eq; reflexivity|]. split; [reflexivity|].
  cbn [option_map] in Hp. injection Hp as Hp. rewrite Hp. split; [exact S1|]. split; [exact S2|].
  intros path br j s rs Hin. unfold g_prepare_read in Eq.
  destruct (g_global_shape (map s_box shards)); [|discriminate]. rewrite g_validate_shape_true in Eq.
  injection Eq as Eq. rewrite g_read_reqs_eq in Eq. subst reqs.
  apply in_map_iff in Hin as ([[j' s'] rs'] & Hq & Hin). unfold lift_req in Hq. cbn [fst snd] in Hq.
  inversion Hq; subst. destruct (S3 j s rs' Hin) as [Hn ->]. repeat split; try reflexivity. exact Hn.
Qed.
Print Assumptions C08_generated_each_needed_shard_read_once.

(* subdivide_shard with the arithmetic generated by gen_chunk.py: disjoint cover, for every threshold. *)
Theorem C08_generated_subdivide_preserves_disjoint_cover : forall (n : nat) (b : box) (dim : nat) (esize maxb : Z),
  wfb n b -> (dim < n)%nat ->
  let ps := map snd (subdivide_g b dim esize maxb) in
  ForallOrdPairs box_disjoint ps /\
  (forall p, In p ps -> wfb n p) /\
  (forall g, in_box b g = true <-> exists p, In p ps /\ in_box p g = true).
Proof.
  intros n b dim esize maxb W Hd. rewrite subdivide_g_eq.
  exact (C08_subdivide_preserves_disjoint_cover n b dim esize maxb W Hd).
Qed.
Print Assumptions C08_generated_subdivide_preserves_disjoint_cover.

(* The generated _get_global_shape is the per-dimension maximum corner, the generated get_tensor_shape agrees with
   it on every family of boxes that lies inside [0, shape) and covers its last element, _validate_shape never
   raises (so a destination of another shape is loaded on the overlap), and the dense destination box is the
   whole tensor at the origin. *)
Theorem C08_generated_shapes : forall (n : nat) (bs : list box) (shape : list Z),
  length shape = n -> (forall i, 0 <= nth i shape 0) -> (forall b, In b bs -> wfb n b) ->
  (forall b, In b bs -> forall i, (i < n)%nat -> nth i (boff b) 0 + nth i (bsz b) 0 <= nth i shape 0) ->
  (exists b, In b bs /\ in_box b (map (fun e => e - 1) shape) = true) ->
  g_tensor_shape bs = Some shape /\ g_global_shape bs = Some shape /\
  (forall out_shape, g_validate_shape out_shape shape = true) /\
  (forall out_shape, g_dense_box out_shape = dense_box out_shape).
Proof.
  intros n bs shape Ls Pos W Inside Cov. rewrite g_tensor_shape_eq, g_global_shape_eq.
  destruct (C08_shapes_agree_on_partitions n bs shape Ls Pos W Inside Cov) as [A B].
  split; [exact A|]. split; [exact B|]. split; [intros o; apply g_validate_shape_true|exact g_dense_box_eq].
Qed.
Print Assumptions C08_generated_shapes.

Theorem C08_generated_global_shape_is_corner : forall (n : nat) (bs : list box),
  bs <> [] -> (forall b, In b bs -> wfb n b) ->
  exists gs, g_global_shape bs = Some gs /\ length gs = n /\
    forall i, (i < n)%nat ->
      0 <= nth i gs 0 /\
      (forall b, In b bs -> nth i (boff b) 0 + nth i (bsz b) 0 <= nth i gs 0) /\
      (nth i gs 0 = 0 \/ exists b, In b bs /\ nth i gs 0 = nth i (boff b) 0 + nth i (bsz b) 0).
Proof. intros n bs. rewrite g_global_shape_eq. exact (global_shape_is_corner n bs). Qed.
Print Assumptions C08_generated_global_shape_is_corner.

(* the generated terms on the 5x7 example: saved as an uneven 2x3 grid in ONE slab (same location, consecutive byte
   ranges), loaded into the 3x2 grid and into a dense 4x9 tensor; the plan; a region with its dims; the shapes *)
Example C08_example_generated :
  let saved := map (fun s => mkS (s_box s) 7 [100 * s_loc s; 100 * s_loc s + 100] (s_data s)) ex_saved in
  option_map (fun ts => map (fun dt => rs_to_list (bsz (d_box (fst dt))) (snd dt)) (combine ex_dsts ts))
             (load_gen saved [5; 7] ex_dsts)
  = Some (map (fun b => map (fun c => ex_G (vadd (boff b) c)) (coords (bsz b))) ex_dst_boxes) /\
  option_map (fun ts => map (rs_to_list [4; 9]) ts) (load_gen saved [4; 9] [ex_dense])
  = Some [map (fun c => if nth 1 c 0 <? 7 then ex_G c else ex_I c) (coords [4; 9])] /\
  read_plan_gen saved [5; 7] ex_dst_boxes = Some [0; 1; 2; 3; 4; 5] /\
  read_plan_gen saved [1; 3] [g_dense_box [1; 3]] = Some [0] /\
  g_overlap_region (mkBox [2; 4] [3; 3]) (mkBox [1; 5] [3; 2]) = [(0, 0, 1, 2); (1, 1, 0, 2)] /\
  g_global_shape ex_saved_boxes = Some [5; 7] /\ g_tensor_shape ex_saved_boxes = Some [5; 7] /\
  map snd (subdivide_g (mkBox [2; 4] [3; 3]) 0 4 20) = [mkBox [2; 4] [1; 3]; mkBox [3; 4] [1; 3]; mkBox [4; 4] [1; 3]].
Proof. vm_compute. repeat split; reflexivity. Qed.
