(* C08 - Resharding: any saved sharding loads correctly into any target sharding.
   Property theorems only; each closed by [exact] of a lemma from proofs/ReshardProofs.v.
   All statements hold for ANY number of dimensions n and ANY boxes (not only grids); [wfb n b] says that
   the offsets and sizes of b both have n entries. *)
From TS Require Import model.Base model.Reshard proofs.ReshardProofs.
From Coq Require Import Permutation.

(* _shards_get_overlap_region_wrt_saved_tensor is exactly the intersection of the two boxes:
   (1) for every c inside the length box, saved-offset + c (in the saved shard) and current-offset + c (in
       the current shard) name the SAME global coordinate, which lies inside both boxes (so both narrows
       are in bounds);
   (2) every global coordinate lying in both boxes is hit by exactly one c of the length box.
   No overlap hypothesis is needed: for boxes that do not intersect the length box is empty. *)
Theorem C08_region_correct : forall (n : nat) (saved cur : box), wfb n saved -> wfb n cur ->
  let R := overlap_region saved cur in
  (forall c, in_range (zeros (r_len R)) (r_len R) c = true ->
     vadd (boff saved) (vadd (r_src R) c) = vadd (boff cur) (vadd (r_dst R) c) /\
     in_box saved (vadd (boff saved) (vadd (r_src R) c)) = true /\
     in_box cur (vadd (boff cur) (vadd (r_dst R) c)) = true /\
     in_local saved (vadd (r_src R) c) = true /\
     in_local cur (vadd (r_dst R) c) = true) /\
  (forall g, in_box saved g = true -> in_box cur g = true ->
     exists c, in_range (zeros (r_len R)) (r_len R) c = true /\
               vadd (boff saved) (vadd (r_src R) c) = g /\
               vadd (boff cur) (vadd (r_dst R) c) = g /\
               forall c', in_range (zeros (r_len R)) (r_len R) c' = true ->
                          (vadd (boff saved) (vadd (r_src R) c') = g \/ vadd (boff cur) (vadd (r_dst R) c') = g) ->
                          c' = c).
Proof.
  intros n saved cur Ws Wc R. split.
  - intros c Hc. exact (region_forward n saved cur Ws Wc c Hc).
  - intros g G1 G2. exact (region_backward n saved cur Ws Wc g G1 G2).
Qed.
Print Assumptions C08_region_correct.

(* torch's _check_shard_metadata_pair_overlap (the guard before every copy) is exact: boxes it rejects share no
   coordinate (skipping them loses nothing) and, for positive sizes, boxes it accepts do share one. *)
Theorem C08_overlap_test_exact : forall (n : nat) (b1 b2 : box), wfb n b1 -> wfb n b2 ->
  (overlaps b1 b2 = false -> forall g, ~ (in_box b1 g = true /\ in_box b2 g = true)) /\
  ((forall i, (i < n)%nat -> 0 < nth i (bsz b1) 0) -> (forall i, (i < n)%nat -> 0 < nth i (bsz b2) 0) ->
   overlaps b1 b2 = true -> exists g, in_box b1 g = true /\ in_box b2 g = true).
Proof.
  intros n b1 b2 W1 W2. split.
  - intros Ov g [G1 G2]. exact (overlaps_false_disjoint n b1 b2 g W1 W2 Ov G1 G2).
  - exact (overlaps_true_intersect n b1 b2 W1 W2).
Qed.
Print Assumptions C08_overlap_test_exact.

(* Saved shards pairwise disjoint, each holding the global tensor G restricted to its box; a destination shard d
   with ARBITRARY initial contents.  After the load, at every local coordinate c of d (global g = off_d + c):
   - if some saved shard s contains g: the value is G g, it was taken from s at g - off_s, and s is the ONLY saved
     shard containing g (uniqueness of the source follows from pairwise disjointness);
   - if no saved shard contains g: the value is the initial one (untouched).
   Any element type E (all dtypes at once), any number of dimensions, any boxes. *)
Theorem C08_reshard_correct : forall (E : Type) (n : nat) (G : coord -> E) (shards : list (sshard E)) (d : dshard E),
  (forall s, In s shards -> wfb n (s_box s)) -> wfb n (d_box d) ->
  shards_disjoint shards ->
  (forall s, In s shards -> forall c, in_local (s_box s) c = true -> s_data s c = G (vadd (boff (s_box s)) c)) ->
  forall c, in_local (d_box d) c = true ->
    let g := vadd (boff (d_box d)) c in
    (forall s, In s shards -> in_box (s_box s) g = true ->
       load_dst shards d c = G g /\
       load_dst shards d c = s_data s (vsub g (boff (s_box s))) /\
       (forall s', In s' shards -> in_box (s_box s') g = true -> s' = s)) /\
    ((forall s, In s shards -> in_box (s_box s) g = false) -> load_dst shards d c = d_data d c).
Proof. intros E n G shards d. exact (reshard_correct n G shards d). Qed.
Print Assumptions C08_reshard_correct.

(* Dense destination = one box at the origin, of ANY shape (same as or different from the saved global shape). *)
Theorem C08_reshard_dense : forall (E : Type) (n : nat) (G : coord -> E) (shards : list (sshard E))
                                   (shape : list Z) (I : tensor E),
  (forall s, In s shards -> wfb n (s_box s)) -> length shape = n ->
  shards_disjoint shards ->
  (forall s, In s shards -> forall c, in_local (s_box s) c = true -> s_data s c = G (vadd (boff (s_box s)) c)) ->
  forall c, in_local (dense_box shape) c = true ->
    ((exists s, In s shards /\ in_box (s_box s) c = true) -> load_dst shards (mkD (dense_box shape) I) c = G c) /\
    ((forall s, In s shards -> in_box (s_box s) c = false) -> load_dst shards (mkD (dense_box shape) I) c = I c).
Proof. intros E n G shards shape I. exact (reshard_dense n G shards shape I). Qed.
Print Assumptions C08_reshard_dense.

(* prepare_read, given distinct (location, byte_range) per saved shard: the read plan is in entry order without
   repetition (strictly increasing indices); it lists exactly the saved shards that overlap some destination
   shard; and the consumer of each request carries exactly that shard's own regions, in destination order. *)
Theorem C08_each_needed_shard_read_once : forall (E : Type) (shards : list (sshard E)) (dboxes : list box),
  NoDup (map s_key shards) ->
  Sorted.StronglySorted Z.lt (read_plan shards dboxes) /\
  (forall j, In j (read_plan shards dboxes) <->
     exists s, 0 <= j /\ nth_error shards (Z.to_nat j) = Some s /\
               exists db, In db dboxes /\ overlaps db (s_box s) = true) /\
  (forall j s rs, In (j, s, rs) (read_reqs_full shards dboxes) ->
     nth_error shards (Z.to_nat j) = Some s /\ rs = own_regions (s_box s) dboxes).
Proof. intros E shards dboxes. exact (read_plan_once shards dboxes). Qed.
Print Assumptions C08_each_needed_shard_read_once.

(* The execution as coded (regions grouped per (location, byte_range), one consumer per read request applying its
   region list to the destination tensors) computes exactly [load] (every overlapping pair copied once). *)
Theorem C08_grouped_execution_is_load : forall (E : Type) (shards : list (sshard E)) (dsts : list (dshard E)),
  NoDup (map s_key shards) -> load_grouped shards dsts = load shards dsts.
Proof. intros E shards dsts. exact (load_grouped_eq_load shards dsts). Qed.
Print Assumptions C08_grouped_execution_is_load.

(* subdivide_shard along any dim with any chunk length >= 1 (hence any max-shard-size threshold and element size):
   the pieces are well-formed, pairwise disjoint, and their union is exactly the shard; each piece (a narrowed
   view) holds the shard's elements at the shifted coordinates. *)
Theorem C08_subdivide_preserves_disjoint_cover : forall (n : nat) (b : box) (dim : nat) (esize maxb : Z),
  wfb n b -> (dim < n)%nat ->
  let ps := map snd (subdivide b dim esize maxb) in
  ForallOrdPairs box_disjoint ps /\
  (forall p, In p ps -> wfb n p) /\
  (forall g, in_box b g = true <-> exists p, In p ps /\ in_box p g = true).
Proof.
  intros n b dim esize maxb W Hd.
  exact (subdivide_disjoint_cover n b dim (chunk_length b dim esize maxb) W Hd (chunk_length_pos b dim esize maxb)).
Qed.
Print Assumptions C08_subdivide_preserves_disjoint_cover.

Theorem C08_subdivided_piece_holds_restriction : forall (E : Type) (n : nat) (G : coord -> E) (t : tensor E)
                                                        (b : box) (dim : nat) (cl i : Z) (c : coord),
  wfb n b -> (dim < n)%nat -> length c = n ->
  (forall x, length x = n -> t x = G (vadd (boff b) x)) ->
  narrow t dim (i * cl) c = G (vadd (boff (piece cl b dim i)) c).
Proof. intros E n G t b dim cl i c. exact (write_piece_holds n G t b dim cl i c). Qed.
Print Assumptions C08_subdivided_piece_holds_restriction.

(* The result of the load does not depend on the order of the saved shard list (nor, therefore, on the order in
   which the read requests complete) when the saved shards are pairwise disjoint - for arbitrary saved contents.
   In particular sorting by offsets in _get_merged_sharded_tensor_entries (any placement of shards on ranks) is
   immaterial. *)
Theorem C08_merge_is_order_independent : forall (E : Type) (n : nat) (shards shards' : list (sshard E)) (d : dshard E),
  (forall s, In s shards -> wfb n (s_box s)) -> wfb n (d_box d) ->
  shards_disjoint shards -> Permutation shards shards' ->
  forall x, load_dst shards d x = load_dst shards' d x.
Proof. intros E n shards shards' d. exact (load_order_independent n shards shards' d). Qed.
Print Assumptions C08_merge_is_order_independent.

Theorem C08_merged_entry_is_permutation : forall (E : Type) (ranks : list (list (sshard E))),
  Permutation (concat ranks) (merge_shards ranks).
Proof. intros E ranks. exact (merge_shards_perm ranks). Qed.
Print Assumptions C08_merged_entry_is_permutation.

(* _get_global_shape = per-dim max(0, max over the shards of offset + size). *)
Theorem C08_global_shape_is_corner : forall (n : nat) (bs : list box),
  bs <> [] -> (forall b, In b bs -> wfb n b) ->
  exists gs, global_shape bs = Some gs /\ length gs = n /\
    forall i, (i < n)%nat ->
      0 <= nth i gs 0 /\
      (forall b, In b bs -> nth i (boff b) 0 + nth i (bsz b) 0 <= nth i gs 0) /\
      (nth i gs 0 = 0 \/ exists b, In b bs /\ nth i gs 0 = nth i (boff b) 0 + nth i (bsz b) 0).
Proof. exact global_shape_is_corner. Qed.
Print Assumptions C08_global_shape_is_corner.

(* ShardedTensorEntry.get_tensor_shape (used for obj_out=None) scans for a dominating corner.  For shards that lie
   inside [0, shape) and cover its last element - in particular for every partition of [0, shape), in any order -
   both implementations return shape. *)
Theorem C08_shapes_agree_on_partitions : forall (n : nat) (bs : list box) (shape : list Z),
  length shape = n -> (forall i, 0 <= nth i shape 0) -> (forall b, In b bs -> wfb n b) ->
  (forall b, In b bs -> forall i, (i < n)%nat -> nth i (boff b) 0 + nth i (bsz b) 0 <= nth i shape 0) ->
  (exists b, In b bs /\ in_box b (map (fun e => e - 1) shape) = true) ->
  tensor_shape bs = Some shape /\ global_shape bs = Some shape.
Proof.
  intros n bs shape Ls Pos W Inside Cov.
  destruct (partition_corner n bs shape Ls W Inside Cov) as (bstar & Hin & Ec & D).
  rewrite <- Ec. apply (shapes_agree n bs bstar Hin D). rewrite Ec. exact Pos.
Qed.
Print Assumptions C08_shapes_agree_on_partitions.

(* get_tensor_shape is NOT the corner in general (no dominating shard: e.g. a per-rank, incomplete shard list). *)
Example C08_tensor_shape_needs_domination :
  tensor_shape [mkBox [0; 0] [2; 1]; mkBox [0; 1] [1; 2]] = Some [2; 1] /\
  global_shape [mkBox [0; 0] [2; 1]; mkBox [0; 1] [1; 2]] = Some [2; 3].
Proof. vm_compute. split; reflexivity. Qed.

(* ---------------------------------------------------------------- non-vacuity *)
(* a 5x7 tensor saved as an uneven 2x3 grid (rows 2+3, columns 3+1+3): the hypotheses of C08_reshard_correct hold *)
Example C08_example_hypotheses :
  (forall s, In s ex_saved -> wfb 2 (s_box s)) /\ shards_disjoint ex_saved /\ NoDup (map s_key ex_saved) /\
  (forall s, In s ex_saved -> forall c, in_local (s_box s) c = true -> s_data s c = ex_G (vadd (boff (s_box s)) c)).
Proof.
  assert (forall b, In b (map s_box ex_saved) -> wfb 2 b) as W
    by (apply wfb_b_sound; vm_compute; reflexivity).
  split; [intros s Hs; apply W; apply in_map; exact Hs|]. split; [|split].
  - apply shards_disjoint_of_boxes. apply (disjointb_sound 2); [exact W|vm_compute; reflexivity].
  - vm_compute. repeat constructor; cbn; intuition discriminate.
  - intros s Hs c _. vm_compute in Hs. repeat (destruct Hs as [<-|Hs]; [reflexivity|]). destruct Hs.
Qed.

(* ... loaded into a 3x2 grid (rows 1+3+1, columns 5+2): every destination shard ends up holding G restricted *)
Example C08_example_grid :
  map (fun dt => rs_to_list (bsz (d_box (fst dt))) (snd dt)) (combine ex_dsts (load ex_saved ex_dsts)) =
  map (fun b => map (fun c => ex_G (vadd (boff b) c)) (coords (bsz b))) ex_dst_boxes.
Proof. vm_compute. reflexivity. Qed.

(* ... and into a dense 4x9 tensor: G on the 4x7 overlap, the initial contents on columns 7 and 8 *)
Example C08_example_dense :
  rs_to_list [4; 9] (load_dst ex_saved ex_dense) =
  map (fun c => if nth 1 c 0 <? 7 then ex_G c else ex_I c) (coords [4; 9]).
Proof. vm_compute. reflexivity. Qed.

(* the grouped execution and the read plan on the same example: all six saved shards are needed by the 3x2 grid;
   a dense 1x3 destination needs only the first *)
Example C08_example_plan :
  read_plan ex_saved ex_dst_boxes = [0; 1; 2; 3; 4; 5] /\
  read_plan ex_saved [dense_box [1; 3]] = [0] /\
  map (fun dt => rs_to_list (bsz (d_box (fst dt))) (snd dt)) (combine ex_dsts (load_grouped ex_saved ex_dsts)) =
  map (fun dt => rs_to_list (bsz (d_box (fst dt))) (snd dt)) (combine ex_dsts (load ex_saved ex_dsts)).
Proof. vm_compute. repeat split; reflexivity. Qed.

(* subdivision of the 3x3 saved shard at (2,4) with 4-byte elements and a 20-byte threshold: rows of 12 bytes, one per piece *)
Example C08_example_subdivide :
  map snd (subdivide (mkBox [2; 4] [3; 3]) 0 4 20) =
  [mkBox [2; 4] [1; 3]; mkBox [3; 4] [1; 3]; mkBox [4; 4] [1; 3]].
Proof. vm_compute. reflexivity. Qed.
