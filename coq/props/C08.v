(* C08 - Resharding: any saved sharding loads correctly into any target sharding.
   Property theorems only; each closed by [exact] of a lemma from proofs/ReshardProofs.v.
   All statements hold for ANY number of dimensions n and ANY boxes (not only grids); [wfb n b] says that
   the offsets and sizes of b both have n entries. *)
From TS Require Import model.Base model.Reshard proofs.ReshardProofs.
From Coq Require Import Permutation.

(* _shards_get_overlap_region_wrt_saved_tensor is exactly the intersection of the two boxes:
   (1) for every c inside the length box, saved-offset + c (in the saved shard) and current-offset + c (in
       the current shard) name the SAME global coordinate, which lies inside both boxes (so both narrows
       are in bounds);
   (2) every global coordinate lying in both boxes is hit by exactly one c of the length box.
   No overlap hypothesis is needed: for boxes that do not intersect the length box is empty. *)
Theorem C08_region_correct : forall (n : nat) (saved cur : box), wfb n saved -> wfb n cur ->
  let R := overlap_region saved cur in
  (forall c, in_range (zeros (r_len R)) (r_len R) c = true ->
     vadd (boff saved) (vadd (r_src R) c) = vadd (boff cur) (vadd (r_dst R) c) /\
     in_box saved (vadd (boff saved) (vadd (r_src R) c)) = true /\
     in_box cur (vadd (boff cur) (vadd (r_dst R) c)) = true /\
     in_local saved (vadd (r_src R) c) = true /\
     in_local cur (vadd (r_dst R) c) = true) /\
  (forall g, in_box saved g = true -> in_box cur g = true ->
     exists c, in_range (zeros (r_len R)) (r_len R) c = true /\
               vadd (boff saved) (vadd (r_src R) c) = g /\
               vadd (boff cur) (vadd (r_dst R) c) = g /\
               forall c', in_range (zeros (r_len R)) (r_len R) c' = true ->
                          (vadd (boff saved) (vadd (r_src R) c') = g \/ vadd (boff cur) (vadd (r_dst R) c') = g) ->
                          c' = c).
Proof.
  intros n saved cur Ws Wc R. split.
  - intros c Hc. exact (region_forward n saved cur Ws Wc c Hc).
  - intros g G1 G2. exact (region_backward n saved cur Ws Wc g G1 G2).
Qed.
Print Assumptions C08_region_correct.
