(* C16 - Chunking, subdivision, batching and tiling never change logical content.
   Property theorems only; each closed by [exact] of a lemma from proofs/ChunkProofs.v / proofs/BatchProofs.v.

   Vocabulary (definitions in model/Chunk.v, model/Batch.v, predicates in the proofs files):
     box               (offsets, sizes), one entry per dimension
     boxes_along dim offs sizes base lens
                       the pieces obtained by cutting the box (offs, sizes) along dim into consecutive
                       pieces of lengths lens starting at base; all other coordinates copied
     partition_along dim offs sizes esize pieces   :=  exists lens,
          pieces = boxes_along dim offs sizes (nth dim offs 0) lens
       /\ sumZ lens = nth dim sizes 0   /\ all lens >= 0   /\ (extent > 0 -> all lens > 0)
       /\ (forall idx, #pieces containing idx = if idx in the box then 1 else 0)          -- exact cover
       /\ sum over pieces of esize * prod(piece sizes) = esize * prod(sizes)               -- byte lengths
     consecutive cur ranges fin
                       the byte ranges start at cur, each starts where the previous ends, lo <= hi, end at fin *)
From TS Require Import model.Base model.Chunk model.Batch proofs.ChunkProofs proofs.BatchProofs.
From TS Require Import gen.ChunkGen proofs.ChunkGenProofs.
From Coq Require Import Permutation.

(* ------------------------------------------------------------------ torch.chunk (validated external) *)
Theorem C16_torch_chunk_spec : forall d n,
  1 <= n -> 0 <= d ->
  exists lens, torch_chunk d n = Some lens /\ sumZ lens = d /\
               Forall (fun l => 0 <= l) lens /\ (0 < d -> Forall (fun l => 0 < l) lens) /\ lens <> [].
Proof. exact torch_chunk_spec. Qed.
Print Assumptions C16_torch_chunk_spec.

(* ------------------------------------------------------------------ chunk_tensor *)
(* For every chunk size >= 1 byte (below one element and above the whole tensor included), every element
   size, every shape with no zero extent (0-d tensors are handled as shape [1]) and every chunking dim,
   chunk_tensor succeeds and its chunks are an exact partition of the whole tensor along that dim. *)
Theorem C16_chunk_partition : forall shape dim esize csz,
  1 <= csz -> 0 < esize -> Forall (fun s => 0 < s) shape -> (dim < length (shape1 shape))%nat ->
  exists pieces, chunk_tensor shape dim esize csz = Some pieces /\
                 partition_along dim (map (fun _ => 0) (shape1 shape)) (shape1 shape) esize pieces.
Proof. exact chunk_partition. Qed.
Print Assumptions C16_chunk_partition.

(* A tensor with zero elements makes chunk_tensor raise (n_chunks = 0); io_preparer.prepare_write never
   calls it on such a tensor because 0 bytes is never above the chunk threshold. *)
Theorem C16_chunk_zero_elements_is_error : forall shape dim esize csz,
  1 <= csz -> prodZ (shape1 shape) = 0 -> chunk_tensor shape dim esize csz = None.
Proof. exact chunk_zero_elements. Qed.
Print Assumptions C16_chunk_zero_elements_is_error.

(* ------------------------------------------------------------------ subdivide_shard *)
(* For every max shard size >= 1 byte, every element size, every shard (any offsets) with no zero extent
   and every dim, subdivide_shard succeeds and the sub-shards are an exact partition of the shard's box. *)
Theorem C16_subdivide_partition : forall offs sizes dim esize maxsz,
  1 <= maxsz -> 0 < esize -> Forall (fun s => 0 < s) sizes ->
  length offs = length sizes -> (dim < length sizes)%nat ->
  exists pieces, subdivide_shard offs sizes dim esize maxsz = Some pieces /\
                 partition_along dim offs sizes esize pieces.
Proof. exact subdivide_partition. Qed.
Print Assumptions C16_subdivide_partition.

(* The guards above are needed: an empty shard makes the code divide by zero (an error, not a wrong plan). *)
Theorem C16_subdivide_empty_shard_is_error : forall offs sizes dim esize maxsz,
  (nth dim sizes 0 = 0 \/ prodZ sizes / nth dim sizes 0 * esize = 0) ->
  subdivide_shard offs sizes dim esize maxsz = None.
Proof.
  intros offs sizes dim esize maxsz [H | H].
  - exact (subdivide_empty_extent offs sizes dim esize maxsz H).
  - exact (subdivide_empty_slice offs sizes dim esize maxsz H).
Qed.
Print Assumptions C16_subdivide_empty_shard_is_error.

(* ------------------------------------------------------------------ prepare_read_tiled *)
(* For every buffer limit >= 1 byte, every element size, every shape with non-negative extents (0-d and
   zero-element included), flattenable or not (the latter needs >= 1 dim), any base offset: the tiles' byte
   ranges are consecutive from base to base + esize * numel, each range is exactly as long as its recorded
   chunk shape says, the chunk shapes are l :: rest with the l summing to the chunked extent (all elements
   when flattened, dim 0 otherwise), there is at least one tile, and no tile is empty unless the tensor is. *)
Theorem C16_tile_partition : forall shape flat esize limit base,
  1 <= limit -> 0 < esize -> Forall (fun s => 0 <= s) shape -> (flat = false -> shape <> []) ->
  exists tiles lens,
    tile shape flat esize limit base = Some tiles
    /\ consecutive base (map tile_range tiles) (base + esize * prodZ shape)
    /\ Forall (fun t => snd (tile_range t) - fst (tile_range t) = esize * prodZ (tile_shape t)) tiles
    /\ map tile_shape tiles = map (fun l => l :: (if flat then [] else tl shape)) lens
    /\ sumZ lens = (if flat then prodZ shape else hd 0 shape)
    /\ tiles <> []
    /\ (0 < prodZ shape -> Forall (fun t => fst (tile_range t) < snd (tile_range t)) tiles).
Proof. exact tile_partition. Qed.
Print Assumptions C16_tile_partition.

(* Reading consecutive ranges one after the other and concatenating gives exactly bytes [cur, fin) of the
   stored object, whatever its length: tiling a read is invisible. *)
Theorem C16_tiled_read_exact : forall (obj : list Z) rs cur fin,
  0 <= cur -> consecutive cur rs fin ->
  concat (map (fun r => slice obj (fst r) (snd r)) rs) = slice obj cur fin.
Proof. intros obj rs cur fin. exact (consecutive_concat obj rs cur fin). Qed.
Print Assumptions C16_tiled_read_exact.

(* ------------------------------------------------------------------ batch_write_requests *)
(* Vocabulary (proofs/BatchProofs.v):
     small T w          w is batchable and its size is strictly below T
     good_slab T s      s <> []  /\  consecutive 0 (member ranges of s) (slab_sz s)  /\  slab_sz s < T
     flat_out slabs     all members of all slabs in order, each tagged with its slab index
     m_tag (k, m)       (path of m, hi - lo)            m_reloc (k, m) = (path of m, (k, lo, hi))
   For every threshold T >= 1 and every list of write requests with non-negative sizes and pairwise distinct paths:
     1. the pass-through requests are exactly those that are not (batchable and < T), unchanged and in order;
     2. every slab is non-empty, its ranges are consecutive from 0 (lo <= hi), end at the slab size, and the slab
        size is < T (for every slab, not only those with >= 2 members: a member alone is < T already);
     3. slab indices are 0,1,2,..: only a first slab that was never used is dropped;
     4. over all slabs, in order, the members are exactly the batchable requests below T - each exactly once, each
        with a range exactly as long as its size;
     5. the relocation dict has exactly one entry per member: path -> (slab, lo, hi). *)
Theorem C16_slab_ranges_tile : forall T reqs slabs pass reloc,
  1 <= T -> Forall (fun w => 0 <= w_size w) reqs -> NoDup (map w_path reqs) ->
  batch_write T reqs = (slabs, pass, reloc) ->
  pass = filter (fun w => negb (small T w)) reqs
  /\ Forall (fun ks => good_slab T (snd ks)) slabs
  /\ map fst slabs = zrange (blen slabs)
  /\ map m_tag (flat_out slabs) = map (fun w => (w_path w, w_size w)) (filter (small T) reqs)
  /\ reloc = map m_reloc (flat_out slabs).
Proof. exact slab_ranges_tile. Qed.
Print Assumptions C16_slab_ranges_tile.

(* consecutive ranges are pairwise disjoint: of two members of one slab the earlier one ends before the later starts *)
Theorem C16_slab_ranges_disjoint : forall T s,
  good_slab T s -> ForallOrdPairs (fun a b => m_hi a <= m_lo b) s.
Proof. exact slab_ranges_disjoint. Qed.
Print Assumptions C16_slab_ranges_disjoint.

(* Slab.build(): BatchedBufferStager(dict(zip(byte_ranges, stagers))) - the constructor's contiguity check accepts
   every slab batch_write produces, its slab_sz_bytes is the slab size, its stagers are members of the slab and
   include every member with a non-empty range (members sharing an EMPTY range collapse to one dict entry). *)
Theorem C16_slab_build : forall T s,
  good_slab T s ->
  exists d, slab_build s = Some (slab_sz s, d)
            /\ (forall m, In m s -> m_lo m < m_hi m -> In (m_range m, m_path m) d)
            /\ (forall k v, In (k, v) d -> exists m, In m s /\ m_range m = k /\ m_path m = v).
Proof. exact slab_build_good. Qed.
Print Assumptions C16_slab_build.

(* ------------------------------------------------------------------ BatchedBufferStager.stage_buffer *)
(* Members (lo, hi, buffer) with consecutive ranges from 0 to the slab size, each buffer of its declared length,
   staged in ANY completion order: staging succeeds, the slab has the declared size, and the slab holds every
   member's buffer exactly at its range. *)
Theorem C16_slab_content : forall sz (ms order : list (Z * Z * bytes)),
  consecutive 0 (map st_range ms) sz ->
  (forall x, In x ms -> blen (st_buf x) = st_hi x - st_lo x) ->
  Permutation ms order ->
  exists slab, stage_slab sz order = Some slab /\ blen slab = sz /\
               forall x, In x ms -> slice slab (st_lo x) (st_hi x) = st_buf x.
Proof. exact slab_content. Qed.
Print Assumptions C16_slab_content.

(* ------------------------------------------------------------------ batch_read_requests + BatchedBufferConsumer *)
(* For every list of read requests whose ranges satisfy 0 <= lo <= hi (any overlaps, nesting, order) and every
   store (objects of any length, shorter than the requested ranges included):
     (a) whatever reaches a consumer is object[lo:hi] (or the whole object) of one of its own requests;
     (b) every whole-object request is served;
     (c) every ranged request is served with exactly object[lo:hi], PROVIDED no other request names the same
         location and the same range for a different consumer (forced hypothesis: sub-consumers are kept in a
         dict keyed by range - see C16_batched_read_duplicate_refuted);
     (d) object[lo:hi] has the full length hi - lo exactly when the object reaches hi (or the range is empty): with a
         short object exactly the sub-consumers whose range is cut get a short buffer. *)
Theorem C16_batched_read_exact : forall reqs store,
  ranged_wf reqs ->
  (forall c b, In (c, b) (exec_plan store (batch_read reqs)) ->
     exists p rg obj, In (p, rg, c) reqs /\ lookup store p = Some obj /\ b = read_obj obj rg)
  /\ (forall p c obj, In (p, None, c) reqs -> lookup store p = Some obj ->
        In (c, obj) (exec_plan store (batch_read reqs)))
  /\ (forall p lo hi c obj, In (p, Some (lo, hi), c) reqs -> lookup store p = Some obj ->
        (forall c', In (p, Some (lo, hi), c') reqs -> c' = c) ->
        In (c, slice obj lo hi) (exec_plan store (batch_read reqs)))
  /\ (forall (obj : bytes) lo hi, 0 <= lo <= hi ->
        (blen (slice obj lo hi) = hi - lo <-> (hi <= blen obj \/ lo = hi))).
Proof.
  intros reqs store Hwf. split; [|split; [|split]].
  - intros c b. exact (batched_read_sound reqs store c b Hwf).
  - intros p c obj. exact (batched_read_complete_whole reqs store p c obj).
  - intros p lo hi c obj. exact (batched_read_complete_ranged reqs store p lo hi c obj Hwf).
  - exact slice_short_iff.
Qed.
Print Assumptions C16_batched_read_exact.

(* Without the proviso of (c) the statement is false: two requests for the same non-empty range of one location -
   the first consumer never receives anything.  Replayed on the real code by the harness (not a Failure: no
   API-level producer emits such a pair; the harness checks that on every run). *)
Theorem C16_batched_read_duplicate_refuted :
  exists reqs store p lo hi c obj,
    ranged_wf reqs /\ In (p, Some (lo, hi), c) reqs /\ lookup store p = Some obj /\ lo < hi <= blen obj /\
    forall b, ~ In (c, b) (exec_plan store (batch_read reqs)).
Proof. exact batched_read_duplicate_refuted. Qed.
Print Assumptions C16_batched_read_duplicate_refuted.

(* ------------------------------------------------------------------ write plan + staging + store + read plan *)
(* Entries (path, batchable, bytes the stager produces) with pairwise distinct paths; threshold T >= 1.
   The store holds every pass-through request's bytes under its own path and, under slab_path k, slab k staged by
   stage_slab from members of that slab in ANY completion order (slab_stored: every staged item is a member with
   its entry's bytes; every member with a non-empty range is staged).  Each entry is read through the location and
   byte range batch_write_requests left in it (entry_read), the read requests are taken in ANY order
   (Permutation) and merged by batch_read_requests.  Then every entry's consumer receives exactly the bytes its
   stager produced - whenever those are non-empty - and never anything else. *)
Theorem C16_write_then_read_plan : forall T (ws : list went) slabs pass reloc store,
  1 <= T -> NoDup (map e_path ws) ->
  batch_write T (map wreq_of ws) = (slabs, pass, reloc) ->
  (forall e, In e ws -> In (wreq_of e) pass -> lookup store (e_path e) = Some (e_buf e)) ->
  (forall k ms, In (k, ms) slabs -> slab_stored ws store k ms) ->
  forall rreqs, Permutation rreqs (map (fun e => entry_read reloc (e_path e)) ws) ->
  forall e, In e ws ->
    (e_buf e <> [] -> In (e_path e, e_buf e) (exec_plan store (batch_read rreqs)))
    /\ (forall b, In (e_path e, b) (exec_plan store (batch_read rreqs)) -> b = e_buf e).
Proof. exact write_then_read_plan. Qed.
Print Assumptions C16_write_then_read_plan.

(* The slab hypothesis of C16_write_then_read_plan is what the code does: stage the stagers held by the
   BatchedBufferStager (slab_build's dict) in any completion order and write the result under the slab's path. *)
Theorem C16_slab_stored_of_build : forall T ws store k ms sz d order slab,
  good_slab T ms -> slab_build ms = Some (sz, d) ->
  Permutation (map (staged_entry ws) d) order ->
  stage_slab sz order = Some slab -> lookup store (slab_path k) = Some slab ->
  slab_stored ws store k ms.
Proof. exact slab_stored_of_build. Qed.
Print Assumptions C16_slab_stored_of_build.

(* ------------------------------------------------------------------ tie to the source text *)
(* gen/ChunkGen.v is regenerated from /repo on every run by translator/gen_chunk.py (fail closed) and holds the
   size arithmetic of chunk_tensor (tensor_sz_bytes, n_chunks), subdivide_shard (slice_sz, chunk_length, n_chunks,
   start, length), prepare_read_tiled (num_chunks, chunk_sz_bytes, both byte_range forms), the three conditions and
   the byte_range of the grouping loop of batch_write_requests and the adjusted sub-range of batch_read_requests.
   The hand models with those expressions replaced by the generated ones (chunk_tensor_g, ... in
   proofs/ChunkGenProofs.v) are equal to the hand models the theorems above are about. *)
Theorem C16_translated_arithmetic_agrees :
  (forall shape dim esize csz, chunk_tensor_g shape dim esize csz = chunk_tensor shape dim esize csz)
  /\ (forall offs sizes dim esize maxsz,
        subdivide_shard_g offs sizes dim esize maxsz = subdivide_shard offs sizes dim esize maxsz)
  /\ (forall shape flat esize limit base,
        tile_g shape flat esize limit base = tile shape flat esize limit (match base with None => 0 | Some b => b end))
  /\ (forall T st p is_tbs batchable numel esize,
        bw_step_g T st (p, is_tbs, batchable, numel, esize) = bw_step T st (p, is_tbs && batchable, numel * esize))
  /\ (forall rs loc, merge_location_g rs loc = merge_location rs loc).
Proof. exact translated_arithmetic_agrees. Qed.
Print Assumptions C16_translated_arithmetic_agrees.

(* ------------------------------------------------------------------ non-vacuity *)
(* 3x2 tensor of 4-byte elements (24 bytes): threshold 1, = size, size + 1, and one in between *)
Example C16_ex_chunk_t1 :
  chunk_tensor [3; 2] 0 4 1 = Some [([0; 0], [1; 2]); ([1; 0], [1; 2]); ([2; 0], [1; 2])].
Proof. vm_compute. reflexivity. Qed.
Example C16_ex_chunk_t24 : chunk_tensor [3; 2] 0 4 24 = Some [([0; 0], [3; 2])].
Proof. vm_compute. reflexivity. Qed.
Example C16_ex_chunk_t25 : chunk_tensor [3; 2] 0 4 25 = Some [([0; 0], [3; 2])].
Proof. vm_compute. reflexivity. Qed.
Example C16_ex_chunk_t12 : chunk_tensor [3; 2] 0 4 12 = Some [([0; 0], [2; 2]); ([2; 0], [1; 2])].
Proof. vm_compute. reflexivity. Qed.
Example C16_ex_chunk_0d : chunk_tensor [] 0 8 1 = Some [([0], [1])].
Proof. vm_compute. reflexivity. Qed.
Example C16_ex_chunk_dim1 : chunk_tensor [2; 5] 1 2 7 = Some [([0; 0], [2; 2]); ([0; 2], [2; 2]); ([0; 4], [2; 1])].
Proof. vm_compute. reflexivity. Qed.
Example C16_ex_chunk_empty : chunk_tensor [0; 3] 0 4 1 = None.
Proof. vm_compute. reflexivity. Qed.

Example C16_ex_subdivide :
  subdivide_shard [4; 0] [5; 3] 0 2 13 = Some [([4; 0], [2; 3]); ([6; 0], [2; 3]); ([8; 0], [1; 3])].
Proof. vm_compute. reflexivity. Qed.
Example C16_ex_subdivide_t1 :
  subdivide_shard [0; 7] [2; 2] 1 4 1 = Some [([0; 7], [2; 1]); ([0; 8], [2; 1])].
Proof. vm_compute. reflexivity. Qed.
Example C16_ex_subdivide_big : subdivide_shard [0; 7] [2; 2] 1 4 17 = Some [([0; 7], [2; 2])].
Proof. vm_compute. reflexivity. Qed.
Example C16_ex_subdivide_empty : subdivide_shard [0; 0] [0; 3] 0 4 8 = None /\ subdivide_shard [0; 0] [3; 0] 0 4 8 = None.
Proof. vm_compute. split; reflexivity. Qed.

Example C16_ex_tile_flat :
  tile [2; 3] true 2 5 7 = Some [(7, 11, [2]); (11, 15, [2]); (15, 19, [2])].
Proof. vm_compute. reflexivity. Qed.
Example C16_ex_tile_nonflat :
  tile [3; 2] false 2 5 0 = Some [(0, 4, [1; 2]); (4, 8, [1; 2]); (8, 12, [1; 2])].
Proof. vm_compute. reflexivity. Qed.
Example C16_ex_tile_limits :
  tile [2; 3] true 2 1 0 = Some [(0, 2, [1]); (2, 4, [1]); (4, 6, [1]); (6, 8, [1]); (8, 10, [1]); (10, 12, [1])]
  /\ tile [2; 3] true 2 12 0 = Some [(0, 12, [6])] /\ tile [2; 3] true 2 13 0 = Some [(0, 12, [6])]
  /\ tile [0; 3] true 2 1 5 = Some [(5, 5, [0])] /\ tile [] true 8 1 0 = Some [(0, 8, [1])].
Proof. vm_compute. repeat split; reflexivity. Qed.

(* five requests, threshold 4: two slabs, one pass-through, an empty member *)
Example C16_ex_batch_write :
  batch_write 4 [(0, true, 2); (1, true, 1); (2, false, 3); (3, true, 3); (4, true, 0)]
  = ([(0, [(0, 0, 2); (1, 2, 3)]); (1, [(3, 0, 3); (4, 3, 3)])], [(2, false, 3)],
     [(0, (0, 0, 2)); (1, (0, 2, 3)); (3, (1, 0, 3)); (4, (1, 3, 3))]).
Proof. vm_compute. reflexivity. Qed.
(* threshold 1: only zero-byte tensors are batched; threshold = size: passed through; size + 1: batched *)
Example C16_ex_batch_thresholds :
  batch_write 1 [(0, true, 2); (1, true, 0)] = ([(0, [(1, 0, 0)])], [(0, true, 2)], [(1, (0, 0, 0))])
  /\ batch_write 3 [(0, true, 3)] = ([], [(0, true, 3)], [])
  /\ batch_write 4 [(0, true, 3)] = ([(0, [(0, 0, 3)])], [], [(0, (0, 0, 3))])
  /\ batch_write 4 [(0, true, 2); (1, true, 2)] = ([(0, [(0, 0, 2)]); (1, [(1, 0, 2)])], [], [(0, (0, 0, 2)); (1, (1, 0, 2))]).
Proof. vm_compute. repeat split; reflexivity. Qed.
Example C16_ex_stage_any_order :
  stage_slab 3 [(2, 3, [3]); (0, 2, [1; 2])] = Some [1; 2; 3] /\ stage_slab 3 [(0, 2, [1; 2]); (2, 3, [3])] = Some [1; 2; 3]
  /\ stage_slab 3 [(0, 2, [1])] = None.
Proof. vm_compute. repeat split; reflexivity. Qed.
(* overlapping and nested ranges, a short object (length 4 < 5): the cut consumers get short buffers *)
Example C16_ex_batch_read :
  batch_read [(7, Some (2, 5), 0); (8, None, 1); (7, Some (0, 3), 2); (7, Some (3, 3), 3)]
  = [RWhole 8 1; RMerged 7 0 5 5 [((2, 5), 0); ((0, 3), 2); ((3, 3), 3)]]
  /\ exec_plan [(7, [10; 11; 12; 13]); (8, [1])]
       (batch_read [(7, Some (2, 5), 0); (8, None, 1); (7, Some (0, 3), 2); (7, Some (3, 3), 3)])
     = [(1, [1]); (0, [12; 13]); (2, [10; 11; 12]); (3, [])].
Proof. vm_compute. split; reflexivity. Qed.
(* the hypotheses of C16_write_then_read_plan are satisfiable: the plan of C16_ex_batch_write, staged out of order,
   stored, read back in reverse request order *)
Example C16_ex_roundtrip :
  let ws : list went := [(0, true, [1; 2]); (1, true, [3]); (2, false, [9; 9; 9]); (3, true, [4; 5; 6]); (4, true, [])] in
  let '(slabs, pass, reloc) := batch_write 4 (map wreq_of ws) in
  let store := [(2, [9; 9; 9]); (slab_path 0, [1; 2; 3]); (slab_path 1, [4; 5; 6])] in
  stage_slab 3 [(2, 3, [3]); (0, 2, [1; 2])] = Some [1; 2; 3]
  /\ stage_slab 3 [(3, 3, []); (0, 3, [4; 5; 6])] = Some [4; 5; 6]
  /\ exec_plan store (batch_read (rev (map (fun e => entry_read reloc (e_path e)) ws)))
     = [(2, [9; 9; 9]); (4, []); (3, [4; 5; 6]); (1, [3]); (0, [1; 2])].
Proof. vm_compute. repeat split; reflexivity. Qed.
