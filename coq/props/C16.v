(* C16 - Chunking, subdivision, batching and tiling never change logical content.
   Property theorems only; each closed by [exact] of a lemma from proofs/ChunkProofs.v / proofs/BatchProofs.v.

   Vocabulary (definitions in model/Chunk.v, model/Batch.v, predicates in the proofs files):
     box               (offsets, sizes), one entry per dimension
     boxes_along dim offs sizes base lens
                       the pieces obtained by cutting the box (offs, sizes) along dim into consecutive
                       pieces of lengths lens starting at base; all other coordinates copied
     partition_along dim offs sizes esize pieces   :=  exists lens,
          pieces = boxes_along dim offs sizes (nth dim offs 0) lens
       /\ sumZ lens = nth dim sizes 0   /\ all lens >= 0   /\ (extent > 0 -> all lens > 0)
       /\ (forall idx, #pieces containing idx = if idx in the box then 1 else 0)          -- exact cover
       /\ sum over pieces of esize * prod(piece sizes) = esize * prod(sizes)               -- byte lengths
     consecutive cur ranges fin
                       the byte ranges start at cur, each starts where the previous ends, lo <= hi, end at fin *)
From TS Require Import model.Base model.Chunk proofs.ChunkProofs.

(* ------------------------------------------------------------------ torch.chunk (validated external) *)
Theorem C16_torch_chunk_spec : forall d n,
  1 <= n -> 0 <= d ->
  exists lens, torch_chunk d n = Some lens /\ sumZ lens = d /\
               Forall (fun l => 0 <= l) lens /\ (0 < d -> Forall (fun l => 0 < l) lens) /\ lens <> [].
Proof. exact torch_chunk_spec. Qed.
Print Assumptions C16_torch_chunk_spec.

(* ------------------------------------------------------------------ chunk_tensor *)
(* For every chunk size >= 1 byte (below one element and above the whole tensor included), every element
   size, every shape with no zero extent (0-d tensors are handled as shape [1]) and every chunking dim,
   chunk_tensor succeeds and its chunks are an exact partition of the whole tensor along that dim. *)
Theorem C16_chunk_partition : forall shape dim esize csz,
  1 <= csz -> 0 < esize -> Forall (fun s => 0 < s) shape -> (dim < length (shape1 shape))%nat ->
  exists pieces, chunk_tensor shape dim esize csz = Some pieces /\
                 partition_along dim (map (fun _ => 0) (shape1 shape)) (shape1 shape) esize pieces.
Proof. exact chunk_partition. Qed.
Print Assumptions C16_chunk_partition.

(* A tensor with zero elements makes chunk_tensor raise (n_chunks = 0); io_preparer.prepare_write never
   calls it on such a tensor because 0 bytes is never above the chunk threshold. *)
Theorem C16_chunk_zero_elements_is_error : forall shape dim esize csz,
  1 <= csz -> prodZ (shape1 shape) = 0 -> chunk_tensor shape dim esize csz = None.
Proof. exact chunk_zero_elements. Qed.
Print Assumptions C16_chunk_zero_elements_is_error.

(* ------------------------------------------------------------------ subdivide_shard *)
(* For every max shard size >= 1 byte, every element size, every shard (any offsets) with no zero extent
   and every dim, subdivide_shard succeeds and the sub-shards are an exact partition of the shard's box. *)
Theorem C16_subdivide_partition : forall offs sizes dim esize maxsz,
  1 <= maxsz -> 0 < esize -> Forall (fun s => 0 < s) sizes ->
  length offs = length sizes -> (dim < length sizes)%nat ->
  exists pieces, subdivide_shard offs sizes dim esize maxsz = Some pieces /\
                 partition_along dim offs sizes esize pieces.
Proof. exact subdivide_partition. Qed.
Print Assumptions C16_subdivide_partition.

(* The guards above are needed: an empty shard makes the code divide by zero (an error, not a wrong plan). *)
Theorem C16_subdivide_empty_shard_is_error : forall offs sizes dim esize maxsz,
  (nth dim sizes 0 = 0 \/ prodZ sizes / nth dim sizes 0 * esize = 0) ->
  subdivide_shard offs sizes dim esize maxsz = None.
Proof.
  intros offs sizes dim esize maxsz [H | H].
  - exact (subdivide_empty_extent offs sizes dim esize maxsz H).
  - exact (subdivide_empty_slice offs sizes dim esize maxsz H).
Qed.
Print Assumptions C16_subdivide_empty_shard_is_error.

(* ------------------------------------------------------------------ prepare_read_tiled *)
(* For every buffer limit >= 1 byte, every element size, every shape with non-negative extents (0-d and
   zero-element included), flattenable or not (the latter needs >= 1 dim), any base offset: the tiles' byte
   ranges are consecutive from base to base + esize * numel, each range is exactly as long as its recorded
   chunk shape says, the chunk shapes are l :: rest with the l summing to the chunked extent (all elements
   when flattened, dim 0 otherwise), there is at least one tile, and no tile is empty unless the tensor is. *)
Theorem C16_tile_partition : forall shape flat esize limit base,
  1 <= limit -> 0 < esize -> Forall (fun s => 0 <= s) shape -> (flat = false -> shape <> []) ->
  exists tiles lens,
    tile shape flat esize limit base = Some tiles
    /\ consecutive base (map tile_range tiles) (base + esize * prodZ shape)
    /\ Forall (fun t => snd (tile_range t) - fst (tile_range t) = esize * prodZ (tile_shape t)) tiles
    /\ map tile_shape tiles = map (fun l => l :: (if flat then [] else tl shape)) lens
    /\ sumZ lens = (if flat then prodZ shape else hd 0 shape)
    /\ tiles <> []
    /\ (0 < prodZ shape -> Forall (fun t => fst (tile_range t) < snd (tile_range t)) tiles).
Proof. exact tile_partition. Qed.
Print Assumptions C16_tile_partition.

(* Reading consecutive ranges one after the other and concatenating gives exactly bytes [cur, fin) of the
   stored object, whatever its length: tiling a read is invisible. *)
Theorem C16_tiled_read_exact : forall (obj : list Z) rs cur fin,
  0 <= cur -> consecutive cur rs fin ->
  concat (map (fun r => slice obj (fst r) (snd r)) rs) = slice obj cur fin.
Proof. intros obj rs cur fin. exact (consecutive_concat obj rs cur fin). Qed.
Print Assumptions C16_tiled_read_exact.

(* ------------------------------------------------------------------ non-vacuity *)
(* 3x2 tensor of 4-byte elements (24 bytes): threshold 1, = size, size + 1, and one in between *)
Example C16_ex_chunk_t1 :
  chunk_tensor [3; 2] 0 4 1 = Some [([0; 0], [1; 2]); ([1; 0], [1; 2]); ([2; 0], [1; 2])].
Proof. vm_compute. reflexivity. Qed.
Example C16_ex_chunk_t24 : chunk_tensor [3; 2] 0 4 24 = Some [([0; 0], [3; 2])].
Proof. vm_compute. reflexivity. Qed.
Example C16_ex_chunk_t25 : chunk_tensor [3; 2] 0 4 25 = Some [([0; 0], [3; 2])].
Proof. vm_compute. reflexivity. Qed.
Example C16_ex_chunk_t12 : chunk_tensor [3; 2] 0 4 12 = Some [([0; 0], [2; 2]); ([2; 0], [1; 2])].
Proof. vm_compute. reflexivity. Qed.
Example C16_ex_chunk_0d : chunk_tensor [] 0 8 1 = Some [([0], [1])].
Proof. vm_compute. reflexivity. Qed.
Example C16_ex_chunk_dim1 : chunk_tensor [2; 5] 1 2 7 = Some [([0; 0], [2; 2]); ([0; 2], [2; 2]); ([0; 4], [2; 1])].
Proof. vm_compute. reflexivity. Qed.
Example C16_ex_chunk_empty : chunk_tensor [0; 3] 0 4 1 = None.
Proof. vm_compute. reflexivity. Qed.

Example C16_ex_subdivide :
  subdivide_shard [4; 0] [5; 3] 0 2 13 = Some [([4; 0], [2; 3]); ([6; 0], [2; 3]); ([8; 0], [1; 3])].
Proof. vm_compute. reflexivity. Qed.
Example C16_ex_subdivide_t1 :
  subdivide_shard [0; 7] [2; 2] 1 4 1 = Some [([0; 7], [2; 1]); ([0; 8], [2; 1])].
Proof. vm_compute. reflexivity. Qed.
Example C16_ex_subdivide_big : subdivide_shard [0; 7] [2; 2] 1 4 17 = Some [([0; 7], [2; 2])].
Proof. vm_compute. reflexivity. Qed.
Example C16_ex_subdivide_empty : subdivide_shard [0; 0] [0; 3] 0 4 8 = None /\ subdivide_shard [0; 0] [3; 0] 0 4 8 = None.
Proof. vm_compute. split; reflexivity. Qed.

Example C16_ex_tile_flat :
  tile [2; 3] true 2 5 7 = Some [(7, 11, [2]); (11, 15, [2]); (15, 19, [2])].
Proof. vm_compute. reflexivity. Qed.
Example C16_ex_tile_nonflat :
  tile [3; 2] false 2 5 0 = Some [(0, 4, [1; 2]); (4, 8, [1; 2]); (8, 12, [1; 2])].
Proof. vm_compute. reflexivity. Qed.
Example C16_ex_tile_limits :
  tile [2; 3] true 2 1 0 = Some [(0, 2, [1]); (2, 4, [1]); (4, 6, [1]); (6, 8, [1]); (8, 10, [1]); (10, 12, [1])]
  /\ tile [2; 3] true 2 12 0 = Some [(0, 12, [6])] /\ tile [2; 3] true 2 13 0 = Some [(0, 12, [6])]
  /\ tile [0; 3] true 2 1 5 = Some [(5, 5, [0])] /\ tile [] true 8 1 0 = Some [(0, 8, [1])].
Proof. vm_compute. repeat split; reflexivity. Qed.
