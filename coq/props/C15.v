(* C15 - Flatten/inflate is an exact inverse for every nested container.
   Property theorems only; each closed by [exact] of a lemma from proofs/FlattenProofs.v (hand model), proofs/FlattenInst.v,
   proofs/FlattenRecInst.v, proofs/InflateInst.v (terms generated from flatten.py = hand model) or a two-line wrapper.
   Hand model: model/Flatten.v (what is not modelled is listed in its header); generated terms: gen/FlattenGen.v,
   gen/FlattenRecGen.v over the Python vocabulary of model/FlattenPy.v; the second half of this file restates the
   property over the generated terms. *)
From TS Require Import model.Base model.Flatten model.FlattenPy proofs.FlattenProofs gen.FlattenGen proofs.FlattenInst
  gen.FlattenRecGen model.FlattenGenObs proofs.InflatePieces proofs.FlattenRecInst proofs.InflateInst.
From Coq Require Import Permutation.

(* ---- the escaping of one path component ------------------------------------------------------------- *)
(* _decode(_encode(s)) = s for every string (any code points, incl. '%', '/', "%2F", ".", ".."). *)
Theorem C15_decode_encode : forall s : pystr, decode (encode s) = s.
Proof. exact decode_encode. Qed.
Print Assumptions C15_decode_encode.

Theorem C15_encode_injective : forall a b : pystr, encode a = encode b -> a = b.
Proof. exact encode_inj. Qed.
Print Assumptions C15_encode_injective.

(* an encoded component never contains "/" (code point 47) *)
Theorem C15_encode_slash_free : forall s : pystr, ~ In 47 (encode s).
Proof. exact encode_slash_free. Qed.
Print Assumptions C15_encode_slash_free.

(* the definitions translated from the current source of _encode and _should_flatten_dict are the modelled ones *)
Theorem C15_encode_gen_is_model : forall s : pystr, encode_gen s = encode s.
Proof. exact encode_gen_is_encode. Qed.
Print Assumptions C15_encode_gen_is_model.

Theorem C15_should_flatten_gen_is_model : forall ks : list key, should_flatten_gen ks = should_flatten ks.
Proof. exact should_flatten_gen_is_should_flatten. Qed.
Print Assumptions C15_should_flatten_gen_is_model.

(* str(int) is injective and int(str(z)) = z, for every (also negative) integer *)
Theorem C15_str_int_injective : forall a b : Z, str_of_Z a = str_of_Z b -> a = b.
Proof. exact str_of_Z_inj. Qed.
Print Assumptions C15_str_int_injective.

Theorem C15_int_of_str_int : forall z : Z, parse_int (str_of_Z z) = Some z.
Proof. exact parse_int_str_of_Z. Qed.
Print Assumptions C15_int_of_str_int.

(* ---- "/".join and .split("/") : the token-list view of a path is faithful ----------------------------- *)
Theorem C15_split_join : forall ts : list token, ts <> [] -> Forall (fun t => ~ In 47 t) ts -> split (join ts) = ts.
Proof. exact split_join. Qed.
Print Assumptions C15_split_join.

(* ---- flatten produces pairwise distinct paths (manifest and leaf map together), as token lists and as strings;
        no hypothesis on the object at all ------------------------------------------------------------------ *)
Theorem C15_flatten_paths_nodup : forall (o : obj) (prefix : pystr),
  NoDup (map fst (fst (flatten_top o prefix)) ++ map fst (snd (flatten_top o prefix))) /\
  NoDup (map fst (fst (flatten_s o prefix)) ++ map fst (snd (flatten_s o prefix))).
Proof. intros o prefix. split; [exact (all_paths_nodup o [encode prefix]) | exact (flatten_s_paths_nodup o prefix)]. Qed.
Print Assumptions C15_flatten_paths_nodup.

(* ---- the round trip ------------------------------------------------------------------------------------ *)
(* For EVERY object (no bound on depth or width) whose flattened dicts have keys pairwise distinct under Python
   equality (wf_obj - true of every Python dict), with string paths exactly as the code holds them, and for EVERY
   reordering of the container manifest and of the leaf map: inflate returns the original object - same container
   kinds (list / dict / OrderedDict), same keys with their constructors (str / int / bool), same key order, same
   leaf under each key; dicts that cannot be flattened come back as the identical leaf. *)
Theorem C15_inflate_flatten : forall (o : obj) (prefix : pystr) ms ls,
  wf_obj o ->
  Permutation ms (fst (flatten_s o prefix)) -> Permutation ls (snd (flatten_s o prefix)) ->
  inflate_s ms ls prefix = Some o.
Proof. exact inflate_s_flatten_s_perm. Qed.
Print Assumptions C15_inflate_flatten.

(* The same inside a larger snapshot manifest: m and lm are any Python dicts (distinct paths) that agree with
   flatten's output on the paths whose first component is the encoded prefix; entries under other prefixes and the
   order are arbitrary. *)
Theorem C15_inflate_flatten_embedded : forall (o : obj) (prefix : pystr) (m : manifest) (lm : leafmap),
  wf_obj o -> NoDup (map fst m) -> NoDup (map fst lm) ->
  (forall q e, (exists r, q = encode prefix :: r) -> (In (q, e) m <-> In (q, e) (fst (flatten_top o prefix)))) ->
  (forall q x, (exists r, q = encode prefix :: r) -> (In (q, x) lm <-> In (q, x) (snd (flatten_top o prefix)))) ->
  inflate m lm prefix = Some o.
Proof. intros o prefix m lm W Nm Nl Am Al. exact (inflate_correct o prefix m lm W Nm Nl Am Al). Qed.
Print Assumptions C15_inflate_flatten_embedded.

(* After metadata serialization.  PARTIAL: the codec itself (SnapshotMetadata.to_yaml / from_yaml) is property
   C14's model; here it is any function that returns the same entries in some order - which is what the
   correspondence harness observes on the real to_yaml/from_yaml on every run. *)
Theorem C15_inflate_flatten_via_metadata_partial :
  forall (codec : list (pystr * entry) -> option (list (pystr * entry))),
  (forall ms, exists ms', codec ms = Some ms' /\ Permutation ms' ms) ->
  forall (o : obj) (prefix : pystr), wf_obj o ->
  exists ms', codec (fst (flatten_s o prefix)) = Some ms' /\
              inflate_s ms' (snd (flatten_s o prefix)) prefix = Some o.
Proof.
  intros codec Hc o prefix W. destruct (Hc (fst (flatten_s o prefix))) as [ms' [E P]]. exists ms'. split; [exact E|].
  exact (inflate_s_flatten_s_perm o prefix ms' _ W P (Permutation_refl _)).
Qed.
Print Assumptions C15_inflate_flatten_via_metadata_partial.

(* a dict with colliding str(key) or a key that is neither str nor int is kept whole as a leaf and returned as is *)
Theorem C15_opaque_dict_kept_whole : forall ord kvs prefix, should_flatten (map fst kvs) = false ->
  flatten_top (ODict ord kvs) prefix = ([], [([encode prefix], ODict ord kvs)]) /\
  inflate [] [([encode prefix], ODict ord kvs)] prefix = Some (ODict ord kvs).
Proof. exact opaque_dict_whole. Qed.
Print Assumptions C15_opaque_dict_kept_whole.

(* ---- non-vacuity: the adversarial keys ---------------------------------------------------------------------- *)
(* { 1:_, "01":_, "+1":_, "١":_, "²":_, "":_, "%2F":_, "a/b":_, ".":_, "..":_ ,
     "n": [ OrderedDict{ True:_, 0:_, "1":_, "true":_ }, {1:_, "1":_} (opaque), [] , {} ] } *)
Definition ex_inner : obj :=
  ODict true [(KBool true, Leaf 20); (KInt 0, Leaf 21); (KStr [49], Leaf 22); (KStr [116; 114; 117; 101], Leaf 23)].
Definition ex_opaque : obj := ODict false [(KInt 1, Leaf 30); (KStr [49], Leaf 31)].
Definition ex_obj : obj :=
  ODict false
    [(KInt 1, Leaf 1); (KStr [48; 49], Leaf 2); (KStr [43; 49], Leaf 3); (KStr [1633], Leaf 4); (KStr [178], Leaf 5);
     (KStr [], Leaf 6); (KStr [37; 50; 70], Leaf 7); (KStr [97; 47; 98], Leaf 8); (KStr [46], Leaf 9);
     (KStr [46; 46], Leaf 10);
     (KStr [110], OList [ex_inner; ex_opaque; OList []; ODict false []])].

Example C15_example_wf : wf_obj ex_obj /\ should_flatten (map fst [(KInt 1, Leaf 30); (KStr [49], Leaf 31)]) = false.
Proof. split; vm_compute; reflexivity. Qed.

Example C15_example_paths :
  map fst (snd (flatten_s ex_obj [112])) =
  [[112; 47; 49]; [112; 47; 48; 49]; [112; 47; 43; 49]; [112; 47; 1633]; [112; 47; 178]; [112; 47];
   [112; 47; 37; 50; 53; 50; 70]; [112; 47; 97; 37; 50; 70; 98]; [112; 47; 37; 50; 69]; [112; 47; 37; 50; 69; 37; 50; 69];
   [112; 47; 110; 47; 48; 47; 84; 114; 117; 101]; [112; 47; 110; 47; 48; 47; 48]; [112; 47; 110; 47; 48; 47; 49];
   [112; 47; 110; 47; 48; 47; 116; 114; 117; 101]; [112; 47; 110; 47; 49]].
Proof. vm_compute. reflexivity. Qed.

Example C15_example_roundtrip :
  inflate_s (rev (fst (flatten_s ex_obj [112]))) (rev (snd (flatten_s ex_obj [112]))) [112] = Some ex_obj.
Proof. vm_compute. reflexivity. Qed.

Example C15_example_keys_deleted :   (* a key listed in the entry but absent from the values is deleted *)
  inflate_s [([112], EDict false [KInt 2; KStr [49; 48]; KBool true])] [([112; 47; 84; 114; 117; 101], Leaf 7)] [112]
  = Some (ODict false [(KBool true, Leaf 7)]).
Proof. vm_compute. reflexivity. Qed.

(* ==== the same statements about the code as it is now ====================================================================
   gen/FlattenRecGen.v is rewritten on every run from /repo's flatten.py by translator/gen_flatten.py: _flatten, flatten,
   _entry_to_container, _populate_container and inflate translated statement by statement over the Python vocabulary of
   model/FlattenPy.v (insertion-ordered dicts, type tests, mutable containers referenced from a heap).
   flatten_run_gen / inflate_run_gen (model/FlattenGenObs.v) only supply the fuel and read the returned reference back. *)

(* The translated _flatten / flatten compute exactly the hand model's flatten: same dispatch (list, flattenable dict /
   OrderedDict, anything else), same entry kind and key list per container, same path strings, and dict.update merges
   what the model concatenates - for every object, every prefix, every fuel above the nesting depth. *)
Theorem C15_generated_flatten_is_model : forall (o : obj) (prefix : pystr) (fuel : nat),
  (hgt o < fuel)%nat -> flatten_top_gen fuel o prefix = Some (flatten_s o prefix).
Proof. exact flatten_top_gen_correct. Qed.
Print Assumptions C15_generated_flatten_is_model.

Theorem C15_generated_flatten_run_is_model : forall (o : obj) (prefix : pystr),
  flatten_run_gen o prefix = Some (flatten_s o prefix).
Proof. exact flatten_run_gen_correct. Qed.
Print Assumptions C15_generated_flatten_run_is_model.

(* The translated _entry_to_container (dispatch order, fromkeys) and _populate_container (list: sorted by int(token);
   dict: the _decode map and the loop over list(container.keys()) with `in` / del) are the model's populate, whatever the
   stored values are. *)
Theorem C15_generated_containers_are_model : forall (s : pystr) (e : entry) (vals : sdict ref) (ovals : list (token * obj)),
  entry_to_container_gen e = Some (init_cont e) /\
  populate_container_gen s (init_cont e) vals = populate_spec e vals /\
  populate e ovals = option_map cont_obj (populate_spec e ovals).
Proof.
  intros s e vals ovals.
  exact (conj (entry_to_container_gen_correct e) (conj (populate_container_gen_correct s e vals) (populate_is_spec e ovals))).
Qed.
Print Assumptions C15_generated_containers_are_model.

(* The translated inflate - prefix filter, `prefix in flattened` shortcut, containers created once per manifest entry,
   values grouped under "/".join(tokens[:-1]) in the order of chain(containers, flattened), containers populated IN PLACE
   in the order of container_path_to_vals while other containers already hold references to them - IS the hand model:
   same object, or an exception on both sides (None), on all Python dicts (distinct keys) in which no path under the
   prefix is both a container and a leaf. *)
Theorem C15_generated_inflate_is_model : forall (m : sdict entry) (lm : sdict obj) (prefix : pystr),
  NoDup (map fst m) -> NoDup (map fst lm) ->
  (forall k, In k (map fst m) -> In k (map fst lm) -> split_head k <> encode prefix) ->
  inflate_run_gen m lm prefix = inflate_s m lm prefix.
Proof. exact inflate_gen_is_model. Qed.
Print Assumptions C15_generated_inflate_is_model.

(* The round trip over the translated functions: C15_inflate_flatten with flatten and inflate replaced by the generated
   terms.  Every object, every prefix, every reordering of both dicts. *)
Theorem C15_generated_inflate_flatten : forall (o : obj) (prefix : pystr) fm fl ms ls,
  wf_obj o -> flatten_run_gen o prefix = Some (fm, fl) ->
  Permutation ms fm -> Permutation ls fl ->
  inflate_run_gen ms ls prefix = Some o.
Proof. exact generated_inflate_flatten. Qed.
Print Assumptions C15_generated_inflate_flatten.

(* ... inside a larger snapshot manifest (C15_inflate_flatten_embedded over the generated terms, string paths) *)
Theorem C15_generated_inflate_flatten_embedded : forall (o : obj) (prefix : pystr) fm fl (ms : sdict entry) (ls : sdict obj),
  wf_obj o -> flatten_run_gen o prefix = Some (fm, fl) ->
  NoDup (map fst ms) -> NoDup (map fst ls) ->
  (forall k e, split_head k = encode_gen prefix -> (In (k, e) ms <-> In (k, e) fm)) ->
  (forall k x, split_head k = encode_gen prefix -> (In (k, x) ls <-> In (k, x) fl)) ->
  inflate_run_gen ms ls prefix = Some o.
Proof. exact generated_inflate_flatten_embedded. Qed.
Print Assumptions C15_generated_inflate_flatten_embedded.

(* ... after metadata serialization (PARTIAL in the same sense as C15_inflate_flatten_via_metadata_partial) *)
Theorem C15_generated_inflate_flatten_via_metadata_partial :
  forall (codec : list (pystr * entry) -> option (list (pystr * entry))),
  (forall ms, exists ms', codec ms = Some ms' /\ Permutation ms' ms) ->
  forall (o : obj) (prefix : pystr), wf_obj o ->
  exists fm fl ms', flatten_run_gen o prefix = Some (fm, fl) /\ codec fm = Some ms' /\
                    inflate_run_gen ms' fl prefix = Some o.
Proof.
  intros codec Hc o prefix W. destruct (Hc (fst (flatten_s o prefix))) as [ms' [E P]].
  exists (fst (flatten_s o prefix)), (snd (flatten_s o prefix)), ms'.
  assert (F : flatten_run_gen o prefix = Some (fst (flatten_s o prefix), snd (flatten_s o prefix)))
    by (rewrite flatten_run_gen_correct; destruct (flatten_s o prefix); reflexivity).
  exact (conj F (conj E (generated_inflate_flatten o prefix _ _ ms' _ W F P (Permutation_refl _)))).
Qed.
Print Assumptions C15_generated_inflate_flatten_via_metadata_partial.

(* ... and a dict the translated _should_flatten_dict rejects is stored whole and returned as the identical leaf *)
Theorem C15_generated_opaque_dict_kept_whole : forall ord kvs prefix, should_flatten_gen (map fst kvs) = false ->
  flatten_run_gen (ODict ord kvs) prefix = Some ([], [(encode_gen prefix, ODict ord kvs)]) /\
  inflate_run_gen [] [(encode_gen prefix, ODict ord kvs)] prefix = Some (ODict ord kvs).
Proof. exact generated_opaque_dict_whole. Qed.
Print Assumptions C15_generated_opaque_dict_kept_whole.

(* the generated terms run: the adversarial example flattened by the translated flatten, both dicts reversed, inflated
   by the translated inflate; a path that is both a container and a leaf (outside the hand model) also runs: the leaf
   overwrites the container in its parent, keeping the container's position *)
Example C15_example_generated :
  option_map (fun r => map fst (snd r)) (flatten_run_gen ex_obj [112]) = Some (map fst (snd (flatten_s ex_obj [112]))) /\
  (r <- flatten_run_gen ex_obj [112] ;; inflate_run_gen (rev (fst r)) (rev (snd r)) [112]) = Some ex_obj /\
  inflate_run_gen [([112], EList); ([112; 47; 48], EList)] [([112; 47; 49], Leaf 1); ([112; 47; 48], Leaf 2)] [112]
    = Some (OList [Leaf 2; Leaf 1]).
Proof. vm_compute. repeat split. Qed.
