(* C03 - A failed write never yields a committed snapshot, and the failure is reported.  Property theorems only. *)
From TS Require Import model.Base gen.CommitGen model.Commit proofs.CommitProofs proofs.CommitInst.
From Coq Require Import Arith.
Local Close Scope Z_scope.
Local Open Scope nat_scope.

(* Synchronous take: if some rank's payload is incomplete (in particular: one of its payload writes failed, so
   the rank raised before finishing them) the metadata file does not exist in any form - in this state and,
   because a raised rank never moves again, in every later state.  All ranks, workloads, interleavings. *)
Theorem C03_sync_payload_failure_never_commits : forall (ns : list nat) (evs : list (nat * action)) x,
  let g := run gen_take_tail ns evs in
  In x (ranks g) -> payload_complete x = false -> meta_started g = false.
Proof.
  intros ns evs x g Hx Hnc. destruct (meta_started g) eqn:Hms; [|reflexivity]. exfalso.
  pose proof (meta_started_payload_complete gen_take_tail) as H.
  destruct (well_ordered_positions gen_take_tail take_tail_well_ordered) as (c & b1 & m & b2 & Hpos).
  specialize (H c b1 m b2 Hpos ns evs Hms). fold g in H. unfold all_payload_complete in H.
  rewrite forallb_forall in H. rewrite (H x Hx) in Hnc. discriminate.
Qed.
Print Assumptions C03_sync_payload_failure_never_commits.

(* the rank whose storage operation fails raises (its take() reports the failure) ... *)
Theorem C03_sync_failure_raises : forall g r g',
  act gen_take_tail g r AFail = Some g' -> raised (nth r (ranks g') dflt) = true.
Proof. exact (fail_raises gen_take_tail). Qed.
Print Assumptions C03_sync_failure_raises.

(* ... and stays raised whatever happens afterwards: it never reports success later *)
Theorem C03_sync_raised_is_final : forall (evs : list (nat * action)) g r,
  raised (nth r (ranks g) dflt) = true ->
  nth r (ranks (fold_left (step gen_take_tail) evs g)) dflt = nth r (ranks g) dflt.
Proof.
  intros evs g r Hr. apply dead_rank_frozen_run. unfold raised in Hr. destruct (st (nth r (ranks g) dflt)); [discriminate | discriminate | discriminate].
Qed.
Print Assumptions C03_sync_raised_is_final.

(* No rank reports success for a snapshot that is not committed - in every run, with any failures
   (payload or metadata write, any rank, any time). *)
Theorem C03_sync_no_success_without_commit : forall (ns : list nat) (evs : list (nat * action)) x,
  let g := run gen_take_tail ns evs in In x (ranks g) -> returned x = true -> meta_complete g = true.
Proof.
  intros ns evs x g Hx Hr.
  destruct (well_ordered_positions gen_take_tail take_tail_well_ordered) as (c & b1 & m & b2 & Hpos).
  exact (returned_meta_complete gen_take_tail c b1 m b2 Hpos ns evs x Hx Hr (returned_at_end gen_take_tail ns evs x Hx Hr)).
Qed.
Print Assumptions C03_sync_no_success_without_commit.

(* Once any storage operation has failed (payload write of any rank, or the metadata write), NO rank returns normally
   in any continuation of the run: the failed rank never arrives at the barrier behind the metadata write, so nobody
   passes it.  The model includes process-group timeouts (ATimeout: a rank blocked in a barrier may give up at any
   time, also spuriously); every theorem of this file holds with them. *)
Theorem C03_sync_failure_means_nobody_returns : forall (ns : list nat) (evs1 evs2 : list (nat * action)) r g',
  act gen_take_tail (run gen_take_tail ns evs1) r AFail = Some g' ->
  forall x, In x (ranks (run gen_take_tail ns (evs1 ++ (r, AFail) :: evs2))) -> returned x = false.
Proof.
  intros ns evs1 evs2 r g' Hact.
  destruct (well_ordered_positions gen_take_tail take_tail_well_ordered) as (c & b1 & m & b2 & Hpos).
  exact (failure_means_nobody_returns gen_take_tail c b1 m b2 Hpos ns evs1 r evs2 g' Hact).
Qed.
Print Assumptions C03_sync_failure_means_nobody_returns.

(* ... and a peer that gives up waiting raises: with timeouts, every rank that terminates after a failure reports it *)
Theorem C03_sync_timeout_raises : forall g r g',
  act gen_take_tail g r ATimeout = Some g' -> raised (nth r (ranks g') dflt) = true.
Proof. exact (timeout_raises gen_take_tail). Qed.
Print Assumptions C03_sync_timeout_raises.

From TS Require Import model.Barrier proofs.BarrierProofs proofs.BarrierInst.

(* ASYNCHRONOUS take: any fault in a snapshot's plan (some rank's payload I/O fails, or the leader's metadata
   write fails) - in every reachable state no rank's wait() has returned normally, every rank that terminated has
   raised, and the metadata is not written.  All world sizes, interleavings, histories with distinct prefixes.
   The barrier model (model/Barrier.v) includes store.wait TIMEOUTS (a rank about to wait may give up at any time,
   also spuriously; the exception is caught and reported like any other) and ranks ABSENT from the protocol (they
   raised inside async_take itself): schedules [sch] contain arbitrarily many timeout choices and histories [h] any
   set of absent ranks; the statement is the one of the timeout-free model and holds unchanged. *)
Theorem C03_async_error_reaches_everyone : forall st0 h sch i x,
  fresh st0 h -> distinct_prefixes h ->
  nth_error (g_insts (grun (ginit st0 h) sch)) i = Some x ->
  has_fault x ->
  (forall r, (r < i_W x)%nat -> i_pcs x r <> PDone) /\
  (forall r, (r < i_W x)%nat -> terminated (i_pcs x r) = true -> i_pcs x r = PRaised) /\
  i_meta x = false.
Proof. exact error_reaches_everyone. Qed.
Print Assumptions C03_async_error_reaches_everyone.

(* The same with the hypothesis generalised: a fault in the plan, OR a rank that failed in the foreground (inside
   async_take: a storage write that fails while staging still overlaps I/O - such a rank has no background thread
   and never arrives at the barrier), OR a timeout of the leader's wait for its peers.  The previous theorem is the
   first disjunct.  (A timeout of a PEER's wait in depart is not in the list and cannot be: after the leader has read
   that peer's key the snapshot may still be committed - C13_timeout_error_reaches_everyone_refuted; what C03
   demands, "no rank reports success for a snapshot that is not committed", is C02_async_return_implies_committed
   and holds regardless.) *)
Theorem C03_async_error_reaches_everyone_gen : forall st0 h sch i x,
  fresh st0 h -> distinct_prefixes h ->
  nth_error (g_insts (grun (ginit st0 h) sch)) i = Some x ->
  has_fault x \/ has_absent x \/ i_tmo x 0%nat = true ->
  (forall r, (r < i_W x)%nat -> i_pcs x r <> PDone) /\
  (forall r, (r < i_W x)%nat -> terminated (i_pcs x r) = true -> i_pcs x r = PRaised) /\
  i_meta x = false.
Proof. exact error_reaches_everyone_gen. Qed.
Print Assumptions C03_async_error_reaches_everyone_gen.

(* Non-vacuity: rank 1's only payload write fails; rank 0 finishes and waits in the barrier for ever: nobody
   returns, no metadata.  And: rank 0's metadata write fails; rank 1 is held in the second barrier. *)
Example C03_example_payload_failure :
  let evs := [(0, AWBegin); (1, AWBegin); (1, AFail); (0, AWEnd); (0, AAdvance); (0, AArrive); (0, APass);
              (0, AMetaBegin); (1, AArrive); (0, AReturn)] in
  let g := run gen_take_tail [1; 1] evs in
  map (fun x => (raised x, returned x)) (ranks g) = [(false, false); (true, false)] /\ meta_started g = false.
Proof. vm_compute. split; reflexivity. Qed.

Example C03_example_metadata_failure :
  let evs := [(0, AWBegin); (1, AWBegin); (1, AWEnd); (0, AWEnd); (0, AAdvance); (1, AAdvance); (0, AArrive);
              (1, AArrive); (0, APass); (1, APass); (1, ASkipMeta); (1, AArrive); (0, AMetaBegin); (0, AFail);
              (1, APass); (1, AReturn)] in
  let g := run gen_take_tail [1; 1] evs in
  map (fun x => (raised x, returned x)) (ranks g) = [(true, false); (false, false)] /\ meta_complete g = false.
Proof. vm_compute. split; reflexivity. Qed.

(* with timeouts: rank 1's payload write fails, rank 0 waits in the first barrier, gives up and raises *)
Example C03_example_timeout :
  let evs := [(0, AWBegin); (1, AWBegin); (1, AFail); (0, AWEnd); (0, AAdvance); (0, AArrive); (0, APass); (0, ATimeout);
              (0, AReturn)] in
  let g := run gen_take_tail [1; 1] evs in
  map (fun x => (raised x, returned x)) (ranks g) = [(true, false); (true, false)] /\ meta_started g = false.
Proof. vm_compute. split; reflexivity. Qed.
