(* C17 - Tensor (de)serialization is bit-exact for every supported dtype and layout.
   Property theorems only; each closed by [exact] of a lemma from proofs/{DtypeProofs,LayoutProofs,C17Gen}.v.
   The dtype tables (all_supported_dtypes, dtype_to_string_table, ...) are the ones GENERATED from
   torchsnapshot/serialization.py by translator/gen_dtype.py on this run. *)
From TS Require Import model.Base model.Dtype model.Layout.
From TS Require Import proofs.DtypeProofs proofs.LayoutProofs gen.DtypeGen proofs.C17Gen.

(* ======================================================================== dtype tables *)

(* _DTYPE_TO_STRING is defined exactly on ALL_SUPPORTED_DTYPES, string_to_dtype inverts dtype_to_string and
   vice versa (_STRING_TO_DTYPE is the inverted dict), and no two dtypes share a string. *)
Theorem C17_dtype_string_bijective :
  (forall d, In d all_supported_dtypes <-> exists s, Dtype_get d dtype_to_string_table = Some s) /\
  (forall d s, Dtype_get d dtype_to_string_table = Some s -> Dtype_get s string_to_dtype_table = Some d) /\
  (forall s d, Dtype_get s string_to_dtype_table = Some d -> Dtype_get d dtype_to_string_table = Some s) /\
  (forall d1 d2 s, Dtype_get d1 dtype_to_string_table = Some s -> Dtype_get d2 dtype_to_string_table = Some s -> d1 = d2).
Proof. exact dtype_string_bijective. Qed.
Print Assumptions C17_dtype_string_bijective.

(* the string recorded for torch.X is "torch.X", the name PyTorch itself prints *)
Theorem C17_dtype_strings_canonical : forall d s,
  Dtype_get d dtype_to_string_table = Some s -> s = Dtype_torch_prefix ++ d.
Proof. exact dtype_strings_canonical. Qed.
Print Assumptions C17_dtype_strings_canonical.

(* every supported dtype has a recorded element size, and every recorded size is PyTorch's (reference table
   Dtype_ref_sizes, itself compared with the running torch by the harness) *)
Theorem C17_esize_matches_reference :
  (forall d, In d all_supported_dtypes -> exists z, Dtype_get d dtype_to_element_size_table = Some z) /\
  (forall d z, Dtype_get d dtype_to_element_size_table = Some z -> Dtype_get d Dtype_ref_sizes = Some z).
Proof. exact esize_matches_reference. Qed.
Print Assumptions C17_esize_matches_reference.

(* buffer-protocol dtypes are supported dtypes, none of them is quantized, each has a positive element size
   equal to the reference; quantized dtypes are supported dtypes *)
Theorem C17_buffer_protocol_subset :
  (forall d, In d buffer_protocol_supported_dtypes ->
     In d all_supported_dtypes /\ ~ In d supported_quantized_dtypes /\
     exists z, Dtype_get d dtype_to_element_size_table = Some z /\ 0 < z /\ Dtype_get d Dtype_ref_sizes = Some z) /\
  (forall d, In d supported_quantized_dtypes -> In d all_supported_dtypes).
Proof. split; [exact buffer_protocol_subset | exact quantized_subset]. Qed.
Print Assumptions C17_buffer_protocol_subset.

(* ======================================================================== index enumeration *)

(* the row-major enumeration has prod(shape) indices, for every rank, zero-length dimensions included, and each
   index is within the shape *)
Theorem C17_row_major_length : forall shape,
  Forall (fun d => 0 <= d) shape ->
  llen (row_major shape) = prodZ shape /\
  forall idx, In idx (row_major shape) -> Forall2 (fun i d => 0 <= i < d) idx shape.
Proof.
  intros shape H. split.
  - unfold llen. rewrite (row_major_length shape H). pose proof (prodZ_nonneg shape H). lia.
  - exact (row_major_bounds shape).
Qed.
Print Assumptions C17_row_major_length.

(* a view torch accepts (non-negative sizes, strides, offset; largest reachable position inside the storage)
   is well formed: every multi-index lands inside the storage *)
Theorem C17_valid_view_is_wf : forall (E : Type) (t : tensor E),
  torch_valid_view t = true -> wf_layout E t.
Proof. exact torch_valid_view_wf. Qed.
Print Assumptions C17_valid_view_is_wf.

(* ======================================================================== serialized length *)

(* for every element type with an esize-byte encoding, every rank, shape, strides (0 = broadcast included) and
   storage offset: the serialized buffer (byte carrier, as the code has it now) has esize * numel bytes *)
Theorem C17_serialized_length : forall (E : Type) (esize : Z) (elem_bytes : E -> list Z),
  0 < esize -> (forall e, length (elem_bytes e) = Z.to_nat esize) ->
  forall t : tensor E, wf_layout E t ->
  llen (as_memoryview elem_bytes 1 t) = esize * numel t.
Proof. exact serialized_length. Qed.
Print Assumptions C17_serialized_length.

(* the same at the generated tables: for a buffer-protocol dtype d with the recorded element size and the carrier
   item size the source uses for d now (bfloat16: element size of the torch.empty((0), dtype=...) carrier) *)
Theorem C17_serialized_length_generated : forall (E : Type) (elem_bytes : E -> list Z) d es c (t : tensor E),
  In d buffer_protocol_supported_dtypes ->
  Dtype_get d dtype_to_element_size_table = Some es ->
  C17_carrier d = Some c ->
  (forall e, length (elem_bytes e) = Z.to_nat es) ->
  wf_layout E t ->
  llen (as_memoryview elem_bytes c t) = es * numel t.
Proof. exact serialized_length_generated. Qed.
Print Assumptions C17_serialized_length_generated.

(* the same for any carrier whose item size divides the element size *)
Theorem C17_serialized_length_divisible_carrier : forall (E : Type) (esize : Z) (elem_bytes : E -> list Z),
  0 < esize -> (forall e, length (elem_bytes e) = Z.to_nat esize) ->
  forall c (t : tensor E), 0 < c -> esize mod c = 0 -> wf_layout E t ->
  llen (as_memoryview elem_bytes c t) = esize * numel t.
Proof. exact serialized_length_divides. Qed.
Print Assumptions C17_serialized_length_divisible_carrier.

(* in general, through a carrier of item size c the buffer has c * floor(esize * numel / c) bytes ... *)
Theorem C17_serialized_length_any_carrier : forall (E : Type) (esize : Z) (elem_bytes : E -> list Z),
  0 < esize -> (forall e, length (elem_bytes e) = Z.to_nat esize) ->
  forall c (t : tensor E), 0 < c -> wf_layout E t ->
  llen (as_memoryview elem_bytes c t) = c * ((esize * numel t) / c).
Proof. exact serialized_length_carrier. Qed.
Print Assumptions C17_serialized_length_any_carrier.

(* ... so the float32 carrier the bfloat16 branch used before the fix (c = 4, esize = 2) loses bytes for an odd
   element count, and deserialization then fails: 3 elements -> 4 bytes instead of 6. *)
Definition C17_enc2 (e : Z) : list Z := [e; e + 100].
Definition C17_odd : tensor Z := mkTensor [3] [1] 0 [1; 2; 3].

Theorem C17_carrier4_refuted :
  exists t : tensor Z,
    wf_layout Z t /\ (forall e, length (C17_enc2 e) = Z.to_nat 2) /\
    llen (as_memoryview C17_enc2 4 t) <> 2 * numel t /\
    from_memoryview 2 (as_memoryview C17_enc2 4 t) (t_shape t) = Err.
Proof.
  exists C17_odd. split; [apply wf_layoutb_sound; vm_compute; reflexivity|].
  split; [reflexivity|]. split; [vm_compute; discriminate | vm_compute; reflexivity].
Qed.
Print Assumptions C17_carrier4_refuted.

(* ======================================================================== round trip *)

(* serialize any well-formed strided view and deserialize with the recorded element size and shape: success, and the
   result holds exactly the bytes of the view's elements, element by element, in row-major order *)
Theorem C17_roundtrip : forall (E : Type) (esize : Z) (elem_bytes : E -> list Z),
  0 < esize -> (forall e, length (elem_bytes e) = Z.to_nat esize) ->
  forall t : tensor E, wf_layout E t ->
  from_memoryview esize (as_memoryview elem_bytes 1 t) (t_shape t) = Ok (map elem_bytes (elems t)).
Proof. exact roundtrip. Qed.
Print Assumptions C17_roundtrip.

Theorem C17_roundtrip_divisible_carrier : forall (E : Type) (esize : Z) (elem_bytes : E -> list Z),
  0 < esize -> (forall e, length (elem_bytes e) = Z.to_nat esize) ->
  forall c (t : tensor E), 0 < c -> esize mod c = 0 -> wf_layout E t ->
  from_memoryview esize (as_memoryview elem_bytes c t) (t_shape t) = Ok (map elem_bytes (elems t)).
Proof. exact roundtrip_divides. Qed.
Print Assumptions C17_roundtrip_divisible_carrier.

(* with a decoder inverting the encoding (frombuffer reinterprets the same bytes) the elements themselves come back *)
Theorem C17_roundtrip_decoded : forall (E : Type) (esize : Z) (elem_bytes : E -> list Z),
  0 < esize -> (forall e, length (elem_bytes e) = Z.to_nat esize) ->
  forall (dec : list Z -> E) (t : tensor E),
  (forall e, dec (elem_bytes e) = e) -> wf_layout E t ->
  match from_memoryview esize (as_memoryview elem_bytes 1 t) (t_shape t) with
  | Ok l => map dec l = elems t
  | Err => False
  end.
Proof. exact roundtrip_decoded. Qed.
Print Assumptions C17_roundtrip_decoded.

Theorem C17_roundtrip_generated : forall (E : Type) (elem_bytes : E -> list Z) d es c (t : tensor E),
  In d buffer_protocol_supported_dtypes ->
  Dtype_get d dtype_to_element_size_table = Some es ->
  C17_carrier d = Some c ->
  (forall e, length (elem_bytes e) = Z.to_nat es) ->
  wf_layout E t ->
  from_memoryview es (as_memoryview elem_bytes c t) (t_shape t) = Ok (map elem_bytes (elems t)).
Proof. exact roundtrip_generated. Qed.
Print Assumptions C17_roundtrip_generated.

(* the tensor that comes back (contiguous strides, offset 0, storage = decoded pieces) has, read through the same
   index arithmetic, exactly those pieces as its elements: shape and order are preserved *)
Theorem C17_deserialized_tensor_elems : forall (E : Type) shape (st : list E),
  Forall (fun d => 0 <= d) shape -> llen st = prodZ shape ->
  elems (contiguous_tensor shape st) = st.
Proof. exact elems_contiguous_tensor. Qed.
Print Assumptions C17_deserialized_tensor_elems.

(* tensor_from_memoryview accepts a buffer exactly when it has esize * prod(shape) bytes *)
Theorem C17_from_memoryview_ok_iff : forall esize, 0 < esize -> forall mv shape,
  Forall (fun d => 0 <= d) shape ->
  (exists l, from_memoryview esize mv shape = Ok l) <-> llen mv = esize * prodZ shape.
Proof. exact from_memoryview_ok_iff. Qed.
Print Assumptions C17_from_memoryview_ok_iff.

(* the bfloat16 branch does not gather: for a contiguous tensor (torch's is_contiguous: size-1 dimensions may carry
   any stride) it slices [offset, offset+numel) out of the storage.  That is the same buffer. *)
Theorem C17_via_storage_agrees : forall (E : Type) (elem_bytes : E -> list Z) c (t : tensor E),
  Forall (fun d => 0 <= d) (t_shape t) -> 0 <= t_offset t ->
  as_memoryview_via_storage elem_bytes c t = as_memoryview elem_bytes c t.
Proof. exact as_memoryview_via_storage_agrees. Qed.
Print Assumptions C17_via_storage_agrees.

(* ======================================================================== stager / consumer *)

(* which branch the stager takes is decided by the serializer string as the source compares it now: the value
   prepare_write records for buffer-protocol dtypes leads to tensor_as_memoryview, the other one to torch.save *)
Theorem C17_stager_dispatch :
  stage_kind serializer_BUFFER_PROTOCOL_value = 2 /\ stage_kind serializer_TORCH_SAVE_value = 1.
Proof. exact stage_dispatch. Qed.
Print Assumptions C17_stager_dispatch.

(* PARTIAL: complex and quantized dtypes go through torch.save / torch.load, which are NOT modelled: for ANY pair
   save/load with load (save x) = Some x the stager -> consumer path returns x.  That law is an assumption about
   torch, exercised (not proved) by the harness for complex64/128 and qint8/quint8/qint32. *)
Theorem C17_torch_save_path_partial : forall (T B : Type) (save : T -> B) (load : B -> option T)
  (as_mv : T -> B) (from_mv : B -> option T),
  (forall x, load (save x) = Some x) ->
  forall x,
  match stage T B save as_mv serializer_TORCH_SAVE_value x with
  | Some b => consume T B load from_mv serializer_TORCH_SAVE_value b = Some x
  | None => False
  end.
Proof. exact torch_save_path. Qed.
Print Assumptions C17_torch_save_path_partial.

(* ======================================================================== non-vacuity *)
(* 2-byte elements e -> [e; e+100]; storage 1..6 *)

(* transposed 2x3 (shape [3;2], strides [1;3]) *)
Example C17_example_transposed :
  let t := mkTensor [3; 2] [1; 3] 0 [1; 2; 3; 4; 5; 6] in
  wf_layoutb t = true /\ is_contiguous t = false /\ elems t = [1; 4; 2; 5; 3; 6] /\
  as_memoryview C17_enc2 1 t = [1; 101; 4; 104; 2; 102; 5; 105; 3; 103; 6; 106] /\
  from_memoryview 2 (as_memoryview C17_enc2 1 t) [3; 2] = Ok [[1; 101]; [4; 104]; [2; 102]; [5; 105]; [3; 103]; [6; 106]].
Proof. vm_compute. repeat split; reflexivity. Qed.

(* broadcast: expand of a length-2 vector to 3x2 (stride 0 on the first dimension) *)
Example C17_example_broadcast :
  let t := mkTensor [3; 2] [0; 1] 0 [7; 8] in
  wf_layoutb t = true /\ torch_valid_view t = true /\ elems t = [7; 8; 7; 8; 7; 8] /\
  llen (as_memoryview C17_enc2 1 t) = 12 /\
  from_memoryview 2 (as_memoryview C17_enc2 1 t) [3; 2] = Ok (map C17_enc2 [7; 8; 7; 8; 7; 8]).
Proof. vm_compute. repeat split; reflexivity. Qed.

(* storage offset + step slice: x[1::2] of a length-6 vector *)
Example C17_example_offset_step :
  let t := mkTensor [3] [2] 1 [1; 2; 3; 4; 5; 6] in
  wf_layoutb t = true /\ elems t = [2; 4; 6] /\
  from_memoryview 2 (as_memoryview C17_enc2 1 t) [3] = Ok [[2; 102]; [4; 104]; [6; 106]].
Proof. vm_compute. repeat split; reflexivity. Qed.

(* 0-d tensor at storage offset 4 *)
Example C17_example_scalar :
  let t := mkTensor [] [] 4 [1; 2; 3; 4; 5; 6] in
  wf_layoutb t = true /\ numel t = 1 /\ elems t = [5] /\
  from_memoryview 2 (as_memoryview C17_enc2 1 t) [] = Ok [[5; 105]].
Proof. vm_compute. repeat split; reflexivity. Qed.

(* zero-length dimension: shape [2;0;3] over an empty storage *)
Example C17_example_zero_length :
  let t := mkTensor [2; 0; 3] [0; 3; 1] 0 (@nil Z) in
  wf_layoutb t = true /\ numel t = 0 /\ elems t = [] /\ as_memoryview C17_enc2 1 t = [] /\
  from_memoryview 2 (as_memoryview C17_enc2 1 t) [2; 0; 3] = Ok [] /\
  from_memoryview 2 [] [2; 1; 3] = Err.
Proof. vm_compute. repeat split; reflexivity. Qed.

(* contiguous view with an offset and a size-1 dimension of arbitrary stride: slice = gather *)
Example C17_example_contiguous_slice :
  let t := mkTensor [1; 2; 2] [17; 2; 1] 2 [1; 2; 3; 4; 5; 6] in
  wf_layoutb t = true /\ is_contiguous t = true /\ elems t = [3; 4; 5; 6] /\ storage_slice t = [3; 4; 5; 6].
Proof. vm_compute. repeat split; reflexivity. Qed.

(* wrong buffer lengths are rejected *)
Example C17_example_malformed :
  from_memoryview 2 [1; 2; 3] [1] = Err /\ from_memoryview 2 [1; 2; 3; 4] [1] = Err /\
  from_memoryview 2 [1; 2; 3; 4] [2] = Ok [[1; 2]; [3; 4]].
Proof. vm_compute. repeat split; reflexivity. Qed.

(* the generated tables say what the source says *)
Example C17_example_tables :
  Dtype_get Dtype_bfloat16 dtype_to_element_size_table = Some 2 /\
  C17_carrier_ok Dtype_bfloat16 = true /\
  Dtype_mem Dtype_bfloat16 buffer_protocol_supported_dtypes = true.
Proof. vm_compute. repeat split; reflexivity. Qed.
