(* C18 - read_object returns what restore would, under any memory budget.  Property theorems only. *)
From TS Require Import model.Base model.Chunk model.Batch model.Pipeline proofs.ChunkProofs proofs.BatchProofs proofs.PipelineProofs.
From TS Require Import gen.SchedGen model.Sched proofs.SchedProofs proofs.SchedRead.
From TS Require Import model.Dispatch gen.DispatchGen proofs.DispatchInst gen.ChunkGen proofs.ChunkGenProofs.

(* A read tiled under ANY buffer limit >= 1 (= memory_budget_bytes) returns exactly the bytes of the entry:
   the concatenation of what the tile consumers copy into consecutive slices of the output equals
   object[base : base + esize * numel], for every shape (0-d, zero-length dims included), element size, base
   offset (slab member or whole file), flattenable output or not. *)
Theorem C18_tiled_read_returns_entry_bytes : forall (obj : bytes) shape flat esize limit base,
  1 <= limit -> 0 < esize -> Forall (fun s => 0 <= s) shape -> (flat = false -> shape <> []) -> 0 <= base ->
  tiled_read obj shape flat esize limit base = Some (slice obj base (base + esize * prodZ shape)).
Proof. exact tiled_read_exact. Qed.
Print Assumptions C18_tiled_read_returns_entry_bytes.

(* ... which is what the untiled read (restore) hands to its single consumer *)
Theorem C18_tiled_equals_untiled : forall (obj : bytes) shape flat esize limit base,
  1 <= limit -> 0 < esize -> Forall (fun s => 0 <= s) shape -> (flat = false -> shape <> []) -> 0 <= base ->
  tiled_read obj shape flat esize limit base = Some (read_obj obj (Some (base, base + esize * prodZ shape))).
Proof. intros. unfold read_obj. apply tiled_read_exact; assumption. Qed.
Print Assumptions C18_tiled_equals_untiled.

(* Tile sizes for a flattenable output: never a whole element above the limit; within the limit when the limit
   is a multiple of the element size.  (A limit that is not a multiple of the element size can yield a tile
   larger than the limit by less than one element: that tile is 'oversized' and, by the next theorem, runs alone.) *)
Theorem C18_flat_tile_cost_bound : forall shape esize limit base ts,
  1 <= limit -> 0 < esize -> Forall (fun s => 0 <= s) shape ->
  tile shape true esize limit base = Some ts ->
  Forall (fun t => snd (tile_range t) - fst (tile_range t) < limit + esize /\
                   (limit mod esize = 0 -> snd (tile_range t) - fst (tile_range t) <= limit)) ts.
Proof. exact flat_tile_cost_bound. Qed.
Print Assumptions C18_flat_tile_cost_bound.

(* In-flight bytes while the tiles are read and consumed, for every completion order and dispatch order: within
   the budget, or a single (oversized) tile is in flight; and never more than K concurrent reads.
   (requests = the tiles, cost = buffer size = tile length; this instantiates C10_read_budget_and_cap) *)
Theorem C18_inflight_within_budget : forall shape flat esize limit base ts B K evs,
  1 <= limit -> 0 < esize -> Forall (fun s => 0 <= s) shape -> (flat = false -> shape <> []) ->
  tile shape flat esize limit base = Some ts -> 0 <= B -> 0 <= K ->
  let s := rrun (tile_costs ts) K B evs in
  (rheld (tile_costs ts) s <= B \/ rinflight s <= 1) /\ zlen (rio s) <= K.
Proof. exact tiled_read_within_budget. Qed.
Print Assumptions C18_inflight_within_budget.

(* Non-vacuity: a 3x4 float32 tensor stored at offset 5 of a slab, read with a 10-byte limit (not a multiple of
   4): tiles of 12 bytes (one element above the limit), reassembled exactly. *)
Example C18_example :
  let obj := map Z.of_nat (seq 0 60) in
  tile [3; 4] true 4 10 5 = Some [(5, 17, [3]); (17, 29, [3]); (29, 41, [3]); (41, 53, [3])] /\
  tiled_read obj [3; 4] true 4 10 5 = Some (map Z.of_nat (seq 5 48)).
Proof. vm_compute. split; reflexivity. Qed.

(* ------------------------------------------------------------------ the same over the source as it is now *)
(* tile_g (proofs/ChunkGenProofs.v) is the tiling with num_chunks, chunk_sz_bytes and both byte_range forms taken from
   gen/ChunkGen.v, regenerated on every run from io_preparers/tensor.py prepare_read_tiled.  Entry with a byte range
   (slab member) and without (own file). *)
Theorem C18_generated_tiled_read_returns_entry_bytes : forall (obj : bytes) shape flat esize limit (base : option Z),
  1 <= limit -> 0 < esize -> Forall (fun s => 0 <= s) shape -> (flat = false -> shape <> []) ->
  0 <= match base with None => 0 | Some b => b end ->
  option_map (fun ts => concat (cut obj ts)) (tile_g shape flat esize limit base)
  = Some (let b := match base with None => 0 | Some b => b end in slice obj b (b + esize * prodZ shape)).
Proof.
  intros obj shape flat esize limit base Hl He Hs Hf Hb. rewrite tile_g_eq.
  pose proof (tiled_read_exact obj shape flat esize limit _ Hl He Hs Hf Hb) as H.
  unfold tiled_read in H. destruct (tile shape flat esize limit _); [|discriminate H].
  cbn [option_map]. exact H.
Qed.
Print Assumptions C18_generated_tiled_read_returns_entry_bytes.

(* read_object's memory budget is handed on as the buffer limit for exactly the entry classes that can be tiled
   (TensorEntry, ChunkedTensorEntry); every other readable entry goes to its own preparer untiled.  g_read_kind is
   regenerated from io_preparer.prepare_read and the class statements of manifest.py. *)
Theorem C18_generated_limit_reaches_tiling_preparers : forall k : wkind,
  g_read_kind (entry_class_of k) = Some (reader_of k, match k with WChunked | WTensor => true | _ => false end).
Proof. exact read_routing. Qed.
Print Assumptions C18_generated_limit_reaches_tiling_preparers.

(* Snapshot.read_object, as wired in the source now (regenerated by translator/gen_dispatch.py): the memory budget is the
   buffer limit handed to prepare_read; a budgeted read is NOT merged back by read batching (whatever the batching knob),
   an unbudgeted one is batched exactly when batching is enabled; the read scheduler gets the budget itself (any b > 0),
   the cap when none is given. *)
Theorem C18_generated_read_object_wiring :
  g_ro_limit_is_budget = true /\
  (forall d, g_ro_batches d true = false) /\
  (forall d, g_ro_batches d false = negb d) /\
  (forall b cap, 0 < b -> g_ro_exec_budget (Some b) cap = b) /\
  (forall cap, g_ro_exec_budget None cap = cap).
Proof. exact read_object_wiring. Qed.
Print Assumptions C18_generated_read_object_wiring.
