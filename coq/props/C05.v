(* C05 - Committed manifest entries exist, fit, are disjoint, written once, confined.
   Property theorems only; each closed by [exact] of a lemma from proofs/StoragePathProofs.v.
   Model: model/StoragePath.v (what is not modelled is listed in its header); flatten / _encode: model/Flatten.v (C15);
   slabs: model/Batch.v (C16); consolidation of replicated entries: model/Partition.v (C06).

   Vocabulary
     litem                 one write request of one leaf: (is_sharded, replicated, rank, logical path as components,
                           chunk / shard offsets or None)
     location_of a         the location string the code computes (get_storage_path + the "_<offsets>" suffix)
     resolve_s loc         what os.path.join(root, loc) + the file system make of it: Some components below the root,
                           None when the location is absolute or climbs above the root
     okc c                 c has no "/", is not "." and not ".."      (every component _encode / str(idx) produces)
     no_empty_component q  no component of q is the empty string
     no_suffix_clash p p'  p' is not  p ++ "_" ++ t  for any t made of digits, "_" and "-" *)
From TS Require Import model.Base model.Flatten proofs.FlattenProofs gen.FlattenGen proofs.FlattenInst.
From TS Require Import model.Chunk model.Batch proofs.ChunkProofs proofs.BatchProofs.
From TS Require Import gen.PartitionGen model.Partition proofs.PartitionProofs.
From TS Require Import model.StoragePath proofs.StoragePathProofs.
From TS Require Import model.Dispatch gen.DispatchGen model.DispatchGenObs proofs.DispatchInst.
From Coq Require Import Permutation.

(* ------------------------------------------------------------------ confined *)
(* For EVERY object, every non-empty app_state key, every leaf path q that flatten produces, all four storage
   prefixes, every rank and every chunk / shard offset list: the location never resolves outside the snapshot root;
   and when no key on the way is the empty string the file system takes the location literally (it denotes itself:
   no component is dropped or merged, so nothing else can alias it - see C05_location_injective). *)
Theorem C05_confined : forall (o : obj) (appkey : pystr) (q : path) (sh rp : bool) (rank : Z) (offs : option (list Z)),
  appkey <> [] -> In q (map fst (snd (flatten_top o appkey))) ->
  (exists l, resolve_s (location_of (mkLoc sh rp rank q offs)) = Some l) /\
  (no_empty_component q ->
   resolve_s (location_of (mkLoc sh rp rank q offs)) = Some (split (location_of (mkLoc sh rp rank q offs)))).
Proof. exact confined. Qed.
Print Assumptions C05_confined.

(* a slab "batched/<uuid>" denotes itself, for every uuid string that is a plain component (str(uuid4()) is) *)
Theorem C05_confined_slab : forall u : pystr, plain u ->
  slab_location u = join [s_batched; u] /\ resolve_s (slab_location u) = Some [s_batched; u].
Proof. exact slab_location_resolves. Qed.
Print Assumptions C05_confined_slab.

(* Before commit 69c8b93 ("." and ".." not escaped) the statement is false: {"..": {"..": {"..": {"x": t}}}} under
   the app key "m" is written to "0/m/../../../x", outside the root.  Replayed on the real code by the harness
   (expected NOT to reproduce any more). *)
Theorem C05_confined_legacy_refuted :
  exists q : path, Forall (fun c => exists s, c = encode_legacy s) q /\ relative q /\ no_empty_component q /\
                   resolve_s (location_of (mkLoc false false 0 q None)) = None.
Proof. exact confined_legacy_refuted. Qed.
Print Assumptions C05_confined_legacy_refuted.

(* The hypothesis appkey <> "" is forced: app_state = {"": StateDict(x=t)} gives the logical path "/x", the storage
   path os.path.join("0", "/x") = "/x" and the file os.path.join(root, "/x") = "/x".  KNOWN FINDING
   C05:empty-app-state-key:absolute-path-escapes-root (reproduced on the real code on every run). *)
Theorem C05_confined_empty_app_key_refuted :
  exists (o : obj) (q : path), In q (map fst (snd (flatten_top o []))) /\
    location_of (mkLoc false false 0 q None) = [47; 120] /\
    resolve_s (location_of (mkLoc false false 0 q None)) = None.
Proof. exact confined_empty_app_key_refuted. Qed.
Print Assumptions C05_confined_empty_app_key_refuted.

(* ------------------------------------------------------------------ tie of _encode to the source text *)
(* gen/FlattenGen.v is regenerated from /repo/torchsnapshot/flatten.py on every run (translator/gen_flatten.py, fail
   closed): the _encode that the current source defines is the modelled one - in particular it escapes "/", "%" and
   the components "." and "..". *)
Theorem C05_encode_source_is_model : forall s : pystr, encode_gen s = encode s.
Proof. exact encode_gen_is_encode. Qed.
Print Assumptions C05_encode_source_is_model.

(* ------------------------------------------------------------------ distinct objects, distinct files *)
(*   wf_path q   := q <> [] /\ Forall okc q          (C05_flatten_paths_wf: true of every path flatten produces)
     relative q  := the first component (the encoded app_state key) is not empty
     same_object a b := same storage prefix, same logical path, same chunk / shard offsets
   For all saved pieces a, b (any prefixes, ranks, paths of any depth, offset lists of any length):
   if the file system resolves their locations to the same file, they are the same piece - PROVIDED no key on the
   way is empty and neither logical path is the other one plus "_" + offset-suffix characters. *)
Theorem C05_location_injective : forall a b : litem,
  wf_path (li_path a) -> wf_path (li_path b) -> relative (li_path a) -> relative (li_path b) ->
  no_empty_component (li_path a) -> no_empty_component (li_path b) ->
  no_suffix_clash (join (li_path a)) (join (li_path b)) -> no_suffix_clash (join (li_path b)) (join (li_path a)) ->
  resolve_s (location_of a) = resolve_s (location_of b) -> same_object a b.
Proof. exact location_injective. Qed.
Print Assumptions C05_location_injective.

(* same prefix <-> same storage class, and the same rank for rank-private objects: objects of different ranks never
   share a location, replicated / sharded ones are told apart by path and offsets only *)
Theorem C05_prefix_injective : forall sh rp r sh' rp' r', prefix_of sh rp r = prefix_of sh' rp' r' ->
  sh = sh' /\ rp = rp' /\ (sh = false -> rp = false -> r = r').
Proof. exact prefix_of_inj. Qed.
Print Assumptions C05_prefix_injective.

(* the hypotheses hold for everything flatten produces under a non-empty app_state key, except no_empty_component *)
Theorem C05_flatten_paths_wf : forall (o : obj) (appkey : pystr) (q : path),
  In q (all_paths o [encode appkey]) -> wf_path q /\ (appkey <> [] -> relative q).
Proof. exact flatten_path_wf. Qed.
Print Assumptions C05_flatten_paths_wf.

(* slabs: "batched/<uuid>" is never an object's own location; distinct uuids are distinct files *)
Theorem C05_slab_locations_apart : forall (u u' : pystr) (a : litem),
  plain u -> plain u' -> wf_path (li_path a) -> relative (li_path a) ->
  resolve_s (slab_location u) <> resolve_s (location_of a) /\
  (resolve_s (slab_location u) = resolve_s (slab_location u') -> u = u').
Proof.
  intros u u' a Hu Hu' W R. split; [exact (slab_vs_item u a Hu W R) | exact (slab_location_injective u u' Hu Hu')].
Qed.
Print Assumptions C05_slab_locations_apart.

(* no_suffix_clash is forced: {"w": chunked, "w_0": t} under "m" - chunk [0] of "m/w" and the leaf "m/w_0" have the
   SAME location string "0/m/w_0".  KNOWN FINDING C05:location-clash:chunk-suffix-equals-sibling-key. *)
Theorem C05_suffix_clash_refuted :
  exists a b, wf_path (li_path a) /\ wf_path (li_path b) /\ relative (li_path a) /\ relative (li_path b) /\
              no_empty_component (li_path a) /\ no_empty_component (li_path b) /\
              location_of a = location_of b /\ ~ same_object a b.
Proof. exact suffix_clash_refuted. Qed.
Print Assumptions C05_suffix_clash_refuted.

(* no_empty_component is forced: {"": {"x": t}, "x": t'} under "m" - "0/m//x" and "0/m/x" are different strings (and
   no suffix clash) but the same file.  KNOWN FINDING C05:empty-key-component. *)
Theorem C05_empty_component_refuted :
  exists a b, wf_path (li_path a) /\ wf_path (li_path b) /\ relative (li_path a) /\ relative (li_path b) /\
              no_suffix_clash (join (li_path a)) (join (li_path b)) /\ no_suffix_clash (join (li_path b)) (join (li_path a)) /\
              location_of a <> location_of b /\
              resolve_s (location_of a) = resolve_s (location_of b) /\ ~ same_object a b.
Proof. exact empty_component_refuted. Qed.
Print Assumptions C05_empty_component_refuted.

(* ------------------------------------------------------------------ byte ranges of distinct saved objects never overlap *)
(*   layout_refs items slabs : every reference a manifest holds - each un-batched piece refers to its own location as a
       whole object; each member of slab (uuid, members) refers to "batched/<uuid>" with its byte range
     overlaps r1 r2 : the two references resolve to the same file and (one is the whole object or the ranges share a byte)
     good_item a  := wf_path, relative, no_empty_component     distinct_objects a b := ~ same_object /\ no suffix clash
     good_slab T s (C16): non-empty, ranges consecutive from 0 to the slab size < T  - what batch_write_requests builds
   For every threshold, every list of pairwise distinct objects, every list of slabs under pairwise distinct plain
   uuids (the uuid4 oracle): NO two references overlap - within one slab by consecutiveness (C16), across slabs and
   between slabs and own locations because the files differ. *)
Theorem C05_ranges_disjoint : forall T (items : list litem) (slabs : list (pystr * list Batch.member)),
  Forall good_item items -> ForallOrdPairs distinct_objects items ->
  NoDup (map fst slabs) -> Forall (fun s => plain (fst s) /\ BatchProofs.good_slab T (snd s)) slabs ->
  ForallOrdPairs (fun r1 r2 => overlaps r1 r2 = false) (layout_refs items slabs).
Proof. exact ranges_disjoint. Qed.
Print Assumptions C05_ranges_disjoint.

(* ------------------------------------------------------------------ raw size *)
(* Buffer-protocol tensors (path id, batchable, shape, element size; sizes >= 0; distinct paths), any threshold T >= 1.
   After batch_write_requests every tensor is EITHER passed through unchanged (its entry keeps byte_range None and the
   object written is the stager's buffer of esize * prod(shape) bytes - C17_serialized_length) OR relocated to exactly
   one slab member whose range has length esize * prod(shape) and lies inside the slab [0, slab size). *)
Theorem C05_raw_size : forall T (ts : list treq) slabs pass reloc,
  1 <= T -> Forall (fun t => 0 <= t_esize t /\ Forall (fun s => 0 <= s) (t_shape t)) ts -> NoDup (map t_path ts) ->
  Batch.batch_write T (map treq_wreq ts) = (slabs, pass, reloc) ->
  forall t, In t ts ->
    (Batch.dict_get Z.eqb (t_path t) reloc = None /\ In (treq_wreq t) pass)
    \/ (exists k ms lo hi, Batch.dict_get Z.eqb (t_path t) reloc = Some (k, lo, hi) /\ In (k, ms) slabs /\
                           In (t_path t, lo, hi) ms /\
                           hi - lo = t_esize t * prodZ (t_shape t) /\ 0 <= lo /\ hi <= Batch.slab_sz ms).
Proof. exact raw_size. Qed.
Print Assumptions C05_raw_size.

(* chunks: the pieces of a chunked tensor are boxes whose byte sizes esize * prod(piece shape) add up to the whole
   tensor (each piece is written as a tensor of its own shape, so C05_raw_size applies to it) *)
Theorem C05_raw_size_chunks : forall shape dim esize csz,
  1 <= csz -> 0 < esize -> Forall (fun s => 0 < s) shape -> (dim < length (Chunk.shape1 shape))%nat ->
  exists pieces, Chunk.chunk_tensor shape dim esize csz = Some pieces /\
                 sumZ (map (fun p : Chunk.box => esize * prodZ (snd p)) pieces) = esize * prodZ (Chunk.shape1 shape).
Proof.
  intros shape dim esize csz H1 H2 H3 H4. destruct (ChunkProofs.chunk_partition shape dim esize csz H1 H2 H3 H4) as [pieces [E P]].
  exists pieces. split; [exact E|]. destruct P as (lens & _ & _ & _ & _ & _ & S). exact S.
Qed.
Print Assumptions C05_raw_size_chunks.

(* ------------------------------------------------------------------ the manifest lists every leaf exactly once *)
(* one rank: the leaf paths of all its stateful objects (any objects, pairwise distinct app_state keys) are pairwise
   distinct strings (C15 path uniqueness + injective, "/"-free _encode), and relative when no app key is "" *)
Theorem C05_rank_leaf_paths_distinct : forall st : list (pystr * obj),
  NoDup (map fst st) ->
  NoDup (rank_leaf_paths st) /\
  (Forall (fun kv : pystr * obj => fst kv <> []) st -> Forall relative_str (rank_leaf_paths st)).
Proof. intros st N. split; [exact (rank_leaf_paths_nodup st N) | exact (rank_leaf_paths_relative st)]. Qed.
Print Assumptions C05_rank_leaf_paths_distinct.

(* all ranks: per-rank manifests ms (model/Partition.v: path ids, replicated flag per entry; keys distinct per rank;
   a path replicated everywhere it appears or nowhere), consolidated as _gather_manifest does (C06), path ids named by
   any injective [name] into relative path strings (by the theorem above: the leaf path strings).  Then the global
   manifest keys "<rank>/<path>" are pairwise distinct; every private leaf of rank r is listed under r; every
   replicated leaf is listed under rank 0 and under no other rank - once for the whole job. *)
Theorem C05_manifest_lists_each_leaf_once : forall (name : Z -> pystr) (ms ms' : list Partition.manifest),
  (forall a b, name a = name b -> a = b) -> (forall a, relative_str (name a)) ->
  ms <> [] -> PartitionProofs.keys_distinct ms -> PartitionProofs.consistent ms -> Partition.consolidate ms = Some ms' ->
  NoDup (global_paths (named_keys name ms')) /\
  (forall r p e, In (p, e) (nth r ms []) -> Partition.is_repl e = false ->
     In (manifest_path (Z.of_nat r) (name p)) (global_paths (named_keys name ms'))) /\
  (forall m p e, In m ms -> In (p, e) m -> Partition.is_repl e = true ->
     In (manifest_path 0 (name p)) (global_paths (named_keys name ms')) /\
     forall r, (1 <= r)%nat -> ~ In (manifest_path (Z.of_nat r) (name p)) (global_paths (named_keys name ms'))).
Proof. exact manifest_lists_each_leaf_once. Qed.
Print Assumptions C05_manifest_lists_each_leaf_once.

(* ------------------------------------------------------------------ non-vacuity: the adversarial names *)
(* app key "m"; keys "..", ".", "%2E", "a/b", "a%2Fb", "w", "w_0" *)
Definition C05_ex_obj : obj :=
  ODict false [(KStr [46; 46], ODict false [(KStr [46; 46], Leaf 1)]); (KStr [46], Leaf 2); (KStr [37; 50; 69], Leaf 3);
               (KStr [97; 47; 98], Leaf 4); (KStr [97; 37; 50; 70; 98], Leaf 5); (KStr [119], Leaf 6); (KStr [119; 95; 48], Leaf 7)].

Example C05_ex_leaf_paths :
  map fst (snd (flatten_s C05_ex_obj [109])) =
  [[109; 47; 37; 50; 69; 37; 50; 69; 47; 37; 50; 69; 37; 50; 69];       (* m/%2E%2E/%2E%2E *)
   [109; 47; 37; 50; 69];                                               (* m/%2E *)
   [109; 47; 37; 50; 53; 50; 69];                                       (* m/%252E *)
   [109; 47; 97; 37; 50; 70; 98];                                       (* m/a%2Fb *)
   [109; 47; 97; 37; 50; 53; 50; 70; 98];                               (* m/a%252Fb *)
   [109; 47; 119]; [109; 47; 119; 95; 48]].                             (* m/w  m/w_0 *)
Proof. vm_compute. reflexivity. Qed.

(* every location of these leaves, for the four prefixes, resolves to itself *)
Example C05_ex_resolve_identity :
  forallb (fun q => forallb (fun pr : bool * bool =>
     opt_path_eqb (resolve_s (location_of (mkLoc (fst pr) (snd pr) 3 q (Some [0; 4]))))
                  (Some (split (location_of (mkLoc (fst pr) (snd pr) 3 q (Some [0; 4]))))))
     [(false, false); (false, true); (true, false); (true, true)])
    (map fst (snd (flatten_top C05_ex_obj [109]))) = true.
Proof. vm_compute. reflexivity. Qed.

Example C05_ex_locations :
  location_of (mkLoc false false 3 [[109]; [119]] (Some [0; 4])) = [51; 47; 109; 47; 119; 95; 48; 95; 52]    (* 3/m/w_0_4 *)
  /\ location_of (mkLoc false true 3 [[109]; [119]] None) = s_replicated ++ [47; 109; 47; 119]
  /\ location_of (mkLoc true false 3 [[109]; [119]] (Some [2])) = s_sharded ++ [47; 109; 47; 119; 95; 50]
  /\ slab_location [97; 98] = [98; 97; 116; 99; 104; 101; 100; 47; 97; 98]
  /\ manifest_path 2 [109; 47; 119] = [50; 47; 109; 47; 119].
Proof. vm_compute. repeat split; reflexivity. Qed.

(* resolution of "", ".", "..", absolute locations *)
Example C05_ex_resolve :
  resolve_s [48; 47; 109; 47; 47; 120] = Some [[48]; [109]; [120]]                   (* "0/m//x"  -> 0/m/x *)
  /\ resolve_s [48; 47; 109; 47] = Some [[48]; [109]]                                 (* "0/m/"    -> the directory 0/m *)
  /\ resolve_s [48; 47; 46; 47; 120] = Some [[48]; [120]]                             (* "0/./x" *)
  /\ resolve_s [48; 47; 109; 47; 46; 46; 47; 120] = Some [[48]; [120]]                (* "0/m/../x" *)
  /\ resolve_s [48; 47; 46; 46; 47; 46; 46; 47; 120] = None                           (* "0/../../x" *)
  /\ resolve_s [47; 120] = None                                                      (* "/x" *)
  /\ resolve_s [] = Some [].
Proof. vm_compute. repeat split; reflexivity. Qed.

(* the hypotheses of C05_ranges_disjoint are satisfiable: two objects (one chunked in two pieces), two slabs *)
Example C05_ex_layout :
  let items := [mkLoc false false 0 [[109]; [119]] (Some [0]); mkLoc false false 0 [[109]; [119]] (Some [4]);
                mkLoc false true 0 [[109]; [120]] None] in
  let slabs := [([97], [(10, 0, 2); (11, 2, 3)]); ([98], [(12, 0, 3); (13, 3, 3)])] in
  obs_overlaps (layout_refs items slabs) = VL []
  /\ obs_overlaps (layout_refs (items ++ [mkLoc false false 0 [[109]; [119; 95; 48]] None]) slabs) = VL [VL [VZ 0; VZ 3]].
Proof. vm_compute. split; reflexivity. Qed.

(* ------------------------------------------------------------------ the location strings, as the source builds them now *)
(* gen/DispatchGen.v is regenerated on every run by translator/gen_dispatch.py from get_storage_path (io_preparer.py), the
   piece suffixes of ChunkedTensorIOPreparer / ShardedTensorIOPreparer.prepare_write, Slab.location (batcher.py) and the
   key of the global manifest (Snapshot._gather_manifest).  They are the functions the theorems above are about. *)
Theorem C05_generated_locations_are_model :
  (forall a : litem, g_location_of a = location_of a) /\
  (forall u, g_slab_location u = slab_location u) /\
  (forall r lp, g_manifest_path r lp = manifest_path r lp) /\
  (forall st dt sp, g_is_sharded st dt sp = (st || (dt && sp))).
Proof.
  split; [exact g_location_of_eq|]. split; [exact g_slab_location_eq|]. split; [exact g_manifest_path_eq | exact g_is_sharded_spec].
Qed.
Print Assumptions C05_generated_locations_are_model.

(* ... hence distinct objects get distinct files under the generated location function *)
Theorem C05_generated_location_injective : forall a b : litem,
  wf_path (li_path a) -> wf_path (li_path b) -> relative (li_path a) -> relative (li_path b) ->
  no_empty_component (li_path a) -> no_empty_component (li_path b) ->
  no_suffix_clash (join (li_path a)) (join (li_path b)) -> no_suffix_clash (join (li_path b)) (join (li_path a)) ->
  resolve_s (g_location_of a) = resolve_s (g_location_of b) -> same_object a b.
Proof.
  intros a b Wa Wb Ra Rb Ea Eb Sab Sba H. rewrite !g_location_of_eq in H.
  exact (location_injective a b Wa Wb Ra Rb Ea Eb Sab Sba H).
Qed.
Print Assumptions C05_generated_location_injective.
