(* C05 - Committed manifest entries exist, fit, are disjoint, written once, confined.
   Property theorems only; each closed by [exact] of a lemma from proofs/StoragePathProofs.v.
   Model: model/StoragePath.v (what is not modelled is listed in its header); flatten / _encode: model/Flatten.v (C15);
   slabs: model/Batch.v (C16); consolidation of replicated entries: model/Partition.v (C06).

   Vocabulary
     litem                 one write request of one leaf: (is_sharded, replicated, rank, logical path as components,
                           chunk / shard offsets or None)
     location_of a         the location string the code computes (get_storage_path + the "_<offsets>" suffix)
     resolve_s loc         what os.path.join(root, loc) + the file system make of it: Some components below the root,
                           None when the location is absolute or climbs above the root
     okc c                 c has no "/", is not "." and not ".."      (every component _encode / str(idx) produces)
     no_empty_component q  no component of q is the empty string
     no_suffix_clash p p'  p' is not  p ++ "_" ++ t  for any t made of digits, "_" and "-" *)
From TS Require Import model.Base model.Flatten proofs.FlattenProofs model.StoragePath proofs.StoragePathProofs.
From Coq Require Import Permutation.

(* ------------------------------------------------------------------ confined *)
(* For EVERY object, every non-empty app_state key, every leaf path q that flatten produces, all four storage
   prefixes, every rank and every chunk / shard offset list: the location never resolves outside the snapshot root;
   and when no key on the way is the empty string the file system takes the location literally (it denotes itself:
   no component is dropped or merged, so nothing else can alias it - see C05_location_injective). *)
Theorem C05_confined : forall (o : obj) (appkey : pystr) (q : path) (sh rp : bool) (rank : Z) (offs : option (list Z)),
  appkey <> [] -> In q (map fst (snd (flatten_top o appkey))) ->
  (exists l, resolve_s (location_of (mkLoc sh rp rank q offs)) = Some l) /\
  (no_empty_component q ->
   resolve_s (location_of (mkLoc sh rp rank q offs)) = Some (split (location_of (mkLoc sh rp rank q offs)))).
Proof. exact confined. Qed.
Print Assumptions C05_confined.

(* a slab "batched/<uuid>" denotes itself, for every uuid string that is a plain component (str(uuid4()) is) *)
Theorem C05_confined_slab : forall u : pystr, plain u ->
  slab_location u = join [s_batched; u] /\ resolve_s (slab_location u) = Some [s_batched; u].
Proof. exact slab_location_resolves. Qed.
Print Assumptions C05_confined_slab.

(* Before commit 69c8b93 ("." and ".." not escaped) the statement is false: {"..": {"..": {"..": {"x": t}}}} under
   the app key "m" is written to "0/m/../../../x", outside the root.  Replayed on the real code by the harness
   (expected NOT to reproduce any more). *)
Theorem C05_confined_legacy_refuted :
  exists q : path, Forall (fun c => exists s, c = encode_legacy s) q /\ relative q /\ no_empty_component q /\
                   resolve_s (location_of (mkLoc false false 0 q None)) = None.
Proof. exact confined_legacy_refuted. Qed.
Print Assumptions C05_confined_legacy_refuted.

(* The hypothesis appkey <> "" is forced: app_state = {"": StateDict(x=t)} gives the logical path "/x", the storage
   path os.path.join("0", "/x") = "/x" and the file os.path.join(root, "/x") = "/x".  KNOWN FINDING
   C05:empty-app-state-key:absolute-path-escapes-root (reproduced on the real code on every run). *)
Theorem C05_confined_empty_app_key_refuted :
  exists (o : obj) (q : path), In q (map fst (snd (flatten_top o []))) /\
    location_of (mkLoc false false 0 q None) = [47; 120] /\
    resolve_s (location_of (mkLoc false false 0 q None)) = None.
Proof. exact confined_empty_app_key_refuted. Qed.
Print Assumptions C05_confined_empty_app_key_refuted.
