(* C13 - Async commit barrier: commit after all arrive; errors reach every rank.
   Property theorems only; proofs in proofs/BarrierProofs.v.  The model (model/Barrier.v) follows
   LinearBarrier.arrive/depart/report_error and PendingSnapshot._complete_snapshot at the granularity of one
   store operation / one I/O completion / one metadata write per step; proofs/BarrierInst.v checks that the
   skeleton extracted from the source on this run is the one the model implements.

   Common setting of the theorems: a job is a store [st0] plus a history [h] of snapshot instances (prefix id,
   world size, fault plan: ranks whose I/O fails, metadata-write failure, ranks ABSENT from the protocol).
   [fresh st0 h]: the store holds no key under any prefix of the history; [distinct_prefixes h]: the prefixes are
   pairwise distinct (what the per-snapshot barrier id provides; the uniqueness of the random 63-bit id is an
   assumption).  A schedule is ANY list of choices (instance, rank, KStep | KTimeout): all instances may overlap
   arbitrarily, choices that are not enabled are no-ops, no fairness is assumed.
     KStep    = the rank's next store operation / I/O completion / metadata write;
     KTimeout = the rank's pending store.wait(keys, timeout) raises: enabled whenever the rank's next operation is a
                store.wait (leader: wait for the peers' keys in arrive; peer: wait for the leader's key in depart),
                ALSO when the awaited keys are present or about to be set (spurious timeouts); the exception is
                caught by `except Exception` in _complete_snapshot, whose next step is report_error.
   An absent rank (it raised inside async_take, before its background thread and barrier existed) never steps.
   [i_tmo x r] is a history variable: rank r of the snapshot has taken a timeout step.
   Every theorem holds for every world size (including 1), every fault plan, every set of absent ranks, every
   history, every schedule with arbitrarily many timeout choices - unless it says otherwise. *)
From TS Require Import model.Base model.Barrier proofs.BarrierProofs gen.BarrierGen proofs.BarrierInst.

(* ================================================================== safety: unchanged by timeouts and absences *)

(* The leader writes the metadata only after every rank of that snapshot has completed its I/O successfully.
   (Statement unchanged; it now holds with arbitrary timeouts and absent ranks.) *)
Theorem C13_commit_after_all_arrive : forall st0 h sch i x,
  fresh st0 h -> distinct_prefixes h ->
  nth_error (g_insts (grun (ginit st0 h) sch)) i = Some x ->
  i_meta x = true ->
  forall r, (r < i_W x)%nat -> i_iodone x r = true /\ iofails x r = false.
Proof. exact commit_after_all_arrive. Qed.
Print Assumptions C13_commit_after_all_arrive.

(* No rank (leader or not) reports completion before the leader has committed.  (Statement unchanged.) *)
Theorem C13_depart_after_commit : forall st0 h sch i x,
  fresh st0 h -> distinct_prefixes h ->
  nth_error (g_insts (grun (ginit st0 h) sch)) i = Some x ->
  forall r, (r < i_W x)%nat -> i_pcs x r = PDone -> i_meta x = true.
Proof. exact depart_after_commit. Qed.
Print Assumptions C13_depart_after_commit.

(* Error reaches everyone.  [global_cause x] = a fault in the plan of snapshot i (some rank's I/O fails, or the
   metadata write fails) OR some rank of i is absent OR the LEADER has taken a timeout step (in arrive).  Then in
   every reachable state no rank of i has completed successfully (no wait() returns normally), every rank whose
   background thread has terminated has Raised, and the metadata is not written (for a metadata-write failure this
   relies on the write being atomic in the model).
   What is NOT in the hypothesis - and cannot be, see C13_timeout_error_reaches_everyone_refuted - is a timeout
   step of a PEER (in depart). *)
Theorem C13_error_reaches_everyone : forall st0 h sch i x,
  fresh st0 h -> distinct_prefixes h ->
  nth_error (g_insts (grun (ginit st0 h) sch)) i = Some x ->
  global_cause x ->
  (forall r, (r < i_W x)%nat -> i_pcs x r <> PDone) /\
  (forall r, (r < i_W x)%nat -> terminated (i_pcs x r) = true -> i_pcs x r = PRaised) /\
  i_meta x = false.
Proof. exact error_reaches_everyone_gen. Qed.
Print Assumptions C13_error_reaches_everyone.

(* The statement of the timeout-free model, literally (hypothesis: a fault in the plan): a corollary. *)
Corollary C13_fault_reaches_everyone : forall st0 h sch i x,
  fresh st0 h -> distinct_prefixes h ->
  nth_error (g_insts (grun (ginit st0 h) sch)) i = Some x ->
  has_fault x ->
  (forall r, (r < i_W x)%nat -> i_pcs x r <> PDone) /\
  (forall r, (r < i_W x)%nat -> terminated (i_pcs x r) = true -> i_pcs x r = PRaised) /\
  i_meta x = false.
Proof. exact error_reaches_everyone. Qed.
Print Assumptions C13_fault_reaches_everyone.

(* A PEER's timeout error does NOT reach everyone.  Fault-free snapshot of world size 2, every rank present: the
   leader has read rank 1's (empty) key; rank 1's wait for the leader's key then times out (spuriously: the leader
   is about to commit); the leader writes the metadata and succeeds; rank 1 reports the error under its own key,
   which nobody reads any more, and its wait() raises although the snapshot is committed and complete.
   (Stated on observables: one snapshot, W = 2, empty fault plan, nobody absent; timeout flags [false; true];
   outcomes [Done; Raised]; metadata written; keys [leader: ""; rank 1: error text].)
   The safety half of the property survives (the rank that reports SUCCESS is right); the propagation half does
   not: "an error on any rank makes every rank's wait() raise with nothing committed" is false for the error
   "store.wait timed out in depart". *)
Theorem C13_timeout_error_reaches_everyone_refuted : exists h sch,
  fresh [] h /\ distinct_prefixes h /\
  map sp_W h = [2%nat] /\ map sp_iofail h = [[]] /\ map sp_metafail h = [false] /\ map sp_absent h = [[]] /\
  BarrierTimedOut (grun (ginit [] h) sch) 0 = [false; true] /\
  BarrierOutcomes (grun (ginit [] h) sch) 0 = [0; 1] /\
  BarrierMeta (grun (ginit [] h) sch) 0 = true /\
  BarrierIoDone (grun (ginit [] h) sch) 0 = [true; true] /\
  BarrierKeys (grun (ginit [] h) sch) 0 = [Some VOk; Some VErr].
Proof.
  exists [ {| sp_prefix := 1; sp_W := 2%nat; sp_iofail := []; sp_metafail := false; sp_absent := [] |} ],
         (steps [(0, 0); (0, 1); (0, 1); (0, 0); (0, 0)]%nat ++ [(0, 1, KTimeout)%nat] ++
          steps [(0, 0); (0, 0); (0, 1)]%nat).
  split; [intros sp _ r; reflexivity|]. split; [repeat constructor; cbn; tauto|].
  vm_compute. repeat split.
Qed.
Print Assumptions C13_timeout_error_reaches_everyone_refuted.

(* ... and that is the only way it can happen: once the metadata is written the leader never raises (it is about to
   set its key or has finished), and a rank that raises is a peer that itself took a timeout step in depart. *)
Theorem C13_after_commit_only_own_timeout_raises : forall st0 h sch i x,
  fresh st0 h -> distinct_prefixes h ->
  nth_error (g_insts (grun (ginit st0 h) sch)) i = Some x ->
  i_meta x = true ->
  (i_pcs x 0%nat = PDepart \/ i_pcs x 0%nat = PDone) /\
  forall r, (r < i_W x)%nat -> i_pcs x r = PRaised -> r <> 0%nat /\ i_tmo x r = true.
Proof. exact after_commit_only_own_timeout. Qed.
Print Assumptions C13_after_commit_only_own_timeout_raises.

(* Conversely errors come only from faults and timeouts: "no error without a fault" becomes "no error without a fault
   or a timeout step of some rank of the snapshot".  (An absent rank alone makes nobody raise - its peers block;
   so absence is not needed in the hypothesis: this is stronger than "... without a fault, a timeout or an absent
   rank".) *)
Theorem C13_no_error_without_cause : forall st0 h sch i x,
  fresh st0 h -> distinct_prefixes h ->
  nth_error (g_insts (grun (ginit st0 h) sch)) i = Some x ->
  no_fault x -> no_timeout x -> forall r, (r < i_W x)%nat -> i_pcs x r <> PRaised.
Proof. exact no_cause_no_raise. Qed.
Print Assumptions C13_no_error_without_cause.

(* the statement of the timeout-free model: a schedule WITHOUT timeout choices and a plan without a fault *)
Corollary C13_no_fault_no_error : forall st0 h sch i x,
  fresh st0 h -> distinct_prefixes h ->
  Forall (fun c => is_timeout c = false) sch ->
  nth_error (g_insts (grun (ginit st0 h) sch)) i = Some x ->
  no_fault x -> forall r, (r < i_W x)%nat -> i_pcs x r <> PRaised.
Proof.
  intros st0 h sch i x HF HD Hs Hx Hn. apply (no_cause_no_raise st0 h sch i x HF HD Hx Hn).
  intros r _. exact (timeout_free_schedule st0 h sch i x Hs Hx r).
Qed.
Print Assumptions C13_no_fault_no_error.

(* ================================================================== the timeout step *)

(* If the timeout choice of rank r of snapshot i is enabled in a reachable state s, then: r stands at a store.wait
   (the leader in arrive, a peer in depart); the step is "store.wait raised" (OTimeout on exactly the awaited keys,
   store unchanged); r's next step is report_error: store.set(own key, error text); and in EVERY continuation r is in
   the except handler or Raised - its wait() never returns normally - the flag i_tmo stays set, and once r has Raised
   its key holds the error text. *)
Theorem C13_timeout_raises_and_reports : forall st0 h sch i r,
  fresh st0 h -> distinct_prefixes h ->
  let s := grun (ginit st0 h) sch in
  enabled s (i, r, KTimeout) = true ->
  let s1 := fst (gstep s (i, r, KTimeout)) in
  (exists x, nth_error (g_insts s) i = Some x /\ (r < i_W x)%nat /\ g_store s1 = g_store s /\
     ((r = 0%nat /\ i_pcs x r = PArrive /\ snd (gstep s (i, r, KTimeout)) = Some (OTimeout (i_prefix x) (peers (i_W x)))) \/
      (r <> 0%nat /\ i_pcs x r = PDepart /\ snd (gstep s (i, r, KTimeout)) = Some (OTimeout (i_prefix x) [0%nat]))) /\
     snd (gstep s1 (i, r, KStep)) = Some (OSet (i_prefix x) r VErr)) /\
  (forall sch2 y, nth_error (g_insts (grun s1 sch2)) i = Some y ->
     i_tmo y r = true /\ (i_pcs y r = PHandler \/ i_pcs y r = PRaised) /\ i_pcs y r <> PDone /\
     (i_pcs y r = PRaised -> st_get (g_store (grun s1 sch2)) (kz y r) = Some VErr)).
Proof. exact timeout_raises_and_reports. Qed.
Print Assumptions C13_timeout_raises_and_reports.

(* The flags are what they say: a schedule without timeout choices sets none. *)
Theorem C13_timeout_free_schedule_sets_no_flag : forall st0 h sch i x,
  Forall (fun c => is_timeout c = false) sch ->
  nth_error (g_insts (grun (ginit st0 h) sch)) i = Some x -> forall r, i_tmo x r = false.
Proof. exact timeout_free_schedule. Qed.
Print Assumptions C13_timeout_free_schedule_sets_no_flag.

(* ================================================================== absent ranks *)

(* Some rank of snapshot i is absent.  Then, in every reachable state: no rank's wait() returns normally; the
   metadata is not written; the absent rank has no thread and its key is never set; if the plan has no fault, a rank
   raises only after some timeout step (the peers of an absent rank can leave ONLY through timeouts).
   LEADER absent vs PEER absent differ in how the others leave: with the leader absent nobody ever writes the
   leader's key, so every rank that raises does so through ITS OWN timeout step (or its own I/O failure) - there is
   no error text to read; with a peer absent one timeout (the leader's) is enough: the other peers read the leader's
   error key (C13_example_absent_peer below: ranks [leader; 1] raise with timeout flags [true; false]). *)
Theorem C13_absent_rank_means_nobody_succeeds : forall st0 h sch i x,
  fresh st0 h -> distinct_prefixes h ->
  nth_error (g_insts (grun (ginit st0 h) sch)) i = Some x ->
  has_absent x ->
  (forall r, (r < i_W x)%nat -> i_pcs x r <> PDone) /\
  i_meta x = false /\
  (forall r, (r < i_W x)%nat -> absent x r = true ->
     i_pcs x r = PAbsent /\ st_get (g_store (grun (ginit st0 h) sch)) (kz x r) = None) /\
  (no_fault x -> forall r, (r < i_W x)%nat -> i_pcs x r = PRaised -> timed_out x) /\
  (absent x 0 = true -> forall r, (r < i_W x)%nat -> i_pcs x r = PRaised -> i_tmo x r = true \/ iofails x r = true).
Proof. exact absent_rank_means_nobody_succeeds. Qed.
Print Assumptions C13_absent_rank_means_nobody_succeeds.

(* ================================================================== liveness *)

(* WITH timeouts nobody is ever stuck, whoever takes part: every rank whose background thread exists and has not
   finished can ITSELF take a normal step or its timeout step - in every reachable state, with any faults, any absent
   ranks, whatever the other snapshots do.  (This replaces the participation assumption of the timeout-free model.) *)
Theorem C13_rank_never_stuck : forall st0 h sch i x r,
  fresh st0 h -> distinct_prefixes h ->
  nth_error (g_insts (grun (ginit st0 h) sch)) i = Some x ->
  (r < i_W x)%nat -> live (i_pcs x r) = true ->
  enabled (grun (ginit st0 h) sch) (i, r, KStep) = true \/ enabled (grun (ginit st0 h) sch) (i, r, KTimeout) = true.
Proof. exact rank_never_stuck. Qed.
Print Assumptions C13_rank_never_stuck.

(* WITHOUT needing any timeout, if every rank of snapshot i takes part: while some rank is live some rank of i can take
   a NORMAL step (with or without faults, whatever timeouts happened before, whatever the other snapshots do).
   The hypothesis [no_absent x] is new and necessary (C13_example_absent_peer_blocks). *)
Theorem C13_deadlock_free : forall st0 h sch i x r,
  fresh st0 h -> distinct_prefixes h ->
  nth_error (g_insts (grun (ginit st0 h) sch)) i = Some x ->
  no_absent x ->
  (r < i_W x)%nat -> live (i_pcs x r) = true ->
  exists r', (r' < i_W x)%nat /\ enabled (grun (ginit st0 h) sch) (i, r', KStep) = true.
Proof. exact deadlock_free. Qed.
Print Assumptions C13_deadlock_free.

(* No infinite executions: from ANY state, a schedule all of whose choices (normal steps and timeouts, of any
   instances, in any order) are enabled when taken has at most gmeasure s elements. *)
Theorem C13_executions_are_bounded : forall s sch,
  effective s sch = true -> (length sch + gmeasure (grun s sch) <= gmeasure s)%nat.
Proof. exact effective_bounded. Qed.
Print Assumptions C13_executions_are_bounded.

(* Complete schedules without (further) timeouts - after which no rank of snapshot i can take a NORMAL step:
   if nobody is absent every rank has terminated; without fault, absence and timeout every rank is Done and the
   metadata is written; with a fault, or after a timeout of the leader, every rank's wait() raises and nothing is
   committed.  (After a peer's timeout alone the outcome is mixed: the two theorems above C13_no_error_without_cause
   say exactly how.) *)
Theorem C13_no_fault_all_done : forall st0 h sch i x,
  fresh st0 h -> distinct_prefixes h ->
  nth_error (g_insts (grun (ginit st0 h) sch)) i = Some x ->
  quiescent_inst (grun (ginit st0 h) sch) i ->
  (no_absent x -> forall r, (r < i_W x)%nat -> terminated (i_pcs x r) = true) /\
  (no_fault x -> no_absent x -> no_timeout x ->
     (forall r, (r < i_W x)%nat -> i_pcs x r = PDone) /\ ((0 < i_W x)%nat -> i_meta x = true)) /\
  (has_fault x \/ i_tmo x 0%nat = true -> no_absent x ->
     (forall r, (r < i_W x)%nat -> i_pcs x r = PRaised) /\ i_meta x = false).
Proof. exact complete_schedule_outcomes. Qed.
Print Assumptions C13_no_fault_all_done.

(* Maximal executions with timeouts - states in which no rank of snapshot i can take ANY step: every background thread
   that exists has finished, whoever is absent; with a global cause all of them Raised and nothing is committed;
   without any cause all Done and committed. *)
Theorem C13_maximal_execution_outcomes : forall st0 h sch i x,
  fresh st0 h -> distinct_prefixes h ->
  nth_error (g_insts (grun (ginit st0 h) sch)) i = Some x ->
  quiescent_all (grun (ginit st0 h) sch) i ->
  (forall r, (r < i_W x)%nat -> i_pcs x r = PDone \/ i_pcs x r = PRaised \/ i_pcs x r = PAbsent) /\
  (global_cause x -> (forall r, (r < i_W x)%nat -> i_pcs x r = PRaised \/ i_pcs x r = PAbsent) /\ i_meta x = false) /\
  (no_fault x -> no_absent x -> no_timeout x ->
     (forall r, (r < i_W x)%nat -> i_pcs x r = PDone) /\ ((0 < i_W x)%nat -> i_meta x = true)).
Proof. exact all_quiescent_outcomes. Qed.
Print Assumptions C13_maximal_execution_outcomes.

(* Complete schedules exist and are reached by fairness alone: from ANY state (reachable or not), running
   round-robin rounds of NORMAL steps - every (instance, rank) once per round - for gmeasure s + 1 rounds ends in a
   state where no normal step of any instance is enabled.  (The timeout-free theorem, unchanged up to the type of
   choices.) *)
Theorem C13_fair_schedule_completes : forall s,
  forall i r, enabled (grun s (rounds s (S (gmeasure s)))) (i, r, KStep) = false.
Proof. exact rounds_quiesce. Qed.
Print Assumptions C13_fair_schedule_completes.

(* With fair timeouts - every (instance, rank) gets per round one normal step and then, if it is about to wait, its
   timeout - gmeasure s + 1 rounds end in a state where NOTHING is enabled.  (In this particular schedule timeouts
   fire eagerly; C13_rank_never_stuck + C13_executions_are_bounded say the same of every scheduler that keeps choosing
   enabled choices.) *)
Theorem C13_fair_timeout_schedule_terminates : forall s,
  forall c, enabled (grun s (rounds_t s (S (gmeasure s)))) c = false.
Proof. exact rounds_t_quiesce. Qed.
Print Assumptions C13_fair_timeout_schedule_terminates.

(* Hence: ANY schedule prefix (timeouts included), continued fairly WITHOUT further timeouts: if every rank takes
   part all terminate; every rank of a snapshot without fault/absence/timeout is Done and its metadata written;
   every rank of a faulty snapshot (or one whose leader timed out) Raised with nothing committed. *)
Theorem C13_fair_completion_outcomes : forall st0 h sch i x,
  fresh st0 h -> distinct_prefixes h ->
  let s := grun (ginit st0 h) sch in
  nth_error (g_insts (grun s (rounds s (S (gmeasure s))))) i = Some x ->
  (no_absent x -> forall r, (r < i_W x)%nat -> terminated (i_pcs x r) = true) /\
  (no_fault x -> no_absent x -> no_timeout x ->
     (forall r, (r < i_W x)%nat -> i_pcs x r = PDone) /\ ((0 < i_W x)%nat -> i_meta x = true)) /\
  (has_fault x \/ i_tmo x 0%nat = true -> no_absent x ->
     (forall r, (r < i_W x)%nat -> i_pcs x r = PRaised) /\ i_meta x = false).
Proof. exact fair_completion_outcomes. Qed.
Print Assumptions C13_fair_completion_outcomes.

(* ... and continued fairly WITH timeouts: every background thread that exists finishes, WITHOUT assuming that
   every rank takes part; with a fault, an absent rank or a leader timeout all of them Raised, nothing committed. *)
Theorem C13_fair_timeout_completion_outcomes : forall st0 h sch i x,
  fresh st0 h -> distinct_prefixes h ->
  let s := grun (ginit st0 h) sch in
  nth_error (g_insts (grun s (rounds_t s (S (gmeasure s))))) i = Some x ->
  (forall r, (r < i_W x)%nat -> i_pcs x r = PDone \/ i_pcs x r = PRaised \/ i_pcs x r = PAbsent) /\
  (global_cause x -> (forall r, (r < i_W x)%nat -> i_pcs x r = PRaised \/ i_pcs x r = PAbsent) /\ i_meta x = false) /\
  (no_fault x -> no_absent x -> no_timeout x ->
     (forall r, (r < i_W x)%nat -> i_pcs x r = PDone) /\ ((0 < i_W x)%nat -> i_meta x = true)).
Proof. exact fair_timeout_completion_outcomes. Qed.
Print Assumptions C13_fair_timeout_completion_outcomes.

(* ================================================================== histories *)

(* Steps (normal or timeout) of other snapshots never change a key under snapshot i's prefix nor snapshot i's local
   state: a schedule consisting only of choices of instances other than i leaves both untouched.  (The theorems
   above are proved for whole histories directly; this is the reason they go through.) *)
Theorem C13_instances_independent : forall s sch i x,
  NoDup (map i_prefix (g_insts s)) ->
  nth_error (g_insts s) i = Some x -> Forall (fun c => c_inst c <> i) sch ->
  nth_error (g_insts (grun s sch)) i = Some x /\
  forall q, st_get (g_store (grun s sch)) (i_prefix x, q) = st_get (g_store s) (i_prefix x, q).
Proof. exact instances_independent. Qed.
Print Assumptions C13_instances_independent.

(* The i-th instance of a run is the i-th snapshot of the history: prefix, world size, fault plan and the set of
   absent ranks are static. *)
Theorem C13_history_static : forall st0 h sch i sp,
  nth_error h i = Some sp ->
  exists x, nth_error (g_insts (grun (ginit st0 h) sch)) i = Some x /\
            i_prefix x = sp_prefix sp /\ i_W x = sp_W sp /\ i_iofail x = sp_iofail sp /\ i_metafail x = sp_metafail sp /\
            i_absent x = sp_absent sp.
Proof. exact reach_static. Qed.
Print Assumptions C13_history_static.

(* ================================================================== the tie to the source read on this run *)

(* The code read on this run has the structure the model implements; the barrier prefix mentions both the path and
   the per-snapshot barrier id; that id is the one rank 0 broadcasts in async_take.  And what justifies the timeout
   transition: the store.wait calls are exactly {leader in arrive on the peers' keys, peer in depart on the leader's
   key}, each passes the method's `timeout` parameter, which _complete_snapshot sets to DEFAULT_BARRIER_TIMEOUT; both
   calls sit in the try whose handler catches Exception, calls report_error (a store.set of a never-empty text
   under the own key) and then records exc_info; wait() raises exactly when exc_info is set. *)
Theorem C13_source_skeleton_is_modelled :
  gen_skeleton = model_skeleton /\ gen_prefix_uses_barrier_id = true /\ gen_barrier_id_is_broadcast = true /\
  wait_sites gen_skeleton = [(RLeader, PhArrive, KPeers, WTimeoutArg); (RPeer, PhDepart, KLeader, WTimeoutArg)] /\
  gen_wait_has_timeout = true /\ timeout_is_reported gen_skeleton = true /\ gen_wait_reraises_exc_info = true.
Proof.
  exact (conj gen_skeleton_is_model (conj gen_prefix_ok (conj gen_barrier_id_broadcast_ok
        (conj gen_wait_sites_ok (conj gen_wait_has_timeout_ok (conj gen_timeout_is_reported gen_wait_reraises_ok)))))).
Qed.
Print Assumptions C13_source_skeleton_is_modelled.

(* The model's timeout step is enabled exactly at the wait sites of that skeleton. *)
Theorem C13_timeout_enabled_exactly_at_wait_sites : forall st x r, (r < i_W x)%nat ->
  (itimeout st x r <> None <->
   exists ro ph t w, site_of r (i_pcs x r) = Some (ro, ph) /\ In (ro, ph, t, w) (wait_sites gen_skeleton)).
Proof. rewrite gen_skeleton_is_model. exact timeout_enabled_iff_wait_site. Qed.
Print Assumptions C13_timeout_enabled_exactly_at_wait_sites.

(* ================================================================== shared prefixes (before the barrier id) *)

(* [distinct_prefixes] is forced (this was defect D10, before the per-snapshot barrier id).  Two fault-free
   snapshots of world size 2 ON THE SAME PREFIX, the second started after the first finished: the second leader
   finds the first snapshot's keys and writes the metadata while rank 1's I/O is not done. *)
Theorem C13_shared_prefix_refuted : exists h sch1 sch2,
  map sp_prefix h = [7; 7] /\ fresh [] h /\
  Forall (fun c => c_inst c = 0%nat) sch1 /\ Forall (fun c => c_inst c = 1%nat) sch2 /\
  Forall (fun c => is_timeout c = false) (sch1 ++ sch2) /\
  BarrierOutcomes (grun (ginit [] h) sch1) 0 = [0; 0] /\
  BarrierMeta (grun (ginit [] h) (sch1 ++ sch2)) 1 = true /\
  BarrierIoDone (grun (ginit [] h) (sch1 ++ sch2)) 1 = [true; false].
Proof.
  exists [ {| sp_prefix := 7; sp_W := 2; sp_iofail := []; sp_metafail := false; sp_absent := [] |};
           {| sp_prefix := 7; sp_W := 2; sp_iofail := []; sp_metafail := false; sp_absent := [] |} ],
         (steps [(0, 0); (0, 1); (0, 1); (0, 0); (0, 0); (0, 0); (0, 0); (0, 1); (0, 1)]%nat),
         (steps [(1, 0); (1, 0); (1, 0); (1, 0)]%nat).
  split; [reflexivity|]. split; [intros sp _ r; reflexivity|].
  split; [repeat constructor|]. split; [repeat constructor|]. split; [repeat constructor|].
  vm_compute. repeat split.
Qed.
Print Assumptions C13_shared_prefix_refuted.

(* After a failed snapshot (rank 1's I/O fails; every rank Raised), a fault-free snapshot on the same prefix
   ends Raised on the stale error key - without any timeout step. *)
Theorem C13_stale_error_refuted : exists h sch1 sch2 x,
  map sp_prefix h = [7; 7] /\ fresh [] h /\
  Forall (fun c => c_inst c = 0%nat) sch1 /\ Forall (fun c => c_inst c = 1%nat) sch2 /\
  Forall (fun c => is_timeout c = false) (sch1 ++ sch2) /\
  BarrierOutcomes (grun (ginit [] h) sch1) 0 = [1; 1] /\
  nth_error (g_insts (grun (ginit [] h) (sch1 ++ sch2))) 1 = Some x /\ no_fault x /\ no_absent x /\ no_timeout x /\
  BarrierOutcomes (grun (ginit [] h) (sch1 ++ sch2)) 1 = [1; 1].
Proof.
  pose (h := [ {| sp_prefix := 7; sp_W := 2%nat; sp_iofail := [1%nat]; sp_metafail := false; sp_absent := [] |};
               {| sp_prefix := 7; sp_W := 2%nat; sp_iofail := []; sp_metafail := false; sp_absent := [] |} ]).
  pose (sch1 := steps [(0, 0); (0, 1); (0, 1); (0, 0); (0, 0); (0, 0); (0, 0)]%nat).
  pose (sch2 := steps [(1, 0); (1, 1); (1, 1); (1, 1); (1, 1); (1, 1); (1, 0); (1, 0); (1, 0); (1, 0)]%nat).
  destruct (C13_history_static [] h (sch1 ++ sch2) 1%nat _ eq_refl) as (x & Hx & _ & HW & HF & HM & HA).
  assert (HS : Forall (fun c => is_timeout c = false) (sch1 ++ sch2)) by repeat constructor.
  exists h, sch1, sch2, x.
  split; [reflexivity|]. split; [intros sp _ r; reflexivity|].
  split; [repeat constructor|]. split; [repeat constructor|]. split; [exact HS|].
  split; [vm_compute; reflexivity|]. split; [exact Hx|]. split; [|split; [|split]].
  - split; [|exact HM]. intros r _. unfold iofails. rewrite HF. reflexivity.
  - intros r _. unfold absent. rewrite HA. reflexivity.
  - intros r _. exact (C13_timeout_free_schedule_sets_no_flag [] h _ 1%nat x HS Hx r).
  - vm_compute. reflexivity.
Qed.
Print Assumptions C13_stale_error_refuted.

(* ================================================================== examples (vm_compute) *)
Definition C13sp (p : Z) (w : nat) (f : list nat) (m : bool) (a : list nat) : spec :=
  {| sp_prefix := p; sp_W := w; sp_iofail := f; sp_metafail := m; sp_absent := a |}.
(* per rank: (normal step enabled, timeout enabled) *)
Definition C13en (s : gstate) (w : nat) : list (bool * bool) :=
  map (fun r => (enabled s (0, r, KStep)%nat, enabled s (0, r, KTimeout)%nat)) (seq 0 w).

(* Non-vacuity: W = 3, one complete successful schedule; and the same with rank 1's I/O failing. *)
Example C13_example_success :
  let h := [ C13sp 1 3 [] false [] ] in
  let s := grun (ginit [] h) (steps [(0, 2); (0, 0); (0, 1); (0, 1); (0, 2); (0, 0); (0, 0); (0, 0); (0, 0); (0, 0);
                                     (0, 2); (0, 1); (0, 1); (0, 2)]%nat) in
  fresh [] h /\ distinct_prefixes h /\
  BarrierOutcomes s 0 = [0; 0; 0] /\ BarrierMeta s 0 = true /\ BarrierIoDone s 0 = [true; true; true] /\
  C13en s 3 = [(false, false); (false, false); (false, false)].
Proof.
  cbv zeta. split; [intros sp _ r; reflexivity|]. split; [repeat constructor; cbn; tauto|].
  vm_compute. repeat split.
Qed.

Example C13_example_rank1_io_fails :
  let h := [ C13sp 1 3 [1%nat] false [] ] in
  let s := grun (ginit [] h) (steps [(0, 0); (0, 1); (0, 2); (0, 2); (0, 1); (0, 0); (0, 0); (0, 0); (0, 2); (0, 0);
                                     (0, 2); (0, 2)]%nat) in
  BarrierOutcomes s 0 = [1; 1; 1] /\ BarrierMeta s 0 = false /\ BarrierIoDone s 0 = [true; false; true] /\
  C13en s 3 = [(false, false); (false, false); (false, false)].
Proof. vm_compute. repeat split. Qed.

Example C13_example_metadata_write_fails :
  let h := [ C13sp 1 2 [] true [] ] in
  let s := grun (ginit [] h) (steps [(0, 0); (0, 1); (0, 1); (0, 0); (0, 0); (0, 0); (0, 0); (0, 1); (0, 1); (0, 1)]%nat) in
  BarrierOutcomes s 0 = [1; 1] /\ BarrierMeta s 0 = false /\ BarrierIoDone s 0 = [true; true].
Proof. vm_compute. repeat split. Qed.

(* C13_timeout_raises_and_reports, run: fault-free W = 2; both ranks finished their I/O, rank 1 has arrived; the
   leader's wait for rank 1's key times out SPURIOUSLY (the key is there: its normal step is enabled too).  The
   timeout step changes no key; the leader's next step writes its error key; rank 1 reads it in depart: both Raised,
   nothing committed although no I/O failed. *)
Example C13_example_leader_timeout :
  let h := [ C13sp 1 2 [] false [] ] in
  let s0 := grun (ginit [] h) (steps [(0, 0); (0, 1); (0, 1)]%nat) in
  let s1 := grun s0 [(0, 0, KTimeout)%nat] in
  let s2 := grun s1 (steps [(0, 0)]%nat) in
  let s3 := grun s2 (steps [(0, 1); (0, 1); (0, 1)]%nat) in
  C13en s0 2 = [(true, true); (false, true)] /\
  snd (gstep s0 (0, 0, KTimeout)%nat) = Some (OTimeout 1 [1%nat]) /\
  BarrierKeys s1 0 = [None; Some VOk] /\ BarrierOutcomes s1 0 = [2; 2] /\ BarrierTimedOut s1 0 = [true; false] /\
  snd (gstep s1 (0, 0, KStep)%nat) = Some (OSet 1 0 VErr) /\
  BarrierKeys s2 0 = [Some VErr; Some VOk] /\ BarrierOutcomes s2 0 = [1; 2] /\
  BarrierOutcomes s3 0 = [1; 1] /\ BarrierMeta s3 0 = false /\ BarrierIoDone s3 0 = [true; true] /\
  BarrierTimedOut s3 0 = [true; false] /\ C13en s3 2 = [(false, false); (false, false)].
Proof. vm_compute. repeat split. Qed.

(* C13_absent_rank_means_nobody_succeeds, run (PEER absent): W = 3, rank 2 never shows up.  Without timeouts the leader
   and rank 1 block for ever (no normal step enabled, both timeouts enabled); the leader's timeout alone ends it:
   rank 1 reads the leader's error key - it raises WITHOUT a timeout of its own. *)
Example C13_example_absent_peer_blocks :
  let h := [ C13sp 1 3 [] false [2%nat] ] in
  let s := grun (ginit [] h) (steps [(0, 0); (0, 1); (0, 1); (0, 2); (0, 0)]%nat) in
  BarrierOutcomes s 0 = [2; 2; 3] /\ BarrierKeys s 0 = [None; Some VOk; None] /\
  C13en s 3 = [(false, true); (false, true); (false, false)].
Proof. vm_compute. repeat split. Qed.

Example C13_example_absent_peer :
  let h := [ C13sp 1 3 [] false [2%nat] ] in
  let s := grun (ginit [] h) (steps [(0, 0); (0, 1); (0, 1); (0, 2); (0, 0)]%nat ++ [(0, 0, KTimeout)%nat] ++
                              steps [(0, 0); (0, 1); (0, 1); (0, 1)]%nat) in
  BarrierOutcomes s 0 = [1; 1; 3] /\ BarrierMeta s 0 = false /\ BarrierTimedOut s 0 = [true; false; false] /\
  BarrierKeys s 0 = [Some VErr; Some VErr; None] /\
  C13en s 3 = [(false, false); (false, false); (false, false)].
Proof. vm_compute. repeat split. Qed.

(* LEADER absent: W = 3; ranks 1 and 2 arrive and wait for the leader's key, which nobody will ever write; each of
   them leaves only through its OWN timeout. *)
Example C13_example_absent_leader :
  let h := [ C13sp 1 3 [] false [0%nat] ] in
  let s0 := grun (ginit [] h) (steps [(0, 0); (0, 1); (0, 1); (0, 2); (0, 2); (0, 1); (0, 2)]%nat) in
  let s1 := grun s0 ([(0, 1, KTimeout)%nat] ++ steps [(0, 1)]%nat) in
  let s2 := grun s1 ([(0, 2, KTimeout)%nat] ++ steps [(0, 2)]%nat) in
  BarrierOutcomes s0 0 = [3; 2; 2] /\ C13en s0 3 = [(false, false); (false, true); (false, true)] /\
  BarrierOutcomes s1 0 = [3; 1; 2] /\ C13en s1 3 = [(false, false); (false, false); (false, true)] /\
  BarrierOutcomes s2 0 = [3; 1; 1] /\ BarrierMeta s2 0 = false /\ BarrierTimedOut s2 0 = [false; true; true] /\
  BarrierKeys s2 0 = [None; Some VErr; Some VErr].
Proof. vm_compute. repeat split. Qed.

(* fair schedules, computed: round-robin of normal steps completes a fault-free snapshot; round-robin with fair
   timeouts terminates a snapshot whose leader is absent *)
Example C13_example_round_robin :
  let s := ginit [] [ C13sp 1 3 [] false [] ] in
  let t := ginit [] [ C13sp 1 3 [] false [0%nat] ] in
  BarrierOutcomes (grun s (rounds s (S (gmeasure s)))) 0 = [0; 0; 0] /\
  BarrierMeta (grun s (rounds s (S (gmeasure s)))) 0 = true /\
  BarrierOutcomes (grun t (rounds t (S (gmeasure t)))) 0 = [3; 2; 2] /\
  BarrierOutcomes (grun t (rounds_t t (S (gmeasure t)))) 0 = [3; 1; 1] /\
  BarrierMeta (grun t (rounds_t t (S (gmeasure t)))) 0 = false.
Proof. vm_compute. repeat split. Qed.
