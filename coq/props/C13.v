(* C13 - Async commit barrier: commit after all arrive; errors reach every rank.
   Property theorems only; proofs in proofs/BarrierProofs.v.  The model (model/Barrier.v) follows
   LinearBarrier.arrive/depart/report_error and PendingSnapshot._complete_snapshot at the granularity of one
   store operation / one I/O completion / one metadata write per step; proofs/BarrierInst.v checks that the
   skeleton extracted from the source on this run is the one the model implements.

   Common setting of the theorems: a job is a store [st0] plus a history [h] of snapshot instances (prefix id,
   world size, fault plan).  [fresh st0 h]: the store holds no key under any prefix of the history;
   [distinct_prefixes h]: the prefixes are pairwise distinct (what the per-snapshot barrier id provides; the
   uniqueness of the random 63-bit id is an assumption).  A schedule is ANY list of (instance, rank) choices: all
   instances may overlap arbitrarily, steps that are not enabled are no-ops, no fairness is assumed.
   Every theorem holds for every world size (including 1), every fault plan (any set of ranks whose I/O fails,
   metadata failure or not), every history, every schedule. *)
From TS Require Import model.Base model.Barrier proofs.BarrierProofs gen.BarrierGen proofs.BarrierInst.

(* The leader writes the metadata only after every rank of that snapshot has completed its I/O successfully. *)
Theorem C13_commit_after_all_arrive : forall st0 h sch i x,
  fresh st0 h -> distinct_prefixes h ->
  nth_error (g_insts (grun (ginit st0 h) sch)) i = Some x ->
  i_meta x = true ->
  forall r, (r < i_W x)%nat -> i_iodone x r = true /\ iofails x r = false.
Proof. exact commit_after_all_arrive. Qed.
Print Assumptions C13_commit_after_all_arrive.

(* No rank (leader or not) reports completion before the leader has committed. *)
Theorem C13_depart_after_commit : forall st0 h sch i x,
  fresh st0 h -> distinct_prefixes h ->
  nth_error (g_insts (grun (ginit st0 h) sch)) i = Some x ->
  forall r, (r < i_W x)%nat -> i_pcs x r = PDone -> i_meta x = true.
Proof. exact depart_after_commit. Qed.
Print Assumptions C13_depart_after_commit.

(* Any fault in the plan of snapshot i (some rank's I/O fails, or the metadata write fails): in every reachable
   state no rank of i has completed successfully, every rank that has terminated has Raised, and the metadata
   is not written (for a metadata-write failure this relies on the write being atomic in the model). *)
Theorem C13_error_reaches_everyone : forall st0 h sch i x,
  fresh st0 h -> distinct_prefixes h ->
  nth_error (g_insts (grun (ginit st0 h) sch)) i = Some x ->
  has_fault x ->
  (forall r, (r < i_W x)%nat -> i_pcs x r <> PDone) /\
  (forall r, (r < i_W x)%nat -> terminated (i_pcs x r) = true -> i_pcs x r = PRaised) /\
  i_meta x = false.
Proof. exact error_reaches_everyone. Qed.
Print Assumptions C13_error_reaches_everyone.

(* Conversely errors come only from faults: without a fault no rank ever raises. *)
Theorem C13_no_fault_no_error : forall st0 h sch i x,
  fresh st0 h -> distinct_prefixes h ->
  nth_error (g_insts (grun (ginit st0 h) sch)) i = Some x ->
  no_fault x -> forall r, (r < i_W x)%nat -> i_pcs x r <> PRaised.
Proof. exact no_fault_no_raise. Qed.
Print Assumptions C13_no_fault_no_error.

(* Never stuck: while some rank of snapshot i has not terminated, some rank of i can take a step
   (with or without faults, whatever the other snapshots do). *)
Theorem C13_deadlock_free : forall st0 h sch i x r,
  fresh st0 h -> distinct_prefixes h ->
  nth_error (g_insts (grun (ginit st0 h) sch)) i = Some x ->
  (r < i_W x)%nat -> terminated (i_pcs x r) = false ->
  exists r', (r' < i_W x)%nat /\ enabled (grun (ginit st0 h) sch) (i, r') = true.
Proof. exact deadlock_free. Qed.
Print Assumptions C13_deadlock_free.

(* Complete schedules (after which no rank of snapshot i can step): without a fault every rank is Done and
   the metadata is written; with a fault every rank's wait() raises and nothing is committed. *)
Theorem C13_no_fault_all_done : forall st0 h sch i x,
  fresh st0 h -> distinct_prefixes h ->
  nth_error (g_insts (grun (ginit st0 h) sch)) i = Some x ->
  quiescent_inst (grun (ginit st0 h) sch) i ->
  (no_fault x -> (forall r, (r < i_W x)%nat -> i_pcs x r = PDone) /\ ((0 < i_W x)%nat -> i_meta x = true)) /\
  (has_fault x -> (forall r, (r < i_W x)%nat -> i_pcs x r = PRaised) /\ i_meta x = false).
Proof. exact complete_schedule_outcomes. Qed.
Print Assumptions C13_no_fault_all_done.

(* Complete schedules exist and are reached by fairness alone: from ANY state (reachable or not), running
   round-robin rounds - every (instance, rank) once per round - for gmeasure s + 1 rounds ends in a state where
   no step of any instance is enabled. *)
Theorem C13_fair_schedule_completes : forall s,
  forall c, enabled (grun s (rounds s (S (gmeasure s)))) c = false.
Proof. exact rounds_quiesce. Qed.
Print Assumptions C13_fair_schedule_completes.

(* Hence: ANY schedule prefix, continued fairly, ends with every rank of every fault-free snapshot Done and its
   metadata written, and every rank of every faulty snapshot Raised with nothing committed. *)
Theorem C13_fair_completion_outcomes : forall st0 h sch i x,
  fresh st0 h -> distinct_prefixes h ->
  let s := grun (ginit st0 h) sch in
  nth_error (g_insts (grun s (rounds s (S (gmeasure s))))) i = Some x ->
  (no_fault x -> (forall r, (r < i_W x)%nat -> i_pcs x r = PDone) /\ ((0 < i_W x)%nat -> i_meta x = true)) /\
  (has_fault x -> (forall r, (r < i_W x)%nat -> i_pcs x r = PRaised) /\ i_meta x = false).
Proof. exact fair_completion_outcomes. Qed.
Print Assumptions C13_fair_completion_outcomes.

(* Steps of other snapshots never change a key under snapshot i's prefix nor snapshot i's local state: a
   schedule consisting only of steps of instances other than i leaves both untouched.  (The theorems above are
   proved for whole histories directly; this is the reason they go through.) *)
Theorem C13_instances_independent : forall s sch i x,
  NoDup (map i_prefix (g_insts s)) ->
  nth_error (g_insts s) i = Some x -> Forall (fun c => fst c <> i) sch ->
  nth_error (g_insts (grun s sch)) i = Some x /\
  forall q, st_get (g_store (grun s sch)) (i_prefix x, q) = st_get (g_store s) (i_prefix x, q).
Proof. exact instances_independent. Qed.
Print Assumptions C13_instances_independent.

(* The i-th instance of a run is the i-th snapshot of the history: prefix, world size and fault plan are static. *)
Theorem C13_history_static : forall st0 h sch i sp,
  nth_error h i = Some sp ->
  exists x, nth_error (g_insts (grun (ginit st0 h) sch)) i = Some x /\
            i_prefix x = sp_prefix sp /\ i_W x = sp_W sp /\ i_iofail x = sp_iofail sp /\ i_metafail x = sp_metafail sp.
Proof. exact reach_static. Qed.
Print Assumptions C13_history_static.

(* The code read on this run has the structure the model implements; the barrier prefix mentions both the
   path and the per-snapshot barrier id; that id is the one rank 0 broadcasts in async_take. *)
Theorem C13_source_skeleton_is_modelled :
  gen_skeleton = model_skeleton /\ gen_prefix_uses_barrier_id = true /\ gen_barrier_id_is_broadcast = true.
Proof. exact (conj gen_skeleton_is_model (conj gen_prefix_ok gen_barrier_id_broadcast_ok)). Qed.
Print Assumptions C13_source_skeleton_is_modelled.

(* [distinct_prefixes] is forced (this was defect D10, before the per-snapshot barrier id).  Two fault-free
   snapshots of world size 2 ON THE SAME PREFIX, the second started after the first finished: the second leader
   finds the first snapshot's keys and writes the metadata while rank 1's I/O is not done. *)
Theorem C13_shared_prefix_refuted : exists h sch1 sch2,
  map sp_prefix h = [7; 7] /\ fresh [] h /\
  Forall (fun c => fst c = 0%nat) sch1 /\ Forall (fun c => fst c = 1%nat) sch2 /\
  BarrierOutcomes (grun (ginit [] h) sch1) 0 = [0; 0] /\
  BarrierMeta (grun (ginit [] h) (sch1 ++ sch2)) 1 = true /\
  BarrierIoDone (grun (ginit [] h) (sch1 ++ sch2)) 1 = [true; false].
Proof.
  exists [ {| sp_prefix := 7; sp_W := 2; sp_iofail := []; sp_metafail := false |};
           {| sp_prefix := 7; sp_W := 2; sp_iofail := []; sp_metafail := false |} ],
         [(0, 0); (0, 1); (0, 1); (0, 0); (0, 0); (0, 0); (0, 0); (0, 1); (0, 1)]%nat,
         [(1, 0); (1, 0); (1, 0); (1, 0)]%nat.
  split; [reflexivity|]. split; [intros sp _ r; reflexivity|].
  split; [repeat constructor|]. split; [repeat constructor|].
  vm_compute. repeat split.
Qed.
Print Assumptions C13_shared_prefix_refuted.

(* After a failed snapshot (rank 1's I/O fails; every rank Raised), a fault-free snapshot on the same prefix
   ends Raised on the stale error key. *)
Theorem C13_stale_error_refuted : exists h sch1 sch2 x,
  map sp_prefix h = [7; 7] /\ fresh [] h /\
  Forall (fun c => fst c = 0%nat) sch1 /\ Forall (fun c => fst c = 1%nat) sch2 /\
  BarrierOutcomes (grun (ginit [] h) sch1) 0 = [1; 1] /\
  nth_error (g_insts (grun (ginit [] h) (sch1 ++ sch2))) 1 = Some x /\ no_fault x /\
  BarrierOutcomes (grun (ginit [] h) (sch1 ++ sch2)) 1 = [1; 1].
Proof.
  pose (h := [ {| sp_prefix := 7; sp_W := 2%nat; sp_iofail := [1%nat]; sp_metafail := false |};
               {| sp_prefix := 7; sp_W := 2%nat; sp_iofail := []; sp_metafail := false |} ]).
  pose (sch1 := [(0, 0); (0, 1); (0, 1); (0, 0); (0, 0); (0, 0); (0, 0)]%nat).
  pose (sch2 := [(1, 0); (1, 1); (1, 1); (1, 1); (1, 1); (1, 1); (1, 0); (1, 0); (1, 0); (1, 0)]%nat).
  destruct (C13_history_static [] h (sch1 ++ sch2) 1%nat _ eq_refl) as (x & Hx & _ & HW & HF & HM).
  exists h, sch1, sch2, x.
  split; [reflexivity|]. split; [intros sp _ r; reflexivity|].
  split; [repeat constructor|]. split; [repeat constructor|].
  split; [vm_compute; reflexivity|]. split; [exact Hx|]. split.
  - split; [|exact HM]. intros r _. unfold iofails. rewrite HF. reflexivity.
  - vm_compute. reflexivity.
Qed.
Print Assumptions C13_stale_error_refuted.

(* Non-vacuity: W = 3, one complete successful schedule; and the same with rank 1's I/O failing. *)
Example C13_example_success :
  let h := [ {| sp_prefix := 1; sp_W := 3; sp_iofail := []; sp_metafail := false |} ] in
  let s := grun (ginit [] h) [(0, 2); (0, 0); (0, 1); (0, 1); (0, 2); (0, 0); (0, 0); (0, 0); (0, 0); (0, 0);
                              (0, 2); (0, 1); (0, 1); (0, 2)]%nat in
  fresh [] h /\ distinct_prefixes h /\
  BarrierOutcomes s 0 = [0; 0; 0] /\ BarrierMeta s 0 = true /\ BarrierIoDone s 0 = [true; true; true] /\
  map (fun r => enabled s (0, r)%nat) [0; 1; 2]%nat = [false; false; false].
Proof.
  cbv zeta. split; [intros sp _ r; reflexivity|]. split; [repeat constructor; cbn; tauto|].
  vm_compute. repeat split.
Qed.

Example C13_example_rank1_io_fails :
  let h := [ {| sp_prefix := 1; sp_W := 3; sp_iofail := [1%nat]; sp_metafail := false |} ] in
  let s := grun (ginit [] h) [(0, 0); (0, 1); (0, 2); (0, 2); (0, 1); (0, 0); (0, 0); (0, 0); (0, 2); (0, 0);
                              (0, 2); (0, 2)]%nat in
  BarrierOutcomes s 0 = [1; 1; 1] /\ BarrierMeta s 0 = false /\ BarrierIoDone s 0 = [true; false; true] /\
  map (fun r => enabled s (0, r)%nat) [0; 1; 2]%nat = [false; false; false].
Proof. vm_compute. repeat split. Qed.

Example C13_example_metadata_write_fails :
  let h := [ {| sp_prefix := 1; sp_W := 2; sp_iofail := []; sp_metafail := true |} ] in
  let s := grun (ginit [] h) [(0, 0); (0, 1); (0, 1); (0, 0); (0, 0); (0, 0); (0, 0); (0, 1); (0, 1); (0, 1)]%nat in
  BarrierOutcomes s 0 = [1; 1] /\ BarrierMeta s 0 = false /\ BarrierIoDone s 0 = [true; true].
Proof. vm_compute. repeat split. Qed.
