(* C04 - Restore never silently returns wrong data when stored payload is damaged.
   Property theorems only; each closed by [exact] of a lemma from proofs/ReadDamageProofs.v.

   Vocabulary (model/ReadDamage.v, predicates in proofs/ReadDamageProofs.v):
     store s                 path -> bytes; a path that is not in the store is a missing object
     rd_apply d f s          the store with object f deleted (RdDeleted) or cut to its first t bytes (RdTruncated t)
     leaf                    one ReadReq as an io preparer emits it: location, byte range or None, consumer kind
                             (RdTensor esize shape: buffer-protocol tensor / shard;  RdLoad: torch.load)
     rd_restore legacy batching ls s
                             plan the reads (batching off: one per leaf; on: batch_read_requests of model/Batch.v),
                             read every request from the store (short object => short buffer, missing => error),
                             run every consumer (BatchedBufferConsumer: Python slices of the buffer, then the
                             sub-consumers; errors propagate unless legacy), raise the first error.
                             None = the call raises;  Some out = it returns and out lists (consumer, stored value)
     rd_plan_wf save s ls    every leaf is consistent with the undamaged store s
                               RdTensor with range [lo,hi): 0 < esize, shape >= 0, 0 <= lo, hi - lo = esize*prod(shape),
                                                            the object exists and hi <= its size
                               RdTensor without range:      the object exists and its size = esize*prod(shape)
                               RdLoad:                      no range, the object is  save o  for some o
                             and no two leaves name the same location with the same NON-EMPTY range
     rd_leaf_damaged s f d l l reads from f and d removed something l needs:
                               deleted: always;  truncated at t: whole-object read and t < size, or a non-empty
                               range [lo,hi) with t < hi
   torch.load / torch.save are external: [load], [save] with the two assumed laws stated in every theorem. *)
From TS Require Import model.Base model.FsStream model.Chunk model.Batch model.ReadDamage.
From TS Require Import proofs.ChunkProofs proofs.BatchProofs proofs.ReadDamageProofs.

(* If the damage hits a range that some leaf needs, restore / read_object raise - never Ok with any value -
   with batching on or off, for every well-formed plan, every object f, deletion and every truncation length. *)
Theorem C04_damaged_needed_range_raises :
  forall (obj : Type) (load : bytes -> option obj) (save : obj -> bytes),
    (forall o, load (save o) = Some o) ->
    (forall o t, 0 <= t < blen (save o) -> load (firstn (Z.to_nat t) (save o)) = None) ->
  forall (batching : bool) (s : rd_store) (ls : list rd_leaf) (f : Z) (d : rd_damage),
    rd_plan_wf obj save s ls -> (forall t, d = RdTruncated t -> 0 <= t) ->
    (exists l, In l ls /\ rd_leaf_damaged s f d l) ->
    rd_restore obj load false batching ls (rd_apply d f s) = None.
Proof. exact rd_damaged_raises. Qed.
Print Assumptions C04_damaged_needed_range_raises.

(* If no needed range is damaged the call returns, and every leaf's consumer stored exactly the saved value: nothing
   else is ever stored for leaf i, and the saved value is stored whenever there is anything to store (a zero-length
   tensor has nothing to store; two zero-length members of one slab share a range and BatchedBufferConsumer keeps one). *)
Theorem C04_undamaged_succeeds :
  forall (obj : Type) (load : bytes -> option obj) (save : obj -> bytes),
    (forall o, load (save o) = Some o) ->
    (forall o t, 0 <= t < blen (save o) -> load (firstn (Z.to_nat t) (save o)) = None) ->
  forall (batching : bool) (s : rd_store) (ls : list rd_leaf) (f : Z) (d : rd_damage),
    rd_plan_wf obj save s ls -> (forall t, d = RdTruncated t -> 0 <= t) ->
    (forall l, In l ls -> ~ rd_leaf_damaged s f d l) ->
    exists out, rd_restore obj load false batching ls (rd_apply d f s) = Some out /\
      forall i l, nth_error ls i = Some l ->
        exists v, rd_expected obj load s l = Some v
                  /\ (v <> RdBytes [] -> In (Z.of_nat i, v) out)
                  /\ (forall v', In (Z.of_nat i, v') out -> v' = v).
Proof. exact rd_undamaged_succeeds. Qed.
Print Assumptions C04_undamaged_succeeds.
