(* C04 - Restore never silently returns wrong data when stored payload is damaged.
   Property theorems only; each closed by [exact] of a lemma from proofs/ReadDamageProofs.v.

   Vocabulary (model/ReadDamage.v, predicates in proofs/ReadDamageProofs.v):
     store s                 path -> bytes; a path that is not in the store is a missing object
     rd_apply d f s          the store with object f deleted (RdDeleted) or cut to its first t bytes (RdTruncated t)
     leaf                    one ReadReq as an io preparer emits it: location, byte range or None, consumer kind
                             (RdTensor esize shape: buffer-protocol tensor / tile / shard;  RdLoad: torch.load)
     rd_restore legacy batching ls s
                             plan the reads (batching off: one per leaf; on: batch_read_requests of model/Batch.v),
                             read every request from the store (short object => short buffer, missing => error),
                             run every consumer (tensor: deserialization needs exactly esize*numel bytes;
                             BatchedBufferConsumer: Python slices of the buffer, then the sub-consumers, errors
                             propagate unless legacy), every request exactly once, first error raised
                             (C11_read_exactly_once, C11_read_failure_raises).
                             None = the call raises;  Some out = it returns and out lists (consumer, stored value)
     rd_plan_wf obj save s ls every leaf is consistent with the undamaged store s
                               RdTensor, range [lo,hi): 0 < esize, numel >= 0, 0 <= lo, hi - lo = esize*numel,
                                                        the object exists and hi <= its size
                               RdTensor, no range:      the object exists and its size = esize*numel
                               RdLoad:                  no range, the object is  save o  for some o
                             and no two leaves name the same location with the same NON-EMPTY range
     rd_leaf_damaged s f d l l reads from f and d removed something l needs:
                               deleted: always;  truncated at t: whole-object read and t < size, or a non-empty
                               range [lo,hi) with t < hi
     rd_expected obj load s l the value leaf l stores from the undamaged store: the bytes of its range / the loaded object
   Entries (prepare_read): rd_parts limit es = the tensor reads the entries consist of (plain; one per chunk; one per
   shard; an object = a whole-object torch.load read), each with the buffer limit that applies (read_object's
   memory_budget_bytes for plain tensors and chunks, never for shards);  rd_read_plan limit es = their leaves (tiles).
   torch.load / torch.save are external: [load], [save] with the two assumed laws stated in every theorem that needs
   them (satisfiable: C04_assumed_law_is_satisfiable). *)
From TS Require Import model.Base model.FsStream model.Chunk model.Batch model.ReadDamage.
From TS Require Import proofs.ChunkProofs proofs.BatchProofs proofs.ReadDamageProofs.
From TS Require Import model.ReadPathPrims gen.StreamGen gen.ReadPathGen model.ReadPathGenObs proofs.ReadPathInst.

(* ------------------------------------------------------------------ consumers *)
(* tensor_from_memoryview (empty-buffer branch, torch.frombuffer, reshape) accepts a buffer exactly when its length is
   esize * numel, and then the tensor is that buffer. *)
Theorem C04_tensor_consumer_accepts_exact_length_only : forall esize shape (buf v : bytes),
  0 < esize -> 0 <= prodZ shape ->
  (rd_frombuffer esize shape buf = Some v <-> blen buf = esize * prodZ shape /\ v = buf).
Proof. exact rd_frombuffer_some. Qed.
Print Assumptions C04_tensor_consumer_accepts_exact_length_only.

(* ------------------------------------------------------------------ the two halves of the property *)
(* If the damage hits a range that some leaf needs, restore / read_object raise - never Ok with any value -
   with batching on or off, for every well-formed plan, every object f, deletion and every truncation length. *)
Theorem C04_damaged_needed_range_raises :
  forall (obj : Type) (load : bytes -> option obj) (save : obj -> bytes),
    (forall o, load (save o) = Some o) ->
    (forall o t, 0 <= t < blen (save o) -> load (firstn (Z.to_nat t) (save o)) = None) ->
  forall (batching : bool) (s : rd_store) (ls : list rd_leaf) (f : Z) (d : rd_damage),
    rd_plan_wf obj save s ls -> (forall t, d = RdTruncated t -> 0 <= t) ->
    (exists l, In l ls /\ rd_leaf_damaged s f d l) ->
    rd_restore obj load false batching ls (rd_apply d f s) = None.
Proof. exact rd_damaged_raises. Qed.
Print Assumptions C04_damaged_needed_range_raises.

(* If no needed range is damaged the call returns, and every leaf's consumer stored exactly the saved value: nothing
   else is ever stored for leaf i, and the saved value is stored whenever there is anything to store (a zero-length
   tensor has nothing to store; two zero-length members of one slab share a range and BatchedBufferConsumer keeps one). *)
Theorem C04_undamaged_succeeds :
  forall (obj : Type) (load : bytes -> option obj) (save : obj -> bytes),
    (forall o, load (save o) = Some o) ->
    (forall o t, 0 <= t < blen (save o) -> load (firstn (Z.to_nat t) (save o)) = None) ->
  forall (batching : bool) (s : rd_store) (ls : list rd_leaf) (f : Z) (d : rd_damage),
    rd_plan_wf obj save s ls -> (forall t, d = RdTruncated t -> 0 <= t) ->
    (forall l, In l ls -> ~ rd_leaf_damaged s f d l) ->
    exists out, rd_restore obj load false batching ls (rd_apply d f s) = Some out /\
      forall i l, nth_error ls i = Some l ->
        exists v, rd_expected obj load s l = Some v
                  /\ (v <> RdBytes [] -> In (Z.of_nat i, v) out)
                  /\ (forall v', In (Z.of_nat i, v') out -> v' = v).
Proof. exact rd_undamaged_succeeds. Qed.
Print Assumptions C04_undamaged_succeeds.

(* Truncating an object at or above the largest hi that is read from it changes NOTHING: the result (error or values) is
   the one obtained from the untruncated store - any loader, batching on or off, current or legacy consumer.
   (A leaf without byte range reads the whole object: then no truncation below the size qualifies, see the first
   theorem.) *)
Theorem C04_truncation_beyond_needs_is_harmless :
  forall (obj : Type) (load : bytes -> option obj) (legacy batching : bool) (ls : list rd_leaf) (s : rd_store) (f t : Z),
    rd_ranges_wf ls ->
    (forall l, In l ls -> lf_path l = f -> exists lo hi, lf_range l = Some (lo, hi) /\ hi <= t) ->
    rd_restore obj load legacy batching ls (rd_apply (RdTruncated t) f s) = rd_restore obj load legacy batching ls s.
Proof. exact rd_truncation_beyond_needs_harmless. Qed.
Print Assumptions C04_truncation_beyond_needs_is_harmless.

(* With batching on, the merged read request of a location covers exactly [min lo, max hi) of the ranges requested from
   it: both ends are attained by some leaf and every leaf's range lies inside. *)
Theorem C04_batched_read_extent : forall (ls : list rd_leaf) p lo hi subs,
  In (RdBatched p lo hi subs) (rd_plan true ls) ->
  (exists l h, In l ls /\ lf_path l = p /\ lf_range l = Some (lo, h))
  /\ (exists l a, In l ls /\ lf_path l = p /\ lf_range l = Some (a, hi))
  /\ (forall l a b, In l ls -> lf_path l = p -> lf_range l = Some (a, b) -> lo <= a /\ b <= hi).
Proof. exact rd_batched_extent. Qed.
Print Assumptions C04_batched_read_extent.

(* ------------------------------------------------------------------ zero-length ranges *)
(* An object from which only EMPTY ranges are read (zero-length tensors in a slab) can be truncated anywhere, to 0 bytes
   included: an empty needed range is never damaged by truncation and the call returns with the saved values ... *)
Theorem C04_empty_ranges_survive_truncation :
  forall (obj : Type) (load : bytes -> option obj) (save : obj -> bytes),
    (forall o, load (save o) = Some o) ->
    (forall o t, 0 <= t < blen (save o) -> load (firstn (Z.to_nat t) (save o)) = None) ->
  forall (batching : bool) (s : rd_store) (ls : list rd_leaf) (f t : Z),
    rd_plan_wf obj save s ls -> 0 <= t ->
    (forall l, In l ls -> lf_path l = f -> exists lo, lf_range l = Some (lo, lo)) ->
    exists out, rd_restore obj load false batching ls (rd_apply (RdTruncated t) f s) = Some out /\
      forall i l, nth_error ls i = Some l ->
        exists v, rd_expected obj load s l = Some v
                  /\ (v <> RdBytes [] -> In (Z.of_nat i, v) out)
                  /\ (forall v', In (Z.of_nat i, v') out -> v' = v).
Proof. exact rd_empty_ranges_survive_truncation. Qed.
Print Assumptions C04_empty_ranges_survive_truncation.

(* ... but DELETING an object that any leaf names makes the call raise, even when only empty ranges are read from it:
   the read request is still issued and open() fails (this is what the code does). *)
Theorem C04_deleted_object_raises :
  forall (obj : Type) (load : bytes -> option obj) (save : obj -> bytes),
    (forall o, load (save o) = Some o) ->
    (forall o t, 0 <= t < blen (save o) -> load (firstn (Z.to_nat t) (save o)) = None) ->
  forall (batching : bool) (s : rd_store) (ls : list rd_leaf) (f : Z),
    rd_plan_wf obj save s ls -> (exists l, In l ls /\ lf_path l = f) ->
    rd_restore obj load false batching ls (rd_apply RdDeleted f s) = None.
Proof. exact rd_deleted_object_raises. Qed.
Print Assumptions C04_deleted_object_raises.

(* ------------------------------------------------------------------ the pre-fix BatchedBufferConsumer *)
(* With the consumer as it was before the fix (sub-consumer errors never retrieved) the property is FALSE: there is a
   well-formed plan and a truncation that damages a needed range, yet the call returns normally and the damaged leaf's
   target - which should receive [3; 4] - is left untouched (stale).  The current consumer raises on the same input.
   Replayed by the harness on the real pipeline with the pre-fix method patched in. *)
Theorem C04_legacy_batched_swallows_refuted :
  forall (obj : Type) (load : bytes -> option obj) (save : obj -> bytes),
  exists (ls : list rd_leaf) (s : rd_store) (f t : Z) (i : nat) (l : rd_leaf),
    rd_plan_wf obj save s ls /\ 0 <= t /\ nth_error ls i = Some l /\ rd_leaf_damaged s f (RdTruncated t) l
    /\ rd_expected obj load s l = Some (RdBytes [3; 4])
    /\ (exists out, rd_restore obj load true true ls (rd_apply (RdTruncated t) f s) = Some out
                    /\ rd_final_of obj out (Z.of_nat i) = RdUntouched)
    /\ rd_restore obj load false true ls (rd_apply (RdTruncated t) f s) = None.
Proof. exact rd_legacy_batched_swallows_refuted. Qed.
Print Assumptions C04_legacy_batched_swallows_refuted.

(* ------------------------------------------------------------------ entries: plain, chunked, tiled, sharded, object *)
(* rd_tentry_wf obj save s (lim, t): the tensor read t is consistent with the undamaged store
     buffer protocol: 0 < esize, extents >= 0;  byte_range [lo,hi): 0 <= lo, hi - lo = esize*numel, the object exists
                      and hi <= its size;  no byte_range: the object exists and its size = esize*numel;
                      tiled (lim = Some b): 1 <= b, and a target that cannot be flattened has >= 1 dimension
     torch_save / object: no byte_range, the object is  save o
   rd_tentry_damaged s f d t: the damage removes something the (untiled) read of t needs (rd_leaf_damaged of that read).
   For every list of entries (plain tensors, chunked tensors, sharded tensors, objects, primitives) and every buffer
   limit: the planner succeeds, every leaf it emits (tiles included) is consistent with the store, and some leaf is
   damaged exactly when the damage removes something one of the entries' tensor reads needs. *)
Theorem C04_read_plan_wellformed :
  forall (obj : Type) (save : obj -> bytes) (s : rd_store) (limit : option Z) (es : list rd_entry),
    Forall (rd_tentry_wf obj save s) (rd_parts limit es) ->
    exists ls, rd_read_plan limit es = Some ls /\ Forall (rd_leaf_wf obj save s) ls
               /\ forall f d, (forall tt, d = RdTruncated tt -> 0 <= tt) ->
                    ((exists l, In l ls /\ rd_leaf_damaged s f d l)
                     <-> (exists lt, In lt (rd_parts limit es) /\ rd_tentry_damaged s f d (snd lt))).
Proof. exact rd_read_plan_wf. Qed.
Print Assumptions C04_read_plan_wellformed.

(* The property on entries: restore (limit = None, es = all entries of the rank's manifest) and read_object (es = [e],
   limit = memory_budget_bytes), batching on or off.  The remaining hypothesis on the plan - no two read requests name the
   same location with the same non-empty range - is C05's disjointness of committed entries; the harness checks it on
   every real plan. *)
Theorem C04_entries_damaged_raise :
  forall (obj : Type) (load : bytes -> option obj) (save : obj -> bytes),
    (forall o, load (save o) = Some o) ->
    (forall o t, 0 <= t < blen (save o) -> load (firstn (Z.to_nat t) (save o)) = None) ->
  forall (batching : bool) (s : rd_store) (limit : option Z) (es : list rd_entry) (ls : list rd_leaf) (f : Z) (d : rd_damage),
    Forall (rd_tentry_wf obj save s) (rd_parts limit es) -> rd_read_plan limit es = Some ls -> rd_distinct_ranges ls ->
    (forall t, d = RdTruncated t -> 0 <= t) ->
    (exists lt, In lt (rd_parts limit es) /\ rd_tentry_damaged s f d (snd lt)) ->
    rd_restore obj load false batching ls (rd_apply d f s) = None.
Proof. exact rd_entries_damaged_raises. Qed.
Print Assumptions C04_entries_damaged_raise.

Theorem C04_entries_undamaged_succeed :
  forall (obj : Type) (load : bytes -> option obj) (save : obj -> bytes),
    (forall o, load (save o) = Some o) ->
    (forall o t, 0 <= t < blen (save o) -> load (firstn (Z.to_nat t) (save o)) = None) ->
  forall (batching : bool) (s : rd_store) (limit : option Z) (es : list rd_entry) (ls : list rd_leaf) (f : Z) (d : rd_damage),
    Forall (rd_tentry_wf obj save s) (rd_parts limit es) -> rd_read_plan limit es = Some ls -> rd_distinct_ranges ls ->
    (forall t, d = RdTruncated t -> 0 <= t) ->
    (forall lt, In lt (rd_parts limit es) -> ~ rd_tentry_damaged s f d (snd lt)) ->
    exists out, rd_restore obj load false batching ls (rd_apply d f s) = Some out /\
      forall i l, nth_error ls i = Some l ->
        exists v, rd_expected obj load s l = Some v
                  /\ (v <> RdBytes [] -> In (Z.of_nat i, v) out)
                  /\ (forall v', In (Z.of_nat i, v') out -> v' = v).
Proof. exact rd_entries_undamaged_succeed. Qed.
Print Assumptions C04_entries_undamaged_succeed.

(* ------------------------------------------------------------------ the assumed law is satisfiable *)
(* a self-delimiting archive format (length byte + payload) satisfies both assumptions made of torch.load/torch.save *)
Theorem C04_assumed_law_is_satisfiable :
  (forall o, rd_toy_load (rd_toy_save o) = Some o) /\
  (forall o t, 0 <= t < blen (rd_toy_save o) -> rd_toy_load (firstn (Z.to_nat t) (rd_toy_save o)) = None).
Proof. split; [exact rd_toy_load_save | exact rd_toy_prefix_rejected]. Qed.
Print Assumptions C04_assumed_law_is_satisfiable.

(* ------------------------------------------------------------------ non-vacuity *)
(* store: slab 0 = three members [0,4) [4,4) [4,6) and a foreign tail; object 1 = a whole-file tensor; object 2 = an archive *)
Definition C04_ex_store : rd_store := [(0, [10; 11; 12; 13; 20; 21; 99]); (1, [1; 2; 3; 4; 5; 6]); (2, rd_toy_save [7; 7])].
Definition C04_ex_leaves : list rd_leaf :=
  [mkLeaf 0 (Some (0, 4)) (RdTensor 2 [2]); mkLeaf 0 (Some (4, 4)) (RdTensor 4 [0; 3]); mkLeaf 0 (Some (4, 6)) (RdTensor 1 [2]);
   mkLeaf 1 None (RdTensor 2 [3]); mkLeaf 2 None RdLoad].
Definition C04_ex_run (batching : bool) (f : Z) (d : rd_damage) :=
  rd_restore bytes rd_toy_load false batching C04_ex_leaves (rd_apply d f C04_ex_store).

(* the hypotheses of the theorems hold for this plan *)
Example C04_ex_wf : rd_plan_wf bytes rd_toy_save C04_ex_store C04_ex_leaves.
Proof.
  split.
  - repeat (apply Forall_cons || apply Forall_nil); unfold rd_leaf_wf;
      cbn [lf_kind lf_range lf_path C04_ex_store prodZ fold_right].
    + split; [lia | split; [lia | split; [lia | split; [lia|]]]]. eexists. split; [reflexivity | unfold blen; cbn [length]; lia].
    + split; [lia | split; [lia | split; [lia | split; [lia|]]]]. eexists. split; [reflexivity | unfold blen; cbn [length]; lia].
    + split; [lia | split; [lia | split; [lia | split; [lia|]]]]. eexists. split; [reflexivity | unfold blen; cbn [length]; lia].
    + split; [lia | split; [lia|]]. eexists. split; [reflexivity | unfold blen; cbn [length]; lia].
    + exists [7; 7]. reflexivity.
  - intros i j li lj lo hi Hi Hj _ Hri Hrj Hlt.
    destruct i as [|[|[|[|[|i]]]]]; cbn in Hi; try (destruct i; discriminate); inversion Hi; subst li; cbn in Hri;
      try discriminate; inversion Hri; subst lo hi; try lia;
      destruct j as [|[|[|[|[|j]]]]]; cbn in Hj; try (destruct j; discriminate); inversion Hj; subst lj; cbn in Hrj;
      try discriminate; inversion Hrj; try lia; reflexivity.
Qed.

(* no damage / harmless damage: everything is delivered, with batching on and off (object -1 does not exist) *)
Example C04_ex_undamaged :
  C04_ex_run false (-1) RdDeleted
  = Some [(0, RdBytes [10; 11; 12; 13]); (1, RdBytes []); (2, RdBytes [20; 21]); (3, RdBytes [1; 2; 3; 4; 5; 6]); (4, RdObj [7; 7])]
  /\ C04_ex_run true (-1) RdDeleted
     = Some [(3, RdBytes [1; 2; 3; 4; 5; 6]); (4, RdObj [7; 7]); (0, RdBytes [10; 11; 12; 13]); (1, RdBytes []); (2, RdBytes [20; 21])]
  /\ C04_ex_run true 0 (RdTruncated 6) = C04_ex_run true (-1) RdDeleted         (* only the foreign tail is cut *)
  /\ C04_ex_run false 0 (RdTruncated 6) = C04_ex_run false (-1) RdDeleted.
Proof. vm_compute. repeat split; reflexivity. Qed.

(* every other truncation of the slab, every truncation of the whole-file tensor and of the archive, and every deletion
   raise - batching on and off *)
Example C04_ex_damaged :
  forallb (fun b => forallb (fun t => match C04_ex_run b 0 (RdTruncated t) with None => true | Some _ => false end) [0; 1; 2; 3; 4; 5])
          [true; false] = true
  /\ forallb (fun b => forallb (fun t => match C04_ex_run b 1 (RdTruncated t) with None => true | Some _ => false end) [0; 1; 2; 3; 4; 5])
             [true; false] = true
  /\ forallb (fun b => forallb (fun t => match C04_ex_run b 2 (RdTruncated t) with None => true | Some _ => false end) [0; 1; 2])
             [true; false] = true
  /\ forallb (fun b => forallb (fun f => match C04_ex_run b f RdDeleted with None => true | Some _ => false end) [0; 1; 2])
             [true; false] = true.
Proof. vm_compute. repeat split; reflexivity. Qed.

(* read_object of ONE slab member [0,4) of a 7-byte slab: truncation at 4, 5, 6 changes nothing, truncation below 4 and
   deletion raise; a whole-file tensor (object 1, 6 bytes) is damaged by EVERY truncation *)
Example C04_ex_member_only :
  let ls := [mkLeaf 0 (Some (0, 4)) (RdTensor 2 [2])] in
  forallb (fun b => forallb (fun t => match rd_restore bytes rd_toy_load false b ls (rd_apply (RdTruncated t) 0 C04_ex_store) with
                                      | Some [(0, RdBytes [10; 11; 12; 13])] => true | _ => false end) [4; 5; 6]) [true; false] = true
  /\ forallb (fun b => forallb (fun d => match rd_restore bytes rd_toy_load false b ls (rd_apply d 0 C04_ex_store) with
                                         | None => true | Some _ => false end)
                                [RdTruncated 0; RdTruncated 1; RdTruncated 3; RdDeleted]) [true; false] = true
  /\ forallb (fun b => forallb (fun t => match rd_restore bytes rd_toy_load false b [mkLeaf 1 None (RdTensor 2 [3])]
                                                (rd_apply (RdTruncated t) 1 C04_ex_store) with
                                         | None => true | Some _ => false end) [0; 1; 2; 3; 4; 5]) [true; false] = true.
Proof. vm_compute. repeat split; reflexivity. Qed.

(* a slab holding only a zero-length tensor: any truncation is harmless, deletion raises *)
Example C04_ex_empty_only :
  let ls := [mkLeaf 0 (Some (3, 3)) (RdTensor 4 [0; 3])] in
  let s : rd_store := [(0, [9; 9; 9; 9])] in
  rd_restore bytes rd_toy_load false true ls (rd_apply (RdTruncated 0) 0 s) = Some [(0, RdBytes [])]
  /\ rd_restore bytes rd_toy_load false false ls (rd_apply (RdTruncated 0) 0 s) = Some [(0, RdBytes [])]
  /\ rd_restore bytes rd_toy_load false true ls (rd_apply RdDeleted 0 s) = None
  /\ rd_restore bytes rd_toy_load false false ls (rd_apply RdDeleted 0 s) = None.
Proof. vm_compute. repeat split; reflexivity. Qed.

(* entries -> leaves: a slab member read with an 8-byte buffer limit (tiles), a chunked tensor, a sharded tensor, an
   object and a primitive; then the same call on a store where the slab is cut inside the last tile *)
Example C04_ex_read_plan :
  rd_read_plan (Some 8)
    [RdETensor (mkTentry 0 (Some (4, 28)) true 4 [2; 3] true);
     RdEChunked [mkTentry 1 None true 4 [2; 3] true; mkTentry 0 (Some (28, 40)) true 4 [1; 3] true];
     RdESharded [mkTentry 2 None true 2 [4] true]; RdEObject 3; RdEPrimitive]
  = Some [mkLeaf 0 (Some (4, 12)) (RdTensor 4 [2]); mkLeaf 0 (Some (12, 20)) (RdTensor 4 [2]); mkLeaf 0 (Some (20, 28)) (RdTensor 4 [2]);
          mkLeaf 1 (Some (0, 8)) (RdTensor 4 [2]); mkLeaf 1 (Some (8, 16)) (RdTensor 4 [2]); mkLeaf 1 (Some (16, 24)) (RdTensor 4 [2]);
          mkLeaf 0 (Some (28, 36)) (RdTensor 4 [2]); mkLeaf 0 (Some (36, 40)) (RdTensor 4 [1]);
          mkLeaf 2 None (RdTensor 2 [4]); mkLeaf 3 None RdLoad].
Proof. vm_compute. reflexivity. Qed.

(* ================================================================== the same statements about the code as it is NOW *)
(* gen/ReadPathGen.v is regenerated on every run from the source tree by translator/gen_readpath.py (Python ast -> Gallina,
   fail closed): tensor_from_memoryview, torch_load_from_bytes, TensorBufferConsumer.deserialize_tensor / consume_buffer,
   ShardedTensorBufferConsumer / ObjectBufferConsumer.consume_buffer, BatchedBufferConsumer.consume_buffer (slices, gather,
   result retrieval), batch_read_requests (statement by statement), the prepare_read functions of the four io preparers
   (which location / byte range / entry each consumer gets), _ReadPipeline.read_buffer / consume_buffer and the result
   retrieval of execute_read_reqs; FSStoragePlugin.read is gen/StreamGen.v [g_fs_read] (C20's translator).
   model/ReadPathGenObs.v wires these into one run [g_restore] and one planner [g_read_plan]; proofs/ReadPathInst.v shows
   that each generated definition equals the hand-written one the theorems above speak about.  A read request is
   [greq] = (path, byte range, consumer object); [g_leaf_of] is the leaf it stands for.  If the source changes
   behaviour, the generated terms change and the lemmas used below stop checking. *)

(* tensor_from_memoryview as translated: accepts a buffer exactly when its length is esize * numel *)
Theorem C04_generated_tensor_consumer_accepts_exact_length_only : forall esize shape (buf v : bytes),
  0 < esize -> 0 <= prodZ shape ->
  ((exists t, g_tensor_from_memoryview esize shape buf = Some t /\ tn_bytes t = v)
   <-> blen buf = esize * prodZ shape /\ v = buf).
Proof. exact g_tfm_some. Qed.
Print Assumptions C04_generated_tensor_consumer_accepts_exact_length_only.

(* BatchedBufferConsumer.consume_buffer as translated raises exactly when some sub-consumer raises on the Python slice
   buf[lo:hi] of its own key: the results of the sub-consumer tasks are retrieved *)
Theorem C04_generated_batched_consumer_surfaces_errors :
  forall (V : Type) (consume : Z * bytes -> option V) (subs : list ((Z * Z) * Z)) (buf : bytes),
    g_batched_results_retrieved = true /\
    (g_batched_consume consume subs buf = None
     <-> exists sb, In sb subs /\ consume (snd sb, pyslice buf (fst (fst sb)) (snd (fst sb))) = None).
Proof. intros V consume subs buf. split; [exact g_batched_results_retrieved_true | apply g_batched_consume_none]. Qed.
Print Assumptions C04_generated_batched_consumer_surfaces_errors.

(* execute_read_reqs as translated (results of the read tasks and of the consuming tasks retrieved): the call raises
   exactly when the storage read or the consumer of SOME request raises *)
Theorem C04_generated_pipeline_failure_raises :
  forall (R V : Type) (rd : R -> option bytes) (cb : R -> bytes -> option V) (reqs : list R),
    (g_exec_io_result_retrieved = true /\ g_exec_consume_result_retrieved = true) /\
    (g_execute_read_reqs rd cb reqs = None
     <-> exists r, In r reqs /\ (rd r = None \/ exists buf, rd r = Some buf /\ cb r buf = None)).
Proof. intros R V rd cb reqs. split; [exact g_exec_results_retrieved_true | apply g_execute_read_reqs_none]. Qed.
Print Assumptions C04_generated_pipeline_failure_raises.

(* batch_read_requests as translated is the batching model of C16, and the run / the planner assembled from the generated
   pieces are the run / the planner of the theorems above *)
Theorem C04_generated_read_path_is_the_model :
  (forall reqs, g_batch_read_requests reqs = batch_read reqs)
  /\ (forall (obj : Type) (load : bytes -> option obj) batching gs s,
        rd_ranges_wf (map g_leaf_of gs) ->
        g_restore obj load batching gs s = rd_restore obj load false batching (map g_leaf_of gs) s)
  /\ (forall limit es, option_map (map g_leaf_of) (g_read_plan limit es) = rd_read_plan limit es).
Proof. split; [exact g_batch_read_requests_eq | split; [exact g_restore_eq | exact g_read_plan_eq]]. Qed.
Print Assumptions C04_generated_read_path_is_the_model.

(* the short-read behaviour of the model's storage read is that of the translated FSStoragePlugin.read *)
Theorem C04_generated_storage_read : forall (s : rd_store) (p : Z) (rg : option (Z * Z)),
  (forall a b, rg = Some (a, b) -> 0 <= a <= b) ->
  rd_fs_read s p rg = match lookup s p with None => None | Some ob => Some (g_fs_read ob rg) end.
Proof. intros s p rg H. symmetry. exact (g_storage_read_eq s p rg H). Qed.
Print Assumptions C04_generated_storage_read.

(* the two halves of the property on the generated run *)
Theorem C04_generated_damaged_needed_range_raises :
  forall (obj : Type) (load : bytes -> option obj) (save : obj -> bytes),
    (forall o, load (save o) = Some o) ->
    (forall o t, 0 <= t < blen (save o) -> load (firstn (Z.to_nat t) (save o)) = None) ->
  forall (batching : bool) (s : rd_store) (gs : list greq) (f : Z) (d : rd_damage),
    rd_plan_wf obj save s (map g_leaf_of gs) -> (forall t, d = RdTruncated t -> 0 <= t) ->
    (exists g, In g gs /\ rd_leaf_damaged s f d (g_leaf_of g)) ->
    g_restore obj load batching gs (rd_apply d f s) = None.
Proof. exact g_damaged_raises. Qed.
Print Assumptions C04_generated_damaged_needed_range_raises.

Theorem C04_generated_undamaged_succeeds :
  forall (obj : Type) (load : bytes -> option obj) (save : obj -> bytes),
    (forall o, load (save o) = Some o) ->
    (forall o t, 0 <= t < blen (save o) -> load (firstn (Z.to_nat t) (save o)) = None) ->
  forall (batching : bool) (s : rd_store) (gs : list greq) (f : Z) (d : rd_damage),
    rd_plan_wf obj save s (map g_leaf_of gs) -> (forall t, d = RdTruncated t -> 0 <= t) ->
    (forall g, In g gs -> ~ rd_leaf_damaged s f d (g_leaf_of g)) ->
    exists out, g_restore obj load batching gs (rd_apply d f s) = Some out /\
      forall i g, nth_error gs i = Some g ->
        exists v, rd_expected obj load s (g_leaf_of g) = Some v
                  /\ (v <> RdBytes [] -> In (Z.of_nat i, v) out)
                  /\ (forall v', In (Z.of_nat i, v') out -> v' = v).
Proof. exact g_undamaged_succeeds. Qed.
Print Assumptions C04_generated_undamaged_succeeds.

Theorem C04_generated_truncation_beyond_needs_is_harmless :
  forall (obj : Type) (load : bytes -> option obj) (batching : bool) (gs : list greq) (s : rd_store) (f t : Z),
    rd_ranges_wf (map g_leaf_of gs) ->
    (forall g, In g gs -> gq_path g = f -> exists lo hi, gq_range g = Some (lo, hi) /\ hi <= t) ->
    g_restore obj load batching gs (rd_apply (RdTruncated t) f s) = g_restore obj load batching gs s.
Proof. exact g_truncation_beyond_needs_harmless. Qed.
Print Assumptions C04_generated_truncation_beyond_needs_is_harmless.

(* the merged read request built by the translated batch_read_requests covers exactly [min lo, max hi) *)
Theorem C04_generated_batched_read_extent : forall (gs : list greq) p lo hi subs,
  In (RdBatched p lo hi subs) (g_plan true gs) ->
  (exists g h, In g gs /\ gq_path g = p /\ gq_range g = Some (lo, h))
  /\ (exists g a, In g gs /\ gq_path g = p /\ gq_range g = Some (a, hi))
  /\ (forall g a b, In g gs -> gq_path g = p -> gq_range g = Some (a, b) -> lo <= a /\ b <= hi).
Proof. exact g_batched_extent. Qed.
Print Assumptions C04_generated_batched_read_extent.

(* entries -> translated prepare_read functions -> translated run: restore (limit None, all entries) and read_object *)
Theorem C04_generated_read_plan_wellformed :
  forall (obj : Type) (save : obj -> bytes) (s : rd_store) (limit : option Z) (es : list rd_entry),
    Forall (rd_tentry_wf obj save s) (rd_parts limit es) ->
    exists gs, g_read_plan limit es = Some gs /\ Forall (rd_leaf_wf obj save s) (map g_leaf_of gs)
               /\ forall f d, (forall tt, d = RdTruncated tt -> 0 <= tt) ->
                    ((exists g, In g gs /\ rd_leaf_damaged s f d (g_leaf_of g))
                     <-> (exists lt, In lt (rd_parts limit es) /\ rd_tentry_damaged s f d (snd lt))).
Proof. exact g_read_plan_wf. Qed.
Print Assumptions C04_generated_read_plan_wellformed.

Theorem C04_generated_entries_damaged_raise :
  forall (obj : Type) (load : bytes -> option obj) (save : obj -> bytes),
    (forall o, load (save o) = Some o) ->
    (forall o t, 0 <= t < blen (save o) -> load (firstn (Z.to_nat t) (save o)) = None) ->
  forall (batching : bool) (s : rd_store) (limit : option Z) (es : list rd_entry) (gs : list greq) (f : Z) (d : rd_damage),
    Forall (rd_tentry_wf obj save s) (rd_parts limit es) -> g_read_plan limit es = Some gs ->
    rd_distinct_ranges (map g_leaf_of gs) -> (forall t, d = RdTruncated t -> 0 <= t) ->
    (exists lt, In lt (rd_parts limit es) /\ rd_tentry_damaged s f d (snd lt)) ->
    g_restore obj load batching gs (rd_apply d f s) = None.
Proof. exact g_entries_damaged_raises. Qed.
Print Assumptions C04_generated_entries_damaged_raise.

Theorem C04_generated_entries_undamaged_succeed :
  forall (obj : Type) (load : bytes -> option obj) (save : obj -> bytes),
    (forall o, load (save o) = Some o) ->
    (forall o t, 0 <= t < blen (save o) -> load (firstn (Z.to_nat t) (save o)) = None) ->
  forall (batching : bool) (s : rd_store) (limit : option Z) (es : list rd_entry) (gs : list greq) (f : Z) (d : rd_damage),
    Forall (rd_tentry_wf obj save s) (rd_parts limit es) -> g_read_plan limit es = Some gs ->
    rd_distinct_ranges (map g_leaf_of gs) -> (forall t, d = RdTruncated t -> 0 <= t) ->
    (forall lt, In lt (rd_parts limit es) -> ~ rd_tentry_damaged s f d (snd lt)) ->
    exists out, g_restore obj load batching gs (rd_apply d f s) = Some out /\
      forall i g, nth_error gs i = Some g ->
        exists v, rd_expected obj load s (g_leaf_of g) = Some v
                  /\ (v <> RdBytes [] -> In (Z.of_nat i, v) out)
                  /\ (forall v', In (Z.of_nat i, v') out -> v' = v).
Proof. exact g_entries_undamaged_succeed. Qed.
Print Assumptions C04_generated_entries_undamaged_succeed.

(* non-vacuity on the generated terms: a slab member read with an 8-byte limit (tiles), a chunked tensor with one chunk in
   its own file and one in the slab, a sharded tensor, an object; store: slab 0 (44 bytes), chunk file 1 (24 bytes), shard
   file 2 (8 bytes), archive 3.  The generated planner emits 10 requests; batched, the 5 slab ranges are merged into one
   read of [4, 40) with sub-ranges relative to 4.  Undamaged: both runs return.  Truncating the slab at 39 (inside the last
   tile of the chunk), truncating the whole-file chunk, the shard file or the archive by one byte, and deleting any file
   raise; truncating the slab at 40 (only the foreign tail is cut) changes nothing. *)
Definition C04_gen_entries : list rd_entry :=
  [RdETensor (mkTentry 0 (Some (4, 28)) true 4 [2; 3] true);
   RdEChunked [mkTentry 1 None true 4 [2; 3] true; mkTentry 0 (Some (28, 40)) true 4 [1; 3] true];
   RdESharded [mkTentry 2 None true 2 [4] true]; RdEObject 3; RdEPrimitive].
Definition C04_gen_store : rd_store :=
  [(0, map Z.of_nat (seq 0 44)); (1, map Z.of_nat (seq 100 24)); (2, [1; 2; 3; 4; 5; 6; 7; 8]); (3, rd_toy_save [7; 7])].
Definition C04_gen_run (batching : bool) (f : Z) (d : rd_damage) : option Z :=
  match g_read_plan (Some 8) C04_gen_entries with
  | None => None
  | Some gs => Some (rd_verdict (g_restore bytes rd_toy_load batching gs (rd_apply d f C04_gen_store)))
  end.
Example C04_example_generated :
  option_map (map g_leaf_of) (g_read_plan (Some 8) C04_gen_entries)
  = Some [mkLeaf 0 (Some (4, 12)) (RdTensor 4 [2]); mkLeaf 0 (Some (12, 20)) (RdTensor 4 [2]); mkLeaf 0 (Some (20, 28)) (RdTensor 4 [2]);
          mkLeaf 1 (Some (0, 8)) (RdTensor 4 [2]); mkLeaf 1 (Some (8, 16)) (RdTensor 4 [2]); mkLeaf 1 (Some (16, 24)) (RdTensor 4 [2]);
          mkLeaf 0 (Some (28, 36)) (RdTensor 4 [2]); mkLeaf 0 (Some (36, 40)) (RdTensor 4 [1]);
          mkLeaf 2 None (RdTensor 2 [4]); mkLeaf 3 None RdLoad]
  /\ option_map (g_plan true) (g_read_plan (Some 8) C04_gen_entries)
     = Some [RdSingle 2 None 8; RdSingle 3 None 9;
             RdBatched 0 4 40 [((0, 8), 0); ((8, 16), 1); ((16, 24), 2); ((24, 32), 6); ((32, 36), 7)];
             RdBatched 1 0 24 [((0, 8), 3); ((8, 16), 4); ((16, 24), 5)]]
  /\ forallb (fun b => match C04_gen_run b (-1) RdDeleted with Some 1 => true | _ => false end) [true; false] = true
  /\ forallb (fun b => match C04_gen_run b 0 (RdTruncated 40) with Some 1 => true | _ => false end) [true; false] = true
  /\ forallb (fun b => forallb (fun fd : Z * rd_damage => match C04_gen_run b (fst fd) (snd fd) with Some 0 => true | _ => false end)
                               [(0, RdTruncated 39); (0, RdTruncated 4); (0, RdTruncated 0); (1, RdTruncated 23); (2, RdTruncated 7);
                                (3, RdTruncated 2); (0, RdDeleted); (1, RdDeleted); (2, RdDeleted); (3, RdDeleted)])
             [true; false] = true.
Proof. vm_compute. repeat split; reflexivity. Qed.
